(** C07 -- the schema layer: every type / base reference written by complex_add and
    add_missing_elements_for_methods resolves to a complexType of the document or to
    an XSD builtin, and every wsdl:part refers to an xs:element of the document.

    The hypothesis [wf_snap] collects what Interface.populate_interface leaves
    behind (classes registered in deps together with their bases, messages /
    headers / faults registered under the names the emitters use).  It is decidable
    ([wf_snapb], evaluated by the harness on every generated snapshot) and fails
    exactly in the regions of the known findings. *)
From Coq Require Import ZArith List Bool Lia Permutation.
From SpyneV Require Import Base.Prelude C07.Model C07.SortProofs C07.PrefixProofs C07.TopoProofs C07.WsdlProofs.
Import ListNotations.
Open Scope Z_scope.

(* ---------------------------------------------------------------- specification *)
Definition builtin (q : qn) : Prop := fst q = xsd_ns /\ In (snd q) xsd_builtins.

Definition type_defined (scs : list schema) (q : qn) : Prop :=
  exists s, In s scs /\ sc_ns s = fst q /\ In (snd q) (map t_name (sc_types s)).
Definition elem_defined (scs : list schema) (q : qn) : Prop :=
  exists s, In s scs /\ sc_ns s = fst q /\ In (snd q) (map fst (sc_elems s)).
Definition type_ok (scs : list schema) (q : qn) : Prop := builtin q \/ type_defined scs q.

(** every base=, every member type= and every element type= of every schema resolves *)
Definition schema_closed (d : adoc) : Prop :=
  forall s, In s (d_schemas d) ->
    (forall t, In t (sc_types s) ->
       (forall q, t_base t = Some q -> type_ok (d_schemas d) q) /\
       (forall m, In m (t_members t) -> type_ok (d_schemas d) (snd m)))
    /\ (forall e, In e (sc_elems s) -> type_ok (d_schemas d) (snd e)).

(** every wsdl:part element= resolves *)
Definition parts_closed (d : adoc) : Prop :=
  forall g p, In g (d_msgs d) -> In p (mg_parts g) -> elem_defined (d_schemas d) (snd p).

Definition type_reg (a : snap) (q : qn) : Prop :=
  builtin q \/ exists id c, find_cls (a_classes a) id = Some c /\ c_kind c = KComplex /\
                            In id (reg_keys a) /\ (c_ns c, c_tn c) = q.
Definition elem_reg (a : snap) (q : qn) : Prop :=
  exists id c, find_cls (a_classes a) id = Some c /\ c_kind c = KComplex /\
               In id (reg_keys a) /\ (c_ens c, c_ename c) = q.

Definition wf_snap (a : snap) : Prop :=
  NoDup (reg_keys a)
  (* a class whose handler writes nothing is published under an XSD builtin name *)
  /\ (forall c, In c (a_classes a) -> c_kind c = KPlain -> builtin (c_ns c, c_tn c))
  (* add_class: the parent class, or the variant of it that got there first
     (has_class), is registered *)
  /\ (forall c b bc, In c (a_classes a) -> c_base c = Some b -> find_cls (a_classes a) b = Some bc ->
        type_reg a (c_ns bc, c_tn bc))
  (* add_method: request / response classes are registered (has_class) and their
     element lives in the target namespace or is the element of a registered class *)
  /\ (forall x, In x (meth_io a) ->
        type_reg a (m_tns x, m_tn x) /\ (m_ens x = a_tns a \/ elem_reg a (m_ens x, m_ename x)))
  (* ... and so are header and fault classes, under their own element name *)
  /\ (forall x, In x (meth_hf a) -> elem_reg a (m_ens x, m_ename x)).

(* ---------------------------------------------------------------- reflection of the hypothesis *)
Lemma nodupz_ok l : nodupz l = true -> NoDup l.
Proof.
  induction l as [|x l IH]; simpl; intros H; [constructor|].
  apply andb_true_iff in H as [H1 H2]. constructor; auto.
  apply negb_true_iff in H1. intro X. apply memz_In in X. congruence.
Qed.

Lemma builtinb_ok q : builtinb q = true -> builtin q.
Proof.
  unfold builtinb, builtin. intros H. apply andb_true_iff in H as [H1 H2].
  apply text_eqb_eq in H1. apply memt_In in H2. auto.
Qed.

Lemma is_complex_ok c : is_complex c = true -> c_kind c = KComplex.
Proof. unfold is_complex. destruct (c_kind c); auto; discriminate. Qed.

Lemma type_regb_ok a q : type_regb a q = true -> type_reg a q.
Proof.
  unfold type_regb, type_reg. intros H. apply orb_true_iff in H as [H|H].
  - left. apply builtinb_ok. auto.
  - right. apply existsb_exists in H as (id & Hid & H).
    destruct (find_cls (a_classes a) id) as [c|] eqn:F; try discriminate.
    apply andb_true_iff in H as [H H3]. apply andb_true_iff in H as [H1 H2].
    apply text_eqb_eq in H2, H3. exists id, c. repeat split; auto.
    + apply is_complex_ok; auto.
    + destruct q; simpl in *; congruence.
Qed.

Lemma elem_regb_ok a q : elem_regb a q = true -> elem_reg a q.
Proof.
  unfold elem_regb, elem_reg. intros H.
  apply existsb_exists in H as (id & Hid & H).
  destruct (find_cls (a_classes a) id) as [c|] eqn:F; try discriminate.
  apply andb_true_iff in H as [H H3]. apply andb_true_iff in H as [H1 H2].
  apply text_eqb_eq in H2, H3. exists id, c. repeat split; auto.
  - apply is_complex_ok; auto.
  - destruct q; simpl in *; congruence.
Qed.

Theorem wf_snapb_ok a : wf_snapb a = true -> wf_snap a.
Proof.
  unfold wf_snapb, wf_snap. intros H.
  apply andb_true_iff in H as [H H5]. apply andb_true_iff in H as [H H4].
  apply andb_true_iff in H as [H H3]. apply andb_true_iff in H as [H1 H2].
  rewrite forallb_forall in H2, H3, H4, H5. repeat split.
  - apply nodupz_ok; auto.
  - apply builtinb_ok. specialize (H2 c H). unfold is_complex in H2. rewrite H0 in H2. auto.
  - apply builtinb_ok. specialize (H2 c H). unfold is_complex in H2. rewrite H0 in H2. auto.
  - intros c b bc Hc Hb Fb. specialize (H3 c Hc). rewrite Hb, Fb in H3. apply type_regb_ok. auto.
  - apply type_regb_ok. specialize (H4 x H). apply andb_true_iff in H4 as [A _]. auto.
  - specialize (H4 x H). apply andb_true_iff in H4 as [_ B]. apply orb_true_iff in B as [B|B].
    + left. apply text_eqb_eq. auto.
    + right. apply elem_regb_ok. auto.
  - intros x Hx. apply elem_regb_ok. auto.
Qed.

(* ---------------------------------------------------------------- association lists *)
Lemma lookup_oset_same {B} k (v : B) m : lookup k (oset k v m) = Some v.
Proof.
  induction m as [|[k' v'] m IH]; simpl.
  - rewrite text_eqb_refl. auto.
  - destruct (text_eqb k k') eqn:E; simpl.
    + rewrite text_eqb_refl. auto.
    + rewrite E. auto.
Qed.

Lemma lookup_oset_other {B} k k2 (v : B) m : k2 <> k -> lookup k2 (oset k v m) = lookup k2 m.
Proof.
  intros N. induction m as [|[k' v'] m IH]; simpl.
  - apply text_eqb_neq in N. rewrite N. auto.
  - destruct (text_eqb k k') eqn:E; simpl.
    + apply text_eqb_eq in E. subst k'. apply text_eqb_neq in N. rewrite N. auto.
    + destruct (text_eqb k2 k'); auto.
Qed.

Lemma In_oset {B} k (v : B) m p : In p (oset k v m) -> p = (k, v) \/ In p m.
Proof.
  induction m as [|[k' v'] m IH]; simpl.
  - intros [<-|[]]. auto.
  - destruct (text_eqb k k'); simpl.
    + intros [<-|H]; auto.
    + intros [<-|H]; auto. destruct (IH H); auto.
Qed.

Lemma keys_oset {B} k (v : B) m x : In x (map fst m) -> In x (map fst (oset k v m)).
Proof.
  induction m as [|[k' v'] m IH]; simpl; [tauto|].
  destruct (text_eqb k k') eqn:E; simpl.
  - apply text_eqb_eq in E. subst. tauto.
  - intros [<-|H]; auto.
Qed.

Lemma key_oset {B} k (v : B) m : In k (map fst (oset k v m)).
Proof.
  induction m as [|[k' v'] m IH]; simpl; auto.
  destruct (text_eqb k k') eqn:E; simpl; auto.
Qed.

Lemma lookup_In_pair {B} k (m : list (text * B)) v : lookup k m = Some v -> In (k, v) m.
Proof.
  induction m as [|[k' v'] m IH]; simpl; [discriminate|].
  destruct (text_eqb k k') eqn:E.
  - apply text_eqb_eq in E. subst. intros H. inversion H. auto.
  - auto.
Qed.

Lemma In_keys_lookup {B} k (m : list (text * B)) : In k (map fst m) -> exists v, lookup k m = Some v.
Proof.
  induction m as [|[k' v'] m IH]; simpl; [tauto|].
  destruct (text_eqb k k') eqn:E; eauto.
  intros [->|H]; auto. rewrite text_eqb_refl in E. discriminate.
Qed.

Lemma find_cls_In tbl id c : find_cls tbl id = Some c -> In c tbl /\ c_id c = id.
Proof.
  induction tbl as [|c0 tbl IH]; simpl; [discriminate|].
  destruct (c_id c0 =? id) eqn:E.
  - intros H. inversion H; subst. split; auto. apply Z.eqb_eq. auto.
  - intros H. destruct (IH H). auto.
Qed.

(* ---------------------------------------------------------------- the namespace table *)
Definition ntab := list (text * sinfo).
Definition types_at (n : ntab) (ns : text) : list text := map fst (si_types (get_info ns n)).
Definition elems_at (n : ntab) (ns : text) : list text := map fst (si_elems (get_info ns n)).
Definition stored_t (n : ntab) : list (text * tdef) := flat_map (fun p => si_types (snd p)) n.
Definition stored_e (n : ntab) : list (text * qn) := flat_map (fun p => si_elems (snd p)) n.

(** replace the entry of [ns] by [g] of what is there (SchemaInfo is created on demand) *)
Definition upd (ns : text) (g : sinfo -> sinfo) (n : ntab) : ntab := oset ns (g (get_info ns n)) n.

Lemma get_info_upd_same ns g n : get_info ns (upd ns g n) = g (get_info ns n).
Proof. unfold upd, get_info at 1. rewrite lookup_oset_same. auto. Qed.

Lemma get_info_upd_other ns ns2 g n : ns2 <> ns -> get_info ns2 (upd ns g n) = get_info ns2 n.
Proof. intros N. unfold upd, get_info. rewrite lookup_oset_other; auto. Qed.

Lemma In_upd ns g n p : In p (upd ns g n) -> p = (ns, g (get_info ns n)) \/ In p n.
Proof. apply In_oset. Qed.

Lemma get_info_stored_t ns n kt : In kt (si_types (get_info ns n)) -> In kt (stored_t n).
Proof.
  unfold get_info. destruct (lookup ns n) as [i|] eqn:L; simpl; [|tauto].
  intros H. unfold stored_t. apply in_flat_map. exists (ns, i). split; auto. apply lookup_In_pair. auto.
Qed.

Lemma get_info_stored_e ns n e : In e (si_elems (get_info ns n)) -> In e (stored_e n).
Proof.
  unfold get_info. destruct (lookup ns n) as [i|] eqn:L; simpl; [|tauto].
  intros H. unfold stored_e. apply in_flat_map. exists (ns, i). split; auto. apply lookup_In_pair. auto.
Qed.

(** the two writes at the end of complex_add: add_complex_type, add_element *)
Definition write (c : cls) (td : tdef) (n : ntab) : ntab :=
  let n1 := upd (c_ns c) (fun i => {| si_types := oset (c_tn c) td (si_types i); si_elems := si_elems i |}) n in
  upd (c_ens c) (fun i => {| si_types := si_types i;
                             si_elems := oset (c_ename c) (c_ns c, c_tn c) (si_elems i) |}) n1.

Lemma types_at_upd_t ns tn td n ns2 x :
  In x (types_at n ns2) ->
  In x (types_at (upd ns (fun i => {| si_types := oset tn td (si_types i); si_elems := si_elems i |}) n) ns2).
Proof.
  unfold types_at. destruct (list_eq_dec Z.eq_dec ns2 ns) as [->|N].
  - rewrite get_info_upd_same. simpl. apply keys_oset.
  - rewrite get_info_upd_other; auto.
Qed.

Lemma types_at_upd_e ns en q n ns2 :
  types_at (upd ns (fun i => {| si_types := si_types i; si_elems := oset en q (si_elems i) |}) n) ns2
  = types_at n ns2.
Proof.
  unfold types_at. destruct (list_eq_dec Z.eq_dec ns2 ns) as [->|N].
  - rewrite get_info_upd_same. auto.
  - rewrite get_info_upd_other; auto.
Qed.

Lemma elems_at_upd_t ns tn td n ns2 :
  elems_at (upd ns (fun i => {| si_types := oset tn td (si_types i); si_elems := si_elems i |}) n) ns2
  = elems_at n ns2.
Proof.
  unfold elems_at. destruct (list_eq_dec Z.eq_dec ns2 ns) as [->|N].
  - rewrite get_info_upd_same. auto.
  - rewrite get_info_upd_other; auto.
Qed.

Lemma elems_at_upd_e ns en q n ns2 x :
  In x (elems_at n ns2) ->
  In x (elems_at (upd ns (fun i => {| si_types := si_types i; si_elems := oset en q (si_elems i) |}) n) ns2).
Proof.
  unfold elems_at. destruct (list_eq_dec Z.eq_dec ns2 ns) as [->|N].
  - rewrite get_info_upd_same. simpl. apply keys_oset.
  - rewrite get_info_upd_other; auto.
Qed.

Lemma write_types_mono c td n ns x : In x (types_at n ns) -> In x (types_at (write c td n) ns).
Proof. intros H. unfold write. rewrite types_at_upd_e. apply types_at_upd_t. auto. Qed.

Lemma write_types_new c td n : In (c_tn c) (types_at (write c td n) (c_ns c)).
Proof.
  unfold write. rewrite types_at_upd_e. unfold types_at. rewrite get_info_upd_same. simpl. apply key_oset.
Qed.

Lemma write_elems_mono c td n ns x : In x (elems_at n ns) -> In x (elems_at (write c td n) ns).
Proof. intros H. unfold write. apply elems_at_upd_e. rewrite elems_at_upd_t. auto. Qed.

Lemma write_elems_new c td n : In (c_ename c) (elems_at (write c td n) (c_ens c)).
Proof. unfold write, elems_at. rewrite get_info_upd_same. simpl. apply key_oset. Qed.

Lemma write_stored_t c td n kt : In kt (stored_t (write c td n)) -> kt = (c_tn c, td) \/ In kt (stored_t n).
Proof.
  unfold write, stored_t at 1. intros H. apply in_flat_map in H as (p & Hp & H).
  apply In_upd in Hp as [->|Hp].
  - simpl in H. set (n1 := upd (c_ns c) _ n) in *.
    apply get_info_stored_t in H. unfold stored_t in H. apply in_flat_map in H as (p & Hp & H).
    apply In_upd in Hp as [->|Hp].
    + simpl in H. apply In_oset in H as [->|H]; auto. right. eapply get_info_stored_t; eauto.
    + right. apply in_flat_map. eauto.
  - apply In_upd in Hp as [->|Hp].
    + simpl in H. apply In_oset in H as [->|H]; auto. right. eapply get_info_stored_t; eauto.
    + right. apply in_flat_map. eauto.
Qed.

Lemma write_stored_e c td n e : In e (stored_e (write c td n)) ->
  e = (c_ename c, (c_ns c, c_tn c)) \/ In e (stored_e n).
Proof.
  unfold write, stored_e at 1. intros H. apply in_flat_map in H as (p & Hp & H).
  assert (forall e0, In e0 (stored_e (upd (c_ns c) (fun i => {| si_types := oset (c_tn c) td (si_types i);
                                                              si_elems := si_elems i |}) n)) ->
                     In e0 (stored_e n)) as S1.
  { intros e0 H0. unfold stored_e in H0. apply in_flat_map in H0 as (p0 & Hp0 & H0).
    apply In_upd in Hp0 as [->|Hp0].
    - simpl in H0. eapply get_info_stored_e; eauto.
    - apply in_flat_map. eauto. }
  apply In_upd in Hp as [->|Hp].
  - simpl in H. apply In_oset in H as [->|H]; auto. right. apply S1. eapply get_info_stored_e; eauto.
  - right. apply S1. apply in_flat_map. eauto.
Qed.

Lemma write_keys c td n k : In k (map fst n) -> In k (map fst (write c td n)).
Proof. intros H. unfold write, upd. apply keys_oset. apply keys_oset. auto. Qed.

(* ---------------------------------------------------------------- the invariant of XmlSchema.add *)
Section AddInv.
  Variable tbl : list cls.
  Variable K : list Z.                      (* the classes registered in interface.deps *)

  (** a reference that was written names a builtin or a class that is, or will be,
      handed to add() *)
  Definition ref_ok (tg : list Z) (q : qn) : Prop :=
    builtin q \/ exists id c, find_cls tbl id = Some c /\ (c_ns c, c_tn c) = q /\ (In id tg \/ In id K).
  Hypothesis base_reg : forall c b bc, In c tbl -> c_base c = Some b -> find_cls tbl b = Some bc ->
    ref_ok [] (c_ns bc, c_tn bc).
  Definition td_ok (tg : list Z) (td : tdef) : Prop :=
    (forall q, t_base td = Some q -> ref_ok tg q) /\ (forall m, In m (t_members td) -> ref_ok tg (snd m)).

  Record Inv (P : Z -> Prop) (tg : list Z) (n : ntab) : Prop := {
    inv_names : forall k td, In (k, td) (stored_t n) -> t_name td = k;
    inv_td : forall k td, In (k, td) (stored_t n) -> td_ok tg td;
    inv_el : forall e, In e (stored_e n) -> ref_ok tg (snd e);
    (** every class add() is through with has its complexType and its element *)
    inv_def : forall id c, In id tg -> ~ P id -> find_cls tbl id = Some c -> c_kind c = KComplex ->
              In (c_tn c) (types_at n (c_ns c)) /\ In (c_ename c) (elems_at n (c_ens c))
  }.

  Lemma ref_ok_mono tg tg' q : incl tg tg' -> ref_ok tg q -> ref_ok tg' q.
  Proof. intros I [B|(id & c & A & B & [C|C])]; [left; auto| |]; right; exists id, c; auto. Qed.

  Lemma td_ok_mono tg tg' td : incl tg tg' -> td_ok tg td -> td_ok tg' td.
  Proof. intros I [A B]. split; intros; eapply ref_ok_mono; eauto. Qed.

  (** the specification an [add] function has to meet (add_cls at any fuel does) *)
  Definition add_spec (add : sst -> Z -> res sst) : Prop :=
    forall st v st' P, add st v = ROk st' -> Inv P (tags st) (nss st) ->
      Inv P (tags st') (nss st') /\ incl (tags st) (tags st') /\ In v (tags st') /\
      (forall k, In k (map fst (nss st)) -> In k (map fst (nss st'))).

  Lemma members_inv add : add_spec add -> forall fs st st' ms P,
    members add tbl st fs = ROk (st', ms) -> Inv P (tags st) (nss st) ->
    Inv P (tags st') (nss st') /\ incl (tags st) (tags st') /\
    (forall k, In k (map fst (nss st)) -> In k (map fst (nss st'))) /\
    (forall m, In m ms -> ref_ok (tags st') (snd m)).
  Proof.
    intros SP. induction fs as [|[n v] fs IH]; intros st st' ms P H I; simpl in H.
    - inversion H; subst. split; [auto|]. split; [apply incl_refl|]. split; [auto|]. intros m [].
    - destruct (find_cls tbl v) as [vc|] eqn:F; try discriminate.
      destruct (add st v) as [st1|] eqn:A; simpl in H; try discriminate.
      destruct (SP _ _ _ _ A I) as (I1 & T1 & V1 & K1).
      set (st2 := {| tags := tags st1; nss := nss st1; trace := trace st1 ++ [c_ns vc] |}) in *.
      destruct (members add tbl st2 fs) as [[st3 ms3]|] eqn:M; simpl in H; try discriminate.
      destruct (IH st2 st3 ms3 P M I1) as (I3 & T3 & K3 & R3).
      simpl in T3, K3. inversion H; subst; clear H. split; [auto|]. split; [eapply incl_tran; eauto|]. split; [auto|].
      intros m [<-|Hm]; auto. simpl. right. exists v, vc. split; [auto|]. split; [auto|]. left. apply T3. auto.
  Qed.

  Lemma find_cls_fun id c c' : find_cls tbl id = Some c -> find_cls tbl id = Some c' -> c = c'.
  Proof. congruence. Qed.

  Lemma complex_add_inv add : add_spec add -> forall id c st st' P,
    find_cls tbl id = Some c -> c_kind c = KComplex -> In id (tags st) ->
    complex_add add tbl c st = ROk st' ->
    Inv (fun x => P x \/ x = id) (tags st) (nss st) ->
    Inv P (tags st') (nss st') /\ incl (tags st) (tags st') /\
    (forall k, In k (map fst (nss st)) -> In k (map fst (nss st'))).
  Proof.
    intros SP id c st st' P F KC TG H I. unfold complex_add in H.
    destruct (find_cls_In _ _ _ F) as [Hc _].
    (* the base *)
    set (bres := match c_base c with
                 | None => ROk None
                 | Some b => match find_cls tbl b with
                             | None => RErr EKeyError
                             | Some bc => if text_eqb (c_tn bc) (c_tn c) && text_eqb (c_ns bc) (c_ns c)
                                          then RErr ESameName else ROk (Some (c_ns bc, c_tn bc))
                             end
                 end) in *.
    destruct bres as [bq|] eqn:BR; simpl in H; try discriminate.
    assert (forall q, bq = Some q -> forall tg, ref_ok tg q) as BOK.
    { intros q -> tg. unfold bres in BR. destruct (c_base c) as [b|] eqn:B; try discriminate.
      destruct (find_cls tbl b) as [bc|] eqn:FB; try discriminate.
      destruct (text_eqb (c_tn bc) (c_tn c) && text_eqb (c_ns bc) (c_ns c)); try discriminate.
      inversion BR; subst. eapply ref_ok_mono; [|eapply base_reg; eauto]. intros x []. }
    set (st0 := {| tags := tags st; nss := nss st;
                   trace := trace st ++ match bq with Some q => [fst q] | None => [] end |}) in *.
    destruct (members add tbl st0 (c_fields c)) as [[stm ms]|] eqn:M; simpl in H; try discriminate.
    inversion H; subst; clear H. simpl.
    destruct (members_inv add SP _ _ _ _ _ M I) as (Im & Tm & Km & Rm). simpl in Tm, Km.
    set (td := {| t_name := c_tn c; t_base := bq; t_members := ms |}).
    change (Inv P (tags stm) (write c td (nss stm)) /\ incl (tags st) (tags stm) /\
            (forall k, In k (map fst (nss st)) -> In k (map fst (write c td (nss stm))))).
    split; [|split; auto].
    - constructor.
      + intros k t H. apply write_stored_t in H as [H|H].
        * inversion H; subst. reflexivity.
        * eapply inv_names; eauto.
      + intros k t H. apply write_stored_t in H as [H|H].
        * inversion H; subst. split; simpl; auto.
        * eapply inv_td; eauto.
      + intros e H. apply write_stored_e in H as [->|H].
        * simpl. right. exists id, c. repeat split; auto.
        * eapply inv_el; eauto.
      + intros id' c' Hid NP F' KC'.
        destruct (Z.eq_dec id' id) as [->|NE].
        * rewrite F in F'. inversion F'; subst c'. split.
          -- apply write_types_new.
          -- apply write_elems_new.
        * destruct (inv_def _ _ _ Im id' c' Hid) as [A B]; auto.
          { intros [X|X]; auto. }
          split; [apply write_types_mono | apply write_elems_mono]; auto.
    - intros k Hk. apply write_keys. auto.
  Qed.

  Lemma Inv_weaken (P Q : Z -> Prop) tg n : (forall x, Q x -> P x) -> Inv Q tg n -> Inv P tg n.
  Proof.
    intros PQ I. constructor; try apply I.
    intros id c H NP. apply (inv_def _ _ _ I id c); auto.
  Qed.

  Lemma Inv_tag P tg n id : Inv P tg n -> Inv (fun x => P x \/ x = id) (id :: tg) n.
  Proof.
    intros I. constructor.
    - apply I.
    - intros k td H. eapply td_ok_mono; [|eapply inv_td; eauto]. intros x Hx. right. auto.
    - intros e H. eapply ref_ok_mono; [|eapply inv_el; eauto]. intros x Hx. right. auto.
    - intros id' c [<-|H] NP F KC.
      + exfalso. apply NP. auto.
      + apply (inv_def _ _ _ I id' c); auto.
  Qed.

  Lemma add_cls_spec fuel : add_spec (add_cls fuel tbl).
  Proof.
    induction fuel as [|f IH]; intros st v st' P H I; simpl in H; try discriminate.
    destruct (memz v (tags st)) eqn:M.
    - inversion H; subst. apply memz_In in M.
      split; [auto|]. split; [apply incl_refl|]. split; auto.
    - destruct (find_cls tbl v) as [c|] eqn:F; try discriminate.
      set (st1 := {| tags := v :: tags st; nss := nss st; trace := trace st |}) in *.
      destruct (c_kind c) eqn:KC.
      + (* KComplex *)
        destruct (complex_add_inv (add_cls f tbl) IH v c st1 st' P F KC (or_introl eq_refl) H) as (I' & T' & K').
        { simpl. apply Inv_tag. auto. }
        simpl in T', K'. split; [auto|]. split; [|split; auto].
        * intros x Hx. apply T'. right. auto.
        * apply T'. left. auto.
      + (* KPlain: the handler writes nothing *)
        inversion H; subst. simpl. split; [|split; [|split; auto]].
        * constructor; try apply I.
          -- intros k td H0. eapply td_ok_mono; [|eapply inv_td; eauto]. intros x Hx. right. auto.
          -- intros e H0. eapply ref_ok_mono; [|eapply inv_el; eauto]. intros x Hx. right. auto.
          -- intros id' c' [<-|Hid] NP F' KC'.
             ++ rewrite F in F'. inversion F'; subst. congruence.
             ++ apply (inv_def _ _ _ I id' c'); auto.
        * intros x Hx. right. auto.
  Qed.

  Lemma add_all_inv ids : forall st st' P, add_all tbl st ids = ROk st' -> Inv P (tags st) (nss st) ->
    Inv P (tags st') (nss st') /\ incl (tags st) (tags st') /\ incl ids (tags st') /\
    (forall k, In k (map fst (nss st)) -> In k (map fst (nss st'))).
  Proof.
    induction ids as [|id ids IH]; intros st st' P H I; cbn [add_all] in H.
    - inversion H; subst. split; [auto|]. split; [apply incl_refl|]. split; [intros x []|auto].
    - destruct (add_cls (S (length tbl)) tbl st id) as [st1|] eqn:A; cbn [rbind] in H; try discriminate.
      destruct (add_cls_spec _ _ _ _ _ A I) as (I1 & T1 & V1 & K1).
      destruct (IH _ _ _ H I1) as (I2 & T2 & S2 & K2).
      split; [auto|]. split; [eapply incl_tran; eauto|]. split; [|auto].
      intros x [<-|Hx]; auto.
  Qed.
End AddInv.

(* ---------------------------------------------------------------- from the table to the schema nodes *)
Lemma schemas_of_has imports n scs : schemas_of imports n = ROk scs ->
  forall ns i, In (ns, i) n ->
    exists s, In s scs /\ sc_ns s = ns /\ sc_types s = map snd (si_types i) /\ sc_elems s = si_elems i.
Proof.
  revert scs. induction n as [|[ns0 i0] n IH]; simpl; intros scs H ns i Hin; [tauto|].
  destruct (lookup ns0 imports) as [imp|]; try discriminate.
  destruct (schemas_of imports n) as [rest|]; simpl in H; try discriminate.
  inversion H; subst; clear H. destruct Hin as [E|Hin].
  - inversion E; subst. eexists. split; [left; reflexivity|]. simpl. auto.
  - destruct (IH _ eq_refl ns i Hin) as (s & A & B). exists s. split; auto. right. auto.
Qed.

Lemma schemas_of_src imports n scs : schemas_of imports n = ROk scs ->
  forall s, In s scs -> exists i, In (sc_ns s, i) n /\ sc_types s = map snd (si_types i) /\ sc_elems s = si_elems i.
Proof.
  revert scs. induction n as [|[ns0 i0] n IH]; simpl; intros scs H s Hs.
  - inversion H; subst. destruct Hs.
  - destruct (lookup ns0 imports) as [imp|]; try discriminate.
    destruct (schemas_of imports n) as [rest|]; simpl in H; try discriminate.
    inversion H; subst; clear H. destruct Hs as [<-|Hs].
    + exists i0. simpl. auto.
    + destruct (IH _ eq_refl s Hs) as (i & A & B). exists i. auto.
Qed.

Lemma upd_tns_types tns f l : (forall s, sc_ns (f s) = sc_ns s /\ sc_types (f s) = sc_types s) ->
  forall s, In s l -> exists s', In s' (upd_tns tns f l) /\ sc_ns s' = sc_ns s /\ sc_types s' = sc_types s.
Proof.
  intros F. induction l as [|s0 l IH]; simpl; intros s Hs; [tauto|].
  destruct (text_eqb (sc_ns s0) tns).
  - destruct Hs as [<-|Hs].
    + exists (f s0). split; [left; auto|]. apply F.
    + exists s. split; auto. right. auto.
  - destruct Hs as [<-|Hs].
    + exists s0. split; auto. left. auto.
    + destruct (IH s Hs) as (s' & A & B). exists s'. split; auto. right. auto.
Qed.

Lemma upd_tns_src tns f l s' : In s' (upd_tns tns f l) ->
  In s' l \/ exists s, In s l /\ sc_ns s = tns /\ s' = f s.
Proof.
  induction l as [|s0 l IH]; simpl; [tauto|].
  destruct (text_eqb (sc_ns s0) tns) eqn:E.
  - intros [<-|H]; auto. right. exists s0. split; auto. split; auto. apply text_eqb_eq. auto.
  - intros [<-|H]; auto. destruct (IH H) as [A|(s & A & B)]; auto. right. exists s. auto.
Qed.

(** upd_tns rewrites the schema that came from the first table entry of the target
    namespace, i.e. the one get_info / lookup sees; when [f] only appends to the
    elements of that entry no schema loses an element *)
Lemma upd_tns_elems imports n tns f : forall scs, schemas_of imports n = ROk scs ->
  (forall s, sc_ns (f s) = sc_ns s) ->
  (forall s, sc_elems s = si_elems (get_info tns n) -> incl (sc_elems s) (sc_elems (f s))) ->
  forall s, In s scs -> exists s', In s' (upd_tns tns f scs) /\ sc_ns s' = sc_ns s /\ incl (sc_elems s) (sc_elems s').
Proof.
  induction n as [|[ns0 i0] n IH]; simpl; intros scs H NS EL s Hs.
  - inversion H; subst. destruct Hs.
  - destruct (lookup ns0 imports) as [imp|]; try discriminate.
    destruct (schemas_of imports n) as [rest|] eqn:R; simpl in H; try discriminate.
    inversion H; subst; clear H. simpl. destruct (text_eqb ns0 tns) eqn:E.
    + apply text_eqb_eq in E. subst ns0.
      destruct Hs as [<-|Hs].
      * eexists. split; [left; reflexivity|]. split; [apply NS|]. apply EL.
        simpl. unfold get_info. simpl. rewrite text_eqb_refl. reflexivity.
      * exists s. split; [right; auto|]. split; auto. apply incl_refl.
    + destruct Hs as [<-|Hs].
      * eexists. split; [left; reflexivity|]. split; auto. apply incl_refl.
      * destruct (IH rest eq_refl NS) with (s := s) as (s' & A & B); auto.
        { intros s0 E0. apply EL. rewrite E0. unfold get_info. simpl.
          destruct (text_eqb tns ns0) eqn:E2; auto.
          apply text_eqb_eq in E2. subst. rewrite text_eqb_refl in E. discriminate. }
        exists s'. split; auto. right. auto.
Qed.

Lemma upd_tns_hit tns f l : (exists s, In s l /\ sc_ns s = tns) ->
  exists s, In s l /\ sc_ns s = tns /\ In (f s) (upd_tns tns f l).
Proof.
  induction l as [|s0 l IH]; simpl; intros (s & Hs & E); [tauto|].
  destruct (text_eqb (sc_ns s0) tns) eqn:E0.
  - exists s0. apply text_eqb_eq in E0. split; [left; auto|]. split; [auto|]. left. auto.
  - destruct Hs as [->|Hs].
    + apply text_eqb_neq in E0. contradiction.
    + destruct IH as (s1 & A & B & C); eauto. exists s1. split; [right; auto|]. split; [auto|]. right. auto.
Qed.

(* ---------------------------------------------------------------- add_missing_elements_for_methods *)
Lemma missing_mono ms : forall els tr e, In e els -> In e (fst (missing ms els tr)).
Proof.
  induction ms as [|m ms IH]; simpl; intros els tr e H; auto.
  destruct (memt (m_ename m) (map fst els)); apply IH; auto. apply in_or_app. auto.
Qed.

Lemma missing_has ms : forall els tr x, In x ms -> In (m_ename x) (map fst (fst (missing ms els tr))).
Proof.
  induction ms as [|m ms IH]; simpl; intros els tr x H; [tauto|].
  destruct H as [->|H].
  - destruct (memt (m_ename x) (map fst els)) eqn:E.
    + apply memt_In in E. apply in_map_iff in E as (e & <- & He).
      apply in_map. apply missing_mono. auto.
    + change (m_ename x) with (fst (m_ename x, (m_tns x, m_tn x))).
      apply in_map. apply missing_mono. apply in_or_app. right. left. auto.
  - destruct (memt (m_ename m) (map fst els)); apply IH; auto.
Qed.

Lemma missing_src ms : forall els tr e, In e (fst (missing ms els tr)) ->
  In e els \/ exists x, In x ms /\ e = (m_ename x, (m_tns x, m_tn x)).
Proof.
  induction ms as [|m ms IH]; simpl; intros els tr e H; auto.
  destruct (memt (m_ename m) (map fst els)).
  - destruct (IH _ _ _ H) as [A|(x & A & B)]; auto. right. exists x. auto.
  - destruct (IH _ _ _ H) as [A|(x & A & B)].
    + apply in_app_iff in A as [A|[<-|[]]]; auto. right. exists m. auto.
    + right. exists x. auto.
Qed.

(* ---------------------------------------------------------------- the theorem *)
Lemma NoDup_incl_perm (l k : list Z) : Permutation l k -> incl k l.
Proof. intros P x Hx. eapply Permutation_in; [symmetry; exact P|auto]. Qed.

Lemma wsdl_of_schema_inv perm a d : wsdl_of perm a = ROk d ->
  exists tiers st scs,
    toposort2 perm (class_key a) (a_deps a) = ROk tiers /\
    add_all (a_classes a) {| tags := []; nss := [(a_tns a, {| si_types := []; si_elems := [] |})]; trace := [] |}
            (concat tiers) = ROk st /\
    schemas_of (a_imports a) (nss st) = ROk scs /\
    d_schemas d = upd_tns (a_tns a)
                    (fun s => {| sc_ns := sc_ns s; sc_imports := sc_imports s; sc_types := sc_types s;
                                 sc_elems := fst (missing (meth_io a) (si_elems (get_info (a_tns a) (nss st))) []) |})
                    scs.
Proof.
  unfold wsdl_of. intros H.
  destruct (toposort2 perm (class_key a) (a_deps a)) as [tiers|] eqn:T; simpl in H; try discriminate.
  destruct (add_all _ _ _) as [st|] eqn:A; simpl in H; try discriminate.
  destruct (schemas_of _ _) as [scs|] eqn:S; simpl in H; try discriminate.
  destruct (missing _ _ _) as [els2 trm] eqn:MI.
  destruct (all_msgs (all_meths a)) as [raw|]; simpl in H; try discriminate.
  destruct (check_ports a); simpl in H; try discriminate.
  inversion H; subst; clear H. simpl. exists tiers, st, scs. repeat split; auto.
  rewrite MI. reflexivity.
Qed.

Lemma toposort2_covers perm key d tiers : (forall l, Permutation (perm l) l) ->
  NoDup (keys (data0 d)) -> toposort2 perm key d = ROk tiers ->
  d = [] \/ incl (keys (data0 d)) (concat tiers).
Proof.
  intros P ND H. unfold toposort2 in H. destruct d as [|kv d]; auto. right.
  simpl is_nil in H. cbv iota in H.
  apply NoDup_incl_perm. eapply topo_perm; eauto.
Qed.

Lemma all_msgs_parts ms : forall raw, all_msgs ms = ROk raw ->
  forall g p, In g raw -> In p (mg_parts g) ->
    exists m x, In m ms /\ p = part_of x /\
      (x = me_in m \/ x = me_out m \/ In x (opt_list (me_inh m) ++ opt_list (me_outh m) ++ me_faults m)).
Proof.
  induction ms as [|m0 ms IH]; simpl; intros raw H g p Hg Hp.
  - inversion H; subst. destruct Hg.
  - destruct (meth_msgs m0) as [a0|] eqn:E0; simpl in H; try discriminate.
    destruct (all_msgs ms) as [b0|] eqn:E1; simpl in H; try discriminate.
    inversion H; subst; clear H. apply in_app_iff in Hg as [Hg|Hg].
    + exists m0. unfold meth_msgs in E0.
      destruct (me_inh m0) as [hi|] eqn:Ei; simpl in E0.
      * destruct (header_msg_name m0 in_header_suffix hi); simpl in E0; try discriminate.
        destruct (me_outh m0) as [ho|] eqn:Eo; simpl in E0.
        -- destruct (header_msg_name m0 out_header_suffix ho); simpl in E0; try discriminate.
           inversion E0; subst; clear E0. simpl in Hg.
           destruct Hg as [<-|[<-|[<-|[<-|Hg]]]]; simpl in Hp.
           ++ destruct Hp as [<-|[]]. exists (me_in m0). auto.
           ++ destruct Hp as [<-|[]]. exists (me_out m0). auto.
           ++ apply in_map_iff in Hp as (x & <- & Hx). exists x. split; auto. split; auto.
              right. right. apply in_or_app. auto.
           ++ apply in_map_iff in Hp as (x & <- & Hx). exists x. split; auto. split; auto.
              right. right. apply in_or_app. right. apply in_or_app. auto.
           ++ apply in_map_iff in Hg as (f & <- & Hf). simpl in Hp. destruct Hp as [<-|[]].
              exists f. split; auto. split; auto. right. right. apply in_or_app. right. apply in_or_app. auto.
        -- inversion E0; subst; clear E0. simpl in Hg.
           destruct Hg as [<-|[<-|[<-|Hg]]]; simpl in Hp.
           ++ destruct Hp as [<-|[]]. exists (me_in m0). auto.
           ++ destruct Hp as [<-|[]]. exists (me_out m0). auto.
           ++ apply in_map_iff in Hp as (x & <- & Hx). exists x. split; auto. split; auto.
              right. right. apply in_or_app. auto.
           ++ apply in_map_iff in Hg as (f & <- & Hf). simpl in Hp. destruct Hp as [<-|[]].
              exists f. split; auto. split; auto. right. right. apply in_or_app. right. auto.
      * destruct (me_outh m0) as [ho|] eqn:Eo; simpl in E0.
        -- destruct (header_msg_name m0 out_header_suffix ho); simpl in E0; try discriminate.
           inversion E0; subst; clear E0. simpl in Hg.
           destruct Hg as [<-|[<-|[<-|Hg]]]; simpl in Hp.
           ++ destruct Hp as [<-|[]]. exists (me_in m0). auto.
           ++ destruct Hp as [<-|[]]. exists (me_out m0). auto.
           ++ apply in_map_iff in Hp as (x & <- & Hx). exists x. split; auto. split; auto.
              right. right. simpl. apply in_or_app. auto.
           ++ apply in_map_iff in Hg as (f & <- & Hf). simpl in Hp. destruct Hp as [<-|[]].
              exists f. split; auto. split; auto. right. right. simpl. apply in_or_app. auto.
        -- inversion E0; subst; clear E0. simpl in Hg.
           destruct Hg as [<-|[<-|Hg]]; simpl in Hp.
           ++ destruct Hp as [<-|[]]. exists (me_in m0). auto.
           ++ destruct Hp as [<-|[]]. exists (me_out m0). auto.
           ++ apply in_map_iff in Hg as (f & <- & Hf). simpl in Hp. destruct Hp as [<-|[]].
              exists f. split; auto.
    + destruct (IH _ eq_refl g p Hg Hp) as (m & x & A & B & C). exists m, x. auto.
Qed.

Lemma dedup_msgs_sub l : forall seen g, In g (dedup_msgs seen l) -> In g l.
Proof.
  induction l as [|x l IH]; simpl; intros seen g H; [tauto|].
  destruct (memt (mg_name x) seen).
  - right. eapply IH; eauto.
  - destruct H as [<-|H]; auto. right. eapply IH; eauto.
Qed.

Theorem schema_closed_thm perm a d :
  (forall l, Permutation (perm l) l) -> wsdl_of perm a = ROk d -> wf_snap a ->
  schema_closed d /\ parts_closed d.
Proof.
  intros PERM H (ND & PLAIN & BASE & IO & HF).
  pose proof (wsdl_of_inv _ _ _ H) as (raw & RAW & _ & _ & MS & _).
  destruct (wsdl_of_schema_inv _ _ _ H) as (tiers & st & scs & TOPO & ADD & SCS & DS).
  set (tbl := a_classes a) in *. set (K := reg_keys a) in *.
  set (st_init := {| tags := []; nss := [(a_tns a, {| si_types := []; si_elems := [] |})]; trace := [] |}) in *.
  set (els2 := fst (missing (meth_io a) (si_elems (get_info (a_tns a) (nss st))) [])) in *.
  set (f := fun s => {| sc_ns := sc_ns s; sc_imports := sc_imports s; sc_types := sc_types s; sc_elems := els2 |}) in *.
  (* the invariant at the end of the add loop *)
  assert (Inv tbl K (fun _ => False) (tags st_init) (nss st_init)) as I0.
  { constructor; simpl; try tauto. }
  assert (forall q, type_reg a q -> ref_ok tbl K [] q) as TR.
  { intros q [B|(id & c & F & KC & Hid & E)]; [left; auto|]. right. exists id, c. auto. }
  destruct (add_all_inv tbl K) with (st := st_init) (st' := st) (P := fun _ : Z => False) (ids := concat tiers)
    as (I & _ & COV & KEYS); auto.
  { intros c b bc Hc Hb Fb. apply TR. eapply BASE; eauto. }
  (* every registered class went through add() *)
  assert (incl K (tags st)) as KT.
  { destruct (toposort2_covers _ _ _ _ PERM ND TOPO) as [E|C].
    - unfold K, reg_keys. rewrite E. simpl. intros x [].
    - eapply incl_tran; eauto. }
  (* a written reference resolves in the table *)
  assert (forall q, ref_ok tbl K (tags st) q -> builtin q \/ In (snd q) (types_at (nss st) (fst q))) as REF.
  { intros q [B|(id & c & F & <- & TG)]; [left; auto|].
    assert (In id (tags st)) as Hid by (destruct TG; auto).
    destruct (c_kind c) eqn:KC.
    - right. simpl. apply (inv_def _ _ _ _ _ I id c); auto.
    - left. apply PLAIN; auto. apply (find_cls_In _ _ _ F). }
  (* a name of the table is a complexType of the document *)
  assert (forall ns x, In x (types_at (nss st) ns) -> type_defined (d_schemas d) (ns, x)) as TDEF.
  { intros ns x Hx. unfold types_at, get_info in Hx.
    destruct (lookup ns (nss st)) as [i|] eqn:L; [|destruct Hx].
    apply lookup_In_pair in L.
    destruct (schemas_of_has _ _ _ SCS ns i L) as (s & A & B & C & _).
    destruct (upd_tns_types (a_tns a) f scs (fun s0 => conj eq_refl eq_refl) s A) as (s' & A' & B' & C').
    exists s'. rewrite DS. split; auto. simpl. split; [congruence|].
    rewrite C', C. apply in_map_iff in Hx as ((k & td) & <- & Hkt). simpl.
    apply in_map_iff. exists td. split.
    - apply (inv_names _ _ _ _ _ I k td). unfold stored_t. apply in_flat_map. exists (ns, i). auto.
    - apply in_map_iff. exists (k, td). auto. }
  assert (forall q, ref_ok tbl K (tags st) q -> type_ok (d_schemas d) q) as ROK.
  { intros q R. destruct (REF q R) as [B|T]; [left; auto|right].
    destruct q as [ns x]. apply TDEF. auto. }
  assert (forall q, type_reg a q -> type_ok (d_schemas d) q) as TREG.
  { intros q [B|(id & c & F & KC & Hid & <-)]; [left; auto|]. right.
    apply TDEF. apply (inv_def _ _ _ _ _ I id c); auto. }
  (* a name of the element table is an xs:element of the document *)
  assert (forall ns x, In x (elems_at (nss st) ns) -> elem_defined (d_schemas d) (ns, x)) as EDEF.
  { intros ns x Hx. unfold elems_at, get_info in Hx.
    destruct (lookup ns (nss st)) as [i|] eqn:L; [|destruct Hx].
    apply lookup_In_pair in L.
    destruct (schemas_of_has _ _ _ SCS ns i L) as (s & A & B & _ & C).
    destruct (upd_tns_elems _ _ (a_tns a) f scs SCS) with (s := s) as (s' & A' & B' & C'); auto.
    { intros s0 E0 e He. simpl. unfold els2. apply missing_mono. rewrite <- E0. auto. }
    exists s'. rewrite DS. split; auto. simpl. split; [congruence|].
    apply in_map_iff in Hx as (e & <- & He). apply in_map. apply C'. rewrite C. auto. }
  assert (forall q, elem_reg a q -> elem_defined (d_schemas d) q) as EREG.
  { intros q (id & c & F & KC & Hid & <-). apply EDEF. apply (inv_def _ _ _ _ _ I id c); auto. }
  (* the schema of the target namespace carries the elements add_missing_elements_for_methods wrote *)
  assert (exists s, In s (d_schemas d) /\ sc_ns s = a_tns a /\ sc_elems s = els2) as TNS.
  { assert (In (a_tns a) (map fst (nss st))) as KT0 by (apply KEYS; simpl; auto).
    apply In_keys_lookup in KT0 as (i & L). apply lookup_In_pair in L.
    destruct (schemas_of_has _ _ _ SCS _ _ L) as (s & A & B & _).
    destruct (upd_tns_hit (a_tns a) f scs) as (s1 & A1 & B1 & C1); eauto.
    exists (f s1). rewrite DS. auto. }
  split.
  - (* schema_closed *)
    intros s' Hs'. rewrite DS in Hs'.
    assert (exists s, In s scs /\ sc_types s' = sc_types s /\ (sc_elems s' = sc_elems s \/ sc_elems s' = els2)) as (s & Hs & TY & EL).
    { apply upd_tns_src in Hs' as [A|(s & A & B & ->)].
      - exists s'. auto.
      - exists s. simpl. auto. }
    destruct (schemas_of_src _ _ _ SCS s Hs) as (i & Hi & TYi & ELi).
    split.
    + intros t Ht. rewrite TY, TYi in Ht. apply in_map_iff in Ht as ((k & td) & <- & Hkt). simpl.
      assert (In (k, td) (stored_t (nss st))) as ST.
      { unfold stored_t. apply in_flat_map. exists (sc_ns s, i). auto. }
      destruct (inv_td _ _ _ _ _ I k td ST) as [TB TM]. split.
      * intros q Hq. apply ROK. auto.
      * intros m Hm. apply ROK. auto.
    + intros e He.
      assert (In e (stored_e (nss st)) -> type_ok (d_schemas d) (snd e)) as FROM_TABLE.
      { intros ST. apply ROK. apply (inv_el _ _ _ _ _ I e ST). }
      destruct EL as [EL|EL]; rewrite EL in He.
      * apply FROM_TABLE. rewrite ELi in He. unfold stored_e. apply in_flat_map. exists (sc_ns s, i). auto.
      * unfold els2 in He. apply missing_src in He as [He|(x & Hx & ->)].
        -- apply FROM_TABLE. eapply get_info_stored_e; eauto.
        -- simpl. apply TREG. apply (IO x Hx).
  - (* parts_closed *)
    intros g p Hg Hp. rewrite MS in Hg. apply dedup_msgs_sub in Hg.
    destruct (all_msgs_parts _ _ RAW g p Hg Hp) as (m & x & Hm & -> & Hx). simpl.
    assert (In x (meth_io a) -> elem_defined (d_schemas d) (m_ens x, m_ename x)) as FROM_IO.
    { intros Hio. destruct (IO x Hio) as [_ [E|E]].
      - destruct TNS as (s & A & B & C). exists s. split; auto. simpl. split; [congruence|].
        rewrite C. unfold els2. apply missing_has. auto.
      - apply EREG. auto. }
    destruct Hx as [->|[->|Hx]].
    + apply FROM_IO. unfold meth_io. apply in_flat_map. exists m. simpl. auto.
    + apply FROM_IO. unfold meth_io. apply in_flat_map. exists m. simpl. auto.
    + apply EREG. apply HF. unfold meth_hf. apply in_flat_map. exists m. auto.
Qed.
