(** C07 -- the WSDL layer: every message / portType / binding reference written by
    the emitters of wsdl11.py resolves, and every exposed method is one portType
    operation under its port type with a matching binding operation. *)
From Coq Require Import ZArith List Bool Lia Permutation.
From SpyneV Require Import Base.Prelude C07.Model C07.SortProofs.
Import ListNotations.
Open Scope Z_scope.

(* ---------------------------------------------------------------- specification *)
Definition msg_defined (d : adoc) (q : qn) : Prop :=
  fst q = d_tns d /\ In (snd q) (map mg_name (d_msgs d)).

Definition wsdl_closed (d : adoc) : Prop :=
  (forall p o, In p (d_pts d) -> In o (pt_ops p) ->
     msg_defined d (snd (po_in o)) /\ msg_defined d (snd (po_out o)) /\
     forall f, In f (po_faults o) -> msg_defined d (snd f))
  /\ (forall b, In b (d_binds d) ->
        fst (b_type b) = d_tns d /\ In (snd (b_type b)) (map pt_name (d_pts d)))
  /\ (forall s p, In s (d_svcs d) -> In p (sv_ports s) ->
        fst (snd p) = d_tns d /\ In (snd (snd p)) (map b_name (d_binds d)))
  /\ (forall b o h, In b (d_binds d) -> In o (b_ops b) -> In h (bo_inh o ++ bo_outh o) ->
        msg_defined d (fst h)).

(** Interface.add_method forces every declared fault into the target namespace *)
Definition faults_in_tns (a : snap) : Prop :=
  forall m f, In m (all_meths a) -> In f (me_faults m) -> m_tns f = a_tns a.

Definition op_matches (o : ptop) (b : bop) : Prop :=
  bo_name b = po_name o /\ bo_in b = fst (po_in o) /\ bo_out b = fst (po_out o) /\
  bo_faults b = map fst (po_faults o).

Definition one_op (a : snap) (d : adoc) : Prop :=
  (* the portType operations are, one for one, the exposed methods *)
  Permutation (flat_map pt_ops (d_pts d)) (map (mk_ptop a) (all_meths a))
  /\ NoDup (map pt_name (d_pts d))
  (* each under the port type its method declares, carrying its messages and faults *)
  /\ (forall p o, In p (d_pts d) -> In o (pt_ops p) ->
        exists m, In m (all_meths a) /\ o = mk_ptop a m /\ pt_name p = meth_pt a m)
  (* and a binding of that port type has the matching operation *)
  /\ (forall m, In m (all_meths a) ->
        exists b, In b (d_binds d) /\ b_type b = (d_tns d, meth_pt a m) /\
                  In (mk_bop a m) (b_ops b) /\ op_matches (mk_ptop a m) (mk_bop a m))
  (* every binding operation is the operation of an exposed method *)
  /\ (forall b o, In b (d_binds d) -> In o (b_ops b) -> exists m, In m (all_meths a) /\ o = mk_bop a m).

(* ---------------------------------------------------------------- dedup *)
Lemma dedup_msgs_In l : forall seen x, In x (map mg_name l) ->
  In x seen \/ In x (map mg_name (dedup_msgs seen l)).
Proof.
  induction l as [|g l IH]; simpl; intros seen x H; [tauto|].
  destruct (memt (mg_name g) seen) eqn:E.
  - destruct H as [<-|H]; auto. left. apply memt_In; auto.
  - simpl. destruct H as [<-|H]; auto.
    destruct (IH (mg_name g :: seen) x H) as [[<-|H1]|H1]; auto.
Qed.

Lemma dedup_t_In l : forall seen x, In x l -> In x seen \/ In x (dedup_t seen l).
Proof.
  induction l as [|g l IH]; simpl; intros seen x H; [tauto|].
  destruct (memt g seen) eqn:E.
  - destruct H as [<-|H]; auto. left. apply memt_In; auto.
  - simpl. destruct H as [<-|H]; auto.
    destruct (IH (g :: seen) x H) as [[<-|H1]|H1]; auto.
Qed.

Lemma dedup_t_sub l : forall seen x, In x (dedup_t seen l) -> In x l /\ ~ In x seen.
Proof.
  induction l as [|g l IH]; simpl; intros seen x H; [tauto|].
  destruct (memt g seen) eqn:E.
  - apply IH in H. tauto.
  - destruct H as [<-|H].
    + split; auto. apply memt_false; auto.
    + apply IH in H. simpl in H. tauto.
Qed.

Lemma dedup_t_NoDup l : forall seen, NoDup (dedup_t seen l).
Proof.
  induction l as [|g l IH]; simpl; intros seen; [constructor|].
  destruct (memt g seen) eqn:E; auto.
  constructor; auto. intro H. apply dedup_t_sub in H. simpl in H. tauto.
Qed.

(* ---------------------------------------------------------------- messages *)
Lemma all_msgs_In ms : forall raw, all_msgs ms = ROk raw ->
  forall m, In m ms -> exists mm, meth_msgs m = ROk mm /\ incl mm raw.
Proof.
  induction ms as [|m0 ms IH]; simpl; intros raw H m Hm; [tauto|].
  destruct (meth_msgs m0) as [a0|] eqn:E0; simpl in H; try discriminate.
  destruct (all_msgs ms) as [b0|] eqn:E1; simpl in H; try discriminate.
  inversion H; subst. destruct Hm as [<-|Hm].
  - exists a0. split; auto. apply incl_appl, incl_refl.
  - destruct (IH _ eq_refl m Hm) as (mm & A & B). exists mm. split; auto. apply incl_appr; auto.
Qed.

Lemma meth_msgs_names m mm : meth_msgs m = ROk mm ->
  In (m_ename (me_in m)) (map mg_name mm) /\ In (m_ename (me_out m)) (map mg_name mm) /\
  (forall f, In f (me_faults m) -> In (m_tn f) (map mg_name mm)) /\
  (forall hs n, me_inh m = Some hs -> header_msg_name m in_header_suffix hs = ROk n -> In n (map mg_name mm)) /\
  (forall hs n, me_outh m = Some hs -> header_msg_name m out_header_suffix hs = ROk n -> In n (map mg_name mm)).
Proof.
  unfold meth_msgs. intros H.
  destruct (me_inh m) as [hi|] eqn:Ei; simpl in H.
  - destruct (header_msg_name m in_header_suffix hi) as [ni|] eqn:Ni; simpl in H; try discriminate.
    destruct (me_outh m) as [ho|] eqn:Eo; simpl in H.
    + destruct (header_msg_name m out_header_suffix ho) as [no|] eqn:No; simpl in H; try discriminate.
      inversion H; subst; clear H. simpl. repeat split; auto.
      * intros f Hf. right. right. right. right. rewrite map_map. simpl. apply in_map_iff. eauto.
      * intros hs n E1 E2. inversion E1; subst. rewrite Ni in E2. inversion E2; subst. auto.
      * intros hs n E1 E2. inversion E1; subst. rewrite No in E2. inversion E2; subst. auto.
    + inversion H; subst; clear H. simpl. repeat split; auto.
      * intros f Hf. right. right. right. rewrite map_map. simpl. apply in_map_iff. eauto.
      * intros hs n E1 E2. inversion E1; subst. rewrite Ni in E2. inversion E2; subst. auto.
      * intros hs n E1. discriminate.
  - destruct (me_outh m) as [ho|] eqn:Eo; simpl in H.
    + destruct (header_msg_name m out_header_suffix ho) as [no|] eqn:No; simpl in H; try discriminate.
      inversion H; subst; clear H. simpl. repeat split; auto.
      * intros f Hf. right. right. right. rewrite map_map. simpl. apply in_map_iff. eauto.
      * intros hs n E1. discriminate.
      * intros hs n E1 E2. inversion E1; subst. rewrite No in E2. inversion E2; subst. auto.
    + inversion H; subst; clear H. simpl. repeat split; auto.
      * intros f Hf. right. right. rewrite map_map. simpl. apply in_map_iff. eauto.
      * intros hs n E1. discriminate.
      * intros hs n E1. discriminate.
Qed.

(* ---------------------------------------------------------------- inversion of the build *)
Lemma wsdl_of_inv perm a d : wsdl_of perm a = ROk d ->
  exists raw, all_msgs (all_meths a) = ROk raw /\ check_ports a = true /\
    d_tns d = a_tns a /\ d_msgs d = dedup_msgs [] raw /\ d_svcs d = services a /\
    d_pts d = porttypes a /\ d_binds d = bindings a.
Proof.
  unfold wsdl_of. intros H.
  destruct (toposort2 perm (class_key a) (a_deps a)); simpl in H; try discriminate.
  destruct (add_all _ _ _); simpl in H; try discriminate.
  destruct (schemas_of _ _); simpl in H; try discriminate.
  destruct (missing _ _ _) as [els2 trm].
  destruct (all_msgs (all_meths a)) as [raw|] eqn:E; simpl in H; try discriminate.
  destruct (check_ports a) eqn:C; simpl in H; try discriminate.
  inversion H; subst; clear H. simpl. exists raw. repeat split; auto.
Qed.

Lemma name_defined a raw m mm x :
  all_msgs (all_meths a) = ROk raw -> In m (all_meths a) -> meth_msgs m = ROk mm -> incl mm raw ->
  In x (map mg_name mm) -> In x (map mg_name (dedup_msgs [] raw)).
Proof.
  intros _ _ _ INC H.
  assert (In x (map mg_name raw)) as Hr.
  { apply in_map_iff in H as (g & <- & Hg). apply in_map. apply INC. auto. }
  destruct (dedup_msgs_In raw [] x Hr) as [[]|]; auto.
Qed.

(* ---------------------------------------------------------------- check_method_port *)
Lemma check_ports_pt a s m : check_ports a = true -> In s (a_svcs a) -> In m (s_meths s) ->
  In (meth_pt a m) (svc_ptnames a s) /\
  (is_nil (s_ports s) = true -> me_port m = None) /\
  (is_nil (s_ports s) = false -> exists p, me_port m = Some p /\ In p (s_ports s)).
Proof.
  unfold check_ports. rewrite forallb_forall. intros H Hs Hm.
  specialize (H s Hs). rewrite forallb_forall in H. specialize (H m Hm).
  unfold check_port in H. unfold meth_pt, svc_ptnames.
  destruct (me_port m) as [p|].
  - apply andb_true_iff in H as [H1 H2]. apply negb_true_iff in H1. rewrite H1.
    apply memt_In in H2. repeat split; auto; try discriminate. eauto.
  - rewrite H. repeat split; simpl; auto. discriminate.
Qed.

(* ---------------------------------------------------------------- bindings *)
Lemma in_all_meths a s m : In s (a_svcs a) -> In m (s_meths s) -> In m (all_meths a).
Proof. intros. unfold all_meths. apply in_flat_map. eauto. Qed.

Lemma bindings_go_inv a l : forall f b, incl l (a_svcs a) -> In b (bindings_go a f l) ->
  (b = default_binding a /\ exists s, In s l /\ is_nil (s_ports s) = true) \/
  (exists s, In s l /\ is_nil (s_ports s) = false /\ In b (port_bindings a s)).
Proof.
  induction l as [|s l IH]; simpl; intros f b INC H; [tauto|].
  assert (incl l (a_svcs a)) as INC' by (intros x Hx; apply INC; right; auto).
  destruct (is_nil (s_ports s)) eqn:E.
  - apply in_app_iff in H as [H|H].
    + destruct f; simpl in H; try tauto. destruct H as [<-|[]]. left. split; auto. exists s. auto.
    + destruct (IH _ _ INC' H) as [[A (s' & B & C)]|(s' & A & B & C)].
      * left. split; auto. exists s'. auto.
      * right. exists s'. auto.
  - apply in_app_iff in H as [H|H].
    + right. exists s. auto.
    + destruct (IH _ _ INC' H) as [[A (s' & B & C)]|(s' & A & B & C)].
      * left. split; auto. exists s'. auto.
      * right. exists s'. auto.
Qed.

Lemma bindings_go_has a l : forall f s, In s l ->
  (is_nil (s_ports s) = false -> incl (port_bindings a s) (bindings_go a f l)) /\
  (is_nil (s_ports s) = true -> f = true \/ In (default_binding a) (bindings_go a f l)).
Proof.
  induction l as [|s0 l IH]; simpl; intros f s Hs; [tauto|].
  destruct Hs as [->|Hs].
  - split; intros E; rewrite E.
    + apply incl_appl, incl_refl.
    + destruct f; auto. right. simpl. auto.
  - destruct (is_nil (s_ports s0)) eqn:E0.
    + destruct (IH true s Hs) as [A B]. split; intros E.
      * apply incl_appr. auto.
      * destruct f; auto. right. simpl. auto.
    + destruct (IH f s Hs) as [A B]. split; intros E.
      * apply incl_appr. auto.
      * destruct (B E); auto. right. apply in_app_iff. auto.
Qed.

(* ---------------------------------------------------------------- grouping by port type *)
Lemma flat_map_filter_skip {A B} (f : A -> B) (key : A -> text) x l ns : ~ In (key x) ns ->
  flat_map (fun n => map f (filter (fun y => text_eqb (key y) n) (x :: l))) ns =
  flat_map (fun n => map f (filter (fun y => text_eqb (key y) n) l)) ns.
Proof.
  induction ns as [|n ns IH]; intros H; auto.
  cbn [flat_map]. rewrite IH by (intro; apply H; right; auto).
  f_equal. simpl. destruct (text_eqb (key x) n) eqn:E; auto.
  apply text_eqb_eq in E. exfalso. apply H. left. auto.
Qed.

Lemma group_perm {A B} (f : A -> B) (key : A -> text) l : forall ns, NoDup ns ->
  (forall x, In x l -> In (key x) ns) ->
  Permutation (flat_map (fun n => map f (filter (fun y => text_eqb (key y) n) l)) ns) (map f l).
Proof.
  induction l as [|x l IH]; intros ns ND ALL.
  - simpl. clear. induction ns; simpl; auto.
  - assert (In (key x) ns) as Hk by (apply ALL; left; auto).
    apply in_split in Hk as (n1 & n2 & ->).
    apply NoDup_remove_2 in ND as ND2.
    set (F := fun (l0 : list A) (n : text) => map f (filter (fun y => text_eqb (key y) n) l0)).
    change (Permutation (flat_map (F (x :: l)) (n1 ++ key x :: n2)) (map f (x :: l))).
    rewrite flat_map_app. cbn [flat_map].
    assert (F (x :: l) (key x) = f x :: F l (key x)) as ->
      by (unfold F; simpl; rewrite text_eqb_refl; reflexivity).
    assert (forall ns, ~ In (key x) ns -> flat_map (F (x :: l)) ns = flat_map (F l) ns) as SK
      by (intros; apply flat_map_filter_skip; auto).
    rewrite (SK n1), (SK n2) by (intro; apply ND2; apply in_or_app; auto).
    simpl. rewrite <- Permutation_middle. constructor.
    specialize (IH (n1 ++ key x :: n2)).
    change (NoDup (n1 ++ key x :: n2) -> (forall x0, In x0 l -> In (key x0) (n1 ++ key x :: n2)) ->
            Permutation (flat_map (F l) (n1 ++ key x :: n2)) (map f l)) in IH.
    rewrite flat_map_app in IH. cbn [flat_map] in IH. apply IH.
    + exact ND.
    + intros y Hy. apply ALL. right. auto.
Qed.

Lemma op_matches_mk a m : op_matches (mk_ptop a m) (mk_bop a m).
Proof. unfold op_matches. simpl. repeat split; auto. rewrite map_map. reflexivity. Qed.

(* ---------------------------------------------------------------- the two theorems *)
Theorem wsdl_closed_thm perm a d :
  wsdl_of perm a = ROk d -> faults_in_tns a -> wsdl_closed d.
Proof.
  intros H FT. apply wsdl_of_inv in H as (raw & RAW & CP & TNS & MS & SV & PT & BD).
  assert (forall m, In m (all_meths a) -> exists mm, meth_msgs m = ROk mm /\
            forall x, In x (map mg_name mm) -> In x (map mg_name (d_msgs d))) as DEF.
  { intros m Hm. destruct (all_msgs_In _ _ RAW m Hm) as (mm & A & B). exists mm. split; auto.
    intros x Hx. rewrite MS. eapply name_defined; eauto. }
  assert (forall b o, In b (bindings a) -> In o (b_ops b) -> exists m, In m (all_meths a) /\ o = mk_bop a m) as BOPS.
  { intros b o Hb Ho. apply bindings_go_inv in Hb; [|apply incl_refl].
    destruct Hb as [[-> _]|(s & Hs & E & Hb)].
    - simpl in Ho. apply in_map_iff in Ho as (m & <- & Hm). exists m. split; auto.
      apply in_flat_map in Hm as (s & Hs & Hm). apply filter_In in Hs as [Hs _].
      eapply in_all_meths; eauto.
    - apply in_map_iff in Hb as (p & <- & Hp). simpl in Ho.
      apply in_map_iff in Ho as (m & <- & Hm). apply filter_In in Hm as [Hm _].
      exists m. split; auto. eapply in_all_meths; eauto. }
  unfold wsdl_closed, msg_defined. rewrite TNS, PT, BD, SV. repeat split.
  - apply in_map_iff in H as (n & <- & _). simpl in H0.
    apply in_map_iff in H0 as (m & <- & Hm). simpl. auto.
  - apply in_map_iff in H as (n & <- & _). simpl in H0.
    apply in_map_iff in H0 as (m & <- & Hm). apply filter_In in Hm as [Hm _]. simpl.
    destruct (DEF m Hm) as (mm & A & B). apply B. apply (meth_msgs_names _ _ A).
  - apply in_map_iff in H as (n & <- & _). simpl in H0.
    apply in_map_iff in H0 as (m & <- & Hm). simpl. auto.
  - apply in_map_iff in H as (n & <- & _). simpl in H0.
    apply in_map_iff in H0 as (m & <- & Hm). apply filter_In in Hm as [Hm _]. simpl.
    destruct (DEF m Hm) as (mm & A & B). apply B. apply (meth_msgs_names _ _ A).
  - apply in_map_iff in H as (n & <- & _). simpl in H0.
    apply in_map_iff in H0 as (m & <- & Hm). apply filter_In in Hm as [Hm _]. simpl in H1.
    apply in_map_iff in H1 as (f0 & <- & Hf). simpl. eapply FT; eauto.
  - apply in_map_iff in H as (n & <- & _). simpl in H0.
    apply in_map_iff in H0 as (m & <- & Hm). apply filter_In in Hm as [Hm _]. simpl in H1.
    apply in_map_iff in H1 as (f0 & <- & Hf). simpl.
    destruct (DEF m Hm) as (mm & A & B). apply B. apply (meth_msgs_names _ _ A). auto.
  - apply bindings_go_inv in H; [|apply incl_refl].
    destruct H as [[-> _]|(s & Hs & E & Hb)]; simpl; auto.
    apply in_map_iff in Hb as (p & <- & Hp). auto.
  - unfold porttypes. rewrite map_map. simpl. rewrite map_id.
    apply bindings_go_inv in H; [|apply incl_refl].
    destruct H as [[-> (s & Hs & E)]|(s & Hs & E & Hb)].
    + simpl. destruct (dedup_t_In (flat_map (svc_ptnames a) (a_svcs a)) [] (a_name a)) as [[]|]; auto.
      apply in_flat_map. exists s. split; auto. unfold svc_ptnames. rewrite E. left; auto.
    + apply in_map_iff in Hb as (p & <- & Hp). simpl.
      destruct (dedup_t_In (flat_map (svc_ptnames a) (a_svcs a)) [] p) as [[]|]; auto.
      apply in_flat_map. exists s. split; auto. unfold svc_ptnames. rewrite E. auto.
  - apply in_map_iff in H as (n & <- & _). simpl in H0.
    apply in_flat_map in H0 as (s0 & Hs0 & Hp). apply in_map_iff in Hp as (pn & <- & _). auto.
  - apply in_map_iff in H as (n & <- & _). simpl in H0.
    apply in_flat_map in H0 as (s0 & Hs0 & Hp). apply filter_In in Hs0 as [Hs0 _].
    apply in_map_iff in Hp as (pn & <- & Hpn). simpl.
    destruct (bindings_go_has a (a_svcs a) false s0 Hs0) as [A B].
    unfold svc_ptnames in Hpn. destruct (is_nil (s_ports s0)) eqn:E.
    + destruct Hpn as [<-|[]]. destruct (B eq_refl) as [|HB]; try discriminate.
      apply in_map_iff. exists (default_binding a). auto.
    + apply in_map_iff. exists {| b_name := pn; b_type := (a_tns a, pn);
                                  b_ops := map (mk_bop a) (filter (fun m => opt_is (me_port m) pn) (s_meths s0)) |}.
      split; auto. apply (A eq_refl). unfold port_bindings. apply in_map_iff. exists pn. auto.
  - destruct (BOPS _ _ H H0) as (m & Hm & ->). simpl in H1.
    apply in_app_iff in H1 as [H1|H1]; unfold hdr_refs in H1.
    + destruct (me_inh m) as [hs|]; [|destruct H1].
      destruct (header_msg_name m in_header_suffix hs); [|destruct H1].
      apply in_map_iff in H1 as (h0 & <- & _). auto.
    + destruct (me_outh m) as [hs|]; [|destruct H1].
      destruct (header_msg_name m out_header_suffix hs); [|destruct H1].
      apply in_map_iff in H1 as (h0 & <- & _). auto.
  - destruct (BOPS _ _ H H0) as (m & Hm & ->). simpl in H1.
    destruct (DEF m Hm) as (mm & A & B). apply B.
    apply in_app_iff in H1 as [H1|H1]; unfold hdr_refs in H1.
    + destruct (me_inh m) as [hs|] eqn:E; [|destruct H1].
      destruct (header_msg_name m in_header_suffix hs) eqn:N; [|destruct H1].
      apply in_map_iff in H1 as (h0 & <- & _). simpl.
      eapply (proj1 (proj2 (proj2 (proj2 (meth_msgs_names _ _ A))))); eauto.
    + destruct (me_outh m) as [hs|] eqn:E; [|destruct H1].
      destruct (header_msg_name m out_header_suffix hs) eqn:N; [|destruct H1].
      apply in_map_iff in H1 as (h0 & <- & _). simpl.
      eapply (proj2 (proj2 (proj2 (proj2 (meth_msgs_names _ _ A))))); eauto.
Qed.

Theorem one_op_thm perm a d : wsdl_of perm a = ROk d -> one_op a d.
Proof.
  intros H. apply wsdl_of_inv in H as (raw & RAW & CP & TNS & MS & SV & PT & BD).
  unfold one_op. rewrite PT, BD, TNS.
  assert (map pt_name (porttypes a) = dedup_t [] (flat_map (svc_ptnames a) (a_svcs a))) as NM.
  { unfold porttypes. rewrite map_map. simpl. apply map_id. }
  assert (forall m, In m (all_meths a) -> exists s, In s (a_svcs a) /\ In m (s_meths s)) as SM.
  { intros m Hm. apply in_flat_map in Hm. auto. }
  repeat split.
  - unfold porttypes. rewrite flat_map_concat_map, map_map, <- flat_map_concat_map. simpl.
    unfold pt_ops_of. apply group_perm.
    + apply dedup_t_NoDup.
    + intros m Hm. destruct (SM m Hm) as (s & Hs & Hms).
      destruct (dedup_t_In (flat_map (svc_ptnames a) (a_svcs a)) [] (meth_pt a m)) as [[]|]; auto.
      apply in_flat_map. exists s. split; auto. apply (check_ports_pt a s m CP Hs Hms).
  - rewrite NM. apply dedup_t_NoDup.
  - intros p o Hp Ho. apply in_map_iff in Hp as (n & <- & _). simpl in Ho.
    apply in_map_iff in Ho as (m & <- & Hm). apply filter_In in Hm as [Hm E].
    exists m. simpl. apply text_eqb_eq in E. auto.
  - intros m Hm. destruct (SM m Hm) as (s & Hs & Hms).
    destruct (check_ports_pt a s m CP Hs Hms) as (P1 & P2 & P3).
    destruct (bindings_go_has a (a_svcs a) false s Hs) as [A B].
    destruct (is_nil (s_ports s)) eqn:E.
    + destruct (B eq_refl) as [|HB]; try discriminate.
      exists (default_binding a). split; [auto|]. split; [|split; [|apply op_matches_mk]].
      * unfold meth_pt. rewrite (P2 eq_refl). reflexivity.
      * simpl. apply in_map. apply in_flat_map. exists s. split; auto. apply filter_In. auto.
    + destruct (P3 eq_refl) as (p & Ep & Hp).
      exists {| b_name := p; b_type := (a_tns a, p);
                b_ops := map (mk_bop a) (filter (fun m => opt_is (me_port m) p) (s_meths s)) |}.
      split; [|split; [|split; [|apply op_matches_mk]]].
      * apply (A eq_refl). unfold port_bindings. apply in_map_iff. exists p. auto.
      * unfold meth_pt. rewrite Ep. reflexivity.
      * simpl. apply in_map. apply filter_In. split; auto. unfold opt_is. rewrite Ep. apply text_eqb_refl.
  - intros b o Hb Ho. apply bindings_go_inv in Hb; [|apply incl_refl].
    destruct Hb as [[-> _]|(s & Hs & E & Hb)].
    + simpl in Ho. apply in_map_iff in Ho as (m & <- & Hm). exists m. split; auto.
      apply in_flat_map in Hm as (s & Hs & Hm). apply filter_In in Hs as [Hs _].
      eapply in_all_meths; eauto.
    + apply in_map_iff in Hb as (p & <- & Hp). simpl in Ho.
      apply in_map_iff in Ho as (m & <- & Hm). apply filter_In in Hm as [Hm _].
      exists m. split; auto. eapply in_all_meths; eauto.
Qed.
