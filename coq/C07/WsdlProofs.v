(** C07 -- the WSDL layer: every message / portType / binding reference written by
    the emitters of wsdl11.py resolves, and every exposed method is one portType
    operation under its port type with a matching binding operation. *)
From Coq Require Import ZArith List Bool Lia Permutation.
From SpyneV Require Import Base.Prelude C07.Model C07.SortProofs.
Import ListNotations.
Open Scope Z_scope.

(* ---------------------------------------------------------------- specification *)
Definition msg_defined (d : adoc) (q : qn) : Prop :=
  fst q = d_tns d /\ In (snd q) (map mg_name (d_msgs d)).

Definition wsdl_closed (d : adoc) : Prop :=
  (forall p o, In p (d_pts d) -> In o (pt_ops p) ->
     msg_defined d (snd (po_in o)) /\ msg_defined d (snd (po_out o)) /\
     forall f, In f (po_faults o) -> msg_defined d (snd f))
  /\ (forall b, In b (d_binds d) ->
        fst (b_type b) = d_tns d /\ In (snd (b_type b)) (map pt_name (d_pts d)))
  /\ (forall s p, In s (d_svcs d) -> In p (sv_ports s) ->
        fst (snd p) = d_tns d /\ In (snd (snd p)) (map b_name (d_binds d)))
  /\ (forall b o h, In b (d_binds d) -> In o (b_ops b) -> In h (bo_inh o ++ bo_outh o) ->
        msg_defined d (fst h)).

(** Interface.add_method forces every declared fault into the target namespace *)
Definition faults_in_tns (a : snap) : Prop :=
  forall m f, In m (all_meths a) -> In f (me_faults m) -> m_tns f = a_tns a.

Definition op_matches (o : ptop) (b : bop) : Prop :=
  bo_name b = po_name o /\ bo_in b = fst (po_in o) /\ bo_out b = fst (po_out o) /\
  bo_faults b = map fst (po_faults o).

Definition one_op (a : snap) (d : adoc) : Prop :=
  (* the portType operations are, one for one, the exposed methods *)
  Permutation (flat_map pt_ops (d_pts d)) (map (mk_ptop a) (all_meths a))
  /\ NoDup (map pt_name (d_pts d))
  (* each under the port type its method declares, carrying its messages and faults *)
  /\ (forall p o, In p (d_pts d) -> In o (pt_ops p) ->
        exists m, In m (all_meths a) /\ o = mk_ptop a m /\ pt_name p = meth_pt a m)
  (* and a binding of that port type has the matching operation *)
  /\ (forall m, In m (all_meths a) ->
        exists b, In b (d_binds d) /\ b_type b = (d_tns d, meth_pt a m) /\
                  In (mk_bop a m) (b_ops b) /\ op_matches (mk_ptop a m) (mk_bop a m))
  (* every binding operation is the operation of an exposed method *)
  /\ (forall b o, In b (d_binds d) -> In o (b_ops b) -> exists m, In m (all_meths a) /\ o = mk_bop a m).

(* ---------------------------------------------------------------- dedup *)
Lemma dedup_msgs_In l : forall seen x, In x (map mg_name l) ->
  In x seen \/ In x (map mg_name (dedup_msgs seen l)).
Proof.
  induction l as [|g l IH]; simpl; intros seen x H; [tauto|].
  destruct (memt (mg_name g) seen) eqn:E.
  - destruct H as [<-|H]; auto. left. apply memt_In; auto.
  - simpl. destruct H as [<-|H]; auto.
    destruct (IH (mg_name g :: seen) x H) as [[<-|H1]|H1]; auto.
Qed.

Lemma dedup_t_In l : forall seen x, In x l -> In x seen \/ In x (dedup_t seen l).
Proof.
  induction l as [|g l IH]; simpl; intros seen x H; [tauto|].
  destruct (memt g seen) eqn:E.
  - destruct H as [<-|H]; auto. left. apply memt_In; auto.
  - simpl. destruct H as [<-|H]; auto.
    destruct (IH (g :: seen) x H) as [[<-|H1]|H1]; auto.
Qed.

Lemma dedup_t_sub l : forall seen x, In x (dedup_t seen l) -> In x l /\ ~ In x seen.
Proof.
  induction l as [|g l IH]; simpl; intros seen x H; [tauto|].
  destruct (memt g seen) eqn:E.
  - apply IH in H. tauto.
  - destruct H as [<-|H].
    + split; auto. apply memt_false; auto.
    + apply IH in H. simpl in H. tauto.
Qed.

Lemma dedup_t_NoDup l : forall seen, NoDup (dedup_t seen l).
Proof.
  induction l as [|g l IH]; simpl; intros seen; [constructor|].
  destruct (memt g seen) eqn:E; auto.
  constructor; auto. intro H. apply dedup_t_sub in H. simpl in H. tauto.
Qed.

(* ---------------------------------------------------------------- messages *)
Lemma all_msgs_In ms : forall raw, all_msgs ms = ROk raw ->
  forall m, In m ms -> exists mm, meth_msgs m = ROk mm /\ incl mm raw.
Proof.
  induction ms as [|m0 ms IH]; simpl; intros raw H m Hm; [tauto|].
  destruct (meth_msgs m0) as [a0|] eqn:E0; simpl in H; try discriminate.
  destruct (all_msgs ms) as [b0|] eqn:E1; simpl in H; try discriminate.
  inversion H; subst. destruct Hm as [<-|Hm].
  - exists a0. split; auto. apply incl_appl, incl_refl.
  - destruct (IH _ eq_refl m Hm) as (mm & A & B). exists mm. split; auto. apply incl_appr; auto.
Qed.

Lemma meth_msgs_names m mm : meth_msgs m = ROk mm ->
  In (m_ename (me_in m)) (map mg_name mm) /\ In (m_ename (me_out m)) (map mg_name mm) /\
  (forall f, In f (me_faults m) -> In (m_tn f) (map mg_name mm)) /\
  (forall hs n, me_inh m = Some hs -> header_msg_name m in_header_suffix hs = ROk n -> In n (map mg_name mm)) /\
  (forall hs n, me_outh m = Some hs -> header_msg_name m out_header_suffix hs = ROk n -> In n (map mg_name mm)).
Proof.
  unfold meth_msgs. intros H.
  destruct (me_inh m) as [hi|] eqn:Ei; simpl in H.
  - destruct (header_msg_name m in_header_suffix hi) as [ni|] eqn:Ni; simpl in H; try discriminate.
    destruct (me_outh m) as [ho|] eqn:Eo; simpl in H.
    + destruct (header_msg_name m out_header_suffix ho) as [no|] eqn:No; simpl in H; try discriminate.
      inversion H; subst; clear H. simpl. repeat split; auto.
      * intros f Hf. right. right. right. right. rewrite map_map. simpl. apply in_map_iff. eauto.
      * intros hs n E1 E2. inversion E1; subst. rewrite Ni in E2. inversion E2; subst. auto.
      * intros hs n E1 E2. inversion E1; subst. rewrite No in E2. inversion E2; subst. auto.
    + inversion H; subst; clear H. simpl. repeat split; auto.
      * intros f Hf. right. right. right. rewrite map_map. simpl. apply in_map_iff. eauto.
      * intros hs n E1 E2. inversion E1; subst. rewrite Ni in E2. inversion E2; subst. auto.
      * intros hs n E1. discriminate.
  - destruct (me_outh m) as [ho|] eqn:Eo; simpl in H.
    + destruct (header_msg_name m out_header_suffix ho) as [no|] eqn:No; simpl in H; try discriminate.
      inversion H; subst; clear H. simpl. repeat split; auto.
      * intros f Hf. right. right. right. rewrite map_map. simpl. apply in_map_iff. eauto.
      * intros hs n E1. discriminate.
      * intros hs n E1 E2. inversion E1; subst. rewrite No in E2. inversion E2; subst. auto.
    + inversion H; subst; clear H. simpl. repeat split; auto.
      * intros f Hf. right. right. rewrite map_map. simpl. apply in_map_iff. eauto.
      * intros hs n E1. discriminate.
      * intros hs n E1. discriminate.
Qed.

(* ---------------------------------------------------------------- inversion of the build *)
Lemma wsdl_of_inv perm a d : wsdl_of perm a = ROk d ->
  exists raw, all_msgs (all_meths a) = ROk raw /\ check_ports a = true /\
    d_tns d = a_tns a /\ d_msgs d = dedup_msgs [] raw /\ d_svcs d = services a /\
    d_pts d = porttypes a /\ d_binds d = bindings a.
Proof.
  unfold wsdl_of. intros H.
  destruct (toposort2 perm (class_key a) (a_deps a)); simpl in H; try discriminate.
  destruct (add_all _ _ _); simpl in H; try discriminate.
  destruct (schemas_of _ _); simpl in H; try discriminate.
  destruct (missing _ _ _) as [els2 trm].
  destruct (all_msgs (all_meths a)) as [raw|] eqn:E; simpl in H; try discriminate.
  destruct (check_ports a) eqn:C; simpl in H; try discriminate.
  inversion H; subst; clear H. simpl. exists raw. repeat split; auto.
Qed.

Lemma name_defined a raw m mm x :
  all_msgs (all_meths a) = ROk raw -> In m (all_meths a) -> meth_msgs m = ROk mm -> incl mm raw ->
  In x (map mg_name mm) -> In x (map mg_name (dedup_msgs [] raw)).
Proof.
  intros _ _ _ INC H.
  assert (In x (map mg_name raw)) as Hr.
  { apply in_map_iff in H as (g & <- & Hg). apply in_map. apply INC. auto. }
  destruct (dedup_msgs_In raw [] x Hr) as [[]|]; auto.
Qed.

(* ---------------------------------------------------------------- check_method_port *)
Lemma check_ports_pt a s m : check_ports a = true -> In s (a_svcs a) -> In m (s_meths s) ->
  In (meth_pt a m) (svc_ptnames a s) /\
  (is_nil (s_ports s) = true -> me_port m = None) /\
  (is_nil (s_ports s) = false -> exists p, me_port m = Some p /\ In p (s_ports s)).
Proof.
  unfold check_ports. rewrite forallb_forall. intros H Hs Hm.
  specialize (H s Hs). rewrite forallb_forall in H. specialize (H m Hm).
  unfold check_port in H. unfold meth_pt, svc_ptnames.
  destruct (me_port m) as [p|].
  - apply andb_true_iff in H as [H1 H2]. apply negb_true_iff in H1. rewrite H1.
    apply memt_In in H2. repeat split; auto; try discriminate. eauto.
  - rewrite H. repeat split; simpl; auto. discriminate.
Qed.

(* ---------------------------------------------------------------- bindings *)
Lemma in_all_meths a s m : In s (a_svcs a) -> In m (s_meths s) -> In m (all_meths a).
Proof. intros. unfold all_meths. apply in_flat_map. eauto. Qed.

Definition ptnames (a : snap) : list text := dedup_t [] (flat_map (svc_ptnames a) (a_svcs a)).

Lemma ptnames_has a s n : In s (a_svcs a) -> In n (svc_ptnames a s) -> In n (ptnames a).
Proof.
  intros Hs Hn. unfold ptnames.
  destruct (dedup_t_In (flat_map (svc_ptnames a) (a_svcs a)) [] n) as [[]|]; auto.
  apply in_flat_map. eauto.
Qed.

Lemma bindings_names a : map b_name (bindings a) = ptnames a.
Proof. unfold bindings, ptnames. rewrite map_map. simpl. apply map_id. Qed.

Lemma porttypes_names a : map pt_name (porttypes a) = ptnames a.
Proof. unfold porttypes, ptnames. rewrite map_map. simpl. apply map_id. Qed.

Lemma bindings_inv a b : In b (bindings a) ->
  exists n, In n (ptnames a) /\ b = {| b_name := n; b_type := (a_tns a, n); b_ops := flat_map (bind_ops a n) (a_svcs a) |}.
Proof. unfold bindings. intros H. apply in_map_iff in H as (n & <- & Hn). exists n. auto. Qed.

Lemma bindings_has a n : In n (ptnames a) ->
  In {| b_name := n; b_type := (a_tns a, n); b_ops := flat_map (bind_ops a n) (a_svcs a) |} (bindings a).
Proof. intros H. unfold bindings. apply in_map_iff. exists n. auto. Qed.

Lemma bind_ops_src a n s o : In o (bind_ops a n s) -> exists m, In m (s_meths s) /\ o = mk_bop a m.
Proof.
  unfold bind_ops. destruct (is_nil (s_ports s)).
  - destruct (text_eqb (a_name a) n); simpl; [|tauto].
    intros H. apply in_map_iff in H as (m & <- & Hm). eauto.
  - intros H. apply in_flat_map in H as (p & _ & H).
    destruct (text_eqb p n); simpl in H; [|tauto].
    apply in_map_iff in H as (m & <- & Hm). apply filter_In in Hm as [Hm _]. eauto.
Qed.

Lemma bindings_ops_src a b o : In b (bindings a) -> In o (b_ops b) ->
  exists m, In m (all_meths a) /\ o = mk_bop a m.
Proof.
  intros Hb Ho. apply bindings_inv in Hb as (n & _ & ->). simpl in Ho.
  apply in_flat_map in Ho as (s & Hs & Ho). apply bind_ops_src in Ho as (m & Hm & ->).
  exists m. split; auto. eapply in_all_meths; eauto.
Qed.

(** the method's own service hands its operation to the binding of its port type *)
Lemma bind_ops_has a s m : check_ports a = true -> In s (a_svcs a) -> In m (s_meths s) ->
  In (mk_bop a m) (bind_ops a (meth_pt a m) s).
Proof.
  intros CP Hs Hm. destruct (check_ports_pt a s m CP Hs Hm) as (_ & P2 & P3).
  unfold bind_ops. destruct (is_nil (s_ports s)) eqn:E.
  - unfold meth_pt. rewrite (P2 eq_refl). rewrite text_eqb_refl. apply in_map. auto.
  - destruct (P3 eq_refl) as (p & Ep & Hp). unfold meth_pt. rewrite Ep.
    apply in_flat_map. exists p. split; auto. rewrite text_eqb_refl.
    apply in_map. apply filter_In. split; auto. unfold opt_is. rewrite Ep. apply text_eqb_refl.
Qed.

(** with no port type listed twice in a service, a service hands to the binding
    named [n] exactly its methods of port type [n], in order *)
Lemma flat_map_single {B} (g : text -> list B) n l : NoDup l -> In n l ->
  flat_map (fun p => if text_eqb p n then g p else []) l = g n.
Proof.
  induction l as [|x l IH]; simpl; intros ND H; [tauto|].
  inversion ND as [|? ? N ND']; subst.
  destruct (text_eqb x n) eqn:E.
  - apply text_eqb_eq in E. subst x.
    assert (flat_map (fun p => if text_eqb p n then g p else []) l = []) as ->; [|apply app_nil_r].
    clear -N. induction l as [|y l IH]; simpl; auto.
    destruct (text_eqb y n) eqn:E.
    + apply text_eqb_eq in E. subst. exfalso. apply N. left. auto.
    + apply IH. intro. apply N. right. auto.
  - simpl. destruct H as [->|H]; [rewrite text_eqb_refl in E; discriminate|]. auto.
Qed.

Lemma flat_map_none {B} (g : text -> list B) n l : ~ In n l ->
  flat_map (fun p => if text_eqb p n then g p else []) l = [].
Proof.
  induction l as [|y l IH]; simpl; intros N; auto.
  destruct (text_eqb y n) eqn:E.
  - apply text_eqb_eq in E. subst. exfalso. apply N. left. auto.
  - apply IH. intro. apply N. right. auto.
Qed.

Lemma filter_ext_in' {A} (p q : A -> bool) l : (forall x, In x l -> p x = q x) -> filter p l = filter q l.
Proof.
  induction l as [|x l IH]; simpl; intros H; auto.
  rewrite (H x) by auto. rewrite IH by (intros; apply H; auto). reflexivity.
Qed.

Lemma filter_none {A} (p : A -> bool) l : (forall x, In x l -> p x = false) -> filter p l = [].
Proof.
  induction l as [|x l IH]; simpl; intros H; auto.
  rewrite (H x) by auto. apply IH. intros; apply H; auto.
Qed.

Lemma bind_ops_exact a s n : check_ports a = true -> In s (a_svcs a) -> NoDup (s_ports s) ->
  bind_ops a n s = map (mk_bop a) (filter (fun m => text_eqb (meth_pt a m) n) (s_meths s)).
Proof.
  intros CP Hs ND. unfold bind_ops. destruct (is_nil (s_ports s)) eqn:E.
  - assert (forall m, In m (s_meths s) -> meth_pt a m = a_name a) as PT.
    { intros m Hm. destruct (check_ports_pt a s m CP Hs Hm) as (_ & P2 & _).
      unfold meth_pt. rewrite (P2 E). reflexivity. }
    destruct (text_eqb (a_name a) n) eqn:En.
    + f_equal. symmetry. rewrite (filter_ext_in' _ (fun _ => true)).
      * clear. induction (s_meths s); simpl; congruence.
      * intros m Hm. rewrite (PT m Hm). auto.
    + rewrite filter_none; auto. intros m Hm. rewrite (PT m Hm). auto.
  - assert (forall m, In m (s_meths s) -> exists p, me_port m = Some p /\ In p (s_ports s)) as PT.
    { intros m Hm. destruct (check_ports_pt a s m CP Hs Hm) as (_ & _ & P3). apply P3. exact E. }
    destruct (in_dec (list_eq_dec Z.eq_dec) n (s_ports s)) as [Hn|Hn].
    + rewrite (flat_map_single (fun p => map (mk_bop a) (filter (fun m => opt_is (me_port m) p) (s_meths s))) n _ ND Hn).
      f_equal. apply filter_ext_in'. intros m Hm. destruct (PT m Hm) as (p & Ep & _).
      unfold opt_is, meth_pt. rewrite Ep. reflexivity.
    + rewrite flat_map_none by auto. rewrite filter_none; auto.
      intros m Hm. destruct (PT m Hm) as (p & Ep & Hp). unfold meth_pt. rewrite Ep.
      apply text_eqb_neq. intros ->. contradiction.
Qed.

Lemma flat_map_map_filter {A B C} (f : B -> C) (p : B -> bool) (g : A -> list B) l :
  flat_map (fun s => map f (filter p (g s))) l = map f (filter p (flat_map g l)).
Proof.
  induction l as [|x l IH]; simpl; auto.
  rewrite IH. rewrite filter_app, map_app. reflexivity.
Qed.

Lemma flat_map_ext_in' {A B} (f g : A -> list B) l : (forall x, In x l -> f x = g x) -> flat_map f l = flat_map g l.
Proof.
  induction l as [|x l IH]; simpl; intros H; auto.
  rewrite (H x) by auto. rewrite IH by (intros; apply H; auto). reflexivity.
Qed.

(** ... so the binding named [n] lists, in the same order, the operations of the
    port type named [n] *)
Lemma binding_ops_exact a n : check_ports a = true -> (forall s, In s (a_svcs a) -> NoDup (s_ports s)) ->
  flat_map (bind_ops a n) (a_svcs a) =
  map (mk_bop a) (filter (fun m => text_eqb (meth_pt a m) n) (all_meths a)).
Proof.
  intros CP ND. unfold all_meths. rewrite <- flat_map_map_filter.
  apply flat_map_ext_in'. intros s Hs. apply bind_ops_exact; auto.
Qed.

(* ---------------------------------------------------------------- grouping by port type *)
Lemma flat_map_filter_skip {A B} (f : A -> B) (key : A -> text) x l ns : ~ In (key x) ns ->
  flat_map (fun n => map f (filter (fun y => text_eqb (key y) n) (x :: l))) ns =
  flat_map (fun n => map f (filter (fun y => text_eqb (key y) n) l)) ns.
Proof.
  induction ns as [|n ns IH]; intros H; auto.
  cbn [flat_map]. rewrite IH by (intro; apply H; right; auto).
  f_equal. simpl. destruct (text_eqb (key x) n) eqn:E; auto.
  apply text_eqb_eq in E. exfalso. apply H. left. auto.
Qed.

Lemma group_perm {A B} (f : A -> B) (key : A -> text) l : forall ns, NoDup ns ->
  (forall x, In x l -> In (key x) ns) ->
  Permutation (flat_map (fun n => map f (filter (fun y => text_eqb (key y) n) l)) ns) (map f l).
Proof.
  induction l as [|x l IH]; intros ns ND ALL.
  - simpl. clear. induction ns; simpl; auto.
  - assert (In (key x) ns) as Hk by (apply ALL; left; auto).
    apply in_split in Hk as (n1 & n2 & ->).
    apply NoDup_remove_2 in ND as ND2.
    set (F := fun (l0 : list A) (n : text) => map f (filter (fun y => text_eqb (key y) n) l0)).
    change (Permutation (flat_map (F (x :: l)) (n1 ++ key x :: n2)) (map f (x :: l))).
    rewrite flat_map_app. cbn [flat_map].
    assert (F (x :: l) (key x) = f x :: F l (key x)) as ->
      by (unfold F; simpl; rewrite text_eqb_refl; reflexivity).
    assert (forall ns, ~ In (key x) ns -> flat_map (F (x :: l)) ns = flat_map (F l) ns) as SK
      by (intros; apply flat_map_filter_skip; auto).
    rewrite (SK n1), (SK n2) by (intro; apply ND2; apply in_or_app; auto).
    simpl. rewrite <- Permutation_middle. constructor.
    specialize (IH (n1 ++ key x :: n2)).
    change (NoDup (n1 ++ key x :: n2) -> (forall x0, In x0 l -> In (key x0) (n1 ++ key x :: n2)) ->
            Permutation (flat_map (F l) (n1 ++ key x :: n2)) (map f l)) in IH.
    rewrite flat_map_app in IH. cbn [flat_map] in IH. apply IH.
    + exact ND.
    + intros y Hy. apply ALL. right. auto.
Qed.

Lemma op_matches_mk a m : op_matches (mk_ptop a m) (mk_bop a m).
Proof. unfold op_matches. simpl. repeat split; auto. rewrite map_map. reflexivity. Qed.

(* ---------------------------------------------------------------- the theorems *)
Theorem wsdl_closed_thm perm a d :
  wsdl_of perm a = ROk d -> faults_in_tns a -> wsdl_closed d.
Proof.
  intros H FT. apply wsdl_of_inv in H as (raw & RAW & CP & TNS & MS & SV & PT & BD).
  assert (forall m, In m (all_meths a) -> exists mm, meth_msgs m = ROk mm /\
            forall x, In x (map mg_name mm) -> In x (map mg_name (d_msgs d))) as DEF.
  { intros m Hm. destruct (all_msgs_In _ _ RAW m Hm) as (mm & A & B). exists mm. split; auto.
    intros x Hx. rewrite MS. eapply name_defined; eauto. }
  unfold wsdl_closed, msg_defined. rewrite TNS, PT, BD, SV. repeat split.
  - apply in_map_iff in H as (n & <- & _). simpl in H0.
    apply in_map_iff in H0 as (m & <- & Hm). simpl. auto.
  - apply in_map_iff in H as (n & <- & _). simpl in H0.
    apply in_map_iff in H0 as (m & <- & Hm). apply filter_In in Hm as [Hm _]. simpl.
    destruct (DEF m Hm) as (mm & A & B). apply B. apply (meth_msgs_names _ _ A).
  - apply in_map_iff in H as (n & <- & _). simpl in H0.
    apply in_map_iff in H0 as (m & <- & Hm). simpl. auto.
  - apply in_map_iff in H as (n & <- & _). simpl in H0.
    apply in_map_iff in H0 as (m & <- & Hm). apply filter_In in Hm as [Hm _]. simpl.
    destruct (DEF m Hm) as (mm & A & B). apply B. apply (meth_msgs_names _ _ A).
  - apply in_map_iff in H as (n & <- & _). simpl in H0.
    apply in_map_iff in H0 as (m & <- & Hm). apply filter_In in Hm as [Hm _]. simpl in H1.
    apply in_map_iff in H1 as (f0 & <- & Hf). simpl. eapply FT; eauto.
  - apply in_map_iff in H as (n & <- & _). simpl in H0.
    apply in_map_iff in H0 as (m & <- & Hm). apply filter_In in Hm as [Hm _]. simpl in H1.
    apply in_map_iff in H1 as (f0 & <- & Hf). simpl.
    destruct (DEF m Hm) as (mm & A & B). apply B. apply (meth_msgs_names _ _ A). auto.
  - apply bindings_inv in H as (n & _ & ->). auto.
  - rewrite porttypes_names. apply bindings_inv in H as (n & Hn & ->). auto.
  - apply in_map_iff in H as (n & <- & _). simpl in H0.
    apply in_flat_map in H0 as (s0 & Hs0 & Hp). apply in_map_iff in Hp as (pn & <- & _). auto.
  - apply in_map_iff in H as (n & <- & _). simpl in H0.
    apply in_flat_map in H0 as (s0 & Hs0 & Hp). apply filter_In in Hs0 as [Hs0 _].
    apply in_map_iff in Hp as (pn & <- & Hpn). simpl.
    rewrite bindings_names. eapply ptnames_has; eauto.
  - destruct (bindings_ops_src _ _ _ H H0) as (m & Hm & ->). simpl in H1.
    apply in_app_iff in H1 as [H1|H1]; unfold hdr_refs in H1.
    + destruct (me_inh m) as [hs|]; [|destruct H1].
      destruct (header_msg_name m in_header_suffix hs); [|destruct H1].
      apply in_map_iff in H1 as (h0 & <- & _). auto.
    + destruct (me_outh m) as [hs|]; [|destruct H1].
      destruct (header_msg_name m out_header_suffix hs); [|destruct H1].
      apply in_map_iff in H1 as (h0 & <- & _). auto.
  - destruct (bindings_ops_src _ _ _ H H0) as (m & Hm & ->). simpl in H1.
    destruct (DEF m Hm) as (mm & A & B). apply B.
    apply in_app_iff in H1 as [H1|H1]; unfold hdr_refs in H1.
    + destruct (me_inh m) as [hs|] eqn:E; [|destruct H1].
      destruct (header_msg_name m in_header_suffix hs) eqn:N; [|destruct H1].
      apply in_map_iff in H1 as (h0 & <- & _). simpl.
      eapply (proj1 (proj2 (proj2 (proj2 (meth_msgs_names _ _ A))))); eauto.
    + destruct (me_outh m) as [hs|] eqn:E; [|destruct H1].
      destruct (header_msg_name m out_header_suffix hs) eqn:N; [|destruct H1].
      apply in_map_iff in H1 as (h0 & <- & _). simpl.
      eapply (proj2 (proj2 (proj2 (proj2 (meth_msgs_names _ _ A))))); eauto.
Qed.

Theorem one_op_thm perm a d : wsdl_of perm a = ROk d -> one_op a d.
Proof.
  intros H. apply wsdl_of_inv in H as (raw & RAW & CP & TNS & MS & SV & PT & BD).
  unfold one_op. rewrite PT, BD, TNS.
  assert (forall m, In m (all_meths a) -> exists s, In s (a_svcs a) /\ In m (s_meths s)) as SM.
  { intros m Hm. apply in_flat_map in Hm. auto. }
  repeat split.
  - unfold porttypes. rewrite flat_map_concat_map, map_map, <- flat_map_concat_map. simpl.
    unfold pt_ops_of. apply group_perm.
    + apply dedup_t_NoDup.
    + intros m Hm. destruct (SM m Hm) as (s & Hs & Hms).
      eapply ptnames_has; eauto. apply (check_ports_pt a s m CP Hs Hms).
  - rewrite porttypes_names. apply dedup_t_NoDup.
  - intros p o Hp Ho. apply in_map_iff in Hp as (n & <- & _). simpl in Ho.
    apply in_map_iff in Ho as (m & <- & Hm). apply filter_In in Hm as [Hm E].
    exists m. simpl. apply text_eqb_eq in E. auto.
  - intros m Hm. destruct (SM m Hm) as (s & Hs & Hms).
    eexists. split; [apply (bindings_has a (meth_pt a m))|split; [reflexivity|split; [|apply op_matches_mk]]].
    + eapply ptnames_has; eauto. apply (check_ports_pt a s m CP Hs Hms).
    + simpl. apply in_flat_map. exists s. split; auto. apply bind_ops_has; auto.
  - intros b o Hb Ho. eapply bindings_ops_src; eauto.
Qed.

(** binding names are unique (services that share a port type share its binding) *)
Theorem binding_unique_thm perm a d : wsdl_of perm a = ROk d ->
  NoDup (map b_name (d_binds d)) /\ map b_name (d_binds d) = map pt_name (d_pts d).
Proof.
  intros H. apply wsdl_of_inv in H as (raw & RAW & CP & TNS & MS & SV & PT & BD).
  rewrite BD, PT, bindings_names, porttypes_names. split; auto. apply dedup_t_NoDup.
Qed.

(** port types and bindings pair off: the i-th binding is the binding of the i-th
    port type and lists, in the same order, one matching operation for each of its
    operations -- so every exposed method is exactly one binding operation too *)
Definition bind_matches (p : porttype) (b : binding) (tns : text) : Prop :=
  b_name b = pt_name p /\ b_type b = (tns, pt_name p) /\ Forall2 op_matches (pt_ops p) (b_ops b).

Lemma Forall2_map2 {A B C} (R : B -> C -> Prop) (f : A -> B) (g : A -> C) l :
  (forall x, In x l -> R (f x) (g x)) -> Forall2 R (map f l) (map g l).
Proof. induction l; simpl; intros H; constructor; auto. Qed.

Theorem binding_ops_thm perm a d : wsdl_of perm a = ROk d ->
  (forall s, In s (a_svcs a) -> NoDup (s_ports s)) ->
  Forall2 (fun p b => bind_matches p b (d_tns d)) (d_pts d) (d_binds d) /\
  Permutation (flat_map b_ops (d_binds d)) (map (mk_bop a) (all_meths a)).
Proof.
  intros H ND. pose proof (one_op_thm _ _ _ H) as (OP & _).
  apply wsdl_of_inv in H as (raw & RAW & CP & TNS & MS & SV & PT & BD).
  rewrite BD, TNS. rewrite PT in *. split.
  - unfold porttypes, bindings. apply Forall2_map2. intros n _.
    unfold bind_matches. simpl. repeat split.
    rewrite (binding_ops_exact a n CP ND). unfold pt_ops_of.
    apply Forall2_map2. intros m _. apply op_matches_mk.
  - unfold bindings. rewrite flat_map_concat_map, map_map, <- flat_map_concat_map. simpl.
    rewrite (flat_map_ext_in' _ (fun n => map (mk_bop a) (filter (fun m => text_eqb (meth_pt a m) n) (all_meths a)))).
    + apply group_perm.
      * apply dedup_t_NoDup.
      * intros m Hm. apply in_flat_map in Hm as (s & Hs & Hms).
        eapply ptnames_has; eauto. apply (check_ports_pt a s m CP Hs Hms).
    + intros n _. apply binding_ops_exact; auto.
Qed.
