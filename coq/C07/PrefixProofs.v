(** C07 -- Interface.get_namespace_prefix: the prefix tables stay mutually
    consistent over any sequence of calls, no prefix is given to two namespaces,
    earlier answers never change, and the "while pref in nsmap" loop terminates. *)
From Coq Require Import ZArith List Bool Lia Permutation.
From SpyneV Require Import Base.Prelude Base.Digits Base.DigitsProofs C07.Model C07.SortProofs.
Import ListNotations.
Open Scope Z_scope.

Lemma lookup_app {B} k (m : list (text * B)) k' v :
  lookup k (m ++ [(k', v)]) =
  match lookup k m with Some x => Some x | None => if text_eqb k k' then Some v else None end.
Proof.
  induction m as [|[k0 v0] m IH]; simpl; auto.
  destruct (text_eqb k k0); auto.
Qed.

Lemma lookup_In {B} k (m : list (text * B)) v : lookup k m = Some v -> In k (map fst m).
Proof.
  induction m as [|[k0 v0] m IH]; simpl; try discriminate.
  destruct (text_eqb k k0) eqn:E; intros H.
  - left. apply text_eqb_eq in E. auto.
  - right. auto.
Qed.

Lemma spref_inj a b : spref a = spref b -> a = b.
Proof.
  unfold spref. intros H. apply app_inv_head in H as H1.   (* whatever the stem is *)
  pose proof (int_of_text_str_int a) as Ha. pose proof (int_of_text_str_int b) as Hb.
  rewrite H1 in Ha. congruence.
Qed.

Lemma find_free_spec fuel m : forall c c', find_free fuel m c = Some c' -> lookup (spref c') m = None /\ c <= c'.
Proof.
  induction fuel as [|f IH]; simpl; intros c c' H; try discriminate.
  destruct (lookup (spref c) m) eqn:E.
  - apply IH in H. intuition lia.
  - inversion H; subst. split; auto. lia.
Qed.

Lemma find_free_none fuel m : forall c, find_free fuel m c = None ->
  forall i, (i < fuel)%nat -> In (spref (c + Z.of_nat i)) (map fst m).
Proof.
  induction fuel as [|f IH]; simpl; intros c H i Hi; try lia.
  destruct (lookup (spref c) m) eqn:E; try discriminate.
  destruct i as [|i].
  - rewrite Z.add_0_r. eapply lookup_In; eauto.
  - replace (c + Z.of_nat (S i)) with ((c + 1) + Z.of_nat i) by lia. apply IH; auto. lia.
Qed.

(** the loop "while pref in self.nsmap" always finds a free prefix within |nsmap|+1 steps *)
Lemma find_free_total m c : find_free (S (length m)) m c <> None.
Proof.
  intro H.
  pose proof (find_free_none _ _ _ H) as Hall.
  set (cands := map (fun i => spref (c + Z.of_nat i)) (seq 0 (S (length m)))).
  assert (NoDup cands) as ND.
  { unfold cands. apply FinFun.Injective_map_NoDup; [|apply seq_NoDup].
    intros i j E. apply spref_inj in E. lia. }
  assert (incl cands (map fst m)) as INC.
  { unfold cands. intros x Hx. apply in_map_iff in Hx as [i [<- Hi]]. apply in_seq in Hi.
    apply Hall. lia. }
  pose proof (NoDup_incl_length ND INC) as L.
  unfold cands in L. rewrite !map_length, seq_length in L. lia.
Qed.

(** consistency of the two tables *)
Definition pst_wf (st : pstate) : Prop :=
  forall ns p, lookup ns (prefmap st) = Some p -> lookup p (nsmap st) = Some ns.

(** later states extend earlier ones *)
Definition pst_le (s1 s2 : pstate) : Prop :=
  (forall ns p, lookup ns (prefmap s1) = Some p -> lookup ns (prefmap s2) = Some p) /\
  (forall p ns, lookup p (nsmap s1) = Some ns -> lookup p (nsmap s2) = Some ns).

Lemma pst_le_refl s : pst_le s s.
Proof. split; auto. Qed.
Lemma pst_le_trans a b c : pst_le a b -> pst_le b c -> pst_le a c.
Proof. intros [A1 A2] [B1 B2]. split; auto. Qed.

Lemma get_prefix_ok st ns :
  pst_wf st ->
  exists p st', get_prefix st ns = ROk (p, st') /\ pst_wf st' /\ pst_le st st' /\
                lookup ns (prefmap st') = Some p /\ lookup p (nsmap st') = Some ns.
Proof.
  intros WF. unfold get_prefix.
  destruct (lookup ns (prefmap st)) as [p|] eqn:E.
  - exists p, st. repeat split; auto.
  - destruct (find_free (S (length (nsmap st))) (nsmap st) (counter st)) as [c|] eqn:F.
    2:{ exfalso. eapply find_free_total; eauto. }
    apply find_free_spec in F as [F _].
    eexists; eexists; split; [reflexivity|]. unfold pst_wf, pst_le. simpl.
    split; [|split; [split|split]].
    + intros ns' p'. rewrite !lookup_app.
      destruct (lookup ns' (prefmap st)) as [q|] eqn:E'.
      * intros H; inversion H; subst. rewrite (WF _ _ E'). auto.
      * destruct (text_eqb ns' ns) eqn:E2; try discriminate.
        intros H; inversion H; subst. rewrite F. rewrite text_eqb_refl.
        apply text_eqb_eq in E2. congruence.
    + intros ns' p' H. rewrite lookup_app, H. auto.
    + intros p' ns' H. rewrite lookup_app, H. auto.
    + rewrite lookup_app, E, text_eqb_refl. auto.
    + rewrite lookup_app, F, text_eqb_refl. auto.
Qed.

Lemma alloc_all_ok l : forall st, pst_wf st ->
  exists st', alloc_all st l = ROk st' /\ pst_wf st' /\ pst_le st st' /\
              forall ns, In ns l -> exists p, lookup ns (prefmap st') = Some p /\ lookup p (nsmap st') = Some ns.
Proof.
  induction l as [|ns l IH]; intros st WF; simpl.
  - exists st. repeat split; auto. intros ? [].
  - destruct (get_prefix_ok st ns WF) as (p & st1 & E & WF1 & LE1 & L1 & L2).
    rewrite E. simpl.
    destruct (IH st1 WF1) as (st' & E' & WF' & LE' & ALL).
    exists st'. repeat split; auto.
    + eapply pst_le_trans; eauto.
    + eapply pst_le_trans; eauto.
    + intros ns' [<-|H]; auto.
      exists p. destruct LE' as [A B]. split; auto.
Qed.

(** no prefix is ever given to two namespaces *)
Lemma pst_wf_inj st ns1 ns2 p :
  pst_wf st -> lookup ns1 (prefmap st) = Some p -> lookup ns2 (prefmap st) = Some p -> ns1 = ns2.
Proof. intros WF H1 H2. apply WF in H1, H2. congruence. Qed.
