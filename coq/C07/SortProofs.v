(** C07 -- basic list/text lemmas, the order on texts, insertion sort. *)
From Coq Require Import ZArith List Bool Lia Permutation Sorted.
From SpyneV Require Import Base.Prelude C07.Model.
Import ListNotations.
Open Scope Z_scope.

Lemma text_eqb_eq a : forall b, text_eqb a b = true <-> a = b.
Proof.
  induction a as [|x a IH]; destruct b as [|y b]; simpl; split; intro H; try congruence; auto.
  - apply andb_true_iff in H as [H1 H2]. apply Z.eqb_eq in H1. apply IH in H2. congruence.
  - inversion H; subst. rewrite Z.eqb_refl. simpl. apply IH. reflexivity.
Qed.
Lemma text_eqb_refl a : text_eqb a a = true.
Proof. apply text_eqb_eq. reflexivity. Qed.
Lemma text_eqb_neq a b : text_eqb a b = false <-> a <> b.
Proof.
  split; intro H.
  - intro E. apply text_eqb_eq in E. congruence.
  - destruct (text_eqb a b) eqn:E; auto. apply text_eqb_eq in E. contradiction.
Qed.

Lemma memt_In x l : memt x l = true <-> In x l.
Proof.
  induction l as [|y l IH]; simpl.
  - split; [discriminate | tauto].
  - rewrite orb_true_iff, IH, text_eqb_eq. split; intros [H|H]; auto.
Qed.
Lemma memz_In x l : memz x l = true <-> In x l.
Proof.
  induction l as [|y l IH]; simpl.
  - split; [discriminate | tauto].
  - rewrite orb_true_iff, IH, Z.eqb_eq. split; intros [H|H]; auto.
Qed.
Lemma memt_false x l : memt x l = false <-> ~ In x l.
Proof.
  rewrite <- memt_In. destruct (memt x l); split; intro H; auto; try discriminate.
  exfalso. apply H. auto.
Qed.

(* ---- lexicographic order on texts *)
Lemma text_ltb_irrefl a : text_ltb a a = false.
Proof. induction a; simpl; auto. rewrite Z.ltb_irrefl. auto. Qed.

Lemma text_ltb_trans a : forall b c, text_ltb a b = true -> text_ltb b c = true -> text_ltb a c = true.
Proof.
  induction a as [|x a IH]; destruct b as [|y b]; destruct c as [|z c]; simpl; intros H1 H2; try congruence; auto.
  destruct (x <? y) eqn:E1; destruct (y <? z) eqn:E2;
    destruct (x <? z) eqn:E3; auto;
    destruct (y <? x) eqn:E4; destruct (z <? y) eqn:E5; destruct (z <? x) eqn:E6; try congruence; try lia.
  eapply IH; eauto.
Qed.

Lemma text_ltb_total a : forall b, text_ltb a b = false -> text_ltb b a = false -> a = b.
Proof.
  induction a as [|x a IH]; destruct b as [|y b]; simpl; intros H1 H2; try congruence.
  destruct (x <? y) eqn:E1; destruct (y <? x) eqn:E2; try congruence.
  assert (x = y) by lia. subst. f_equal. apply IH; auto.
Qed.

Lemma text_ltb_asym a : forall b, text_ltb a b = true -> text_ltb b a = false.
Proof.
  induction a as [|x a IH]; destruct b as [|y b]; simpl; intros H; try congruence.
  destruct (x <? y) eqn:E1; destruct (y <? x) eqn:E2; try congruence; try lia. apply IH; auto.
Qed.

Lemma text_leb_total a b : text_leb a b = true \/ text_leb b a = true.
Proof.
  unfold text_leb. destruct (text_ltb b a) eqn:E; simpl; auto.
  right. rewrite (text_ltb_asym _ _ E). reflexivity.
Qed.
Lemma text_leb_antisym a b : text_leb a b = true -> text_leb b a = true -> a = b.
Proof.
  unfold text_leb. intros H1 H2. apply negb_true_iff in H1, H2. apply text_ltb_total; auto.
Qed.
Lemma text_leb_trans a b c : text_leb a b = true -> text_leb b c = true -> text_leb a c = true.
Proof.
  unfold text_leb. intros H1 H2. apply negb_true_iff in H1, H2. apply negb_true_iff.
  destruct (text_ltb c a) eqn:E; auto.
  (* c < a, not b < a, not c < b : then a <= b <= c < a *)
  destruct (text_ltb a b) eqn:E1.
  - rewrite (text_ltb_trans _ _ _ E E1) in H2. discriminate.
  - assert (a = b) by (apply text_ltb_total; auto). subst. congruence.
Qed.

(* ---- insertion sort *)
Section SortP.
  Context {A : Type} (leb : A -> A -> bool).
  Hypothesis leb_total : forall x y, leb x y = true \/ leb y x = true.
  Hypothesis leb_trans : forall x y z, leb x y = true -> leb y z = true -> leb x z = true.
  Notation R := (fun x y => leb x y = true).

  Lemma insert_perm x l : Permutation (insert leb x l) (x :: l).
  Proof.
    induction l as [|y l IH]; simpl; auto.
    destruct (leb y x); auto.
    rewrite IH. apply perm_swap.
  Qed.

  Lemma isort_acc_perm l : forall acc, Permutation (fold_left (fun acc x => insert leb x acc) l acc) (l ++ acc).
  Proof.
    induction l as [|x l IH]; intros acc; simpl; auto.
    rewrite IH. rewrite insert_perm. symmetry. apply Permutation_middle.
  Qed.
  Lemma isort_perm l : Permutation (isort leb l) l.
  Proof. unfold isort. rewrite isort_acc_perm. rewrite app_nil_r. auto. Qed.

  Lemma insert_sorted x l : StronglySorted R l -> StronglySorted R (insert leb x l).
  Proof.
    induction 1 as [|y l Hs IH Hf]; simpl.
    - constructor; constructor.
    - destruct (leb y x) eqn:E.
      + constructor; auto.
        eapply Permutation_Forall. { symmetry. apply insert_perm. }
        constructor; auto.
      + assert (leb x y = true) by (destruct (leb_total x y); congruence).
        constructor. { constructor; auto. }
        constructor; auto.
        eapply Forall_impl; [|exact Hf]. simpl. intros. eapply leb_trans; eauto.
  Qed.

  Lemma isort_acc_sorted l : forall acc, StronglySorted R acc ->
    StronglySorted R (fold_left (fun acc x => insert leb x acc) l acc).
  Proof. induction l; simpl; intros; auto. apply IHl. apply insert_sorted. auto. Qed.
  Lemma isort_sorted l : StronglySorted R (isort leb l).
  Proof. apply isort_acc_sorted. constructor. Qed.

  (** a sorted list is determined by its elements when the order is antisymmetric on them *)
  Lemma sorted_perm_eq l1 : forall l2,
    (forall x y, In x l1 -> In y l1 -> leb x y = true -> leb y x = true -> x = y) ->
    StronglySorted R l1 -> StronglySorted R l2 -> Permutation l1 l2 -> l1 = l2.
  Proof.
    induction l1 as [|x l1 IH]; intros l2 Hanti S1 S2 P.
    - apply Permutation_nil in P. auto.
    - destruct l2 as [|y l2]. { symmetry in P. apply Permutation_nil in P. discriminate. }
      inversion S1 as [|? ? S1' F1]; subst. inversion S2 as [|? ? S2' F2]; subst.
      assert (x = y) as ->.
      { assert (In x (y :: l2)) as Hx by (eapply Permutation_in; [exact P | left; auto]).
        assert (In y (x :: l1)) as Hy by (eapply Permutation_in; [symmetry; exact P | left; auto]).
        destruct Hx as [->|Hx]; auto. destruct Hy as [->|Hy]; auto.
        rewrite Forall_forall in F1, F2.
        apply Hanti; [left; auto | right; auto | apply F1; auto | apply F2; auto]. }
      f_equal. apply IH; auto.
      + intros; apply Hanti; auto; right; auto.
      + eapply Permutation_cons_inv; eauto.
  Qed.

  Lemma isort_det l l' :
    (forall x y, In x l -> In y l -> leb x y = true -> leb y x = true -> x = y) ->
    Permutation l l' -> isort leb l = isort leb l'.
  Proof.
    intros Hanti P. apply sorted_perm_eq; try apply isort_sorted.
    - intros x y Hx Hy. apply Hanti; eapply Permutation_in; try apply isort_perm; auto.
    - rewrite !isort_perm. auto.
  Qed.
End SortP.

(** sorted(set_of_strings) does not depend on the iteration order of the set *)
Lemma sort_text_det l l' : Permutation l l' -> isort text_leb l = isort text_leb l'.
Proof.
  apply isort_det.
  - apply text_leb_total.
  - apply text_leb_trans.
  - intros; apply text_leb_antisym; auto.
Qed.
