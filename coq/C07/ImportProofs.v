(** C07 -- xs:import completeness: every schema document of the WSDL imports every
    namespace it refers to (XSD part 1, 4.2.3), given what Interface.add_class /
    add_method registered in Interface.imports ([wf_importsb], decidable, evaluated
    on every snapshot). *)
From Coq Require Import ZArith List Bool Lia Permutation.
From SpyneV Require Import Base.Prelude C07.Model C07.SortProofs C07.PrefixProofs C07.TopoProofs C07.WsdlProofs
  C07.SchemaProofs.
Import ListNotations.
Open Scope Z_scope.

(** a reference written in schema [s] is to its own namespace, to the XSD namespace,
    or to a namespace [s] imports *)
Definition okref (s : schema) (q : qn) : Prop :=
  fst q = sc_ns s \/ fst q = xsd_ns \/ In (fst q) (sc_imports s).

Definition imports_closed (d : adoc) : Prop :=
  forall s, In s (d_schemas d) ->
    (forall t, In t (sc_types s) ->
       (forall q, t_base t = Some q -> okref s q) /\ (forall m, In m (t_members t) -> okref s (snd m)))
    /\ (forall e, In e (sc_elems s) -> okref s (snd e)).

Section Imp.
  Variable a : snap.
  Notation tbl := (a_classes a).
  Definition okR (ns : text) (q : qn) : Prop := okrefb a ns q = true.
  Definition tdokR (ns : text) (td : tdef) : Prop :=
    (forall q, t_base td = Some q -> okR ns q) /\ (forall m, In m (t_members td) -> okR ns (snd m)).

  (** everything filed under a namespace may be written in the schema of that namespace *)
  Definition KI (n : ntab) : Prop :=
    forall ns i, In (ns, i) n ->
      (forall k td, In (k, td) (si_types i) -> tdokR ns td) /\ (forall e, In e (si_elems i) -> okR ns (snd e)).

  Lemma get_info_In ns (n : ntab) :
    get_info ns n = {| si_types := []; si_elems := [] |} \/ In (ns, get_info ns n) n.
  Proof.
    unfold get_info. destruct (lookup ns n) eqn:L; auto. right. apply lookup_In_pair. auto.
  Qed.

  Lemma KI_info n ns : KI n ->
    (forall k td, In (k, td) (si_types (get_info ns n)) -> tdokR ns td) /\
    (forall e, In e (si_elems (get_info ns n)) -> okR ns (snd e)).
  Proof.
    intros K. destruct (get_info_In ns n) as [E|H].
    - rewrite E. simpl. split; intros; tauto.
    - apply (K _ _ H).
  Qed.

  Hypothesis WF : wf_importsb a = true.

  Lemma wf_cls c : In c tbl -> c_kind c = KComplex ->
    (forall b bc, c_base c = Some b -> find_cls tbl b = Some bc -> okR (c_ns c) (c_ns bc, c_tn bc)) /\
    (forall n v vc, In (n, v) (c_fields c) -> find_cls tbl v = Some vc -> okR (c_ns c) (c_ns vc, c_tn vc)) /\
    okR (c_ens c) (c_ns c, c_tn c).
  Proof.
    intros Hc KC. unfold wf_importsb in WF. apply andb_true_iff in WF as [W1 _].
    rewrite forallb_forall in W1. specialize (W1 c Hc).
    unfold is_complex in W1. rewrite KC in W1. simpl in W1.
    apply andb_true_iff in W1 as [W1 W3]. apply andb_true_iff in W1 as [W1 W2].
    split; [|split]; auto.
    - intros b bc B F. rewrite B, F in W1. exact W1.
    - intros n v vc Hf F. rewrite forallb_forall in W2. specialize (W2 (n, v) Hf). simpl in W2.
      rewrite F in W2. exact W2.
  Qed.

  Lemma wf_io x : In x (meth_io a) -> okR (a_tns a) (m_tns x, m_tn x).
  Proof.
    intros Hx. unfold wf_importsb in WF. apply andb_true_iff in WF as [_ W2].
    rewrite forallb_forall in W2. apply W2. auto.
  Qed.

  Lemma KI_write c td n : KI n -> tdokR (c_ns c) td -> okR (c_ens c) (c_ns c, c_tn c) -> KI (write c td n).
  Proof.
    intros K TD EL.
    set (n1 := upd (c_ns c) (fun i => {| si_types := oset (c_tn c) td (si_types i); si_elems := si_elems i |}) n).
    assert (KI n1) as K1.
    { intros ns i H. apply In_upd in H as [H|H]; [|apply (K _ _ H)].
      inversion H; subst. simpl. destruct (KI_info n (c_ns c) K) as [A B]. split; auto.
      intros k t Hk. apply In_oset in Hk as [Hk|Hk]; [inversion Hk; subst; auto|eauto]. }
    unfold write. fold n1. intros ns i H. apply In_upd in H as [H|H]; [|apply (K1 _ _ H)].
    inversion H; subst. simpl. destruct (KI_info n1 (c_ens c) K1) as [A B]. split; auto.
    intros e He. apply In_oset in He as [->|He]; auto.
  Qed.

  Definition add_specI (add : sst -> Z -> res sst) : Prop :=
    forall st v st', add st v = ROk st' -> KI (nss st) -> KI (nss st').

  Lemma members_I add : add_specI add -> forall fs st st' ms,
    members add tbl st fs = ROk (st', ms) -> KI (nss st) ->
    KI (nss st') /\
    forall m, In m ms -> exists n v vc, In (n, v) fs /\ find_cls tbl v = Some vc /\ m = (n, (c_ns vc, c_tn vc)).
  Proof.
    intros SP. induction fs as [|[n v] fs IH]; intros st st' ms H K; simpl in H.
    - inversion H; subst. split; auto. intros m [].
    - destruct (find_cls tbl v) as [vc|] eqn:F; try discriminate.
      destruct (add st v) as [st1|] eqn:A; simpl in H; try discriminate.
      pose proof (SP _ _ _ A K) as K1.
      set (st2 := {| tags := tags st1; nss := nss st1; trace := trace st1 ++ [c_ns vc] |}) in *.
      destruct (members add tbl st2 fs) as [[st3 ms3]|] eqn:M; simpl in H; try discriminate.
      destruct (IH st2 st3 ms3 M K1) as (K3 & R3). inversion H; subst; clear H.
      split; auto. intros m [<-|Hm].
      + exists n, v, vc. repeat split; auto. left. auto.
      + destruct (R3 m Hm) as (n' & v' & vc' & A1 & A2 & A3). exists n', v', vc'. repeat split; auto. right. auto.
  Qed.

  Lemma complex_add_I add c : add_specI add -> In c tbl -> c_kind c = KComplex -> forall st st',
    complex_add add tbl c st = ROk st' -> KI (nss st) -> KI (nss st').
  Proof.
    intros SP Hc KC st st' H K. unfold complex_add in H.
    destruct (wf_cls c Hc KC) as (WB & WM & WE).
    set (bres := match c_base c with
                 | None => ROk None
                 | Some b => match find_cls tbl b with
                             | None => RErr EKeyError
                             | Some bc => if text_eqb (c_tn bc) (c_tn c) && text_eqb (c_ns bc) (c_ns c)
                                          then RErr ESameName else ROk (Some (c_ns bc, c_tn bc))
                             end
                 end) in *.
    destruct bres as [bq|] eqn:BR; simpl in H; try discriminate.
    assert (forall q, bq = Some q -> okR (c_ns c) q) as BOK.
    { intros q ->. unfold bres in BR. destruct (c_base c) as [b|] eqn:B; try discriminate.
      destruct (find_cls tbl b) as [bc|] eqn:FB; try discriminate.
      destruct (text_eqb (c_tn bc) (c_tn c) && text_eqb (c_ns bc) (c_ns c)); try discriminate.
      inversion BR; subst. eapply WB; eauto. }
    set (st0 := {| tags := tags st; nss := nss st;
                   trace := trace st ++ match bq with Some q => [fst q] | None => [] end |}) in *.
    destruct (members add tbl st0 (c_fields c)) as [[stm ms]|] eqn:M; simpl in H; try discriminate.
    inversion H; subst; clear H. simpl.
    destruct (members_I add SP _ _ _ _ M K) as (Km & Rm).
    change (KI (write c {| t_name := c_tn c; t_base := bq; t_members := ms |} (nss stm))).
    apply KI_write; auto. split; simpl; auto.
    intros m Hm. destruct (Rm m Hm) as (n & v & vc & A1 & A2 & ->). simpl. eapply WM; eauto.
  Qed.

  Lemma add_cls_I fuel : add_specI (add_cls fuel tbl).
  Proof.
    induction fuel as [|f IH]; intros st v st' H K; simpl in H; try discriminate.
    destruct (memz v (tags st)); [inversion H; subst; auto|].
    destruct (find_cls tbl v) as [c|] eqn:F; try discriminate.
    destruct (c_kind c) eqn:KC.
    - eapply (complex_add_I (add_cls f tbl) c IH); eauto. apply (find_cls_In _ _ _ F).
    - inversion H; subst. auto.
  Qed.

  Lemma add_all_I ids : forall st st', add_all tbl st ids = ROk st' -> KI (nss st) -> KI (nss st').
  Proof.
    induction ids as [|id ids IH]; intros st st' H K; cbn [add_all] in H.
    - inversion H; subst. auto.
    - destruct (add_cls (S (length tbl)) tbl st id) as [st1|] eqn:A; cbn [rbind] in H; try discriminate.
      eapply IH; eauto. eapply add_cls_I; eauto.
  Qed.
End Imp.

(** the import list of a schema node is the registered import set of its namespace *)
Lemma schemas_of_imp imports n scs : schemas_of imports n = ROk scs ->
  forall s, In s scs -> exists i imp, In (sc_ns s, i) n /\ lookup (sc_ns s) imports = Some imp /\
    (forall x, In x imp -> In x (sc_imports s)) /\
    sc_types s = map snd (si_types i) /\ sc_elems s = si_elems i.
Proof.
  revert scs. induction n as [|[ns0 i0] n IH]; simpl; intros scs H s Hs.
  - inversion H; subst. destruct Hs.
  - destruct (lookup ns0 imports) as [imp|] eqn:L; try discriminate.
    destruct (schemas_of imports n) as [rest|]; simpl in H; try discriminate.
    inversion H; subst; clear H. destruct Hs as [<-|Hs].
    + exists i0, imp. simpl. split; [left; reflexivity|]. split; [exact L|]. split; [|split; reflexivity].
      intros x Hx.   (* whichever way the source iterates the set *)
      first [exact Hx | apply (Permutation_in x (Permutation_sym (isort_perm text_leb imp))); exact Hx].
    + destruct (IH _ eq_refl s Hs) as (i & imp' & A & B). exists i, imp'. split; auto.
Qed.

Theorem imports_closed_thm perm a d :
  wsdl_of perm a = ROk d -> wf_importsb a = true -> imports_closed d.
Proof.
  intros H WF.
  destruct (wsdl_of_schema_inv _ _ _ H) as (tiers & st & scs & TOPO & ADD & SCS & DS).
  set (els2 := fst (missing (meth_io a) (si_elems (get_info (a_tns a) (nss st))) [])) in *.
  assert (KI a (nss st)) as K.
  { eapply add_all_I; eauto. simpl. intros ns i [E|[]]. inversion E; subst. simpl. split; intros; tauto. }
  (* from the table's view of a reference to the schema node's *)
  assert (forall s imp q, lookup (sc_ns s) (a_imports a) = Some imp ->
            (forall x, In x imp -> In x (sc_imports s)) -> okR a (sc_ns s) q -> okref s q) as OK.
  { intros s imp q L SUB R. unfold okR, okrefb in R.
    apply orb_true_iff in R as [R|R]; [apply orb_true_iff in R as [R|R]|].
    - left. apply text_eqb_eq. auto.
    - right. left. apply text_eqb_eq. auto.
    - right. right. apply memt_In in R. unfold imp_of in R. rewrite L in R. auto. }
  intros s' Hs'. rewrite DS in Hs'.
  assert (exists s, In s scs /\ sc_ns s' = sc_ns s /\ sc_imports s' = sc_imports s /\ sc_types s' = sc_types s /\
                    (sc_elems s' = sc_elems s \/ (sc_ns s = a_tns a /\ sc_elems s' = els2))) as (s & Hs & NS & IM & TY & EL).
  { apply upd_tns_src in Hs' as [A|(s & A & B & ->)].
    - exists s'. repeat split; auto.
    - exists s. simpl. repeat split; auto. }
  destruct (schemas_of_imp _ _ _ SCS s Hs) as (i & imp & Hi & L & SUB & TYi & ELi).
  destruct (K _ _ Hi) as [KT KE].
  assert (forall q, okR a (sc_ns s) q -> okref s' q) as OK'.
  { intros q R. destruct (OK s imp q L SUB R) as [A|[A|A]].
    - left. congruence.
    - right. left. auto.
    - right. right. rewrite IM. auto. }
  split.
  - intros t Ht. rewrite TY, TYi in Ht. apply in_map_iff in Ht as ((k & td) & <- & Hkt). simpl.
    destruct (KT k td Hkt) as [A B]. split; intros; apply OK'; auto.
  - intros e He. destruct EL as [EL|[TN EL]]; rewrite EL in He.
    + apply OK'. apply KE. rewrite <- ELi. auto.
    + unfold els2 in He. apply missing_src in He as [He|(x & Hx & ->)].
      * apply OK'. rewrite TN. apply (KI_info a (nss st) (a_tns a) K). auto.
      * simpl. apply OK'. rewrite TN. apply wf_io; auto.
Qed.
