(** C07 -- executable model of Spyne's WSDL 1.1 / XSD generation at the level of
    definitions and references.  Definitions only.

    Mirrors (repaired tree, see proposed_fixes/C07-*.patch):
      spyne/interface/_base.py     Interface.get_namespace_prefix
      spyne/util/toposort.py       toposort2, _sort_key
      spyne/interface/xml_schema/_base.py  XmlSchema.add / build_schema_nodes /
                                   add_missing_elements_for_methods / add_element /
                                   add_complex_type / get_schema_info
      spyne/interface/xml_schema/model.py  complex_add (names, base, members, element;
                                   the recursive document.add(member) included)
      spyne/interface/wsdl/wsdl11.py       build_interface_document, add_messages_for_methods,
                                   _add_message_for_object, add_port_type, check_method_port,
                                   add_bindings_for_methods, _get_or_create_binding,
                                   _add_port_to_service

    The tokens of those emitters that decide the property on their own are not
    written here: they are read from the working tree by
    harness/translate/wsdlgen.py into Gen/WsdlGen.v (which prefix qualifies a
    message= reference, whether the import sets are iterated through sorted(), the
    components of the toposort2 key, the header-message suffixes, the prefix stem)
    and used below ([gen_...]).

    The input is a snapshot of the populated Interface (classes/deps/imports, the
    method descriptors of the services, the prefix tables).  The output is the
    document skeleton: which names are defined where and which QNames are referred
    to, in document order.  QNames are kept as (namespace, local) pairs; the prefixes
    that the real code writes are obtained by replaying, in the order of the real
    code, every call of get_namespace_prefix ([d_trace1] up to the creation of the
    wsdl:definitions element, whose nsmap is frozen by lxml at that point, and
    [d_trace2] afterwards).  Python exceptions are [RErr] values; [EModelLimit]
    (out of fuel) is never a normal value (C07_prefix_total, C07_toposort_total). *)
From SpyneV Require Export Base.Prelude Base.Digits C07.Vocab Gen.WsdlGen.

(* ---------------------------------------------------------------- errors *)
Inductive err :=
| EAssertCyclic     (* toposort2: AssertionError "A cyclic dependency exists" *)
| EKeyError         (* dict lookup that fails in the real code *)
| EIndexError       (* method.in_header[0] on an empty tuple *)
| EValueError       (* check_method_port *)
| ESameName         (* complex_add: "%r can't extend %r because they are both ..." *)
| EModelLimit.      (* out of fuel / a path the model does not cover: never a normal value *)

Inductive res (A : Type) := ROk (a : A) | RErr (e : err).
Arguments ROk {A} a.
Arguments RErr {A} e.
Definition rbind {A B} (x : res A) (f : A -> res B) : res B :=
  match x with ROk a => f a | RErr e => RErr e end.
Notation "'dor' x <- e ; f" := (rbind e (fun x => f))
  (at level 200, x pattern, e at level 100, f at level 200, right associativity).

(* ---------------------------------------------------------------- text order, sorting *)
(** Python compares str by code point, lexicographically. *)
Fixpoint text_ltb (a b : text) : bool :=
  match a, b with
  | [], [] => false
  | [], _ :: _ => true
  | _ :: _, [] => false
  | x :: a', y :: b' => if x <? y then true else if y <? x then false else text_ltb a' b'
  end.
Definition text_leb (a b : text) : bool := negb (text_ltb b a).

Section Sort.
  Context {A : Type} (leb : A -> A -> bool).
  (** stable insertion: [x] goes before the first element that is strictly greater *)
  Fixpoint insert (x : A) (l : list A) : list A :=
    match l with
    | [] => [x]
    | y :: r => if leb y x then y :: insert x r else x :: y :: r
    end.
  (** sorted(l, key=...) : stable *)
  Definition isort (l : list A) : list A := fold_left (fun acc x => insert x acc) l [].
End Sort.

Fixpoint memt (x : text) (l : list text) : bool :=
  match l with [] => false | y :: r => text_eqb x y || memt x r end.
Fixpoint memz (x : Z) (l : list Z) : bool :=
  match l with [] => false | y :: r => (x =? y) || memz x r end.

(** keep the first occurrence (a Python dict / "if not in seen" loop) *)
Fixpoint dedup_t (seen : list text) (l : list text) : list text :=
  match l with
  | [] => []
  | x :: r => if memt x seen then dedup_t seen r else x :: dedup_t (x :: seen) r
  end.
Fixpoint dedup_z (seen : list Z) (l : list Z) : list Z :=
  match l with
  | [] => []
  | x :: r => if memz x seen then dedup_z seen r else x :: dedup_z (x :: seen) r
  end.

Fixpoint lookup {B} (k : text) (m : list (text * B)) : option B :=
  match m with [] => None | (k', v) :: r => if text_eqb k k' then Some v else lookup k r end.

(* ---------------------------------------------------------------- XSD builtins *)
(** "http://www.w3.org/2001/XMLSchema" *)
Definition xsd_ns : text := [104; 116; 116; 112; 58; 47; 47; 119; 119; 119; 46; 119; 51; 46; 111; 114; 103; 47; 50; 48; 48; 49; 47; 88; 77; 76; 83; 99; 104; 101; 109; 97].
(** the built-in datatypes of XML Schema part 2 plus anyType / anySimpleType (the
    oracle of harness/c07.py resolves xs: references against the same list; the
    harness compares the two lists on every run) *)
Definition xsd_builtins : list text :=
  [ [115; 116; 114; 105; 110; 103] (* string *);
    [98; 111; 111; 108; 101; 97; 110] (* boolean *);
    [100; 101; 99; 105; 109; 97; 108] (* decimal *);
    [102; 108; 111; 97; 116] (* float *);
    [100; 111; 117; 98; 108; 101] (* double *);
    [100; 117; 114; 97; 116; 105; 111; 110] (* duration *);
    [100; 97; 116; 101; 84; 105; 109; 101] (* dateTime *);
    [116; 105; 109; 101] (* time *);
    [100; 97; 116; 101] (* date *);
    [103; 89; 101; 97; 114; 77; 111; 110; 116; 104] (* gYearMonth *);
    [103; 89; 101; 97; 114] (* gYear *);
    [103; 77; 111; 110; 116; 104; 68; 97; 121] (* gMonthDay *);
    [103; 68; 97; 121] (* gDay *);
    [103; 77; 111; 110; 116; 104] (* gMonth *);
    [104; 101; 120; 66; 105; 110; 97; 114; 121] (* hexBinary *);
    [98; 97; 115; 101; 54; 52; 66; 105; 110; 97; 114; 121] (* base64Binary *);
    [97; 110; 121; 85; 82; 73] (* anyURI *);
    [81; 78; 97; 109; 101] (* QName *);
    [78; 79; 84; 65; 84; 73; 79; 78] (* NOTATION *);
    [110; 111; 114; 109; 97; 108; 105; 122; 101; 100; 83; 116; 114; 105; 110; 103] (* normalizedString *);
    [116; 111; 107; 101; 110] (* token *);
    [108; 97; 110; 103; 117; 97; 103; 101] (* language *);
    [78; 77; 84; 79; 75; 69; 78] (* NMTOKEN *);
    [78; 77; 84; 79; 75; 69; 78; 83] (* NMTOKENS *);
    [78; 97; 109; 101] (* Name *);
    [78; 67; 78; 97; 109; 101] (* NCName *);
    [73; 68] (* ID *);
    [73; 68; 82; 69; 70] (* IDREF *);
    [73; 68; 82; 69; 70; 83] (* IDREFS *);
    [69; 78; 84; 73; 84; 89] (* ENTITY *);
    [69; 78; 84; 73; 84; 73; 69; 83] (* ENTITIES *);
    [105; 110; 116; 101; 103; 101; 114] (* integer *);
    [110; 111; 110; 80; 111; 115; 105; 116; 105; 118; 101; 73; 110; 116; 101; 103; 101; 114] (* nonPositiveInteger *);
    [110; 101; 103; 97; 116; 105; 118; 101; 73; 110; 116; 101; 103; 101; 114] (* negativeInteger *);
    [108; 111; 110; 103] (* long *);
    [105; 110; 116] (* int *);
    [115; 104; 111; 114; 116] (* short *);
    [98; 121; 116; 101] (* byte *);
    [110; 111; 110; 78; 101; 103; 97; 116; 105; 118; 101; 73; 110; 116; 101; 103; 101; 114] (* nonNegativeInteger *);
    [117; 110; 115; 105; 103; 110; 101; 100; 76; 111; 110; 103] (* unsignedLong *);
    [117; 110; 115; 105; 103; 110; 101; 100; 73; 110; 116] (* unsignedInt *);
    [117; 110; 115; 105; 103; 110; 101; 100; 83; 104; 111; 114; 116] (* unsignedShort *);
    [117; 110; 115; 105; 103; 110; 101; 100; 66; 121; 116; 101] (* unsignedByte *);
    [112; 111; 115; 105; 116; 105; 118; 101; 73; 110; 116; 101; 103; 101; 114] (* positiveInteger *);
    [97; 110; 121; 84; 121; 112; 101] (* anyType *);
    [97; 110; 121; 83; 105; 109; 112; 108; 101; 84; 121; 112; 101] (* anySimpleType *) ].
Definition builtinb (q : text * text) : bool := text_eqb (fst q) xsd_ns && memt (snd q) xsd_builtins.

(* ---------------------------------------------------------------- get_namespace_prefix *)
Record pstate := { prefmap : list (text * text);   (* namespace -> prefix *)
                   nsmap : list (text * text);     (* prefix -> namespace *)
                   counter : Z }.                  (* Interface.__ns_counter *)

Definition spref (c : Z) : text := gen_pref_stem ++ str_int c.   (* "s%d" % c; the stem is read from the source *)

(** while pref in self.nsmap: counter += 1 ; fuel |nsmap|+1 always suffices
    (C07_prefix_total) *)
Fixpoint find_free (fuel : nat) (m : list (text * text)) (c : Z) : option Z :=
  match fuel with
  | O => None
  | S f => match lookup (spref c) m with
           | Some _ => find_free f m (c + 1)
           | None => Some c
           end
  end.

Definition get_prefix (st : pstate) (ns : text) : res (text * pstate) :=
  match lookup ns (prefmap st) with
  | Some p => ROk (p, st)
  | None =>
      match find_free (S (length (nsmap st))) (nsmap st) (counter st) with
      | None => RErr EModelLimit
      | Some c => let p := spref c in
                  ROk (p, {| prefmap := prefmap st ++ [(ns, p)];
                             nsmap := nsmap st ++ [(p, ns)];
                             counter := c + 1 |})
      end
  end.

Fixpoint alloc_all (st : pstate) (l : list text) : res pstate :=
  match l with
  | [] => ROk st
  | ns :: r => dor ps <- get_prefix st ns; alloc_all (snd ps) r
  end.

(* ---------------------------------------------------------------- toposort2 *)
Definition tdata := list (Z * list Z).
Definition keys (d : tdata) : list Z := map fst d.
Definition is_nil {B} (l : list B) : bool := match l with [] => true | _ => false end.

Definition discard_self (d : tdata) : tdata :=
  map (fun kv => (fst kv, filter (fun x => negb (x =? fst kv)) (snd kv))) d.
Definition extras (d : tdata) : list Z :=
  dedup_z [] (filter (fun x => negb (memz x (keys d))) (flat_map snd d)).
Definition data0 (d : tdata) : tdata :=
  let d1 := discard_self d in d1 ++ map (fun x => (x, [])) (extras d1).

Definition ready (d : tdata) : list Z :=
  map fst (filter (fun kv => is_nil (snd kv)) d).
Definition strip_ready (ord : list Z) (d : tdata) : tdata :=
  map (fun kv => (fst kv, filter (fun x => negb (memz x ord)) (snd kv)))
      (filter (fun kv => negb (memz (fst kv) ord)) d).

Section Topo.
  (** [perm]: the iteration order of the Python set [ordered] (any permutation);
      [key]: repr(cls) *)
  Variable perm : list Z -> list Z.
  Variable key : Z -> text.
  Definition key_leb (x y : Z) : bool := text_leb (key x) (key y).

  Fixpoint topo_loop (fuel : nat) (d : tdata) : res (list (list Z)) :=
    match fuel with
    | O => RErr EModelLimit
    | S f =>
        let ord := ready d in
        if is_nil ord then (if is_nil d then ROk [] else RErr EAssertCyclic)
        else dor rest <- topo_loop f (strip_ready ord d);
             ROk (isort key_leb (perm ord) :: rest)
    end.

  Definition toposort2 (d : tdata) : res (list (list Z)) :=
    if is_nil d then ROk [] else topo_loop (S (length (data0 d))) (data0 d).
End Topo.

(* ---------------------------------------------------------------- the snapshot *)
Definition qn := (text * text)%type.          (* (namespace, local name) *)

Inductive kind := KComplex | KPlain.
(** KComplex: ComplexModelBase / Fault (complex_add).  KPlain: a class whose
    handler writes nothing (default simple types). *)

Record cls := {
  c_id : Z;                      (* identity of the Python class object *)
  c_repr : text;                 (* repr(cls) *)
  c_subs : text;                 (* str(getattr(cls.Attributes, 'sub_name', '')) -- 'None' when unset *)
  c_ns : text; c_tn : text;      (* get_namespace(), get_type_name() *)
  c_kind : kind;
  c_base : option Z;             (* __extends__ *)
  c_fields : list (text * Z);    (* (sub_name or key, type) of the members written as xs:element *)
  c_ename : text;                (* Attributes.sub_name or get_type_name() *)
  c_ens : text                   (* Attributes.sub_ns or get_namespace(); DEFAULT_NS -> tns *)
}.

(** a class in the position of a message, a header or a fault *)
Record msg := {
  m_cid : Z;
  m_complex : bool;
  m_ename : text; m_ens : text;  (* get_element_name(), namespace of get_element_name_ns() *)
  m_tn : text; m_tns : text;     (* get_type_name(), get_namespace() *)
  m_part : text                  (* get_wsdl_part_name() *)
}.

Record meth := {
  me_name : text;                (* MethodDescriptor.name *)
  me_op : text;                  (* operation_name *)
  me_port : option text;         (* port_type *)
  me_in : msg; me_out : msg;
  me_inh : option (list msg); me_outh : option (list msg);
  me_faults : list msg
}.

Record svc := {
  s_name : text;                 (* get_service_name() *)
  s_ports : list text;           (* __port_types__ *)
  s_meths : list meth            (* public_methods.values() *)
}.

Record snap := {
  a_tns : text; a_name : text;
  a_classes : list cls;
  a_deps : tdata;                              (* interface.deps, dict order *)
  a_imports : list (text * list text);         (* interface.imports; inner lists = sets, any order *)
  a_svcs : list svc;                           (* the non-auxiliary services *)
  a_pst : pstate                               (* prefmap / nsmap / counter before the build *)
}.

(* ---------------------------------------------------------------- the document skeleton *)
Record tdef := { t_name : text; t_base : option qn; t_members : list (text * qn) }.
Record schema := { sc_ns : text; sc_imports : list text;
                   sc_types : list tdef; sc_elems : list (text * qn) }.
Record message := { mg_name : text; mg_parts : list (text * qn) }.
Record ptop := { po_name : text; po_in : text * qn; po_out : text * qn;
                 po_faults : list (text * qn) }.
Record porttype := { pt_name : text; pt_ops : list ptop }.
Record bop := { bo_name : text; bo_in : text; bo_inh : list (qn * text);
                bo_out : text; bo_outh : list (qn * text); bo_faults : list text }.
Record binding := { b_name : text; b_type : qn; b_ops : list bop }.
Record service := { sv_name : text; sv_ports : list (text * qn) }.
Record adoc := {
  d_tns : text;
  d_schemas : list schema; d_msgs : list message; d_svcs : list service;
  d_pts : list porttype; d_binds : list binding;
  d_trace1 : list text;     (* get_namespace_prefix calls before wsdl:definitions is created *)
  d_trace2 : list text      (* ... and after *)
}.

(* ---------------------------------------------------------------- schema phase *)
Fixpoint find_cls (tbl : list cls) (id : Z) : option cls :=
  match tbl with [] => None | c :: r => if c_id c =? id then Some c else find_cls r id end.

(** odict: assignment to an existing key keeps its position *)
Fixpoint oset {B} (k : text) (v : B) (m : list (text * B)) : list (text * B) :=
  match m with
  | [] => [(k, v)]
  | (k', v') :: r => if text_eqb k k' then (k, v) :: r else (k', v') :: oset k v r
  end.

Record sinfo := { si_types : list (text * tdef); si_elems : list (text * qn) }.
Record sst := { tags : list Z;
                nss : list (text * sinfo);     (* XmlSchema.namespaces (keyed here by namespace) *)
                trace : list text }.

Definition get_info (ns : text) (m : list (text * sinfo)) : sinfo :=
  match lookup ns m with Some i => i | None => {| si_types := []; si_elems := [] |} end.

(** the member loop of complex_add: document.add(v, tags) (recursive: classes that
    only occur as a member -- e.g. the customised copy an Array holds -- are not
    keys of interface.deps, come out of toposort2 in the first tier and pull
    their own members in from here), then v.get_type_name_ns() *)
Fixpoint members (add : sst -> Z -> res sst) (tbl : list cls) (st : sst) (fs : list (text * Z))
  : res (sst * list (text * qn)) :=
  match fs with
  | [] => ROk (st, [])
  | (n, v) :: r =>
      match find_cls tbl v with
      | None => RErr EKeyError
      | Some vc =>
          dor st1 <- add st v;
          let st2 := {| tags := tags st1; nss := nss st1; trace := trace st1 ++ [c_ns vc] |} in
          dor x <- members add tbl st2 r;
          ROk (fst x, (n, (c_ns vc, c_tn vc)) :: snd x)
      end
  end.

Definition complex_add (add : sst -> Z -> res sst) (tbl : list cls) (c : cls) (st : sst) : res sst :=
  dor bq <- match c_base c with
            | None => ROk None
            | Some b => match find_cls tbl b with
                        | None => RErr EKeyError
                        | Some bc => if text_eqb (c_tn bc) (c_tn c) && text_eqb (c_ns bc) (c_ns c)
                                     then RErr ESameName else ROk (Some (c_ns bc, c_tn bc))
                        end
            end;
  let st0 := {| tags := tags st; nss := nss st;
                trace := trace st ++ (match bq with Some q => [fst q] | None => [] end) |} in
  dor sm <- members add tbl st0 (c_fields c);
  let st := fst sm in
  let td := {| t_name := c_tn c; t_base := bq; t_members := snd sm |} in
  (* add_complex_type *)
  let i1 := get_info (c_ns c) (nss st) in
  let nss1 := oset (c_ns c) {| si_types := oset (c_tn c) td (si_types i1); si_elems := si_elems i1 |} (nss st) in
  (* add_element *)
  let i2 := get_info (c_ens c) nss1 in
  let nss2 := oset (c_ens c) {| si_types := si_types i2;
                                si_elems := oset (c_ename c) (c_ns c, c_tn c) (si_elems i2) |} nss1 in
  ROk {| tags := tags st; nss := nss2; trace := trace st ++ [c_ns c; c_ns c; c_ens c] |}.

(** XmlSchema.add; the recursion depth is bounded by the number of classes (each
    level tags a new one) *)
Fixpoint add_cls (fuel : nat) (tbl : list cls) (st : sst) (id : Z) : res sst :=
  match fuel with
  | O => RErr EModelLimit
  | S f =>
      if memz id (tags st) then ROk st
      else match find_cls tbl id with
           | None => RErr EKeyError
           | Some c =>
               let st1 := {| tags := id :: tags st; nss := nss st; trace := trace st |} in
               match c_kind c with
               | KPlain => ROk st1
               | KComplex => complex_add (add_cls f tbl) tbl c st1
               end
           end
  end.

Fixpoint add_all (tbl : list cls) (st : sst) (ids : list Z) : res sst :=
  match ids with
  | [] => ROk st
  | id :: r => dor st1 <- add_cls (S (length tbl)) tbl st id; add_all tbl st1 r
  end.

Fixpoint schemas_of (imports : list (text * list text)) (m : list (text * sinfo))
  : res (list schema) :=
  match m with
  | [] => ROk []
  | (ns, i) :: r =>
      match lookup ns imports with
      | None => RErr EKeyError
      | Some imp =>
          dor rest <- schemas_of imports r;
          ROk ({| sc_ns := ns; sc_imports := (if gen_imports_sorted then isort text_leb imp else imp);
                  sc_types := map snd (si_types i); sc_elems := si_elems i |} :: rest)
      end
  end.

Definition all_meths (a : snap) : list meth := flat_map s_meths (a_svcs a).

(** add_missing_elements_for_methods: elements of the tns schema and the calls made *)
Fixpoint missing (ms : list msg) (els : list (text * qn)) (tr : list text)
  : list (text * qn) * list text :=
  match ms with
  | [] => (els, tr)
  | m :: r => if memt (m_ename m) (map fst els) then missing r els tr
              else missing r (els ++ [(m_ename m, (m_tns m, m_tn m))]) (tr ++ [m_tns m])
  end.

Fixpoint upd_tns (tns : text) (f : schema -> schema) (l : list schema) : list schema :=
  match l with
  | [] => []
  | s :: r => if text_eqb (sc_ns s) tns then f s :: r else s :: upd_tns tns f r
  end.

(* ---------------------------------------------------------------- wsdl phase *)
Definition in_header_suffix : text := gen_in_header_suffix.     (* _in_header_msg_suffix, read from the source *)
Definition out_header_suffix : text := gen_out_header_suffix.   (* _out_header_msg_suffix *)

Definition header_msg_name (m : meth) (suffix : text) (hs : list msg) : res text :=
  match hs with
  | [] => RErr EIndexError
  | [h] => ROk (m_tn h)
  | _ => ROk (me_name m ++ suffix)
  end.

Definition part_of (x : msg) : text * qn := (m_part x, (m_ens x, m_ename x)).

(** the (message name, parts) pairs one method asks for, in the order of
    add_messages_for_methods *)
Definition meth_msgs (m : meth) : res (list message) :=
  dor ih <- match me_inh m with
            | None => ROk []
            | Some hs => dor n <- header_msg_name m in_header_suffix hs;
                         ROk [{| mg_name := n; mg_parts := map part_of hs |}]
            end;
  dor oh <- match me_outh m with
            | None => ROk []
            | Some hs => dor n <- header_msg_name m out_header_suffix hs;
                         ROk [{| mg_name := n; mg_parts := map part_of hs |}]
            end;
  ROk ([{| mg_name := m_ename (me_in m); mg_parts := [part_of (me_in m)] |};
        {| mg_name := m_ename (me_out m); mg_parts := [part_of (me_out m)] |}]
       ++ ih ++ oh
       ++ map (fun f => {| mg_name := m_tn f; mg_parts := [part_of f] |}) (me_faults m)).

Fixpoint all_msgs (ms : list meth) : res (list message) :=
  match ms with
  | [] => ROk []
  | m :: r => dor a <- meth_msgs m; dor b <- all_msgs r; ROk (a ++ b)
  end.

(** _add_message_for_object: first request for a name wins *)
Fixpoint dedup_msgs (seen : list text) (l : list message) : list message :=
  match l with
  | [] => []
  | x :: r => if memt (mg_name x) seen then dedup_msgs seen r
              else x :: dedup_msgs (mg_name x :: seen) r
  end.

(** check_method_port *)
Definition check_port (s : svc) (m : meth) : bool :=
  match me_port m with
  | None => is_nil (s_ports s)
  | Some p => negb (is_nil (s_ports s)) && memt p (s_ports s)
  end.
Definition check_ports (a : snap) : bool :=
  forallb (fun s => forallb (check_port s) (s_meths s)) (a_svcs a).

Definition svc_ptnames (a : snap) (s : svc) : list text :=
  if is_nil (s_ports s) then [a_name a] else s_ports s.
Definition meth_pt (a : snap) (m : meth) : text :=
  match me_port m with Some p => p | None => a_name a end.

(** the namespace whose prefix qualifies a message= reference: the emitters either
    use the prefix of the WSDL target namespace (where every wsdl:message lives) or
    the prefix of the namespace of the part's element (get_element_name_ns);
    which one is read from the source (Gen/WsdlGen.v) *)
Definition msg_ref_ns (a : snap) (tns_prefixed : bool) (x : msg) : text :=
  if tns_prefixed then a_tns a else m_ens x.

Definition mk_ptop (a : snap) (m : meth) : ptop :=
  {| po_name := me_op m;
     po_in := (m_ename (me_in m), (msg_ref_ns a gen_msgref_in_tns (me_in m), m_ename (me_in m)));
     po_out := (m_ename (me_out m), (msg_ref_ns a gen_msgref_out_tns (me_out m), m_ename (me_out m)));
     po_faults := map (fun f => (m_tn f, (m_tns f, m_tn f))) (me_faults m) |}.

Definition pt_ops_of (a : snap) (name : text) : list ptop :=
  map (mk_ptop a) (filter (fun m => text_eqb (meth_pt a m) name) (all_meths a)).

Definition porttypes (a : snap) : list porttype :=
  map (fun n => {| pt_name := n; pt_ops := pt_ops_of a n |})
      (dedup_t [] (flat_map (svc_ptnames a) (a_svcs a))).

Definition hdr_refs (a : snap) (tns_prefixed : bool) (m : meth) (suffix : text) (hs : option (list msg))
  : list (qn * text) :=
  match hs with
  | None => []
  | Some l => match header_msg_name m suffix l with
              | ROk n => map (fun h => (((if tns_prefixed then a_tns a else m_tns h), n), m_tn h)) l
              | RErr _ => []     (* unreachable: all_msgs fails first *)
              end
  end.

Definition mk_bop (a : snap) (m : meth) : bop :=
  {| bo_name := me_op m; bo_in := m_ename (me_in m);
     bo_inh := hdr_refs a gen_msgref_inh_tns m in_header_suffix (me_inh m);
     bo_out := m_ename (me_out m);
     bo_outh := hdr_refs a gen_msgref_outh_tns m out_header_suffix (me_outh m);
     bo_faults := map m_tn (me_faults m) |}.

Definition opt_is (o : option text) (p : text) : bool :=
  match o with Some q => text_eqb q p | None => false end.

(** add_bindings_for_methods over the services.  Bindings are looked up by name
    (_get_or_create_binding, binding_dict) exactly like port types are: the element
    is created where its name is first asked for and later requests append their
    operations to it.  A service with port types asks, for each entry of
    __port_types__ in turn, for the binding of that name and appends its methods
    of that port type; a service without port types asks for the binding named
    after the application (cb_binding) and appends all its methods. *)
Definition bind_ops (a : snap) (n : text) (s : svc) : list bop :=
  if is_nil (s_ports s)
  then (if text_eqb (a_name a) n then map (mk_bop a) (s_meths s) else [])
  else flat_map (fun p => if text_eqb p n
                          then map (mk_bop a) (filter (fun m => opt_is (me_port m) p) (s_meths s))
                          else []) (s_ports s).

Definition bindings (a : snap) : list binding :=
  map (fun n => {| b_name := n; b_type := (a_tns a, n);
                   b_ops := flat_map (bind_ops a n) (a_svcs a) |})
      (dedup_t [] (flat_map (svc_ptnames a) (a_svcs a))).

(** _get_or_create_service_node + _add_port_to_service *)
Definition svc_ports (a : snap) (s : svc) : list (text * qn) :=
  map (fun p => (p, (a_tns a, p))) (svc_ptnames a s).
Definition services (a : snap) : list service :=
  map (fun n => {| sv_name := n;
                   sv_ports := flat_map (svc_ports a)
                                 (filter (fun s => text_eqb (s_name s) n) (a_svcs a)) |})
      (dedup_t [] (map s_name (a_svcs a))).

(** get_namespace_prefix calls of the wsdl phase, in order (idempotent, so only
    the first occurrence of a namespace matters) *)
Definition wsdl_trace (a : snap) (msgs : list message) : list text :=
  flat_map (fun g => map (fun p => fst (snd p)) (mg_parts g)) msgs
  ++ [a_tns a]
  ++ flat_map (fun m => map m_tns (me_faults m)) (all_meths a).

(* ---------------------------------------------------------------- the whole build *)
(** the key toposort2 sorts a tier by: the tuple whose components are read from
    the source (Gen/WsdlGen.v), flattened with U+0000 separators -- code point order
    on the joined text is the order of the tuples (no component contains U+0000) *)
Definition key_comp (c : cls) (k : kcomp) : text :=
  match k with KRepr => c_repr c | KNamespace => c_ns c | KTypeName => c_tn c | KSubName => c_subs c end.
Fixpoint join0 (l : list text) : text :=
  match l with [] => [] | [x] => x | x :: r => x ++ 0 :: join0 r end.
Definition key_of (c : cls) : text := join0 (map (key_comp c) gen_topo_key).
Definition class_key (a : snap) (id : Z) : text :=
  match find_cls (a_classes a) id with Some c => key_of c | None => [] end.

(** decidable form of the hypothesis of C07_doc_det: the key tells the registered
    classes apart *)
Fixpoint injb (key : Z -> text) (l : list Z) : bool :=
  match l with
  | [] => true
  | x :: r => forallb (fun y => (x =? y) || negb (text_eqb (key x) (key y))) r && injb key r
  end.
Definition key_injb (a : snap) : bool := injb (class_key a) (keys (data0 (a_deps a))).

Definition meth_io (a : snap) : list msg :=
  flat_map (fun m => [me_in m; me_out m]) (all_meths a).

Definition wsdl_of (perm : list Z -> list Z) (a : snap) : res adoc :=
  (* build_schema_nodes *)
  dor tiers <- toposort2 perm (class_key a) (a_deps a);
  dor st <- add_all (a_classes a)
                    {| tags := []; nss := [(a_tns a, {| si_types := []; si_elems := [] |})]; trace := [] |}
                    (concat tiers);
  dor scs <- schemas_of (a_imports a) (nss st);
  let tr_imp := flat_map sc_imports scs in
  let tns_els := si_elems (get_info (a_tns a) (nss st)) in
  let '(els2, tr_miss) := missing (meth_io a) tns_els [] in
  let scs2 := upd_tns (a_tns a)
                (fun s => {| sc_ns := sc_ns s; sc_imports := sc_imports s;
                             sc_types := sc_types s; sc_elems := els2 |}) scs in
  (* build_interface_document *)
  dor raw <- all_msgs (all_meths a);
  let msgs := dedup_msgs [] raw in
  if negb (check_ports a) then RErr EValueError else
  ROk {| d_tns := a_tns a; d_schemas := scs2; d_msgs := msgs; d_svcs := services a;
         d_pts := porttypes a; d_binds := bindings a;
         d_trace1 := trace st ++ tr_imp ++ tr_miss;
         d_trace2 := wsdl_trace a msgs |}.

(* ---------------------------------------------------------------- rendering (what the bytes show) *)
(** the token list compared with the parsed real document: every name and every
    QName with the prefix the real code wrote *)
Definition colon : Z := 58.
Definition rq (pm : list (text * text)) (q : qn) : text :=
  match lookup (fst q) pm with Some p => p ++ colon :: snd q | None => 63 :: colon :: snd q end.

Definition tok_schema (pm : list (text * text)) (s : schema) : list text :=
  [[83]; sc_ns s] ++ [73] :: sc_imports s
  ++ flat_map (fun t => [[84]; t_name t; match t_base t with Some q => rq pm q | None => [] end]
                          ++ flat_map (fun m => [fst m; rq pm (snd m)]) (t_members t)) (sc_types s)
  ++ flat_map (fun e => [[69]; fst e; rq pm (snd e)]) (sc_elems s).

Definition tok_doc (pm : list (text * text)) (d : adoc) : list text :=
  flat_map (tok_schema pm) (d_schemas d)
  ++ flat_map (fun g => [[77]; mg_name g] ++ flat_map (fun p => [fst p; rq pm (snd p)]) (mg_parts g)) (d_msgs d)
  ++ flat_map (fun s => [[86]; sv_name s] ++ flat_map (fun p => [fst p; rq pm (snd p)]) (sv_ports s)) (d_svcs d)
  ++ flat_map (fun p => [[80]; pt_name p]
        ++ flat_map (fun o => [[79]; po_name o; fst (po_in o); rq pm (snd (po_in o));
                               fst (po_out o); rq pm (snd (po_out o))]
                              ++ flat_map (fun f => [[70]; fst f; rq pm (snd f)]) (po_faults o)) (pt_ops p)) (d_pts d)
  ++ flat_map (fun b => [[66]; b_name b; rq pm (b_type b)]
        ++ flat_map (fun o => [[79]; bo_name o; bo_in o]
                              ++ flat_map (fun h => [[72]; rq pm (fst h); snd h]) (bo_inh o)
                              ++ [bo_out o]
                              ++ flat_map (fun h => [[72]; rq pm (fst h); snd h]) (bo_outh o)
                              ++ flat_map (fun f => [[70]; f]) (bo_faults o)) (b_ops b)) (d_binds d).

(** final rendering: tokens, and the xmlns declarations of wsdl:definitions
    (prefix, namespace) as frozen when the element was created *)
Definition render (perm : list Z -> list Z) (a : snap) : res (list text * list (text * text)) :=
  dor d <- wsdl_of perm a;
  dor st1 <- alloc_all (a_pst a) (d_trace1 d);
  dor st2 <- alloc_all st1 (d_trace2 d);
  ROk (tok_doc (prefmap st2) d, nsmap st1).

(* ---------------------------------------------------------------- what populate_interface leaves behind *)
(** Decidable form of the hypothesis of the schema-closure theorem
    (SchemaProofs.wf_snap): the facts about the populated Interface that
    Interface.add_class / add_method establish and that the emitters rely on.
    The harness evaluates it on every generated snapshot. *)
Definition reg_keys (a : snap) : list Z := keys (data0 (a_deps a)).
Definition is_complex (c : cls) : bool := match c_kind c with KComplex => true | KPlain => false end.

(** some registered complex class publishes the type [q] *)
Definition type_regb (a : snap) (q : qn) : bool :=
  builtinb q ||
  existsb (fun id => match find_cls (a_classes a) id with
                     | Some c => is_complex c && text_eqb (c_ns c) (fst q) && text_eqb (c_tn c) (snd q)
                     | None => false
                     end) (reg_keys a).
(** some registered complex class publishes the element [q] *)
Definition elem_regb (a : snap) (q : qn) : bool :=
  existsb (fun id => match find_cls (a_classes a) id with
                     | Some c => is_complex c && text_eqb (c_ens c) (fst q) && text_eqb (c_ename c) (snd q)
                     | None => false
                     end) (reg_keys a).

Fixpoint nodupz (l : list Z) : bool :=
  match l with [] => true | x :: r => negb (memz x r) && nodupz r end.
Definition opt_list {A} (o : option (list A)) : list A := match o with Some l => l | None => [] end.
(** headers and faults of all methods *)
Definition meth_hf (a : snap) : list msg :=
  flat_map (fun m => opt_list (me_inh m) ++ opt_list (me_outh m) ++ me_faults m) (all_meths a).

Definition wf_snapb (a : snap) : bool :=
  nodupz (reg_keys a)
  && forallb (fun c => is_complex c || builtinb (c_ns c, c_tn c)) (a_classes a)
  && forallb (fun c => match c_base c with
                       | Some b => match find_cls (a_classes a) b with
                                   | Some bc => type_regb a (c_ns bc, c_tn bc)
                                   | None => true       (* the build raises KeyError *)
                                   end
                       | None => true
                       end) (a_classes a)
  && forallb (fun x => type_regb a (m_tns x, m_tn x)
                       && (text_eqb (m_ens x) (a_tns a) || elem_regb a (m_ens x, m_ename x))) (meth_io a)
  && forallb (fun x => elem_regb a (m_ens x, m_ename x)) (meth_hf a).

(* ---------------------------------------------------------------- ties in toposort2 *)
(** A class whose handler writes nothing (KPlain) only gets tagged by XmlSchema.add,
    so the position of such classes in a tier does not matter.  Decidable form of
    the hypothesis of C07_doc_det_tiers: in every round of toposort2 the sort key
    tells the classes of the tier that DO write something apart. *)
Definition plainb (tbl : list cls) (id : Z) : bool :=
  match find_cls tbl id with Some c => negb (is_complex c) | None => false end.
Definition cxfilter (tbl : list cls) (l : list Z) : list Z := filter (fun id => negb (plainb tbl id)) l.
Fixpoint rounds_sepb (tbl : list cls) (key : Z -> text) (fuel : nat) (d : tdata) : bool :=
  match fuel with
  | O => true
  | S f => let ord := ready d in
           if is_nil ord then true
           else injb key (cxfilter tbl ord) && rounds_sepb tbl key f (strip_ready ord d)
  end.
Definition tier_sepb (a : snap) : bool :=
  is_nil (a_deps a) ||
  rounds_sepb (a_classes a) (class_key a) (S (length (data0 (a_deps a)))) (data0 (a_deps a)).

(* ---------------------------------------------------------------- xs:import completeness *)
(** XSD part 1, 4.2.3 (src-resolve.4): a schema document may refer to components of
    its own target namespace, of the XSD namespace, and of the namespaces it
    imports.  [wf_importsb] is the decidable form of what Interface.add_class /
    add_method register in Interface.imports (hypothesis of C07_imports_closed),
    evaluated by the harness on every snapshot. *)
Definition imp_of (a : snap) (ns : text) : list text :=
  match lookup ns (a_imports a) with Some l => l | None => [] end.
Definition okrefb (a : snap) (ns : text) (q : qn) : bool :=
  text_eqb (fst q) ns || text_eqb (fst q) xsd_ns || memt (fst q) (imp_of a ns).
Definition wf_importsb (a : snap) : bool :=
  forallb (fun c =>
     negb (is_complex c) ||
     ((match c_base c with
       | Some b => match find_cls (a_classes a) b with
                   | Some bc => okrefb a (c_ns c) (c_ns bc, c_tn bc)
                   | None => true
                   end
       | None => true
       end)
      && forallb (fun f => match find_cls (a_classes a) (snd f) with
                           | Some vc => okrefb a (c_ns c) (c_ns vc, c_tn vc)
                           | None => true
                           end) (c_fields c)
      && okrefb a (c_ens c) (c_ns c, c_tn c))) (a_classes a)
  && forallb (fun x => okrefb a (a_tns a) (m_tns x, m_tn x)) (meth_io a).
