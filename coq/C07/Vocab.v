(** C07 -- vocabulary shared by the generated table Gen/WsdlGen.v and the model. *)
From SpyneV Require Import Base.Prelude.

(** the components of the tuple that toposort2 sorts a tier by
    (spyne/util/toposort.py, _sort_key) *)
Inductive kcomp :=
| KRepr        (* repr(item) *)
| KNamespace   (* str(getattr(item, '__namespace__', '')) *)
| KTypeName    (* str(getattr(item, '__type_name__', '')) *)
| KSubName.    (* str(getattr(getattr(item, 'Attributes', None), 'sub_name', '')) *)

Definition kcomp_eqb (a b : kcomp) : bool :=
  match a, b with
  | KRepr, KRepr | KNamespace, KNamespace | KTypeName, KTypeName | KSubName, KSubName => true
  | _, _ => false
  end.
