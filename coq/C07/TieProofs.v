(** C07 -- ties in toposort2.  The key that sorts a tier does not tell every pair of
    classes apart (Array(...) specialisations and customised variants carry the
    names of their origin), so classes with equal keys keep the iteration order of a
    Python set.  This file proves that the order does not reach the document as long
    as, in every tier, the key separates the classes that write something: the
    others (default simple types: KPlain) are only tagged by XmlSchema.add. *)
From Coq Require Import ZArith List Bool Lia Permutation Sorted.
From SpyneV Require Import Base.Prelude C07.Model C07.SortProofs C07.TopoProofs.
Import ListNotations.
Open Scope Z_scope.

(* ---------------------------------------------------------------- lists *)
Lemma Permutation_filter' {A} (p : A -> bool) l l' : Permutation l l' -> Permutation (filter p l) (filter p l').
Proof.
  induction 1; simpl; auto.
  - destruct (p x); auto.
  - destruct (p x); destruct (p y); auto. apply perm_swap.
  - eapply Permutation_trans; eauto.
Qed.

Lemma StronglySorted_filter {A} (R : A -> A -> Prop) (p : A -> bool) l :
  StronglySorted R l -> StronglySorted R (filter p l).
Proof.
  induction 1 as [|x l S IH F]; simpl; [constructor|].
  destruct (p x); auto. constructor; auto.
  rewrite Forall_forall in *. intros y Hy. apply filter_In in Hy as [Hy _]. auto.
Qed.

Lemma filter_app' {A} (p : A -> bool) l1 l2 : filter p (l1 ++ l2) = filter p l1 ++ filter p l2.
Proof. induction l1; simpl; auto. destruct (p a); simpl; congruence. Qed.

(* ---------------------------------------------------------------- states that differ in plain tags only *)
Section Tie.
  Variable tbl : list cls.
  Notation plain := (plainb tbl).

  Definition seq (s s' : sst) : Prop :=
    nss s = nss s' /\ trace s = trace s' /\
    forall id, plain id = false -> (In id (tags s) <-> In id (tags s')).

  Lemma seq_refl s : seq s s.
  Proof. repeat split; auto. Qed.
  Lemma seq_sym s s' : seq s s' -> seq s' s.
  Proof. intros (A & B & C). repeat split; auto; apply C; auto. Qed.
  Lemma seq_trans a b c : seq a b -> seq b c -> seq a c.
  Proof.
    intros (A & B & C) (A' & B' & C'). split; [congruence|]. split; [congruence|].
    intros id H. rewrite (C id H). apply C'. auto.
  Qed.

  Definition rres (r r' : res sst) : Prop :=
    match r, r' with
    | ROk s, ROk s' => seq s s'
    | RErr e, RErr e' => e = e'
    | _, _ => False
    end.

  Lemma rres_sym r r' : rres r r' -> rres r' r.
  Proof. destruct r, r'; simpl; auto. apply seq_sym. Qed.
  Lemma rres_trans a b c : rres a b -> rres b c -> rres a c.
  Proof.
    destruct a, b, c; simpl; try tauto; try congruence. apply seq_trans.
  Qed.

  Definition rres2 {B} (r r' : res (sst * B)) : Prop :=
    match r, r' with
    | ROk x, ROk x' => seq (fst x) (fst x') /\ snd x = snd x'
    | RErr e, RErr e' => e = e'
    | _, _ => False
    end.

  (** an [add] that cannot tell such states apart *)
  Definition respects (add : sst -> Z -> res sst) : Prop :=
    forall s s' v, seq s s' -> rres (add s v) (add s' v).

  Lemma members_respects add : respects add -> forall fs s s', seq s s' ->
    rres2 (members add tbl s fs) (members add tbl s' fs).
  Proof.
    intros RA. induction fs as [|[n v] fs IH]; intros s s' E; simpl.
    - split; auto.
    - destruct (find_cls tbl v) as [vc|]; simpl; auto.
      pose proof (RA s s' v E) as R1.
      destruct (add s v) as [s1|e1]; destruct (add s' v) as [s1'|e1']; simpl in R1; try tauto; simpl; auto.
      set (t1 := {| tags := tags s1; nss := nss s1; trace := trace s1 ++ [c_ns vc] |}).
      set (t1' := {| tags := tags s1'; nss := nss s1'; trace := trace s1' ++ [c_ns vc] |}).
      assert (seq t1 t1') as E1.
      { destruct R1 as (A & B & C). unfold t1, t1'. split; [|split]; simpl; auto. congruence. }
      specialize (IH t1 t1' E1).
      destruct (members add tbl t1 fs) as [[s2 m2]|e2]; destruct (members add tbl t1' fs) as [[s2' m2']|e2'];
        simpl in IH; try tauto; simpl; auto.
      destruct IH as [A B]. simpl in *. split; auto. congruence.
  Qed.

  Lemma complex_add_respects add c : respects add -> forall s s', seq s s' ->
    rres (complex_add add tbl c s) (complex_add add tbl c s').
  Proof.
    intros RA s s' E. unfold complex_add.
    destruct (match c_base c with
              | None => ROk None
              | Some b => match find_cls tbl b with
                          | None => RErr EKeyError
                          | Some bc => if text_eqb (c_tn bc) (c_tn c) && text_eqb (c_ns bc) (c_ns c)
                                       then RErr ESameName else ROk (Some (c_ns bc, c_tn bc))
                          end
              end) as [bq|e]; simpl; auto.
    set (t := {| tags := tags s; nss := nss s; trace := trace s ++ match bq with Some q => [fst q] | None => [] end |}).
    set (t' := {| tags := tags s'; nss := nss s'; trace := trace s' ++ match bq with Some q => [fst q] | None => [] end |}).
    assert (seq t t') as E0.
    { destruct E as (A & B & C). unfold t, t'. split; [|split]; simpl; auto. congruence. }
    pose proof (members_respects add RA (c_fields c) t t' E0) as M.
    destruct (members add tbl t (c_fields c)) as [[sm ms]|e]; destruct (members add tbl t' (c_fields c)) as [[sm' ms']|e'];
      simpl in M; try tauto; simpl; auto.
    destruct M as [(A & B & C) D]. simpl in *. subst ms'.
    unfold seq; simpl. rewrite A, B. split; [reflexivity|]. split; [reflexivity|]. exact C.
  Qed.

  Lemma plain_found id : plain id = true -> exists c, find_cls tbl id = Some c /\ c_kind c = KPlain.
  Proof.
    unfold plainb. destruct (find_cls tbl id) as [c|]; try discriminate.
    unfold is_complex. destruct (c_kind c) eqn:K; simpl; try discriminate. eauto.
  Qed.

  Lemma seq_tag s s' id : seq s s' ->
    seq {| tags := id :: tags s; nss := nss s; trace := trace s |}
        {| tags := id :: tags s'; nss := nss s'; trace := trace s' |}.
  Proof.
    intros (A & B & C). split; [|split]; simpl; auto.
    intros x Hx. rewrite (C x Hx). tauto.
  Qed.

  Lemma seq_tag_plain s id : plain id = true ->
    seq s {| tags := id :: tags s; nss := nss s; trace := trace s |}.
  Proof.
    intros P. split; [|split]; simpl; auto. intros x Hx. split; auto.
    intros [<-|H]; auto. congruence.
  Qed.

  Lemma add_cls_respects fuel : respects (add_cls fuel tbl).
  Proof.
    induction fuel as [|f IH]; intros s s' v E; simpl; auto.
    destruct (plain v) eqn:P.
    - (* a plain class: whichever branch is taken, only the tags change *)
      destruct (plain_found v P) as (c & F & K). rewrite F, K.
      destruct (memz v (tags s)); destruct (memz v (tags s')); simpl.
      + exact E.
      + eapply seq_trans; [exact E|]. apply seq_tag_plain. auto.
      + eapply seq_trans; [|exact E]. apply seq_sym. apply seq_tag_plain. auto.
      + apply seq_tag. auto.
    - assert (memz v (tags s) = memz v (tags s')) as M.
      { destruct E as (_ & _ & C). specialize (C v P).
        destruct (memz v (tags s)) eqn:M1; destruct (memz v (tags s')) eqn:M2; auto.
        - apply memz_In in M1. apply C in M1. apply memz_In in M1. congruence.
        - apply memz_In in M2. apply C in M2. apply memz_In in M2. congruence. }
      rewrite <- M. destruct (memz v (tags s)); simpl; auto.
      destruct (find_cls tbl v) as [c|]; simpl; auto.
      destruct (c_kind c).
      + apply complex_add_respects; auto. apply seq_tag. auto.
      + apply seq_tag. auto.
  Qed.

  (** a plain class changes nothing but the tags *)
  Lemma add_cls_plain fuel s id : plain id = true -> exists s1, add_cls (S fuel) tbl s id = ROk s1 /\ seq s s1.
  Proof.
    intros P. destruct (plain_found id P) as (c & F & K). simpl. rewrite F, K.
    destruct (memz id (tags s)).
    - exists s. split; auto. apply seq_refl.
    - eexists. split; [reflexivity|]. apply seq_tag_plain. auto.
  Qed.

  Lemma add_all_cx l : forall s s', seq s s' ->
    rres (add_all tbl s l) (add_all tbl s' (cxfilter tbl l)).
  Proof.
    induction l as [|id l IH]; intros s s' E; simpl; auto.
    destruct (plain id) eqn:P; simpl.
    - destruct (add_cls_plain (length tbl) s id P) as (s1 & A & E1).
      change (rres (dor st1 <- add_cls (S (length tbl)) tbl s id; add_all tbl st1 l) (add_all tbl s' (cxfilter tbl l))).
      rewrite A. simpl. apply IH. eapply seq_trans; [apply seq_sym; exact E1|exact E].
    - change (rres (dor st1 <- add_cls (S (length tbl)) tbl s id; add_all tbl st1 l)
                   (dor st1 <- add_cls (S (length tbl)) tbl s' id; add_all tbl st1 (cxfilter tbl l))).
      pose proof (add_cls_respects (S (length tbl)) s s' id E) as R.
      destruct (add_cls (S (length tbl)) tbl s id) as [s1|e]; destruct (add_cls (S (length tbl)) tbl s' id) as [s1'|e'];
        simpl in R; try tauto; simpl; auto.
  Qed.

  Lemma add_all_tie l l' s : cxfilter tbl l = cxfilter tbl l' ->
    rres (add_all tbl s l) (add_all tbl s l').
  Proof.
    intros E. eapply rres_trans; [apply add_all_cx; apply seq_refl|].
    rewrite E. apply rres_sym. apply add_all_cx. apply seq_refl.
  Qed.

  (* -------------------------------------------------------------- the tiers *)
  Variable key : Z -> text.
  Variables perm1 perm2 : list Z -> list Z.
  Hypothesis perm1_ok : forall l, Permutation (perm1 l) l.
  Hypothesis perm2_ok : forall l, Permutation (perm2 l) l.

  Lemma tier_tie ord :
    (forall x y, In x (cxfilter tbl ord) -> In y (cxfilter tbl ord) -> key x = key y -> x = y) ->
    cxfilter tbl (isort (key_leb key) (perm1 ord)) = cxfilter tbl (isort (key_leb key) (perm2 ord)).
  Proof.
    intros INJ. unfold cxfilter.
    assert (forall p, (forall l, Permutation (p l) l) ->
              Permutation (filter (fun id => negb (plainb tbl id)) (isort (key_leb key) (p ord)))
                          (filter (fun id => negb (plainb tbl id)) ord)) as PF.
    { intros p Hp. apply Permutation_filter'. rewrite isort_perm. apply Hp. }
    apply (sorted_perm_eq (key_leb key)).
    - intros x y Hx Hy A B. apply INJ.
      + eapply Permutation_in; [apply (PF perm1 perm1_ok)|exact Hx].
      + eapply Permutation_in; [apply (PF perm1 perm1_ok)|exact Hy].
      + apply text_leb_antisym; auto.
    - apply StronglySorted_filter. apply isort_sorted.
      + intros x y. apply text_leb_total.
      + intros x y z. apply text_leb_trans.
    - apply StronglySorted_filter. apply isort_sorted.
      + intros x y. apply text_leb_total.
      + intros x y z. apply text_leb_trans.
    - rewrite (PF perm1 perm1_ok), (PF perm2 perm2_ok). auto.
  Qed.

  Lemma rounds_sepb_ok fuel : forall d, rounds_sepb tbl key fuel d = true ->
    match topo_loop perm1 key fuel d, topo_loop perm2 key fuel d with
    | ROk t1, ROk t2 => cxfilter tbl (concat t1) = cxfilter tbl (concat t2)
    | RErr e1, RErr e2 => e1 = e2
    | _, _ => False
    end.
  Proof.
    induction fuel as [|f IH]; intros d H; simpl; auto.
    simpl in H. destruct (is_nil (ready d)) eqn:E.
    - destruct (is_nil d); auto.
    - apply andb_true_iff in H as [H1 H2]. specialize (IH _ H2).
      destruct (topo_loop perm1 key f (strip_ready (ready d) d)) as [r1|e1];
        destruct (topo_loop perm2 key f (strip_ready (ready d) d)) as [r2|e2]; simpl; try tauto.
      unfold cxfilter in *. rewrite !filter_app'. rewrite IH. f_equal.
      apply tier_tie. apply injb_ok. exact H1.
  Qed.
End Tie.

(* ---------------------------------------------------------------- the document *)
Theorem doc_det_tiers_thm perm1 perm2 a imp :
  (forall l, Permutation (perm1 l) l) -> (forall l, Permutation (perm2 l) l) ->
  imports_equiv (a_imports a) imp -> tier_sepb a = true ->
  wsdl_of perm1 a = wsdl_of perm2 (with_imports a imp) /\
  render perm1 a = render perm2 (with_imports a imp).
Proof.
  intros P1 P2 EQ SEP.
  assert (wsdl_of perm1 a = wsdl_of perm2 (with_imports a imp)) as W.
  { unfold wsdl_of.
    change (class_key (with_imports a imp)) with (class_key a).
    change (a_deps (with_imports a imp)) with (a_deps a).
    change (a_classes (with_imports a imp)) with (a_classes a).
    change (a_tns (with_imports a imp)) with (a_tns a).
    change (a_imports (with_imports a imp)) with imp.
    assert (match toposort2 perm1 (class_key a) (a_deps a), toposort2 perm2 (class_key a) (a_deps a) with
            | ROk t1, ROk t2 => cxfilter (a_classes a) (concat t1) = cxfilter (a_classes a) (concat t2)
            | RErr e1, RErr e2 => e1 = e2
            | _, _ => False
            end) as T.
    { unfold toposort2. unfold tier_sepb in SEP. destruct (is_nil (a_deps a)).
      - reflexivity.
      - cbn [orb] in SEP. apply rounds_sepb_ok; auto. }
    destruct (toposort2 perm1 (class_key a) (a_deps a)) as [t1|e1];
      destruct (toposort2 perm2 (class_key a) (a_deps a)) as [t2|e2]; try tauto; simpl; [|congruence].
    set (st0 := {| tags := []; nss := [(a_tns a, {| si_types := []; si_elems := [] |})]; trace := [] |}).
    pose proof (add_all_tie (a_classes a) (concat t1) (concat t2) st0 T) as R.
    destruct (add_all (a_classes a) st0 (concat t1)) as [s1|e1]; destruct (add_all (a_classes a) st0 (concat t2)) as [s2|e2];
      simpl in R; try tauto; simpl; [|congruence].
    destruct R as (A & B & _). rewrite <- A, <- B.
    rewrite (schemas_of_equiv _ _ _ EQ). reflexivity. }
  split; auto. unfold render. rewrite W. reflexivity.
Qed.
