(** C04 — the dict-document typing lemmas instantiated with the choices read from the source
    (Gen/DictLeaf.v); the MessagePack ByteArray defect and the code before the repairs are
    refuted on witnesses. *)
From Coq Require Import ZArith List Bool Lia.
From SpyneV Require Import Base.Prelude C04.Guard C04.DictModel C04.DictProofs Gen.DictLeaf.
Import ListNotations.
Open Scope Z_scope.

Lemma generated_leaf_ok : forall p, leaf_cfg_ok (dict_leaf p) = true.
Proof. intros [| |]; vm_compute; reflexivity. Qed.

Lemma dict_typed : forall (C : dcfg) (U : duniverse),
  d_soft C = true -> d_leaf C = dict_leaf (d_proto C) ->
  ((forall p s v, d_rd C p s = Ok v -> rd_kind p v) /\ (forall p b v, d_rdb C p b = Ok v -> rd_kind p v)) ->
  dwf U = true ->
  forall fuel t nullable d v,
    (d_proto C <> PMsgpack \/ (duniv_no_bytes U = true /\ dty_no_bytes t = true)) ->
    fdv C U fuel t nullable d = Ok v -> has_dtype U v t.
Proof.
  intros C U Hs Hl Hr Hw fuel t nullable d v Hg H.
  eapply fdv_typed; eauto. rewrite Hl. apply generated_leaf_ok.
Qed.

Lemma dict_args_typed_gen : forall (C : dcfg) (U : duniverse),
  d_soft C = true -> d_leaf C = dict_leaf (d_proto C) ->
  ((forall p s v, d_rd C p s = Ok v -> rd_kind p v) /\ (forall p b v, d_rdb C p b = Ok v -> rd_kind p v)) ->
  dwf U = true ->
  forall fuel m d args,
    (d_proto C <> PMsgpack \/ duniv_no_bytes U = true) ->
    dict_call_args C U fuel m d = Ok args ->
    args = [] \/ exists c ffs, dsub U c m = true /\ dflat U c = Some ffs /\ Forall2 (dmember_has U) ffs args.
Proof.
  intros C U Hs Hl Hr Hw fuel m d args Hg H.
  eapply dict_args_typed; eauto.
  - rewrite Hl. apply generated_leaf_ok.
  - destruct Hg as [Hg|Hg]; [left; exact Hg|right; split; [exact Hg|reflexivity]].
Qed.

(** readers that never answer: enough for witnesses that do not involve text *)
Definition no_reader (p : dprim) (s : text) : out nv := VFault.
Definition no_decode (b : text) : option text := None.

(** MessagePack: a ByteArray member receives whatever the document holds, in a 1-tuple *)
Lemma dict_msgpack_bytes_refuted :
  exists (C : dcfg) (U : duniverse) fuel t d v,
    d_proto C = PMsgpack /\ d_soft C = true /\ d_leaf C = dict_leaf PMsgpack /\ dwf U = true
    /\ fdv C U fuel t true d = Ok v /\ ~ has_dtype U v t.
Proof.
  exists (mkdcfg PMsgpack true true (dict_leaf PMsgpack) no_reader no_reader no_decode), [], 1%nat, (DPrim DBytes), (JStr [97; 98; 99]),
         (NTuple (JStr [97; 98; 99])).
  repeat split; try reflexivity. cbn. intro H. exact H.
Qed.

(** the code before the repairs (all three choices the other way): an Integer member receives
    the float 2.0, a Boolean member the int 1, a ComplexModel member the list [] *)
Definition unrepaired : leaf_cfg := mkleafcfg false false false false false.
Definition one_class : duniverse := [ mkdc [75] None [ mkdf [105] (DPrim (DInt None None)) 0 (Some 1) true ] [] ].

Lemma dict_unrepaired_refuted :
  let C := mkdcfg PJson true true unrepaired no_reader no_reader no_decode in
  dwf one_class = true
  /\ (fdv C one_class 2 (DPrim (DInt None None)) true (JFlt (FInt 2)) = Ok (NFlt (FInt 2))
      /\ ~ has_dtype one_class (NFlt (FInt 2)) (DPrim (DInt None None)))
  /\ (fdv C one_class 2 (DPrim DBool) true (JInt 1) = Ok (NInt 1)
      /\ ~ has_dtype one_class (NInt 1) (DPrim DBool))
  /\ (fdv C one_class 2 (DRef 0%nat) true JNull = Ok (NList [])
      /\ ~ has_dtype one_class (NList []) (DRef 0%nat))
  /\ (fdv C one_class 2 (DWrap DText) true (JList [JInt 1]) = Ok (NRaw (JList [JInt 1]))
      /\ ~ has_dtype one_class (NRaw (JList [JInt 1])) (DWrap DText)).
Proof.
  cbn zeta. split; [reflexivity|].
  repeat split; try (vm_compute; reflexivity); cbn; intro H; exact H.
Qed.
