(** C04 — the XML typing lemmas instantiated with the decision table generated from
    spyne/protocol/xml.py (Gen/XsiGuard.v) and with Spyne's concrete primitive readers
    (C01/Leaf.v); refusal of unrelated xsi:type values; the unguarded table is refuted. *)
From Coq Require Import ZArith List Bool Lia.
From SpyneV Require Import Base.Prelude Wire.Universe Wire.Xml C01.Leaf C04.Guard C04.XmlModel C04.XmlProofs
                           Gen.XsiGuard.
Import ListNotations.
Open Scope Z_scope.

(** the table read from the source is one that only lets a proper subclass of a non-Array
    declared class replace the declared class *)
Lemma generated_guard_ok : guard_ok xsi_target = true.
Proof. vm_compute. reflexivity. Qed.

(** ... and refuses every class that is not a subclass, and every other Array *)
Lemma generated_guard_strict : guard_strict xsi_target = true.
Proof. vm_compute. reflexivity. Qed.

Lemma xml_typed : forall (L : leaf_codec) (C : xcfg4) (U : universe),
  (forall p s v, lc_rd L p s = Ok v -> prim_has p v = true) ->
  wf_universe U = true -> attrs_single U = true -> x4_target C = xsi_target ->
  forall fuel t nillable e v,
    dec4 L C U fuel t nillable e = Ok v -> has_type U (x4_parse C) v t.
Proof.
  intros L C U HL Hwf Ha Ht. eapply dec4_typed; eauto. rewrite Ht. exact generated_guard_ok.
Qed.

Lemma spyne_leaf_typed : leaf_typed spyne_leaf.
Proof.
  intros p s v H. cbn in H. unfold leaf_rd in H. destruct p.
  - destruct (C08.IntModel.integer_from_unicode Gen.NumTypes.attrs_Integer s); try discriminate.
    cbn in H. inversion H. reflexivity.
  - inversion H. reflexivity.
  - inversion H. reflexivity.
Qed.

Lemma xml_typed_spyne : forall (C : xcfg4) (U : universe),
  wf_universe U = true -> attrs_single U = true -> x4_target C = xsi_target ->
  forall fuel t e v,
    from_element4 spyne_leaf C U fuel t e = Ok v -> has_type U (x4_parse C) v t.
Proof.
  intros C U Hwf Ha Ht fuel t e v H. eapply xml_typed; eauto. exact spyne_leaf_typed.
Qed.

Lemma xml_args_typed : forall (L : leaf_codec) (C : xcfg4) (U : universe),
  (forall p s v, lc_rd L p s = Ok v -> prim_has p v = true) ->
  wf_universe U = true -> attrs_single U = true -> x4_target C = xsi_target ->
  forall fuel m root args,
    call_args L C U fuel m root = Ok args ->
    exists d ffs, (if x4_parse C then is_subclass U d m else Nat.eqb d m) = true
                  /\ flat_fields U d = Some ffs
                  /\ Forall2 (member_has_type U (x4_parse C)) ffs args.
Proof.
  intros L C U HL Hwf Ha Ht fuel m root args H.
  eapply call_args_typed; eauto. rewrite Ht. exact generated_guard_ok.
Qed.

(* ------------------------------------------------------------------ refusal *)

(** the class Interface.classes holds for an xsi:type value in the scope of an element *)
Definition xsi_class (C : xcfg4) (nsmap : list (option text * text)) (s : text) : option rtarget :=
  let '(prefix, objtype) := match split_colon s with Some (a, b) => (Some a, b) | None => (None, s) end in
  match nsmap_get prefix nsmap with
  | None => None
  | Some ns => reg_get (classkey ns objtype) (x4_reg C)
  end.

(** [g] cannot stand for the declared type [t]: not a subclass, or another Array class *)
Definition unrelated (C : xcfg4) (U : universe) (t : ty) (g : rtarget) : Prop :=
  sub_of U t g = false \/ (is_arr t = true /\ same_name C U t g = false).

Lemma xml_retag_rejected : forall (L : leaf_codec) (C : xcfg4) (U : universe),
  x4_target C = xsi_target -> x4_parse C = true ->
  forall fuel t nillable ns name nsmap atts txt kids s,
    is_nil atts = false -> lookup_att xsi_ns t_type atts = Some s ->
    (xsi_class C nsmap s = None \/ exists g, xsi_class C nsmap s = Some g /\ unrelated C U t g) ->
    dec4 L C U (S fuel) t nillable (XE ns name nsmap atts txt kids) = VFault.
Proof.
  intros L C U Ht Hp fuel t nillable ns name nsmap atts txt kids s Hn Hs Hc.
  cbn [dec4]. rewrite Hn, Hp, Hs.
  assert (resolve C U nsmap t s = VFault) as ->; [|reflexivity].
  unfold resolve. unfold xsi_class in Hc.
  destruct (match split_colon s with Some (a, b) => (Some a, b) | None => (None, s) end) as [prefix objtype].
  destruct (nsmap_get prefix nsmap) as [nsu|].
  - destruct (reg_get (classkey nsu objtype) (x4_reg C)) as [g|].
    + destruct Hc as [Hc|[g' [Hg Hu]]]; [discriminate|]. inversion Hg; subst g'.
      rewrite Ht. rewrite (guard_strict_spec _ generated_guard_strict); [reflexivity|apply same_origin_sub_of|].
      destruct Hu as [Hu|[Hu1 Hu2]]; [left; exact Hu|right; split; assumption].
    + reflexivity.
  - reflexivity.
Qed.

(* ------------------------------------------------------------------ the code before the repair *)

Definition xsd_ns : text := [104; 116; 116; 112; 58; 47; 47; 119; 119; 119; 46; 119; 51; 46; 111; 114; 103; 47; 50; 48; 48; 49; 47; 88; 77; 76; 83; 99; 104; 101; 109; 97].

(** <i xmlns:xs="http://www.w3.org/2001/XMLSchema" xsi:type="xs:string">abc</i> read where an
    Integer is declared, with the registry {xsd}string -> Unicode *)
Definition pinned_reg : list (text * rtarget) :=
  [ (classkey xsd_ns t_string, RTy (TPrim PText)); (classkey xsd_ns t_integer, RTy (TPrim PInt)) ].
Definition pinned_doc : xn :=
  XE [] [105] [(Some [120; 115], xsd_ns)] [(xsi_ns, t_type, [120; 115; 58; 115; 116; 114; 105; 110; 103])]
     (Some [97; 98; 99]) [].

Lemma xml_unguarded_refuted :
  exists (C : xcfg4) (U : universe) fuel t e v,
    x4_target C = xsi_table_unguarded /\ wf_universe U = true /\ attrs_single U = true
    /\ from_element4 spyne_leaf C U fuel t e = Ok v /\ ~ has_type U (x4_parse C) v t.
Proof.
  exists (mkx4 true true None pinned_reg xsi_table_unguarded), [], 2%nat, (TPrim PInt), pinned_doc,
         (VLeaf (LText [97; 98; 99])).
  split; [reflexivity|]. split; [reflexivity|]. split; [reflexivity|]. split; [vm_compute; reflexivity|].
  cbn. discriminate.
Qed.
