(** C04 — vocabulary shared by the hand-written models and the tables generated from the
    source (coq/Gen/XsiGuard.v, coq/Gen/DictLeaf.v).  Definitions only. *)
From SpyneV Require Export Base.Prelude.

(** what XmlDocument.from_element does with the class [newclass] that interface.classes
    returned for an xsi:type attribute: refuse it (ValidationError), keep the declared class,
    or deserialise the element as [newclass] *)
Inductive xsi_decision := XReject | XDeclared | XNew.

Definition xsi_decision_eqb (a b : xsi_decision) : bool :=
  match a, b with
  | XReject, XReject | XDeclared, XDeclared | XNew, XNew => true
  | _, _ => false
  end.

(** The decision as a function of the five tests the code makes on (declared class,
    newclass); [sup]/[sub] are the __orig__ of the declared class / of newclass:
      same     : sub is sup
      arr      : issubclass(sup, Array)
      subof    : issubclass(sub, sup)
      samename : (namespace, type name) of newclass = (namespace, type name) of the declared class
      cplx     : issubclass(sup, ComplexModelBase) *)
Definition xsi_table := bool -> bool -> bool -> bool -> bool -> xsi_decision.

Definition all_bool5 (f : bool -> bool -> bool -> bool -> bool -> bool) : bool :=
  forallb (fun a => forallb (fun b => forallb (fun c => forallb (fun d => forallb (fun e => f a b c d e)
    [true; false]) [true; false]) [true; false]) [true; false]) [true; false].

(** what the typing theorem needs of the table: an element is deserialised as [newclass]
    only if newclass is a subclass of the declared class, the declared class is a complex
    type (subclasses of primitives need not share the native type of their parent: Double
    derives from Decimal, Uuid from Unicode) and not an Array (all Array(T) classes share the
    origin Array, so issubclass says nothing there) *)
Definition guard_ok (T : xsi_table) : bool :=
  all_bool5 (fun same arr subof samename cplx =>
    negb (xsi_decision_eqb (T same arr subof samename cplx) XNew) || (subof && negb arr && cplx)).

(** what "a request that would need such a substitution is refused" needs of the table.
    The combination [same && negb subof] cannot occur (a class is a subclass of itself). *)
Definition guard_strict (T : xsi_table) : bool :=
  all_bool5 (fun same arr subof samename cplx =>
    (same && negb subof)
    || negb (negb subof || (arr && negb samename))
    || xsi_decision_eqb (T same arr subof samename cplx) XReject).
