(** C04 — model of the input side of the hierarchical dict-document protocols
    (spyne/protocol/dictdoc/hier.py: HierDictDocument._doc_to_object, _from_dict_value,
    validate; spyne/protocol/json.py, yaml.py, msgpack.py: _ret_number, _ret_bool,
    integer_from_bytes, JsonDocument.validate; spyne/protocol/dictdoc/_base.py:
    _check_freq_dict) as far as the *type* of what they hand to user code is concerned.
    Definitions only.

    Documents are what json.loads / yaml.load / msgpack.unpackb produce: null, booleans,
    integers, floats, text, byte strings, lists, maps with arbitrary scalar keys.  Floats are
    classified, not computed with: integral (with their value), other finite, NaN, infinite.

    Leaf types: the Integer family (with the hardware bounds of the class, None = unbounded),
    Double, Boolean, Unicode, Date (standing for the types the protocols transport as text
    and parse: Date, DateTime, Time) and ByteArray.  The text readers themselves
    (ProtocolBase.from_unicode on a str / on a bytes object) are the parameters [rd] / [rdb]:
    C08 is about them; here only their kind matters.

    Three choices of the source that decide the property are parameters ([leaf_cfg]),
    regenerated from the source on every run (Gen/DictLeaf.v). *)
From SpyneV Require Export Base.Prelude C04.Guard.

Inductive flt := FInt (z : Z) | FFrac | FNan | FInf.

Inductive jv :=
| JNull | JBool (b : bool) | JInt (z : Z) | JFlt (f : flt) | JStr (s : text) | JBytes (b : text)
| JList (l : list jv) | JMap (kv : list (jv * jv)).

Inductive dprim := DInt (lo hi : option Z) | DDouble | DBool | DText | DDate | DBytes.
(** DWrap p: a member declared XmlAttribute(T) / XmlData(T) for a leaf type T — in a dict
    document a plain member of the wrapped type *)
Inductive dty := DPrim (p : dprim) | DRef (c : nat) | DArr (e : dty) | DWrap (p : dprim).

(** one entry of _type_info: name, type, min_occurs, max_occurs (None = unbounded), nullable *)
Record dfield := mkdf { df_name : text; df_ty : dty; df_min : Z; df_max : option Z; df_nullable : bool }.
(** a ComplexModel class: type name, parent, own members, get_subclasses() (transitive, as registered) *)
Record dcls := mkdc { dc_name : text; dc_parent : option nat; dc_own : list dfield; dc_subs : list nat }.
Definition duniverse := list dcls.

(** native values handed to user code *)
Inductive nv :=
| NNone | NBool (b : bool) | NInt (z : Z) | NFlt (f : flt) | NText (s : text)
| NParsed (p : dprim)          (* the result of the protocol's text reader for p: a native of p (date, byte chunks) *)
| NRaw (d : jv)                (* the document node itself, passed through *)
| NTuple (d : jv)              (* (d,) : binary_decoding_handlers[None] *)
| NObj (c : nat) (fs : list nv)
| NList (l : list nv).

Inductive proto := PJson | PYaml | PMsgpack.

(** the three places where one token of the source decides the property *)
Record leaf_cfg := mkleafcfg {
  lc_bool_identity : bool;      (* _ret_bool: 'value is True or value is False' rather than 'value in (True, False)' *)
  lc_int_from_float : bool;     (* _ret_number / msgpack integer_from_bytes: Integer members get int(value) for integral floats, refuse the others *)
  lc_null_object_none : bool;   (* _from_dict_value: a null ComplexModel / Array member is None, not _doc_to_object(None) = [] *)
  lc_unwrap_first : bool;       (* _from_dict_value: XmlAttribute / XmlData is unwrapped BEFORE validate() looks at the class
                                   (otherwise validate sees a wrapper class that is no Unicode / text-borne type and lets
                                   lists, maps and numbers through to Unicode members) *)
  lc_int_refuses_containers : bool  (* msgpack integer_from_bytes: a list or a map is refused (JSON / YAML _ret_number always does);
                                       decides no type: under validator='soft' a passed-through container fails validate_native *)
}.
Definition leaf_cfg_ok (c : leaf_cfg) : bool :=
  lc_bool_identity c && lc_int_from_float c && lc_null_object_none c && lc_unwrap_first c.

Definition dget (U : duniverse) (c : nat) : option dcls := nth_error U c.

Fixpoint dflat_fuel (fuel : nat) (U : duniverse) (c : nat) : option (list dfield) :=
  match fuel with
  | O => None
  | S k => match dget U c with
           | None => None
           | Some cl => match dc_parent cl with
                        | None => Some (dc_own cl)
                        | Some p => match dflat_fuel k U p with
                                    | Some pf => Some (pf ++ dc_own cl)
                                    | None => None
                                    end
                        end
           end
  end.
Definition dflat (U : duniverse) (c : nat) : option (list dfield) := dflat_fuel (S c) U c.

Fixpoint dsub_fuel (fuel : nat) (U : duniverse) (d c : nat) : bool :=
  if Nat.eqb d c then true
  else match fuel with
       | O => false
       | S k => match dget U d with
                | Some cl => match dc_parent cl with Some p => dsub_fuel k U p c | None => false end
                | None => false
                end
       end.
Definition dsub (U : duniverse) (d c : nat) : bool := dsub_fuel (S d) U d c.

Definition dmulti (f : dfield) : bool := match df_max f with Some m => 1 <? m | None => true end.

Definition in_range (lo hi : option Z) (z : Z) : bool :=
  match lo with Some l => l <=? z | None => true end && match hi with Some h => z <=? h | None => true end.

(* ------------------------------------------------------------------ the typing judgement *)

(** a native value of the kind of a leaf type.  An int stands where a Double is declared (the
    numeric tower); a bool is an int.  A ByteArray is a sequence of byte strings. *)
Definition leaf_has (p : dprim) (v : nv) : Prop :=
  match p, v with
  | DInt lo hi, NInt z => in_range lo hi z = true
  | DInt lo hi, NBool b => in_range lo hi (if b then 1 else 0) = true
  | DDouble, NFlt _ => True
  | DDouble, NInt _ => True
  | DBool, NBool _ => True
  | DText, NText _ => True
  | DDate, NParsed DDate => True
  | DBytes, NParsed DBytes => True
  | DBytes, NTuple (JBytes _) => True
  | _, _ => False
  end.

Fixpoint has_dtype (U : duniverse) (v : nv) (t : dty) {struct v} : Prop :=
  match v with
  | NNone => True
  | NList vs =>
      match t with
      | DArr e => (fix all (l : list nv) : Prop :=
                     match l with [] => True | x :: r => has_dtype U x e /\ all r end) vs
      | _ => False
      end
  | NObj d vals =>
      match t with
      | DRef c =>
          dsub U d c = true
          /\ match dflat U d with
             | None => False
             | Some ffs =>
                 (fix go (xs : list nv) (fs : list dfield) : Prop :=
                    match xs, fs with
                    | [], [] => True
                    | x :: xr, f :: fr =>
                        (if dmulti f then
                           match x with
                           | NNone => True
                           | NList ys => (fix all (l : list nv) : Prop :=
                                            match l with [] => True | y :: r => has_dtype U y (df_ty f) /\ all r end) ys
                           | _ => False
                           end
                         else has_dtype U x (df_ty f))
                        /\ go xr fr
                    | _, _ => False
                    end) vals ffs
             end
      | _ => False
      end
  | _ => match t with DPrim p | DWrap p => leaf_has p v | _ => False end
  end.

Definition dmember_has (U : duniverse) (f : dfield) (x : nv) : Prop :=
  if dmulti f then
    match x with
    | NNone => True
    | NList ys => Forall (fun y => has_dtype U y (df_ty f)) ys
    | _ => False
    end
  else has_dtype U x (df_ty f).

(* ------------------------------------------------------------------ the deserialiser *)

Record dcfg := mkdcfg {
  d_proto : proto;
  d_soft : bool;                         (* validator='soft' *)
  d_ignore_wrappers : bool;              (* the protocol's ignore_wrappers (default True) *)
  d_leaf : leaf_cfg;
  d_rd : dprim -> text -> out nv;        (* from_unicode(cls, <str>) *)
  d_rdb : dprim -> text -> out nv;       (* from_unicode(ByteArray, <bytes>, binary_encoding) *)
  d_dec : text -> option text            (* bytes.decode(string_encoding or 'utf8'); None = UnicodeError *)
}.

(** iterating a document node the way 'for x in doc' does *)
Definition iter_doc (d : jv) : option (list jv) :=
  match d with
  | JList l => Some l
  | JMap kv => Some (map fst kv)
  | JStr s => Some (map (fun c => JStr [c]) s)
  | JBytes b => Some (map JInt b)
  | _ => None
  end.

Fixpoint mapMd {A B} (f : A -> out B) (l : list A) : out (list B) :=
  match l with
  | [] => Ok []
  | x :: r => do y <- f x; do ys <- mapMd f r; Ok (y :: ys)
  end.

Definition dstate := list (text * nv).
Fixpoint dgetattr (st : dstate) (k : text) : nv :=
  match st with
  | [] => NNone
  | (k', v) :: r => if text_eqb k' k then v else dgetattr r k
  end.
Definition dsetattr (st : dstate) (k : text) (v : nv) : dstate := (k, v) :: st.

Fixpoint dfind (k : text) (fs : list dfield) : option dfield :=
  match fs with
  | [] => None
  | f :: r => if text_eqb (df_name f) k then Some f else dfind k r
  end.

Fixpoint dcount (k : text) (l : list text) : Z :=
  match l with
  | [] => 0
  | x :: r => (if text_eqb x k then 1 else 0) + dcount k r
  end.

Definition is_one_or_zero (z : Z) : bool := (z =? 0) || (z =? 1).

Section Dict.
  Variable C : dcfg.
  Variable U : duniverse.

  (** a key of a member map as a member name: text; bytes when the protocol has a
      key_encoding (MessagePack: utf8; ASCII keys only in generated cases); anything else
      names no member *)
  Definition key_text (k : jv) : option text :=
    match k with
    | JStr s => Some s
    | JBytes b => match d_proto C with PMsgpack => Some b | _ => None end
    | _ => None
    end.
  (** the key of a wrapper dict as a class name: bytes are decoded *)
  Definition wrapper_name (k : jv) : option text :=
    match k with JStr s => Some s | JBytes b => Some b | _ => None end.

  Definition is_strlike (d : jv) : bool := match d with JStr _ | JBytes _ => true | _ => false end.

  (** HierDictDocument.validate (+ JsonDocument.validate), called under validator='soft':
      Unicode members want text or bytes; members transported as text (Date) want text or
      bytes unless null; JSON wants a str there *)
  Definition validate_pre (p : dprim) (nullable : bool) (d : jv) : bool :=
    (match d, nullable with
     | JNull, true => true
     | JNull, false => match p with DText => false | _ => true end
     | _, _ => match p with DText | DDate => is_strlike d | _ => true end
     end)
    && (match d_proto C, p with
        | PJson, DDate => match d with JStr _ | JNull => true | _ => false end
        | _, _ => true
        end).

  (** the source guards of _from_dict_value, whatever the validator: a type that travels as
      text (Date, ByteArray) wants text or bytes; a number (the Decimal family: Integer,
      Double) wants an int, a float, text or bytes — bool is an int *)
  Definition guard_pre (p : dprim) (d : jv) : bool :=
    match d with
    | JNull => true
    | _ => match p with
           | DDate | DBytes => is_strlike d
           | DInt _ _ | DDouble => match d with JList _ | JMap _ => false | _ => true end
           | _ => true
           end
    end.

  (** text that arrived as a byte string is decoded before it is validated and parsed
      (not for ByteArray members); UnicodeError -> ValidationError *)
  Definition norm_bytes (p : dprim) (d : jv) : out jv :=
    match d with
    | JBytes b => match p with
                  | DBytes => Ok d
                  | _ => match d_dec C b with Some s => Ok (JStr s) | None => VFault end
                  end
    | _ => Ok d
    end.

  (** _ret_number for a member that is not an Integer (Double), on a non-null value *)
  Definition ret_number (d : jv) : out nv :=
    match d with
    | JStr _ | JBytes _ | JList _ | JMap _ => VFault                  (* NON_NUMBER_TYPES *)
    | JBool b => Ok (NInt (if b then 1 else 0))                       (* value in (True, False): int(value) *)
    | JInt z => Ok (NInt z)
    | JFlt (FInt z) => if is_one_or_zero z then Ok (NInt z) else Ok (NFlt (FInt z))   (* 1.0 == True *)
    | JFlt f => Ok (NFlt f)
    | JNull => Ok NNone
    end.

  (** the value a leaf reader returns, before validate_native (from_unicode returns None for None) *)
  Definition leaf_raw (p : dprim) (d : jv) : out nv :=
    match d with
    | JNull => Ok NNone
    | _ =>
      match p with
      | DText =>
          match d with
          | JStr s => Ok (NText s)
          | _ => Ok (NRaw d)                                          (* retval = inst (bytes were decoded before) *)
          end
      | DBytes =>
          match d_proto C with
          | PMsgpack => Ok (NTuple d)                                 (* binary_encoding None: (x,) *)
          | _ => match d with
                 | JStr s => d_rd C DBytes s                          (* base64 *)
                 | JBytes b => d_rdb C DBytes b
                 | _ => Crash AttributeError                          (* ''.join on a non-string *)
                 end
          end
      | DDate =>
          match d with
          | JStr s => d_rd C DDate s
          | _ => Crash TypeError                                      (* strptime / regex on a non-string *)
          end
      | DBool =>
          match d with
          | JBool b => Ok (NBool b)
          | JInt z => if lc_bool_identity (d_leaf C) then VFault
                      else if is_one_or_zero z then Ok (NInt z) else VFault
          | JFlt (FInt z) => if lc_bool_identity (d_leaf C) then VFault
                             else if is_one_or_zero z then Ok (NFlt (FInt z)) else VFault
          | _ => VFault
          end
      | DDouble => ret_number d
      | DInt _ _ =>
          match d_proto C with
          | PMsgpack =>                                               (* MessagePackDocument.integer_from_bytes *)
              match d with
              | JStr s => d_rd C p s
              | JList _ | JMap _ | JBytes _ =>
                  if lc_int_refuses_containers (d_leaf C) then VFault else Ok (NRaw d)
              | JFlt f => if lc_int_from_float (d_leaf C)
                          then match f with FInt z => Ok (NInt z) | _ => VFault end
                          else Ok (NFlt f)
              | JBool b => Ok (NBool b)
              | JInt z => Ok (NInt z)
              | _ => Ok (NRaw d)
              end
          | _ =>                                                      (* _ret_number(cls = an Integer class) *)
              match d with
              | JFlt (FInt z) => if is_one_or_zero z then Ok (NInt z)
                                 else if lc_int_from_float (d_leaf C) then Ok (NInt z) else Ok (NFlt (FInt z))
              | JFlt f => if lc_int_from_float (d_leaf C) then VFault else Ok (NFlt f)
              | _ => ret_number d
              end
          end
      end
    end.

  (** cls.validate_native(cls, retval) for a leaf class, under validator='soft' *)
  Definition validate_native (p : dprim) (nullable : bool) (v : nv) : out unit :=
    match v with
    | NNone => if nullable then Ok tt else VFault
    | _ =>
      match p with
      | DDouble => Ok tt                                              (* NaN and the infinities: judged by the declared range, none here *)
      | DInt lo hi =>
          match v with
          | NInt z => if in_range lo hi z then Ok tt else VFault
          | NBool b => if in_range lo hi (if b then 1 else 0) then Ok tt else VFault
          | NFlt (FInt z) => if in_range lo hi z then Ok tt else VFault
          | NFlt FFrac => VFault                                      (* int(value) == value *)
          | NFlt FNan => Crash InvalidOperation
          | NFlt FInf => VFault
          | NRaw _ => Crash TypeError                                 (* list > Decimal *)
          | _ => Crash TypeError
          end
      | _ => Ok tt
      end
    end.

  (** _from_dict_value for a leaf class *)
  Definition leaf_in (wrapped : bool) (p : dprim) (nullable : bool) (d : jv) : out nv :=
    if d_soft C && negb (if wrapped && negb (lc_unwrap_first (d_leaf C)) then true   (* validate() on the wrapper class: nothing to check *)
                         else validate_pre p nullable d) then VFault
    else if negb (guard_pre p d) then VFault
    else
      do d' <- norm_bytes p d;
      do v <- leaf_raw p d';
      if d_soft C then do _ <- validate_native p nullable v; Ok v else Ok v.

  (** the wrapper dict of _doc_to_object when ignore_wrappers is off: the class to build and
      its member document; None = 'return None' (empty wrapper) *)
  Definition unwrap (c : nat) (d : jv) : out (option (nat * jv)) :=
    if d_ignore_wrappers C then Ok (Some (c, d))
    else
      match d with
      | JMap [] => Ok None
      | JMap [(k, body)] =>
          match dget U c with
          | None => Crash KeyError
          | Some cl =>
              let same := match wrapper_name k with Some n => text_eqb n (dc_name cl) | None => false end in
              if same then Ok (Some (c, body))
              else match dc_subs cl with
                   | [] => Ok (Some (c, body))                        (* no subclasses: the key is not looked at *)
                   | subs =>
                       match find (fun s => match dget U s, wrapper_name k with
                                            | Some scl, Some n => text_eqb n (dc_name scl)
                                            | _, _ => false
                                            end) subs with
                       | None => VFault
                       | Some s => if dsub U s c then Ok (Some (s, body)) else VFault
                       end
                   end
          end
      | JMap _ => VFault
      | _ => VFault
      end.

  (** the loop 'for k, v in items' *)
  Fixpoint members_in (rec : dty -> bool -> jv -> out nv) (fields : list dfield)
           (items : list (jv * jv)) (st : dstate) (freq : list text) : out (dstate * list text) :=
    match items with
    | [] => Ok (st, freq)
    | (k, v) :: r =>
        match key_text k with
        | None => members_in rec fields r st freq
        | Some name =>
            match dfind name fields with
            | None => members_in rec fields r st freq
            | Some f =>
                if dmulti f then
                  match iter_doc v with
                  | None => VFault                                    (* not isinstance(v, Iterable) *)
                  | Some xs =>
                      do vs <- mapMd (rec (df_ty f) (df_nullable f)) xs;
                      let old := match dgetattr st name with NList l => l | _ => [] end in
                      members_in rec fields r (dsetattr st name (NList (old ++ vs))) (repeat name (length xs) ++ freq)
                  end
                else
                  do x <- rec (df_ty f) (df_nullable f) v;
                  members_in rec fields r (dsetattr st name x) (name :: freq)
            end
        end
    end.

  (** _check_freq_dict: every member, arrays included, against its own occurrence bounds (the
      items of a wrapped array are counted by the array itself, against the default bounds
      of its member: never violated here) *)
  Definition dfreq_ok (fields : list dfield) (freq : list text) : bool :=
    forallb (fun f => let n := dcount (df_name f) freq in
                      (df_min f <=? n) && match df_max f with Some m => n <=? m | None => true end) fields.

  (** _doc_to_object(cls, doc) for an Array class and a document that is not null *)
  Definition d2o_arr (rec : dty -> bool -> jv -> out nv) (e : dty) (d : jv) : out nv :=
    match iter_doc d with
    | None => VFault                                                  (* not isinstance(doc, Iterable) *)
    | Some xs => do vs <- mapMd (rec e true) xs; Ok (NList vs)
    end.

  (** ... for a ComplexModel class *)
  Definition d2o_obj (rec : dty -> bool -> jv -> out nv) (c : nat) (d : jv) : out nv :=
    do w <- unwrap c d;
    match w with
    | None => Ok NNone
    | Some (c', body) =>
        match dflat U c' with
        | None => Crash KeyError
        | Some fields =>
            do items <- match body with
                        | JMap kv => Ok kv
                        | _ => match iter_doc body with
                               | Some xs => Ok (combine (map (fun f => JStr (df_name f)) fields) xs)
                               | None => VFault                       (* zip(names, doc): TypeError -> ValidationError *)
                               end
                        end;
            do r <- members_in rec fields items [] [];
            if d_soft C && negb (dfreq_ok fields (snd r)) then VFault
            else Ok (NObj c' (map (fun f => dgetattr (fst r) (df_name f)) fields))
        end
    end.

  (** _doc_to_object(cls, doc) *)
  Definition d2o (rec : dty -> bool -> jv -> out nv) (t : dty) (d : jv) : out nv :=
    match d with
    | JNull => Ok (NList [])                                          (* if doc is None: return [] *)
    | _ =>
      match t with
      | DPrim _ | DWrap _ => Crash TypeError
      | DArr e => d2o_arr rec e d
      | DRef c => d2o_obj rec c d
      end
    end.

  (** the ComplexModelBase branch of _from_dict_value *)
  Definition complex_in (rec : dty -> bool -> jv -> out nv) (t : dty) (d : jv) : out nv :=
    match d with
    | JNull => if lc_null_object_none (d_leaf C) then Ok NNone else d2o rec t d
    | _ => d2o rec t d
    end.

  (** cls.validate_native(cls, retval) for a ComplexModelBase class: ModelBase.validate_native *)
  Definition complex_post (nullable : bool) (v : nv) : out nv :=
    if d_soft C then
      match v with
      | NNone => if nullable then Ok v else VFault
      | _ => Ok v
      end
    else Ok v.

  (** _from_dict_value(key, cls, inst) *)
  Fixpoint fdv (fuel : nat) (t : dty) (nullable : bool) (d : jv) : out nv :=
    match fuel with
    | O => Crash OtherExn
    | S k =>
        match t with
        | DPrim p => leaf_in false p nullable d
        | DWrap p => leaf_in true p nullable d
        | _ => do v <- complex_in (fdv k) t d; complex_post nullable v
        end
    end.

  (** deserialize: the body document of a request for the message class [m] *)
  Definition doc_to_object (fuel : nat) (t : dty) (d : jv) : out nv := d2o (fdv fuel) t d.

  Definition dict_call_args (fuel : nat) (m : nat) (d : jv) : out (list nv) :=
    do v <- doc_to_object fuel (DRef m) d;
    match v with
    | NObj _ vals => Ok vals
    | NList vals => Ok vals                                           (* in_object = []: no arguments *)
    | _ => Crash TypeError
    end.
End Dict.

(** does a type / universe mention ByteArray? *)
Fixpoint dty_no_bytes (t : dty) : bool :=
  match t with DPrim DBytes | DWrap DBytes => false | DPrim _ | DWrap _ => true | DRef _ => true | DArr e => dty_no_bytes e end.
Definition duniv_no_bytes (U : duniverse) : bool :=
  forallb (fun cl => forallb (fun f => dty_no_bytes (df_ty f)) (dc_own cl)) U.

(** well-formedness: parents precede their children, flattened member names are distinct *)
Fixpoint dtext_mem (x : text) (l : list text) : bool :=
  match l with [] => false | y :: r => text_eqb x y || dtext_mem x r end.
Fixpoint dnodup (l : list text) : bool :=
  match l with [] => true | x :: r => negb (dtext_mem x r) && dnodup r end.
Fixpoint dwf_from (U : duniverse) (i : nat) (l : list dcls) : bool :=
  match l with
  | [] => true
  | cl :: r => match dc_parent cl with Some p => Nat.ltb p i | None => true end
               && match dflat U i with Some fs => dnodup (map df_name fs) | None => false end
               && dwf_from U (S i) r
  end.
Definition dwf (U : duniverse) : bool := dwf_from U 0 U.
