(** C04 — model of the input side of spyne/protocol/xml.py as far as the *type* of what it
    returns is concerned: XmlDocument.from_element with the xsi:nil test, the xsi:type
    resolution against Interface.classes (split at the first ':', element.nsmap, the
    '{ns}name' class key, _get_xsi_target), base_from_element / unicode_from_element,
    array_from_element, complex_from_element (member lookup by local name, the loop over the
    element's own attributes, the frequency check of validator='soft').  Definitions only.

    Vocabulary (type universes, native values) is Wire/Universe.v; helpers that are plain
    transcriptions (attribute lookup, instance dictionaries) come from Wire/Xml.v.  The tree
    type is richer than Wire.Xml.xnode: every element carries lxml's in-scope namespace map,
    because xsi:type values are resolved through it.

    The decision table of _get_xsi_target is a parameter ([x4_target]); the property
    theorems instantiate it with the table generated from the source (Gen/XsiGuard.v). *)
From SpyneV Require Export Base.Prelude Wire.Universe Wire.Xml C04.Guard.

(* ------------------------------------------------------------------ the typing judgement *)

(** [has_type U poly v t]: the native value [v] may stand where type [t] is declared:
    None anywhere; a primitive of the declared kind; a Python list of members of the element
    type where an Array is declared; an instance of the declared class — or, with
    [poly = true], of a subclass of it — whose every flattened member again has the type
    declared for it (a member with max_occurs > 1 holds None or a list). *)
Fixpoint has_type (U : universe) (poly : bool) (v : val) (t : ty) {struct v} : Prop :=
  match v with
  | VNone => True
  | VLeaf p => match t with TPrim q => prim_has q p = true | _ => False end
  | VList vs =>
      match t with
      | TArr e => (fix all (l : list val) : Prop :=
                     match l with [] => True | x :: r => has_type U poly x e /\ all r end) vs
      | _ => False
      end
  | VObj d vals =>
      match t with
      | TRef c =>
          (if poly then is_subclass U d c else Nat.eqb d c) = true
          /\ match flat_fields U d with
             | None => False
             | Some ffs =>
                 (fix go (xs : list val) (fs : list field) : Prop :=
                    match xs, fs with
                    | [], [] => True
                    | x :: xr, f :: fr =>
                        (if is_multi f then
                           match x with
                           | VNone => True
                           | VList ys => (fix all (l : list val) : Prop :=
                                            match l with [] => True | y :: r => has_type U poly y (f_ty f) /\ all r end) ys
                           | _ => False
                           end
                         else has_type U poly x (f_ty f))
                        /\ go xr fr
                    | _, _ => False
                    end) vals ffs
             end
      | _ => False
      end
  end.

(** the same for the value held by one member of an instance *)
Definition member_has_type (U : universe) (poly : bool) (f : field) (x : val) : Prop :=
  if is_multi f then
    match x with
    | VNone => True
    | VList ys => Forall (fun y => has_type U poly y (f_ty f)) ys
    | _ => False
    end
  else has_type U poly x (f_ty f).

(** XmlAttribute members are single-valued (an XML attribute cannot repeat; XmlAttribute's
    own Attributes.max_occurs is 1): part of the well-formedness of a universe for C04 *)
Definition attrs_single (U : universe) : bool :=
  forallb (fun cl => forallb (fun f => match f_kind f with KAttr => negb (is_multi f) | KElem => true end)
                             (c_own cl)) U.

(* ------------------------------------------------------------------ documents *)

(** an lxml element: namespace ("" = none), local name, element.nsmap (prefix -> namespace,
    prefix None = the default namespace), attributes, element.text, children;
    anything that is not an element (entity reference, comment, PI) is XO *)
Inductive xn :=
| XE (ns name : text) (nsmap : list (option text * text)) (atts : list attr) (txt : option text) (kids : list xn)
| XO.

(** Interface.classes: class key -> class.  Classes outside the universe (the response
    message classes, the XmlAttribute wrapper classes) are ROther. *)
Inductive rtarget := RTy (t : ty) | ROther.

Record xcfg4 := mkx4 {
  x4_soft : bool;                      (* validator='soft' *)
  x4_parse : bool;                     (* XmlDocument(parse_xsi_type=...) *)
  x4_tns : option text;                (* the application's tns: namespace of Array(primitive) classes *)
  x4_reg : list (text * rtarget);      (* ctx.app.interface.classes *)
  x4_target : xsi_table                (* _get_xsi_target *)
}.

(** xsi_type.split(':', 1) when ':' in xsi_type *)
Fixpoint split_colon (s : text) : option (text * text) :=
  match s with
  | [] => None
  | c :: r => if c =? 58 then Some ([], r)
              else match split_colon r with Some (a, b) => Some (c :: a, b) | None => None end
  end.

Definition opt_text_eqb (a b : option text) : bool :=
  match a, b with Some x, Some y => text_eqb x y | None, None => true | _, _ => false end.

Fixpoint nsmap_get (p : option text) (m : list (option text * text)) : option text :=
  match m with
  | [] => None
  | (q, ns) :: r => if opt_text_eqb p q then Some ns else nsmap_get p r
  end.

Fixpoint reg_get (k : text) (m : list (text * rtarget)) : option rtarget :=
  match m with
  | [] => None
  | (q, c) :: r => if text_eqb k q then Some c else reg_get k r
  end.

(** "{%s}%s" % (ns, objtype) *)
Definition classkey (ns name : text) : text := 123 :: ns ++ 125 :: name.

Definition prim_eqb (p q : prim) : bool :=
  match p, q with PInt, PInt | PText, PText | PBool, PBool => true | _, _ => false end.

Definition is_arr (t : ty) : bool := match t with TArr _ => true | _ => false end.
Definition is_cplx (t : ty) : bool := match t with TPrim _ => false | _ => true end.   (* issubclass(sup, ComplexModelBase) *)

Section Codec4.
  Variable L : leaf_codec.
  Variable C : xcfg4.
  Variable U : universe.

  (** the tests of _get_xsi_target on (declared class, newclass) *)
  Definition same_origin (t : ty) (g : rtarget) : bool :=          (* sub is sup *)
    match g with
    | ROther => false
    | RTy t' => match t, t' with
                | TPrim p, TPrim q => prim_eqb p q
                | TRef c, TRef d => Nat.eqb d c
                | TArr _, TArr _ => true                              (* every Array(T) has __orig__ = Array *)
                | _, _ => false
                end
    end.
  Definition sub_of (t : ty) (g : rtarget) : bool :=               (* issubclass(sub, sup) *)
    match g with
    | ROther => false
    | RTy t' => match t, t' with
                | TPrim p, TPrim q => prim_eqb p q                    (* Integer, Unicode, Boolean: unrelated classes *)
                | TRef c, TRef d => is_subclass U d c
                | TArr _, TArr _ => true
                | _, _ => false
                end
    end.
  Definition arr_ns4 (e : ty) : text :=
    match x4_tns C with Some tns => arr_ns_app U tns e | None => [] end.
  Definition ty_ns (t : ty) : text :=
    match t with
    | TPrim _ => [104; 116; 116; 112; 58; 47; 47; 119; 119; 119; 46; 119; 51; 46; 111; 114; 103; 47; 50; 48; 48; 49; 47; 88; 77; 76; 83; 99; 104; 101; 109; 97]
    | TRef c => cls_ns U c
    | TArr e => arr_ns4 e
    end.
  Definition same_name (t : ty) (g : rtarget) : bool :=
    match g with
    | ROther => false
    | RTy t' => text_eqb (ty_ns t) (ty_ns t') && text_eqb (type_name U t) (type_name U t')
    end.

  (** lines 466-495 of from_element and _get_xsi_target: the class the element is read as *)
  Definition resolve (nsmap : list (option text * text)) (t : ty) (s : text) : out ty :=
    let '(prefix, objtype) := match split_colon s with Some (a, b) => (Some a, b) | None => (None, s) end in
    match nsmap_get prefix nsmap with
    | None => VFault                                                 (* prefix not in element.nsmap *)
    | Some ns =>
        match reg_get (classkey ns objtype) (x4_reg C) with
        | None => VFault                                             (* class key not registered *)
        | Some g =>
            match x4_target C (same_origin t g) (is_arr t) (sub_of t g) (same_name t g) (is_cplx t) with
            | XReject => VFault
            | XDeclared => Ok t
            | XNew => match g with RTy t' => Ok t' | ROther => Crash OtherExn end   (* a class outside the universe: not modelled *)
            end
        end
    end.

  (** the loop over the children *)
  Fixpoint kids4 (decf : field -> xn -> out val) (fields : list field)
           (kids : list xn) (st : pystate) (freq : list text) : out (pystate * list text) :=
    match kids with
    | [] => Ok (st, freq)
    | XO :: r => kids4 decf fields r st freq                              (* comments, processing instructions *)
    | (XE _ name _ _ _ _ as c) :: r =>
        let freq' := name :: freq in
        match find_field name fields with
        | None => kids4 decf fields r st freq'
        | Some f =>
            do v <- decf f c;
            do st1 <- (if is_multi f then
                         do l <- as_list (getattr st name); Ok (setattr st name (VList (l ++ [v])))
                       else Ok (setattr st name v));
            kids4 decf fields r st1 freq'                                 (* the attributes of a child are the child's own business *)
        end
    end.

  (** the loop over elt.attrib *)
  Fixpoint own_atts (fields : list field) (atts : list attr) (st : pystate) (freq : list text)
    : out (pystate * list text) :=
    match atts with
    | [] => Ok (st, freq)
    | (ans, an, av) :: r =>
        let key := clark ans an in
        match find_field key fields with
        | None => own_atts fields r st freq
        | Some f =>
            match f_kind f with
            | KElem => own_atts fields r st freq
            | KAttr =>
                match f_ty f with
                | TPrim p => do v <- lc_rd L p av; own_atts fields r (setattr st key (VLeaf v)) (key :: freq)
                | _ => Crash TypeError
                end
            end
        end
    end.

  Definition freq_ok4 (fields : list field) (freq : list text) : bool :=
    forallb (fun f => let n := count_text (f_name f) freq in
                      (f_min f <=? n) && match f_max f with Some m => n <=? m | None => true end) fields.

  (** a child element named like an XmlAttribute member: from_element is called with the
      XmlAttribute wrapper class, whose handler is base_from_element and whose text reader is
      xmlattribute_from_bytes -> from_bytes(cls.type, text); the wrapper's own Attributes are
      the defaults (nillable).  An xsi:type on such an element is refused (no registered class
      is a subclass of the wrapper; the generator never names the wrapper itself). *)
  Definition attr_elem (f : field) (e : xn) : out val :=
    match e with
    | XO => Crash AttributeError
    | XE _ _ _ atts txt _ =>
        if is_nil atts then Ok VNone
        else if x4_parse C && match lookup_att xsi_ns t_type atts with Some _ => true | None => false end then VFault
        else match f_ty f with
             | TPrim p => match txt with
                          | None => Ok VNone
                          | Some s => do v <- lc_rd L p s; Ok (VLeaf v)
                          end
             | _ => Crash TypeError
             end
    end.

  (** the deserialisation handler of the (possibly retagged) class *)
  Definition body4 (rec : ty -> bool -> xn -> out val) (t : ty) (nillable : bool)
             (atts : list attr) (txt : option text) (kids : list xn) : out val :=
    match t with
    | TPrim PText =>                                                 (* unicode_from_element *)
        (* an element without text holds the empty string, and that is what is validated *)
        do v <- lc_rd L PText (match txt with None => [] | Some s => s end); Ok (VLeaf v)
    | TPrim p =>                                                     (* base_from_element *)
        match txt with
        | None => if x4_soft C && negb nillable then VFault else Ok VNone
        | Some s => do v <- lc_rd L p s; Ok (VLeaf v)
        end
    | TArr el => do vs <- mapM (rec el true) kids; Ok (VList vs)     (* array_from_element *)
    | TRef c =>                                                      (* complex_from_element *)
        match flat_decl U c with
        | None => Crash KeyError
        | Some ffs =>
            let fields := map snd ffs in
            do r1 <- kids4 (fun f => match f_kind f with KElem => rec (f_ty f) (f_nillable f) | KAttr => attr_elem f end) fields kids [] [];
            do r2 <- own_atts fields atts (fst r1) (snd r1);
            if x4_soft C && negb (freq_ok4 fields (snd r2)) then VFault
            else Ok (VObj c (map (fun f => getattr (fst r2) (f_name f)) fields))
        end
    end.

  (** XmlDocument.from_element; [nillable] is Attributes.nillable of the declared member type.
      Fuel bounds the nesting depth of the document; exhaustion is [Crash OtherExn]. *)
  Fixpoint dec4 (fuel : nat) (t : ty) (nillable : bool) (e : xn) : out val :=
    match fuel with
    | O => Crash OtherExn
    | S k =>
        match e with
        | XO => Crash AttributeError
        | XE _ _ nsmap atts txt kids =>
            if is_nil atts then
              (if x4_soft C && negb nillable then VFault else Ok VNone)
            else
              do t' <- (if x4_parse C then
                          match lookup_att xsi_ns t_type atts with
                          | None => Ok t
                          | Some s => resolve nsmap t s
                          end
                        else Ok t);
              body4 (dec4 k) t' nillable atts txt kids
        end
    end.

  Definition from_element4 (fuel : nat) (t : ty) (e : xn) : out val := dec4 fuel t true e.

  (** what the user function is called with: ctx.in_object is the instance of the request
      message class [m]; ServiceBase.call_wrapper turns it into *args through __getitem__,
      i.e. the values of the members of the class of the instance, in order *)
  Definition call_args (fuel : nat) (m : cid) (root : xn) : out (list val) :=
    do v <- dec4 fuel (TRef m) true root;
    match v with
    | VObj _ vals => Ok vals
    | _ => Crash TypeError                                           (* tuple(None), tuple('abc') ... *)
    end.
End Codec4.

(** the table of the code before the repair: whatever the registry returns replaces the class *)
Definition xsi_table_unguarded : xsi_table := fun _ _ _ _ _ => XNew.
