(** C04 — typing of XmlDocument.from_element (model: C04/XmlModel.v). *)
From Coq Require Import ZArith List Bool Lia.
From SpyneV Require Import Base.Prelude Wire.Universe Wire.Xml C04.Guard C04.XmlModel.
Import ListNotations.
Open Scope Z_scope.

(* ------------------------------------------------------------------ small facts (self-contained copies) *)
Lemma c4_text_eqb_refl a : text_eqb a a = true.
Proof. induction a; cbn; [reflexivity|]. rewrite Z.eqb_refl, IHa. reflexivity. Qed.

Lemma c4_text_eqb_eq a : forall b, text_eqb a b = true <-> a = b.
Proof.
  induction a as [|x a IH]; intros [|y b]; cbn; split; intro H; try reflexivity; try discriminate.
  - apply andb_true_iff in H. destruct H as [H1 H2]. apply Z.eqb_eq in H1. apply IH in H2. congruence.
  - inversion H; subst. rewrite Z.eqb_refl. cbn. apply c4_text_eqb_refl.
Qed.

Lemma c4_text_mem_In x l : text_mem x l = true <-> In x l.
Proof.
  induction l as [|y l IH]; cbn; [split; [discriminate|tauto]|].
  rewrite orb_true_iff, IH, c4_text_eqb_eq. split; intros [H|H]; auto.
Qed.

Lemma c4_getattr_set st k v k' :
  getattr (setattr st k v) k' = if text_eqb k k' then v else getattr st k'.
Proof. reflexivity. Qed.

Lemma c4_flat_decl_fuel_snd n U : forall c,
  option_map (map snd) (flat_decl_fuel n U c) = flat_fields_fuel n U c.
Proof.
  induction n as [|n IH]; intro c; cbn; [reflexivity|].
  destruct (get_cls U c) as [cl|]; [|reflexivity].
  destruct (c_parent cl) as [p|].
  - rewrite <- IH. destruct (flat_decl_fuel n U p); cbn; [|reflexivity].
    rewrite map_app, map_map. cbn. rewrite map_id. reflexivity.
  - cbn. rewrite map_map. cbn. rewrite map_id. reflexivity.
Qed.

Lemma c4_flat_decl_fields U c fds : flat_decl U c = Some fds -> flat_fields U c = Some (map snd fds).
Proof.
  unfold flat_fields, flat_decl. rewrite <- c4_flat_decl_fuel_snd. intros ->. reflexivity.
Qed.

Lemma c4_wf_from_nth U : forall l i, wf_from U i l = true ->
  forall j cl, nth_error l j = Some cl -> cls_ok U (i + j) cl = true.
Proof.
  induction l as [|c l IH]; intros i H j cl Hn; [destruct j; discriminate|].
  cbn in H. apply andb_true_iff in H. destruct H as [H1 H2].
  destruct j as [|j]; cbn in Hn.
  - inversion Hn; subst. rewrite Nat.add_0_r. exact H1.
  - replace (i + S j)%nat with (S i + j)%nat by lia. eapply IH; eauto.
Qed.

Lemma c4_wf_flat_nodup U c ffs : wf_universe U = true -> flat_fields U c = Some ffs ->
  nodup_text (map f_name ffs) = true.
Proof.
  intros Hwf Hf.
  assert (exists cl, get_cls U c = Some cl) as [cl Hc].
  { unfold flat_fields in Hf. cbn in Hf. destruct (get_cls U c); [eauto|discriminate]. }
  pose proof (c4_wf_from_nth U U 0 Hwf c cl Hc) as H. cbn in H.
  unfold cls_ok in H. rewrite Hf in H. apply andb_true_iff in H. apply H.
Qed.

Lemma c4_find_field_spec k : forall fs f, find_field k fs = Some f -> In f fs /\ f_name f = k.
Proof.
  induction fs as [|g fs IH]; intros f H; [discriminate|]. cbn in H.
  destruct (text_eqb (f_name g) k) eqn:E.
  - inversion H; subst. split; [left; reflexivity|]. apply c4_text_eqb_eq. exact E.
  - destruct (IH _ H). split; [right; assumption|assumption].
Qed.

Lemma c4_nodup_same_name fs : nodup_text (map f_name fs) = true ->
  forall f g, In f fs -> In g fs -> f_name f = f_name g -> f = g.
Proof.
  induction fs as [|h fs IH]; intros Hn f g Hf Hg E; [destruct Hf|].
  cbn in Hn. apply andb_true_iff in Hn. destruct Hn as [Hm Hn]. apply negb_true_iff in Hm.
  assert (forall x, In x fs -> f_name x <> f_name h) as Hne.
  { intros x Hx Ex. assert (text_mem (f_name h) (map f_name fs) = true); [|congruence].
    apply c4_text_mem_In. rewrite <- Ex. apply in_map. exact Hx. }
  destruct Hf as [->|Hf], Hg as [->|Hg]; auto.
  - exfalso. apply (Hne g Hg). congruence.
  - exfalso. apply (Hne f Hf). congruence.
Qed.

Lemma c4_all_bool5 f : all_bool5 f = true -> forall a b c d e, f a b c d e = true.
Proof.
  intros H a b c d e. unfold all_bool5 in H.
  assert (forall x : bool, In x [true; false]) as Hin by (intros [|]; cbn; auto).
  rewrite forallb_forall in H. specialize (H a (Hin a)).
  rewrite forallb_forall in H. specialize (H b (Hin b)).
  rewrite forallb_forall in H. specialize (H c (Hin c)).
  rewrite forallb_forall in H. specialize (H d (Hin d)).
  rewrite forallb_forall in H. exact (H e (Hin e)).
Qed.

Lemma guard_ok_spec T : guard_ok T = true ->
  forall a b c d e, T a b c d e = XNew -> c = true /\ b = false /\ e = true.
Proof.
  intros H a b c d e E. pose proof (c4_all_bool5 _ H a b c d e) as X. cbn in X. rewrite E in X. cbn in X.
  destruct c, b, e; cbn in X; try discriminate. repeat split; reflexivity.
Qed.

Lemma guard_strict_spec T : guard_strict T = true ->
  forall a b c d e, (a = true -> c = true) -> (c = false \/ (b = true /\ d = false)) -> T a b c d e = XReject.
Proof.
  intros H a b c d e Hac Hc. pose proof (c4_all_bool5 _ H a b c d e) as X. cbn in X.
  assert (a && negb c = false) as Z.
  { destruct a; [rewrite (Hac eq_refl)|]; reflexivity. }
  assert (negb c || b && negb d = true) as Y.
  { destruct Hc as [->|[-> ->]]; [reflexivity|]. destruct c; reflexivity. }
  rewrite Z, Y in X. cbn in X. destruct (T a b c d e); try discriminate. reflexivity.
Qed.

Lemma same_origin_sub_of U t g : same_origin t g = true -> sub_of U t g = true.
Proof.
  destruct g as [t'|]; [|discriminate]. destruct t, t'; cbn; try discriminate; try (intro H; exact H).
  intro H. apply Nat.eqb_eq in H. subst. unfold is_subclass. cbn. rewrite Nat.eqb_refl. reflexivity.
Qed.

(* ------------------------------------------------------------------ unfolding the typing judgement *)
Lemma has_type_all U poly t ys :
  (fix all (l : list val) : Prop :=
     match l with [] => True | y :: r => has_type U poly y t /\ all r end) ys
  <-> Forall (fun y => has_type U poly y t) ys.
Proof.
  induction ys as [|y ys IH]; cbn.
  - split; intro; [constructor|exact I].
  - split.
    + intros [H1 H2]. constructor; [exact H1|apply IH; exact H2].
    + intro H. inversion H; subst. split; [assumption|apply IH; assumption].
Qed.

Lemma has_type_list U poly vs e :
  has_type U poly (VList vs) (TArr e) <-> Forall (fun x => has_type U poly x e) vs.
Proof. cbn [has_type]. apply has_type_all. Qed.

Lemma has_type_members U poly : forall vals ffs,
  (fix go (xs : list val) (fs : list field) : Prop :=
     match xs, fs with
     | [], [] => True
     | x :: xr, f :: fr =>
         (if is_multi f then
            match x with
            | VNone => True
            | VList ys => (fix all (l : list val) : Prop :=
                             match l with [] => True | y :: r => has_type U poly y (f_ty f) /\ all r end) ys
            | _ => False
            end
          else has_type U poly x (f_ty f))
         /\ go xr fr
     | _, _ => False
     end) vals ffs
  <-> Forall2 (member_has_type U poly) ffs vals.
Proof.
  induction vals as [|x vals IH]; intros [|f ffs]; cbn.
  - split; intro; [constructor|exact I].
  - split; intro H; [destruct H|inversion H].
  - split; intro H; [destruct H|inversion H].
  - split.
    + intros [H1 H2]. constructor; [|apply IH; exact H2].
      unfold member_has_type. destruct (is_multi f); [|exact H1].
      destruct x; try exact H1. apply has_type_all. exact H1.
    + intro H. inversion H; subst. split; [|apply IH; assumption].
      unfold member_has_type in H3. destruct (is_multi f); [|exact H3].
      destruct x; try exact H3. apply has_type_all. exact H3.
Qed.

Lemma has_type_obj U poly d vals c :
  has_type U poly (VObj d vals) (TRef c)
  <-> (if poly then is_subclass U d c else Nat.eqb d c) = true
      /\ exists ffs, flat_fields U d = Some ffs /\ Forall2 (member_has_type U poly) ffs vals.
Proof.
  cbn [has_type]. destruct (flat_fields U d) as [ffs|]; split; intros [H1 H2]; split; try assumption.
  - exists ffs. split; [reflexivity|]. apply has_type_members. exact H2.
  - destruct H2 as [ffs' [E H2]]. inversion E; subst. apply has_type_members. exact H2.
  - destruct H2.
  - destruct H2 as [ffs' [E _]]. discriminate.
Qed.

Lemma has_type_none U poly t : has_type U poly VNone t.
Proof. exact I. Qed.

Lemma is_subclass_refl U c : is_subclass U c c = true.
Proof. unfold is_subclass. cbn. rewrite Nat.eqb_refl. reflexivity. Qed.

(** the shared vocabulary's boolean conformance check implies the judgement *)
Lemma conforms_has_type U poly : forall n t v, conforms n U poly t v = true -> has_type U poly v t.
Proof.
  induction n as [|n IH]; intros t v H; [discriminate|]. cbn [conforms] in H.
  destruct v as [|p|d vals|vs].
  - exact I.
  - destruct t; try discriminate. exact H.
  - destruct t as [|c|]; try discriminate. apply andb_true_iff in H. destruct H as [H1 H2].
    apply has_type_obj. split; [exact H1|].
    destruct (flat_fields U d) as [ffs|]; [|discriminate]. exists ffs. split; [reflexivity|].
    apply andb_true_iff in H2. destruct H2 as [Hl H2]. apply Nat.eqb_eq in Hl.
    clear H1. revert vals Hl H2. induction ffs as [|f ffs IHf]; intros [|x vals] Hl H2; try discriminate; constructor.
    + cbn in H2. apply andb_true_iff in H2. destruct H2 as [H2 _]. unfold member_has_type.
      destruct (is_multi f); [|apply IH; exact H2].
      destruct x; try discriminate; [exact I|].
      rewrite forallb_forall in H2. apply Forall_forall. intros y Hy. apply IH. apply H2. exact Hy.
    + cbn in H2. apply andb_true_iff in H2. apply IHf; [cbn in Hl; lia|apply H2].
  - destruct t; try discriminate. apply has_type_list.
    rewrite forallb_forall in H. apply Forall_forall. intros y Hy. apply IH. apply H. exact Hy.
Qed.

(* ------------------------------------------------------------------ the deserialiser *)
Definition leaf_typed (L : leaf_codec) : Prop :=
  forall p s v, lc_rd L p s = Ok v -> prim_has p v = true.

Section Typing.
  Variable L : leaf_codec.
  Variable C : xcfg4.
  Variable U : universe.
  Hypothesis HL : leaf_typed L.
  Hypothesis Hwf : wf_universe U = true.
  Variable poly : bool.
  Hypothesis Hpoly : poly = x4_parse C.

  (** instance dictionaries whose entries have the type of the member they are named after *)
  Definition st_ok (fields : list field) (st : pystate) : Prop :=
    forall f, In f fields -> member_has_type U poly f (getattr st (f_name f)).

  Lemma st_ok_nil fields : st_ok fields [].
  Proof. intros f _. unfold member_has_type. cbn. destruct (is_multi f); exact I. Qed.

  Lemma st_ok_set fields st k f v :
    nodup_text (map f_name fields) = true ->
    find_field k fields = Some f -> member_has_type U poly f v ->
    st_ok fields st -> st_ok fields (setattr st k v).
  Proof.
    intros Hn Hf Hv Hst g Hg. rewrite c4_getattr_set.
    destruct (c4_find_field_spec _ _ _ Hf) as [Hin Hname].
    destruct (text_eqb k (f_name g)) eqn:E; [|apply Hst; exact Hg].
    apply c4_text_eqb_eq in E.
    assert (f = g) as <-; [|exact Hv].
    eapply c4_nodup_same_name; eauto. congruence.
  Qed.

  Lemma as_list_typed fields st f l :
    st_ok fields st -> In f fields -> is_multi f = true ->
    as_list (getattr st (f_name f)) = Ok l -> Forall (fun y => has_type U poly y (f_ty f)) l.
  Proof.
    intros Hst Hin Hm Hl. specialize (Hst f Hin). unfold member_has_type in Hst. rewrite Hm in Hst.
    destruct (getattr st (f_name f)); cbn in Hl; try discriminate; inversion Hl; subst.
    - constructor.
    - exact Hst.
  Qed.

  Lemma kids4_ok (decf : field -> xn -> out val) fields :
    nodup_text (map f_name fields) = true ->
    (forall f c v, In f fields -> decf f c = Ok v -> has_type U poly v (f_ty f)) ->
    forall kids st freq st' freq', st_ok fields st ->
      kids4 decf fields kids st freq = Ok (st', freq') -> st_ok fields st'.
  Proof.
    intros Hn Hd. induction kids as [|c kids IH]; intros st freq st' freq' Hst H; cbn in H.
    - inversion H; subst. exact Hst.
    - destruct c as [ns name nsmap catts txt ks|]; [|eapply IH; eauto].
      destruct (find_field name fields) as [f|] eqn:Ef; [|eapply IH; eauto].
      destruct (c4_find_field_spec _ _ _ Ef) as [Hin Hname].
      destruct (decf f (XE ns name nsmap catts txt ks)) as [v| |] eqn:Ev; try discriminate. cbn in H.
      pose proof (Hd _ _ _ Hin Ev) as Hv.
      destruct (is_multi f) eqn:Em.
      + destruct (as_list (getattr st name)) as [l| |] eqn:El; try discriminate. cbn in H.
        eapply IH; [|exact H].
        eapply st_ok_set; eauto. unfold member_has_type. rewrite Em. apply Forall_app. split.
        * eapply as_list_typed; eauto. rewrite Hname. exact El.
        * constructor; [exact Hv|constructor].
      + cbn in H. eapply IH; [|exact H].
        eapply st_ok_set; eauto. unfold member_has_type. rewrite Em. exact Hv.
  Qed.

  Definition attr_single (f : field) : Prop := f_kind f = KAttr -> is_multi f = false.

  Lemma own_atts_ok fields : nodup_text (map f_name fields) = true ->
    Forall attr_single fields ->
    forall atts st freq st' freq', st_ok fields st ->
      own_atts L fields atts st freq = Ok (st', freq') -> st_ok fields st'.
  Proof.
    intros Hn Ha. induction atts as [|[[ans an] av] atts IH]; intros st freq st' freq' Hst H; cbn in H.
    - inversion H; subst. exact Hst.
    - destruct (find_field (clark ans an) fields) as [f|] eqn:Ef; [|eapply IH; eauto].
      destruct (c4_find_field_spec _ _ _ Ef) as [Hin Hname].
      destruct (f_kind f) eqn:Ek; [eapply IH; eauto|].
      destruct (f_ty f) as [p| |] eqn:Et; try discriminate.
      destruct (lc_rd L p av) as [v| |] eqn:Er; try discriminate. cbn in H.
      pose proof (HL _ _ _ Er) as Hv.
      eapply IH; [|exact H]. eapply st_ok_set; eauto.
      unfold member_has_type. rewrite Forall_forall in Ha. rewrite (Ha f Hin Ek), Et. exact Hv.
  Qed.

  (** the flattened members of a class of a universe whose XmlAttribute members are single-valued *)
  Lemma flat_attr_single : attrs_single U = true ->
    forall n c ffs, flat_fields_fuel n U c = Some ffs -> Forall attr_single ffs.
  Proof.
    intros Ha. induction n as [|n IH]; intros c ffs H; [discriminate|]. cbn in H.
    destruct (get_cls U c) as [cl|] eqn:Ec; [|discriminate].
    assert (Forall attr_single (c_own cl)) as Hown.
    { unfold attrs_single in Ha. rewrite forallb_forall in Ha.
      unfold get_cls in Ec. apply nth_error_In in Ec. specialize (Ha cl Ec).
      rewrite forallb_forall in Ha. apply Forall_forall. intros f Hf Hk. specialize (Ha f Hf).
      rewrite Hk in Ha. apply negb_true_iff in Ha. exact Ha. }
    destruct (c_parent cl) as [p|].
    - destruct (flat_fields_fuel n U p) as [pf|] eqn:Ep; [|discriminate]. inversion H; subst.
      apply Forall_app. split; [eapply IH; eauto|exact Hown].
    - inversion H; subst. exact Hown.
  Qed.

  Hypothesis Hattr : attrs_single U = true.
  Hypothesis Hguard : guard_ok (x4_target C) = true.

  (** what a handler returns: exactly an instance of the class it was called for *)
  Definition top_exact (t : ty) (v : val) : Prop :=
    match t with
    | TRef c => v = VNone \/ exists vals ffs, v = VObj c vals /\ flat_fields U c = Some ffs
                                             /\ Forall2 (member_has_type U poly) ffs vals
    | _ => has_type U poly v t
    end.

  Lemma top_exact_has_type t v : top_exact t v -> has_type U poly v t.
  Proof.
    destruct t as [p|c|e]; cbn; try (intro H; exact H).
    intros [->|[vals [ffs [-> [Hf Hm]]]]]; [exact I|].
    apply has_type_obj. split; [|eauto].
    destruct poly; [apply is_subclass_refl|apply Nat.eqb_refl].
  Qed.

  Lemma mapM_typed (f : xn -> out val) t : forall l vs,
    (forall e v, f e = Ok v -> has_type U poly v t) -> mapM f l = Ok vs ->
    Forall (fun v => has_type U poly v t) vs.
  Proof.
    induction l as [|e l IH]; intros vs Hf H; cbn in H.
    - inversion H; subst. constructor.
    - destruct (f e) as [v| |] eqn:Ev; try discriminate. cbn in H.
      destruct (mapM f l) as [vs'| |] eqn:El; try discriminate. cbn in H. inversion H; subst.
      constructor; [eapply Hf; eauto|eapply IH; eauto].
  Qed.

  Lemma getattr_members fields st : st_ok fields st ->
    Forall2 (member_has_type U poly) fields (map (fun f => getattr st (f_name f)) fields).
  Proof.
    intro Hst. assert (forall l, (forall f, In f l -> In f fields) ->
      Forall2 (member_has_type U poly) l (map (fun f => getattr st (f_name f)) l)) as X.
    { induction l as [|f l IH]; intro Hl; cbn; constructor.
      - apply Hst. apply Hl. left. reflexivity.
      - apply IH. intros g Hg. apply Hl. right. exact Hg. }
    apply X. auto.
  Qed.

  Lemma body4_typed (rec : ty -> bool -> xn -> out val) :
    (forall t n e v, rec t n e = Ok v -> has_type U poly v t) ->
    forall t nillable atts txt kids v,
      body4 L C U rec t nillable atts txt kids = Ok v -> top_exact t v.
  Proof.
    intros Hrec t nillable atts txt kids v H. destruct t as [p|c|el]; cbn [body4] in H.
    - (* primitives *)
      assert (forall s w, (do x <- lc_rd L p s; Ok (VLeaf x)) = Ok w -> has_type U poly w (TPrim p)) as Hleaf.
      { intros s w Hs. destruct (lc_rd L p s) as [x| |] eqn:Ex; try discriminate. cbn in Hs.
        inversion Hs; subst. cbn. eapply HL; eauto. }
      cbn [top_exact]. destruct p; destruct txt as [s|];
        try (eapply Hleaf; exact H);
        destruct (x4_soft C && negb nillable); try discriminate;
        try (inversion H; subst; exact I); eapply Hleaf; exact H.
    - (* complex_from_element *)
      destruct (flat_decl U c) as [fds|] eqn:Ed; [|discriminate].
      pose proof (c4_flat_decl_fields _ _ _ Ed) as Hff.
      pose proof (c4_wf_flat_nodup _ _ _ Hwf Hff) as Hn.
      pose proof (flat_attr_single Hattr _ _ _ Hff) as Ha.
      set (fields := map snd fds) in *.
      destruct (kids4 (fun f => match f_kind f with KElem => rec (f_ty f) (f_nillable f) | KAttr => attr_elem L C f end) fields kids [] []) as [[st1 fr1]| |] eqn:E1; try discriminate.
      cbn in H.
      destruct (own_atts L fields atts st1 fr1) as [[st2 fr2]| |] eqn:E2; try discriminate. cbn in H.
      destruct (x4_soft C && negb (freq_ok4 fields fr2)); [discriminate|]. inversion H; subst.
      cbn [top_exact]. right. eexists. exists fields. split; [reflexivity|]. split; [exact Hff|].
      apply getattr_members. eapply own_atts_ok; [exact Hn|exact Ha| |exact E2].
      eapply kids4_ok; [exact Hn| |apply st_ok_nil|exact E1].
      intros f ch w _ Hw. cbv beta in Hw. destruct (f_kind f); [eapply Hrec; exact Hw|].
      unfold attr_elem in Hw. destruct ch as [? ? ? catts ctxt ?|]; [|discriminate].
      destruct (is_nil catts); [inversion Hw; exact I|].
      destruct (x4_parse C && _); [discriminate|].
      destruct (f_ty f) as [p| |]; try discriminate. destruct ctxt as [s|]; [|inversion Hw; exact I].
      destruct (lc_rd L p s) as [x| |] eqn:Ex; try discriminate. cbn in Hw. inversion Hw; subst.
      cbn. eapply HL; eauto.
    - (* array_from_element *)
      destruct (mapM (rec el true) kids) as [vs| |] eqn:Em; try discriminate. cbn in H. inversion H; subst.
      cbn [top_exact]. apply has_type_list. eapply mapM_typed; [|exact Em].
      intros e w Hw. eapply Hrec. exact Hw.
  Qed.

  (** the class an element is read as is the declared one, or (only with parse_xsi_type) a
      subclass of a declared non-Array class *)
  Lemma resolve_spec nsmap t s t' : resolve C U nsmap t s = Ok t' ->
    t' = t \/ (sub_of U t (RTy t') = true /\ is_arr t = false).
  Proof.
    unfold resolve.
    destruct (match split_colon s with Some (a, b) => (Some a, b) | None => (None, s) end) as [prefix objtype].
    destruct (nsmap_get prefix nsmap) as [ns|]; [|discriminate].
    destruct (reg_get (classkey ns objtype) (x4_reg C)) as [g|]; [|discriminate].
    destruct (x4_target C (same_origin t g) (is_arr t) (sub_of U t g) (same_name C U t g) (is_cplx t)) eqn:E; try discriminate.
    - intro H. inversion H. left. reflexivity.
    - destruct (guard_ok_spec _ Hguard _ _ _ _ _ E) as [Hs [Ha _]].
      destruct g as [t2|]; [|discriminate]. intro H. inversion H; subst. right. split; assumption.
  Qed.

  Lemma retag_typed t t' v : x4_parse C = true ->
    sub_of U t (RTy t') = true -> is_arr t = false -> top_exact t' v -> has_type U poly v t.
  Proof.
    intros Hp Hs Ha Hv. destruct t as [p|c|e], t' as [q|d|e']; cbn in Hs, Ha; try discriminate.
    - destruct p, q; try discriminate; exact Hv.
    - cbn in Hv. destruct Hv as [->|[vals [ffs [-> [Hf Hm]]]]]; [exact I|].
      apply has_type_obj. split; [|eauto]. rewrite Hpoly, Hp. exact Hs.
  Qed.

  Theorem dec4_typed : forall fuel t nillable e v,
    dec4 L C U fuel t nillable e = Ok v -> has_type U poly v t.
  Proof.
    induction fuel as [|k IH]; intros t nillable e v H; [discriminate|]. cbn [dec4] in H.
    destruct e as [ns name nsmap atts txt kids|]; [|discriminate].
    destruct (is_nil atts).
    { destruct (x4_soft C && negb nillable); [discriminate|]. inversion H; subst. exact I. }
    remember (x4_parse C) as pb eqn:Ep in H. symmetry in Ep. destruct pb.
    - destruct (lookup_att xsi_ns t_type atts) as [s|].
      + destruct (resolve C U nsmap t s) as [t'| |] eqn:Er; try discriminate. cbn in H.
        pose proof (body4_typed (dec4 L C U k) IH _ _ _ _ _ _ H) as Hv.
        destruct (resolve_spec _ _ _ _ Er) as [->|[Hs Ha]].
        * apply top_exact_has_type. exact Hv.
        * eapply retag_typed; eauto.
      + cbn in H. apply top_exact_has_type. eapply body4_typed; [exact IH|exact H].
    - cbn in H. apply top_exact_has_type. eapply body4_typed; [exact IH|exact H].
  Qed.

  (** the arguments of the call: one value per member of the request message class, each of
      the type declared for that parameter *)
  Theorem call_args_typed fuel m root args :
    call_args L C U fuel m root = Ok args ->
    exists d ffs, (if poly then is_subclass U d m else Nat.eqb d m) = true
                  /\ flat_fields U d = Some ffs /\ Forall2 (member_has_type U poly) ffs args.
  Proof.
    unfold call_args. destruct (dec4 L C U fuel (TRef m) true root) as [v| |] eqn:E; try discriminate. cbn.
    destruct v as [| |d vals|]; try discriminate. intro H. injection H as <-.
    apply dec4_typed in E. apply has_type_obj in E. destruct E as [Hs [ffs [Hf Hm]]]. exists d, ffs. auto.
  Qed.
End Typing.
