(** C04 — typing of HierDictDocument._doc_to_object / _from_dict_value (model: C04/DictModel.v). *)
From Coq Require Import ZArith List Bool Lia.
From SpyneV Require Import Base.Prelude C04.Guard C04.DictModel.
Import ListNotations.
Open Scope Z_scope.

(* ------------------------------------------------------------------ small facts *)
Lemma d_text_eqb_refl a : text_eqb a a = true.
Proof. induction a; cbn; [reflexivity|]. rewrite Z.eqb_refl, IHa. reflexivity. Qed.

Lemma d_text_eqb_eq a : forall b, text_eqb a b = true <-> a = b.
Proof.
  induction a as [|x a IH]; intros [|y b]; cbn; split; intro H; try reflexivity; try discriminate.
  - apply andb_true_iff in H. destruct H as [H1 H2]. apply Z.eqb_eq in H1. apply IH in H2. congruence.
  - inversion H; subst. rewrite Z.eqb_refl. cbn. apply d_text_eqb_refl.
Qed.

Lemma dtext_mem_In x l : dtext_mem x l = true <-> In x l.
Proof.
  induction l as [|y l IH]; cbn; [split; [discriminate|tauto]|].
  rewrite orb_true_iff, IH, d_text_eqb_eq. split; intros [H|H]; auto.
Qed.

Lemma dfind_spec k : forall fs f, dfind k fs = Some f -> In f fs /\ df_name f = k.
Proof.
  induction fs as [|g fs IH]; intros f H; [discriminate|]. cbn in H.
  destruct (text_eqb (df_name g) k) eqn:E.
  - inversion H; subst. split; [left; reflexivity|]. apply d_text_eqb_eq. exact E.
  - destruct (IH _ H). split; [right; assumption|assumption].
Qed.

Lemma dnodup_same_name fs : dnodup (map df_name fs) = true ->
  forall f g, In f fs -> In g fs -> df_name f = df_name g -> f = g.
Proof.
  induction fs as [|h fs IH]; intros Hn f g Hf Hg E; [destruct Hf|].
  cbn in Hn. apply andb_true_iff in Hn. destruct Hn as [Hm Hn]. apply negb_true_iff in Hm.
  assert (forall x, In x fs -> df_name x <> df_name h) as Hne.
  { intros x Hx Ex. assert (dtext_mem (df_name h) (map df_name fs) = true); [|congruence].
    apply dtext_mem_In. rewrite <- Ex. apply in_map. exact Hx. }
  destruct Hf as [->|Hf], Hg as [->|Hg]; auto.
  - exfalso. apply (Hne g Hg). congruence.
  - exfalso. apply (Hne f Hf). congruence.
Qed.

Lemma dwf_from_nth U : forall l i, dwf_from U i l = true ->
  forall j cl, nth_error l j = Some cl ->
    match dflat U (i + j) with Some fs => dnodup (map df_name fs) | None => false end = true.
Proof.
  induction l as [|c l IH]; intros i H j cl Hn; [destruct j; discriminate|].
  cbn in H. apply andb_true_iff in H. destruct H as [H1 H2]. apply andb_true_iff in H1. destruct H1 as [_ H1].
  destruct j as [|j]; cbn in Hn.
  - rewrite Nat.add_0_r. exact H1.
  - replace (i + S j)%nat with (S i + j)%nat by lia. eapply IH; eauto.
Qed.

Lemma dwf_flat_nodup U c ffs : dwf U = true -> dflat U c = Some ffs -> dnodup (map df_name ffs) = true.
Proof.
  intros Hwf Hf.
  assert (exists cl, dget U c = Some cl) as [cl Hc].
  { unfold dflat in Hf. cbn in Hf. destruct (dget U c); [eauto|discriminate]. }
  pose proof (dwf_from_nth U U 0 Hwf c cl Hc) as H. change (0 + c)%nat with c in H. rewrite Hf in H. exact H.
Qed.

Lemma dsub_refl U c : dsub U c c = true.
Proof. unfold dsub. cbn. rewrite Nat.eqb_refl. reflexivity. Qed.

(* ------------------------------------------------------------------ unfolding the judgement *)
Lemma has_dtype_all U t ys :
  (fix all (l : list nv) : Prop :=
     match l with [] => True | y :: r => has_dtype U y t /\ all r end) ys
  <-> Forall (fun y => has_dtype U y t) ys.
Proof.
  induction ys as [|y ys IH]; cbn.
  - split; intro; [constructor|exact I].
  - split.
    + intros [H1 H2]. constructor; [exact H1|apply IH; exact H2].
    + intro H. inversion H; subst. split; [assumption|apply IH; assumption].
Qed.

Lemma has_dtype_list U vs e : has_dtype U (NList vs) (DArr e) <-> Forall (fun x => has_dtype U x e) vs.
Proof. cbn [has_dtype]. apply has_dtype_all. Qed.

Lemma has_dtype_members U : forall vals ffs,
  (fix go (xs : list nv) (fs : list dfield) : Prop :=
     match xs, fs with
     | [], [] => True
     | x :: xr, f :: fr =>
         (if dmulti f then
            match x with
            | NNone => True
            | NList ys => (fix all (l : list nv) : Prop :=
                             match l with [] => True | y :: r => has_dtype U y (df_ty f) /\ all r end) ys
            | _ => False
            end
          else has_dtype U x (df_ty f))
         /\ go xr fr
     | _, _ => False
     end) vals ffs
  <-> Forall2 (dmember_has U) ffs vals.
Proof.
  induction vals as [|x vals IH]; intros [|f ffs]; cbn.
  - split; intro; [constructor|exact I].
  - split; intro H; [destruct H|inversion H].
  - split; intro H; [destruct H|inversion H].
  - split.
    + intros [H1 H2]. constructor; [|apply IH; exact H2].
      unfold dmember_has. destruct (dmulti f); [|exact H1].
      destruct x; try exact H1. apply has_dtype_all. exact H1.
    + intro H. inversion H; subst. split; [|apply IH; assumption].
      unfold dmember_has in H3. destruct (dmulti f); [|exact H3].
      destruct x; try exact H3. apply has_dtype_all. exact H3.
Qed.

Lemma has_dtype_obj U d vals c :
  has_dtype U (NObj d vals) (DRef c)
  <-> dsub U d c = true /\ exists ffs, dflat U d = Some ffs /\ Forall2 (dmember_has U) ffs vals.
Proof.
  cbn [has_dtype]. destruct (dflat U d) as [ffs|]; split; intros [H1 H2]; split; try assumption.
  - exists ffs. split; [reflexivity|]. apply has_dtype_members. exact H2.
  - destruct H2 as [ffs' [E H2]]. inversion E; subst. apply has_dtype_members. exact H2.
  - destruct H2.
  - destruct H2 as [ffs' [E _]]. discriminate.
Qed.

(* ------------------------------------------------------------------ leaves *)

(** what the text readers may return for a leaf type: a value of its own kind (an integer of
    any size for the Integer family: the declared width is validate_native's business) *)
Definition rd_kind (p : dprim) (v : nv) : Prop :=
  match v with
  | NNone => True
  | NInt _ => match p with DInt _ _ => True | _ => False end
  | NText _ => match p with DText => True | _ => False end
  | NParsed DDate => match p with DDate => True | _ => False end
  | NParsed DBytes => match p with DBytes => True | _ => False end
  | _ => False
  end.

Definition readers_typed (C : dcfg) : Prop :=
  (forall p s v, d_rd C p s = Ok v -> rd_kind p v) /\ (forall p b v, d_rdb C p b = Ok v -> rd_kind p v).

(** MessagePack hands ByteArray members whatever the document holds, wrapped in a tuple
    (binary_decoding_handlers[None]); everything below excludes exactly that combination *)
Definition bytes_guard (C : dcfg) (U : duniverse) (t : dty) : Prop :=
  d_proto C <> PMsgpack \/ (duniv_no_bytes U = true /\ dty_no_bytes t = true).

Ltac inv_ok H := inversion H; subst; clear H.
Ltac range_tac :=
  match goal with
  | Ev : (if ?c then _ else _) = Ok tt |- _ =>
      let Ei := fresh "Ei" in destruct c eqn:Ei; [first [exact Ei | reflexivity] | discriminate]
  end.
Ltac guard_tac :=
  match goal with
  | Hb : _ <> _ \/ _ <> _ |- _ => destruct Hb as [Hb|Hb]; congruence
  end.
Ltac vp_tac :=
  match goal with
  | Hvp : validate_pre _ _ _ _ = true |- _ => cbn in Hvp; try rewrite andb_false_r in Hvp; discriminate
  end.

Lemma leaf_core_typed (C : dcfg) (U : duniverse) :
  d_soft C = true -> leaf_cfg_ok (d_leaf C) = true -> readers_typed C ->
  forall p nullable d0 d v0,
    (d_proto C <> PMsgpack \/ p <> DBytes) ->
    validate_pre C p nullable d0 = true -> norm_bytes C p d0 = Ok d ->
    leaf_raw C p d = Ok v0 -> validate_native p nullable v0 = Ok tt -> has_dtype U v0 (DPrim p).
Proof.
  intros Hsoft Hcfg Hrt p nullable d0 d v Hb Hvp Hd Er Ev. destruct Hrt as [Hrd Hrdb].
  destruct C as [pr so iw [fa fb fc fu fd] rd rdb dec]. cbn in *. subst so.
  unfold leaf_cfg_ok in Hcfg. cbn in Hcfg.
  apply andb_true_iff in Hcfg. destruct Hcfg as [Hcfg ->].
  apply andb_true_iff in Hcfg. destruct Hcfg as [Hcfg ->]. apply andb_true_iff in Hcfg. destruct Hcfg as [-> ->].
  assert (forall q s w, rd q s = Ok w -> rd_kind q w) as Hrd' by exact Hrd.
  assert (forall q s w, rdb q s = Ok w -> rd_kind q w) as Hrdb' by exact Hrdb.
  clear Hrd Hrdb.
  assert (forall s, d = JStr s -> has_dtype U v (DPrim p)) as Hstr.
  { intros s ->. cbn in Er.
    destruct p as [lo hi| | | | |]; cbn in Er; try (destruct pr; cbn in Er); try discriminate;
      try (inv_ok Er; cbn in *; try exact I; guard_tac);
      try (apply Hrd' in Er; destruct v as [| |z| | |q| | | |]; cbn in Er; try contradiction; try exact I;
           try (destruct q; try contradiction; exact I);
           cbn in Ev; range_tac). }
  destruct d0 as [|b|z|f|s|bs|l|kv]; cbn in Hd;
    try (injection Hd as <-; cbn in Er).
  - (* null *) inv_ok Er. exact I.
  - (* bool *)
    destruct p as [lo hi| | | | |]; cbn in Er; try (destruct pr; cbn in Er); inv_ok Er; cbn in *;
      try discriminate; try exact I;
      try range_tac; try guard_tac; try vp_tac.
  - (* int *)
    destruct p as [lo hi| | | | |]; cbn in Er; try (destruct pr; cbn in Er); inv_ok Er; cbn in *;
      try discriminate; try exact I;
      try range_tac; try guard_tac; try vp_tac.
  - (* float *)
    destruct p as [lo hi| | | | |]; cbn in Er; try (destruct pr; cbn in Er);
      try (destruct f as [z| | |]; cbn in Er; try destruct (is_one_or_zero z)); inv_ok Er; cbn in *;
      try discriminate; try exact I;
      try range_tac; try guard_tac; try vp_tac.
  - (* text *) eapply Hstr. reflexivity.
  - (* bytes: only ByteArray members see them undecoded *)
    destruct p as [lo hi| | | | |];
      try (destruct (dec bs) as [s|]; [injection Hd as <-; eapply Hstr; reflexivity|discriminate]).
    injection Hd as <-. cbn in Er. destruct pr; cbn in Er;
      try (inv_ok Er; cbn in *; try exact I; guard_tac);
      apply Hrdb' in Er; destruct v as [| |z| | |q| | | |]; cbn in Er; try contradiction; try exact I;
      destruct q; try contradiction; exact I.
  - (* list *)
    destruct p as [lo hi| | | | |]; cbn in Er; try (destruct pr; cbn in Er); try (destruct fd); try discriminate;
      inv_ok Er; cbn in *; try discriminate; first [guard_tac | vp_tac].
  - (* map *)
    destruct p as [lo hi| | | | |]; cbn in Er; try (destruct pr; cbn in Er); try (destruct fd); try discriminate;
      inv_ok Er; cbn in *; try discriminate; first [guard_tac | vp_tac].
Qed.

Lemma leaf_in_typed (C : dcfg) (U : duniverse) :
  d_soft C = true -> leaf_cfg_ok (d_leaf C) = true -> readers_typed C ->
  forall w p nullable d v,
    (d_proto C <> PMsgpack \/ p <> DBytes) ->
    leaf_in C w p nullable d = Ok v -> has_dtype U v (DPrim p).
Proof.
  intros Hsoft Hcfg Hrt w p nullable d v Hb H.
  assert (lc_unwrap_first (d_leaf C) = true) as Hu.
  { unfold leaf_cfg_ok in Hcfg. apply andb_true_iff in Hcfg. apply Hcfg. }
  unfold leaf_in in H. rewrite Hsoft, Hu in H. cbn [negb] in H. rewrite andb_false_r in H. cbn [andb] in H.
  destruct (validate_pre C p nullable d) eqn:Hvp; cbn [negb] in H; [|discriminate].
  destruct (guard_pre p d); cbn [negb] in H; [|discriminate].
  destruct (norm_bytes C p d) as [d'| |] eqn:En; cbn [bind] in H; try discriminate.
  destruct (leaf_raw C p d') as [v0| |] eqn:Er; cbn [bind] in H; try discriminate.
  destruct (validate_native p nullable v0) as [[]| |] eqn:Ev; cbn [bind] in H; try discriminate.
  inv_ok H. eapply leaf_core_typed; eauto.
Qed.

Lemma jv_null_dec (d : jv) : d = JNull \/ d <> JNull.
Proof. destruct d; [left; reflexivity|right; discriminate..]. Qed.

(* ------------------------------------------------------------------ structure *)
Section DictTyping.
  Variable C : dcfg.
  Variable U : duniverse.
  Hypothesis Hsoft : d_soft C = true.
  Hypothesis Hcfg : leaf_cfg_ok (d_leaf C) = true.
  Hypothesis Hrd : readers_typed C.
  Hypothesis Hwf : dwf U = true.

  Definition dst_ok (fields : list dfield) (st : dstate) : Prop :=
    forall f, In f fields -> dmember_has U f (dgetattr st (df_name f)).

  Lemma dst_ok_nil fields : dst_ok fields [].
  Proof. intros f _. unfold dmember_has. cbn. destruct (dmulti f); exact I. Qed.

  Lemma dst_ok_set fields st k f v :
    dnodup (map df_name fields) = true -> dfind k fields = Some f -> dmember_has U f v ->
    dst_ok fields st -> dst_ok fields (dsetattr st k v).
  Proof.
    intros Hn Hf Hv Hst g Hg. unfold dsetattr. cbn [dgetattr].
    destruct (dfind_spec _ _ _ Hf) as [Hin Hname].
    destruct (text_eqb k (df_name g)) eqn:E; [|apply Hst; exact Hg].
    apply d_text_eqb_eq in E.
    assert (f = g) as <-; [|exact Hv].
    eapply dnodup_same_name; eauto. congruence.
  Qed.

  Lemma mapMd_typed (f : jv -> out nv) t : forall l vs,
    (forall e v, f e = Ok v -> has_dtype U v t) -> mapMd f l = Ok vs ->
    Forall (fun v => has_dtype U v t) vs.
  Proof.
    induction l as [|e l IH]; intros vs Hf H; cbn in H.
    - inversion H; subst. constructor.
    - destruct (f e) as [v| |] eqn:Ev; try discriminate. cbn in H.
      destruct (mapMd f l) as [vs'| |] eqn:El; try discriminate. cbn in H. inversion H; subst.
      constructor; [eapply Hf; eauto|eapply IH; eauto].
  Qed.

  Lemma members_in_ok (rec : dty -> bool -> jv -> out nv) fields :
    dnodup (map df_name fields) = true ->
    (forall f n d v, In f fields -> rec (df_ty f) n d = Ok v -> has_dtype U v (df_ty f)) ->
    forall items st freq st' freq', dst_ok fields st ->
      members_in C rec fields items st freq = Ok (st', freq') -> dst_ok fields st'.
  Proof.
    intros Hn Hr. induction items as [|[k v] items IH]; intros st freq st' freq' Hst H; cbn in H.
    - inversion H; subst. exact Hst.
    - destruct (key_text C k) as [name|]; [|eapply IH; eauto].
      destruct (dfind name fields) as [f|] eqn:Ef; [|eapply IH; eauto].
      destruct (dfind_spec _ _ _ Ef) as [Hin Hname].
      destruct (dmulti f) eqn:Em.
      + destruct (iter_doc v) as [xs|]; [|discriminate].
        destruct (mapMd (rec (df_ty f) (df_nullable f)) xs) as [vs| |] eqn:Ev; try discriminate. cbn in H.
        eapply IH; [|exact H]. eapply dst_ok_set; eauto.
        unfold dmember_has. rewrite Em. apply Forall_app. split.
        * specialize (Hst f Hin). unfold dmember_has in Hst. rewrite Em, Hname in Hst.
          destruct (dgetattr st name); try constructor. exact Hst.
        * eapply mapMd_typed; [|exact Ev]. intros e w Hw. eapply Hr; eauto.
      + destruct (rec (df_ty f) (df_nullable f) v) as [x| |] eqn:Ex; try discriminate. cbn in H.
        eapply IH; [|exact H]. eapply dst_ok_set; eauto.
        unfold dmember_has. rewrite Em. eapply Hr; eauto.
  Qed.

  Lemma dgetattr_members fields st : dst_ok fields st ->
    Forall2 (dmember_has U) fields (map (fun f => dgetattr st (df_name f)) fields).
  Proof.
    intro Hst. assert (forall l, (forall f, In f l -> In f fields) ->
      Forall2 (dmember_has U) l (map (fun f => dgetattr st (df_name f)) l)) as X.
    { induction l as [|f l IH]; intro Hl; cbn; constructor.
      - apply Hst. apply Hl. left. reflexivity.
      - apply IH. intros g Hg. apply Hl. right. exact Hg. }
    apply X. auto.
  Qed.

  Lemma unwrap_sub c d c' body : unwrap C U c d = Ok (Some (c', body)) -> dsub U c' c = true.
  Proof.
    unfold unwrap. destruct (d_ignore_wrappers C).
    - intro H. inversion H; subst. apply dsub_refl.
    - destruct d as [| | | | | | |kv]; try discriminate.
      destruct kv as [|[k b] [|? ?]]; try discriminate.
      destruct (dget U c) as [cl|]; [|discriminate].
      destruct (match wrapper_name k with Some n => text_eqb n (dc_name cl) | None => false end).
      + intro H. inversion H; subst. apply dsub_refl.
      + destruct (dc_subs cl) as [|s0 subs]; [intro H; inversion H; subst; apply dsub_refl|].
        destruct (find _ (s0 :: subs)) as [s|]; [|discriminate].
        destruct (dsub U s c) eqn:Es; [|discriminate]. intro H. inversion H; subst. exact Es.
  Qed.

  (** the members of every class of a universe without ByteArray are without ByteArray *)
  Lemma dflat_no_bytes : duniv_no_bytes U = true ->
    forall n c ffs, dflat_fuel n U c = Some ffs -> Forall (fun f => dty_no_bytes (df_ty f) = true) ffs.
  Proof.
    intros Ha. induction n as [|n IH]; intros c ffs H; [discriminate|]. cbn in H.
    destruct (dget U c) as [cl|] eqn:Ec; [|discriminate].
    assert (Forall (fun f => dty_no_bytes (df_ty f) = true) (dc_own cl)) as Hown.
    { unfold duniv_no_bytes in Ha. rewrite forallb_forall in Ha.
      unfold dget in Ec. apply nth_error_In in Ec. specialize (Ha cl Ec).
      rewrite forallb_forall in Ha. apply Forall_forall. exact Ha. }
    destruct (dc_parent cl) as [p|].
    - destruct (dflat_fuel n U p) as [pf|] eqn:Ep; [|discriminate]. inversion H; subst.
      apply Forall_app. split; [eapply IH; eauto|exact Hown].
    - inversion H; subst. exact Hown.
  Qed.

  Lemma guard_member t c' fields f :
    bytes_guard C U t -> dflat U c' = Some fields -> In f fields -> bytes_guard C U (df_ty f).
  Proof.
    intros [Hg|[Hu _]] Hf Hin; [left; exact Hg|]. right. split; [exact Hu|].
    pose proof (dflat_no_bytes Hu _ _ _ Hf) as X. rewrite Forall_forall in X. apply X. exact Hin.
  Qed.

  Lemma d2o_arr_typed (rec : dty -> bool -> jv -> out nv) e d v :
    (forall n d' v', rec e n d' = Ok v' -> has_dtype U v' e) ->
    d2o_arr rec e d = Ok v -> has_dtype U v (DArr e).
  Proof.
    intros Hrec H. unfold d2o_arr in H. destruct (iter_doc d) as [xs|]; [|discriminate].
    destruct (mapMd (rec e true) xs) as [vs| |] eqn:Em; try discriminate. cbn in H. inversion H; subst.
    apply has_dtype_list. eapply mapMd_typed; [|exact Em]. intros e0 w Hw. eapply Hrec. exact Hw.
  Qed.

  Lemma d2o_obj_typed (rec : dty -> bool -> jv -> out nv) c d v :
    (forall t' n d' v', bytes_guard C U t' -> rec t' n d' = Ok v' -> has_dtype U v' t') ->
    bytes_guard C U (DRef c) ->
    d2o_obj C U rec c d = Ok v -> has_dtype U v (DRef c).
  Proof.
    intros Hrec Hg H. unfold d2o_obj in H.
    destruct (unwrap C U c d) as [[[c' body]|]| |] eqn:Ew; try discriminate; cbn [bind fst snd] in H;
      [|inversion H; subst; exact I].
    pose proof (unwrap_sub _ _ _ _ Ew) as Hs.
    destruct (dflat U c') as [fields|] eqn:Ef; [|discriminate].
    pose proof (dwf_flat_nodup _ _ _ Hwf Ef) as Hn.
    match type of H with (do items <- ?X; _) = _ => destruct X as [items| |] end; try discriminate. cbn [bind fst snd] in H.
    destruct (members_in C rec fields items [] []) as [[st fr]| |] eqn:Em; try discriminate. cbn [bind fst snd] in H.
    destruct (d_soft C && negb (dfreq_ok fields fr)); [discriminate|]. inversion H; subst.
    apply has_dtype_obj. split; [exact Hs|]. exists fields. split; [exact Ef|].
    apply dgetattr_members. eapply members_in_ok; [exact Hn| |apply dst_ok_nil|exact Em].
    intros f0 n0 d0 v0 Hin Hv0. eapply Hrec; [|exact Hv0]. eapply guard_member; eauto.
  Qed.

  (** what _doc_to_object returns for a document that is not null *)
  Lemma d2o_typed (rec : dty -> bool -> jv -> out nv) t d v :
    (forall t' n d' v', bytes_guard C U t' -> rec t' n d' = Ok v' -> has_dtype U v' t') ->
    bytes_guard C U t -> d <> JNull ->
    d2o C U rec t d = Ok v -> has_dtype U v t.
  Proof.
    intros Hrec Hg Hd H.
    assert (match t with DPrim _ | DWrap _ => Crash TypeError | DArr e => d2o_arr rec e d | DRef c => d2o_obj C U rec c d end = Ok v) as H'.
    { destruct d; try exact H. exfalso. apply Hd. reflexivity. }
    clear H. destruct t as [p|c|e|q]; [discriminate| | |discriminate].
    - eapply d2o_obj_typed; eauto.
    - eapply d2o_arr_typed; [|exact H']. intros n d' v' Hv'. eapply Hrec; [|exact Hv'].
      destruct Hg as [Hg|[Hu Ht]]; [left; exact Hg|right; split; [exact Hu|exact Ht]].
  Qed.

  Lemma complex_post_typed nullable v w t : complex_post C nullable v = Ok w -> has_dtype U v t -> has_dtype U w t.
  Proof.
    unfold complex_post. rewrite Hsoft. intros H Hv.
    destruct v; try (inversion H; subst; exact Hv).
    destruct nullable; [inversion H; exact I|discriminate].
  Qed.

  Theorem fdv_typed : forall fuel t nullable d v,
    bytes_guard C U t -> fdv C U fuel t nullable d = Ok v -> has_dtype U v t.
  Proof.
    induction fuel as [|k IH]; intros t nullable d v Hg H; [discriminate|]. cbn [fdv] in H.
    assert (lc_null_object_none (d_leaf C) = true) as Hnull.
    { pose proof Hcfg as Hc. unfold leaf_cfg_ok in Hc. apply andb_true_iff in Hc. destruct Hc as [Hc _].
      apply andb_true_iff in Hc. apply Hc. }
    destruct t as [p|c|e|q].
    4: { assert (has_dtype U v (DPrim q)) as X; [|destruct v; exact X].
         eapply leaf_in_typed; eauto.
         destruct Hg as [Hg|[_ Hg]]; [left; exact Hg|]. right. intro E. subst q. discriminate. }
    - eapply leaf_in_typed; eauto.
      destruct Hg as [Hg|[_ Hg]]; [left; exact Hg|]. right. intro E. subst p. discriminate.
    - destruct (complex_in C U (fdv C U k) (DRef c) d) as [v0| |] eqn:Ev; try discriminate. cbn [bind] in H.
      eapply complex_post_typed; [exact H|].
      unfold complex_in in Ev. rewrite Hnull in Ev.
      destruct d; try (refine (d2o_typed _ _ _ _ _ Hg _ Ev); [intros; eapply IH; eauto|discriminate]).
      inversion Ev. exact I.
    - destruct (complex_in C U (fdv C U k) (DArr e) d) as [v0| |] eqn:Ev; try discriminate. cbn [bind] in H.
      eapply complex_post_typed; [exact H|].
      unfold complex_in in Ev. rewrite Hnull in Ev.
      destruct d; try (refine (d2o_typed _ _ _ _ _ Hg _ Ev); [intros; eapply IH; eauto|discriminate]).
      inversion Ev. exact I.
  Qed.

  (** the request: the body document of the call, read as the request message class *)
  Theorem dict_args_typed fuel m d args :
    bytes_guard C U (DRef m) ->
    dict_call_args C U fuel m d = Ok args ->
    args = [] \/ exists c ffs, dsub U c m = true /\ dflat U c = Some ffs /\ Forall2 (dmember_has U) ffs args.
  Proof.
    intros Hg. unfold dict_call_args, doc_to_object.
    destruct (d2o C U (fdv C U fuel) (DRef m) d) as [v| |] eqn:E; try discriminate. cbn [bind].
    destruct (jv_null_dec d) as [->|Hd].
    - cbn in E. inversion E; subst. intro H. inversion H. left. reflexivity.
    - assert (has_dtype U v (DRef m)) as X.
      { refine (d2o_typed _ _ _ _ _ Hg Hd E). intros. eapply fdv_typed; eauto. }
      destruct v as [| | | | | | | |c vals|l]; try discriminate.
      + intro H. injection H as <-. apply has_dtype_obj in X. destruct X as [Hs [ffs [Hf Hm]]].
        right. exists c, ffs. auto.
      + destruct X.
  Qed.
End DictTyping.
