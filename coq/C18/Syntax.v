(** C18 — vocabulary shared by the generated tables (Gen/NullSrv.v, produced by
    harness/translate/nullsrv.py from the Spyne sources) and the hand-written
    model (C18/Model.v).  Definitions only. *)
From Coq Require String Ascii.
Import String(string, list_ascii_of_string). Import Ascii(N_of_ascii).
From SpyneV Require Export Base.Prelude Wire.Universe.

(** a Python source string as text (code points) *)
Definition tx (s : string) : text :=
  map (fun a => Z.of_N (N_of_ascii a)) (list_ascii_of_string s).

(** the string literals of the modelled sources *)
Module Lit.
  Import String.
  Local Open Scope string_scope.
  Definition server : text := tx "Server".
  Definition internal_error : text := tx "Internal Error".
  Definition client_resource_not_found : text := tx "Client.ResourceNotFound".
  Definition requested_resource : text := tx "Requested resource '".
  Definition not_found : text := tx "' not found".
  Definition client_validation_error : text := tx "Client.ValidationError".
  Definition integer : text := tx "integer".
  Definition string_ : text := tx "string".
  Definition boolean : text := tx "boolean".
  Definition array : text := tx "Array".
End Lit.

(** spyne.descriptor.BODY_STYLE_* *)
Inductive bstyle := BWrapped | BEmpty | BBare | BOutBare | BEmptyOutBare.
Definition bstyle_eqb (a b : bstyle) : bool :=
  match a, b with
  | BWrapped, BWrapped | BEmpty, BEmpty | BBare, BBare | BOutBare, BOutBare
  | BEmptyOutBare, BEmptyOutBare => true
  | _, _ => false
  end.

(** the conditions that occur in the if/elif chains of [_cb_sync],
    [Application.process_request] and [ServerBase.get_out_object]; [oo] is
    ctx.out_object, [d] is ctx.descriptor *)
Inductive cmpop := OpEq | OpNe | OpLt | OpLe | OpGt | OpGe.
Inductive cond :=
| CIgnoredHead                    (* isinstance(oo, (list, tuple)) and len(oo) > 0 and isinstance(oo[0], Ignored) *)
| CIsIgnored                      (* isinstance(oo, Ignored) *)
| CIsOutBare                      (* d.is_out_bare() *)
| CStyleIs (s : bstyle)           (* d.body_style is/== BODY_STYLE_s *)
| CStyleIsNot (s : bstyle)        (* d.body_style is not BODY_STYLE_s *)
| CLenOut (op : cmpop) (k : Z)    (* len(d.out_message._type_info) op k *)
| COr (a b : cond)                (* short-circuit *)
| CAnd (a b : cond)
| CNot (a : cond).

(** what a branch of [_cb_sync] assigns to retval *)
Inductive cb_act := AFirst (* oo[0] *) | ANone (* None *) | AWhole (* oo *).
(** what a branch of process_request assigns to ctx.in_object *)
Inductive in_act := InWrapList (* [in_object] *) | InEmptyList (* [] *).
(** what a branch of the Ignored handling assigns to ctx.out_object *)
Inductive ign_act :=
| IgnOneNone           (* (None,) *)
| IgnEmptyTuple        (* () *)
| IgnNonePerValue.     (* (None,) * len(d.out_message._type_info) *)
(** which field table NullServer sizes / names the arguments with *)
Inductive ti_source := TIOwn (* in_message._type_info *) | TIFlat (* in_message.get_flat_type_info(in_message) *).
(** what a protocol hands to the message serializer for a non-wrapped body style *)
Inductive nw_mode := NWList (* ctx.out_object, the one-element list *) | NWFirst (* ctx.out_object[0] *).

(** the key HierDictDocument.deserialize looks the request body up under *)
Inductive lk_mode :=
| LkTypeName     (* in_message.get_type_name() *)
| LkSubName.     (* in_message.Attributes.sub_name when set (the message name of a bare method) *)

(** event names fired through ctx.fire_event *)
Inductive evname :=
| MethodCall | MethodReturnObject | MethodExceptionObject | MethodContextClosed
| MethodReturnDocument | MethodReturnString | MethodExceptionDocument | MethodExceptionString
| EvOther (name : text).
Definition evname_eqb (a b : evname) : bool :=
  match a, b with
  | MethodCall, MethodCall | MethodReturnObject, MethodReturnObject
  | MethodExceptionObject, MethodExceptionObject | MethodContextClosed, MethodContextClosed
  | MethodReturnDocument, MethodReturnDocument | MethodReturnString, MethodReturnString
  | MethodExceptionDocument, MethodExceptionDocument | MethodExceptionString, MethodExceptionString => true
  | EvOther x, EvOther y => text_eqb x y
  | _, _ => false
  end.
