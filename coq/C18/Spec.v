(** C18 — the notions the property theorems are stated with.  Definitions only. *)
From SpyneV Require Export C18.Model.

(** the parameter names a caller can use: the fields of the synthetic in-message, or (bare) the
    flattened fields of the complex argument, which is passed field-wise *)
Definition param_names (U : universe) (d : descriptor) : list text :=
  match md_in d with
  | MWrap fs => map fst fs
  | MType (TRef c) => match flat_fields U c with Some ffs => map f_name ffs | None => [] end
  | MType _ => []
  end.

(** a conformant invocation: not more positional arguments than parameters, and no parameter given
    both positionally and by keyword (Python's own rule for a call) *)
Definition call_ok (names : list text) (args : list val) (kw : list (text * val)) : Prop :=
  (length args <= length names)%nat /\
  forall k, In k (firstn (length args) names) -> kw_get kw k = None.

(** the body styles NullServer supports: everything except a bare primitive / bare Array argument *)
Definition null_supported (U : universe) (d : descriptor) : Prop :=
  match md_in d with
  | MWrap _ => True
  | MType (TRef c) => flat_fields U c <> None
  | MType _ => False
  end.

(** what the wire path of protocol p needs in order to carry the method at all *)
Definition wire_supported (U : universe) (p : proto) (d : descriptor) : Prop :=
  match p with
  | PXml => md_style d = BWrapped \/ xml_nonwrapped = NWFirst
  | PSoap => md_style d = BWrapped \/ soap_nonwrapped = NWFirst
  | PHier => text_eqb (msg_type_name U d (md_in d)) (md_name d) = true
  end.

(** the argument list the method's function is entered with *)
Definition delivered (U : universe) (d : descriptor) (args : list val) (kw : list (text * val)) : list pyv :=
  match md_in d with
  | MWrap fs => map PVal (bind_args (map fst fs) args kw)
  | MType (TRef c) =>
      match flat_fields U c with
      | Some ffs => [PVal (VObj c (bind_args (map f_name ffs) args kw))]
      | None => []
      end
  | MType _ => []
  end.

(** header values: only Soap11 carries them; one value per declared header class *)
Definition hdr_ok (p : proto) (d : descriptor) (hs : list val) : Prop :=
  hs = [] \/ (p = PSoap /\ length hs = md_nhdr d).

Definition is_plain (x : pyv) : bool := match x with PVal _ | PTuple _ | PGen _ => true | _ => false end.
Definition pyv_is_none (x : pyv) : bool := match x with PVal VNone => true | _ => false end.
(** the function's return value conforms to the declared return types: nothing (None) when none
    is declared, one object, or a tuple/list with one value per declared return type *)
Definition ret_fits (d : descriptor) (x : pyv) : bool :=
  match md_out d with
  | MWrap [] => is_plain x && (bstyle_eqb (md_style d) BWrapped || pyv_is_none x)
  | MWrap [_] | MType _ => is_plain x
  | MWrap fs => match x with
                | PTuple vs | PVal (VList vs) => Nat.eqb (length vs) (length fs)
                | _ => false
                end
  end.

(** ctx.out_object after process_request *)
Definition out_object_of (d : descriptor) (x : pyv) : oobj :=
  match md_style d, md_out d with
  | BWrapped, MWrap (_ :: _ :: _) => ORaw x
  | _, _ => OSeq [x]
  end.

(** what the declaration says the caller gets for a returned object: nothing when no return type
    is declared *)
Definition declared_result (d : descriptor) (x : pyv) : pyv :=
  match md_out d with MWrap [] => PVal VNone | _ => x end.

(** the codec of protocol p carries the two messages of this call unchanged (C01 / C02) *)
Definition codec_carries (xfer : proto -> msg -> rmsg -> out rmsg) (U : universe) (p : proto)
    (d : descriptor) (h : option hdr) (f : ufun) (args : list val) (kw : list (text * val)) : Prop :=
  (forall r, client_request U d args kw = Ok r -> xfer p (md_in d) r = Ok r) /\
  (forall x m, f h (delivered U d args kw) = URet x ->
               srv_response U p d (out_object_of d x) = Ok m -> xfer p (md_out d) m = Ok m).

(** the function conforms to its declaration on this call *)
Definition fun_fits (U : universe) (d : descriptor) (h : option hdr) (f : ufun)
    (args : list val) (kw : list (text * val)) : Prop :=
  forall x, f h (delivered U d args kw) = URet x -> ret_fits d x = true.

(** the property's equality on outcomes: same sequence of values, or the same fault *)
Definition outcome_rel (a b : outcome) : Prop :=
  match a, b with
  | Returned x, Returned y => norm_ret x = norm_ret y
  | Raised f, Raised g => f = g
  | _, _ => False
  end.

(** what "empty over the wire" decodes to *)
Definition empty_result (U : universe) (d : descriptor) : pyv :=
  match md_out d with
  | MWrap ((_ :: _ :: _) as fs) => PTuple (repeat VNone (length fs))
  | _ => PVal VNone
  end.

(** the descriptors of a service are what the decorator makes of the declarations *)
Fixpoint decorate_all (U : universe) (dcs : list decl) : out (list descriptor) :=
  match dcs with
  | [] => Ok []
  | dc :: r => do d <- decorate U dc; do ds <- decorate_all U r; Ok (d :: ds)
  end.

(** the meaning of the call itself: the function is entered once with the delivered arguments
    between method_call and method_return_object / method_exception_object *)
Definition ref_trace (U : universe) (d : descriptor) (h : option hdr) (f : ufun)
    (args : list val) (kw : list (text * val)) : list event :=
  let a := delivered U d args kw in
  map EvFire pr_events_before ++ [EvUser h a] ++
  map EvFire (match f h a with
              | URet _ => pr_events_after
              | URaise _ => pr_events_fault
              | UExc => pr_events_exception
              end).
