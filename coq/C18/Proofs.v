(** C18 — lemmas.  The generated tables of Gen/NullSrv.v are used by computation, so an edit
    of the translated sources changes what has to be proved here. *)
From Coq Require Import Lia.
From SpyneV Require Import C18.Spec.
Arguments flat_fields : simpl never.

(* ------------------------------------------------------------------ argument packing *)
Lemma is_none_true : forall v, is_none v = true -> v = VNone.
Proof. destruct v; cbn; congruence. Qed.

Lemma fill_ok : forall n args, (length args <= n)%nat ->
  fill n args = Ok (args ++ repeat VNone (n - length args)).
Proof.
  induction n as [|n IH]; intros [|a r] H; cbn in *; try reflexivity; try lia.
  rewrite IH by lia. reflexivity.
Qed.

Lemma fill_too_many : forall n args, (n < length args)%nat -> fill n args = Crash IndexError.
Proof.
  induction n as [|n IH]; intros [|a r] H; cbn in *; try reflexivity; try lia.
  rewrite IH by lia. reflexivity.
Qed.

Lemma bind_args_length : forall names args kw, length (bind_args names args kw) = length names.
Proof. induction names as [|k ns IH]; intros [|a r] kw; cbn; auto. Qed.

Lemma call_ok_tail : forall k ns a r kw, call_ok (k :: ns) (a :: r) kw -> call_ok ns r kw /\ kw_get kw k = None.
Proof.
  intros k ns a r kw [Hl Hk]; cbn in *. split; [split; [lia|]|].
  - intros k' Hin. apply Hk. right. exact Hin.
  - apply Hk. left. reflexivity.
Qed.

Lemma kw_over_nil_args : forall names kw,
  kw_over true names (repeat VNone (length names)) kw = bind_args names [] kw.
Proof.
  induction names as [|k ns IH]; intro kw; cbn; [reflexivity|].
  rewrite IH. f_equal. destruct (kw_get kw k) as [v|]; [|reflexivity].
  destruct (is_none v) eqn:E; [|reflexivity]. symmetry. apply is_none_true. exact E.
Qed.

(** the two loops of NullServer compute the reference binding on every conformant call *)
Lemma kw_over_bind : forall names args kw, call_ok names args kw ->
  kw_over true names (args ++ repeat VNone (length names - length args)) kw = bind_args names args kw.
Proof.
  induction names as [|k ns IH]; intros args kw H.
  - destruct H as [Hl _]. destruct args; cbn in *; [reflexivity|lia].
  - destruct args as [|a r].
    + cbn [app length Nat.sub]. apply (kw_over_nil_args (k :: ns)).
    + apply call_ok_tail in H. destruct H as [H Hk]. cbn. rewrite Hk. f_equal. apply IH. exact H.
Qed.

Lemma null_pack_bind : forall names args kw, call_ok names args kw ->
  (do base <- fill (length names) args; Ok (kw_over true names base kw)) = Ok (bind_args names args kw).
Proof.
  intros names args kw H. rewrite fill_ok by (destruct H; assumption). cbn.
  rewrite kw_over_bind by exact H. reflexivity.
Qed.

Lemma map_fst_fields_ti : forall fs, map fst (fields_ti fs) = map f_name fs.
Proof. intro fs. unfold fields_ti. rewrite map_map. apply map_ext. reflexivity. Qed.
Lemma fields_ti_length : forall fs, length (fields_ti fs) = length fs.
Proof. intro fs. unfold fields_ti. apply map_length. Qed.

(* ------------------------------------------------------------------ what the decorator produces *)
(** the shapes rpc() can produce: WRAPPED has two synthetic wrappers; BARE takes the argument type
    itself; the other styles take a wrapper (empty for the EMPTY styles); a non-wrapped style
    returns nothing (empty wrapper) or the declared type itself *)
Inductive out_nonwrapped (d : descriptor) : Prop :=
| OutNothing : md_out d = MWrap [] -> out_nonwrapped d
| OutType : forall t, md_out d = MType t -> out_nonwrapped d.
Inductive shape (d : descriptor) : Prop :=
| ShWrapped : forall fs gs, md_style d = BWrapped -> md_in d = MWrap fs -> md_out d = MWrap gs -> shape d
| ShBare : forall t, md_style d = BBare -> md_in d = MType t -> out_nonwrapped d -> shape d
| ShOutBare : forall fs, md_style d = BOutBare -> md_in d = MWrap fs -> out_nonwrapped d -> shape d
| ShEmpty : md_style d = BEmpty -> md_in d = MWrap [] -> out_nonwrapped d -> shape d
| ShEmptyOutBare : md_style d = BEmptyOutBare -> md_in d = MWrap [] -> out_nonwrapped d -> shape d.

Ltac crush H :=
  repeat (cbn in H; unfold Prelude.bind in H;
          match type of H with
          | context [match ?x with _ => _ end] => destruct x eqn:?
          | context [if ?x then _ else _] => destruct x eqn:?
          end);
  cbn in H; try discriminate H.
Ltac crush_hyps :=
  repeat match goal with
         | H : ?l = Ok _ |- _ =>
             match l with
             | context [match _ with _ => _ end] => crush H
             | context [if _ then _ else _] => crush H
             end
         end.
Ltac inv_oks := repeat match goal with H : Ok _ = Ok _ |- _ => inversion H; subst; clear H end.
Ltac out_nw := first [apply OutNothing; reflexivity | eapply OutType; reflexivity].
Ltac solve_shape :=
  first [ solve [eapply ShWrapped; cbn; reflexivity]
        | solve [eapply ShBare; cbn; first [reflexivity | out_nw]]
        | solve [eapply ShOutBare; cbn; first [reflexivity | out_nw]]
        | solve [apply ShEmpty; cbn; first [reflexivity | out_nw]]
        | solve [apply ShEmptyOutBare; cbn; first [reflexivity | out_nw]] ].

Lemma decorate_shape : forall U dc d, decorate U dc = Ok d -> shape d.
Proof.
  intros U [nm st ps r nh] d H.
  unfold decorate, produce_in, produce_out, decide_style, msg_len_own in H. cbn in H.
  destruct st; destruct ps as [|[pn pt] [|p2 ps]]; destruct r as [|t|[|t1 ts]];
    cbn in H; try discriminate H; crush H; crush_hyps; inv_oks;
    first [ solve_shape
          | exfalso; cbn in *;
            repeat match goal with
                   | H1 : ?x = Ok ?a, H2 : ?x = Ok ?b |- _ => rewrite H1 in H2; inversion H2; subst; clear H2
                   end; congruence ].
Qed.

Lemma decorate_all_shape : forall U dcs ms, decorate_all U dcs = Ok ms -> Forall shape ms.
Proof.
  induction dcs as [|dc r IH]; intros ms H; cbn in H.
  - inversion H. constructor.
  - destruct (decorate U dc) as [d| |e] eqn:Ed; cbn in H; try discriminate H.
    destruct (decorate_all U r) as [ds| |e] eqn:Eds; cbn in H; try discriminate H.
    inversion H; subst. constructor; [eapply decorate_shape; eassumption|apply IH; reflexivity].
Qed.

Lemma find_method_in : forall ms key d, find_method ms key = Some d -> In d ms.
Proof. intros ms key d H. unfold find_method in H. apply find_some in H. tauto. Qed.

(* ------------------------------------------------------------------ small arithmetic facts about len(...) *)
(** comparing the length of a list of two or more with a constant <= 1 is comparing 2 with it: the
    proofs below do not depend on how the generated conditions spell such a test *)
Ltac cmp_cases :=
  unfold cmp_eval;
  repeat match goal with
         | |- context [Z.eqb ?a ?b] => destruct (Z.eqb_spec a b)
         | |- context [Z.leb ?a ?b] => destruct (Z.leb_spec a b)
         | |- context [Z.ltb ?a ?b] => destruct (Z.ltb_spec a b)
         end; try reflexivity; try (exfalso; lia).
Lemma len2_eqb : forall n k, (k <= 1)%Z -> (Z.of_nat (S (S n)) =? k) = (2 =? k).
Proof. intros n k Hk. cmp_cases. Qed.
Lemma len2_leb : forall n k, (k <= 1)%Z -> (Z.of_nat (S (S n)) <=? k) = (2 <=? k).
Proof. intros n k Hk. cmp_cases. Qed.
Lemma len2_ltb : forall n k, (k <= 1)%Z -> (Z.of_nat (S (S n)) <? k) = (2 <? k).
Proof. intros n k Hk. cmp_cases. Qed.
Lemma len2_geb : forall n k, (k <= 1)%Z -> (k <=? Z.of_nat (S (S n))) = (k <=? 2).
Proof. intros n k Hk. cmp_cases. Qed.
Lemma len2_gtb : forall n k, (k <= 1)%Z -> (k <? Z.of_nat (S (S n))) = (k <? 2).
Proof. intros n k Hk. cmp_cases. Qed.
Ltac len2 :=
  unfold cmp_eval;
  repeat first [rewrite len2_eqb by lia | rewrite len2_leb by lia | rewrite len2_ltb by lia
               | rewrite len2_geb by lia | rewrite len2_gtb by lia];
  cbn.

(* ------------------------------------------------------------------ process_request *)
Definition pr_args (U : universe) (d : descriptor) (io : inobj) : out (list pyv) :=
  do io' <- pr_in_stage U d io; args_of io'.

(** process_request as a function of the delivered argument list *)
Definition pr_ref (d : descriptor) (f : ufun) (h : option hdr) (a : list pyv) : pr_result * list event :=
  let evs := map EvFire pr_events_before ++ [EvUser h a] in
  match f h a with
  | UExc => (PRErr internal_error, evs ++ map EvFire pr_events_exception)
  | URaise flt => (PRErr flt, evs ++ map EvFire pr_events_fault)
  | URet x => (PROut (out_object_of d x), evs ++ map EvFire pr_events_after)
  end.

Lemma wrap_decision : forall U d x, shape d ->
  exists w, eval_cond U d (ORaw x) pr_wrap_out = Ok w /\ (if w then OSeq [x] else ORaw x) = out_object_of d x.
Proof.
  intros U [nm st mi mo nh] x Hs. inversion Hs; cbn in *; subst.
  - (* wrapped: by the number of declared return values *)
    destruct gs as [|g1 [|g2 gs]]; unfold out_object_of; cbn -[cmp_eval Z.of_nat].
    + exists true. split; reflexivity.
    + exists true. split; reflexivity.
    + eexists. split; [len2; reflexivity|reflexivity].
  - exists true. split; reflexivity.
  - exists true. split; reflexivity.
  - exists true. split; reflexivity.
  - exists true. split; reflexivity.
Qed.

Lemma process_request_ref : forall U d f h io a, shape d -> pr_args U d io = Ok a ->
  process_request U d f h io = pr_ref d f h a.
Proof.
  intros U d f h io a Hs Ha. unfold pr_args in Ha. unfold process_request, pr_ref.
  destruct (pr_in_stage U d io) as [io'| |e]; cbn in Ha; try discriminate Ha.
  rewrite Ha. destruct (f h a) as [x|flt|]; try reflexivity.
  destruct (wrap_decision U d x Hs) as [w [Hw Ho]]. rewrite Hw, Ho. reflexivity.
Qed.

(* ------------------------------------------------------------------ what NullServer hands to process_request *)
Lemma pack_fs : forall (names : list text) n args kw, n = length names -> call_ok names args kw ->
  (do base <- fill n args; Ok (kw_over null_kw_skips_none names base kw)) = Ok (bind_args names args kw).
Proof. intros names n args kw -> H. apply null_pack_bind. exact H. Qed.

Definition null_io (U : universe) (d : descriptor) (args : list val) (kw : list (text * val)) : inobj :=
  match md_in d with
  | MWrap fs => IList (map PVal (bind_args (map fst fs) args kw))
  | MType (TRef c) =>
      match flat_fields U c with
      | Some ffs => IInst (PVal (VObj c (bind_args (map f_name ffs) args kw)))
      | None => IList []
      end
  | MType _ => IList []
  end.

Lemma null_in_object_ok : forall U d args kw,
  shape d -> null_supported U d -> call_ok (param_names U d) args kw ->
  null_in_object null_ti_source U d args kw = Ok (null_io U d args kw).
Proof.
  intros U [nm st mi mo nh] args kw Hs Hn Hc. unfold null_in_object, null_io, param_names in *.
  inversion Hs; cbn in *; subst; cbn in *.
  - (* wrapped *)
    destruct (fill (length fs) args) as [base| |e] eqn:Ef;
      pose proof (pack_fs (map fst fs) (length fs) args kw (eq_sym (map_length _ _)) Hc) as Hp;
      rewrite Ef in Hp; cbn in Hp; try discriminate Hp.
    cbn. inversion Hp. reflexivity.
  - (* bare: the argument class, field-wise *)
    destruct t as [q|c|e]; try contradiction.
    destruct (flat_fields U c) as [ffs|] eqn:Eff; [|contradiction].
    cbn -[Nat.ltb]. rewrite Eff. cbn -[Nat.ltb]. rewrite fields_ti_length, map_fst_fields_ti.
    destruct (fill (length ffs) args) as [base| |e] eqn:Ef;
      pose proof (pack_fs (map f_name ffs) (length ffs) args kw (eq_sym (map_length _ _)) Hc) as Hp;
      rewrite Ef in Hp; cbn in Hp; try discriminate Hp.
    cbn -[Nat.ltb]. inversion Hp as [Hb]. rewrite Hb. rewrite bind_args_length, map_length.
    assert (E : match length ffs with 0%nat => false | S m' => (length ffs <=? m')%nat end = false).
    { destruct (length ffs) as [|m]; [reflexivity|apply Nat.leb_gt; lia]. }
    rewrite E, Nat.sub_diag. cbn. rewrite app_nil_r. reflexivity.
  - destruct (fill (length fs) args) as [base| |e] eqn:Ef;
      pose proof (pack_fs (map fst fs) (length fs) args kw (eq_sym (map_length _ _)) Hc) as Hp;
      rewrite Ef in Hp; cbn in Hp; try discriminate Hp.
    cbn. inversion Hp. reflexivity.
  - destruct args as [|a r]; [reflexivity|]. destruct Hc as [Hl _]. cbn in Hl. lia.
  - destruct args as [|a r]; [reflexivity|]. destruct Hc as [Hl _]. cbn in Hl. lia.
Qed.

Lemma null_io_args : forall U d args kw, shape d -> null_supported U d ->
  pr_args U d (null_io U d args kw) = Ok (delivered U d args kw).
Proof.
  intros U [nm st mi mo nh] args kw Hs Hn. unfold pr_args, pr_in_stage, null_io, delivered, null_supported in *.
  inversion Hs; cbn in *; subst; cbn in *; try reflexivity.
  destruct t as [q|c|e]; try contradiction.
  destruct (flat_fields U c) as [ffs|]; [reflexivity|contradiction].
Qed.

(* ------------------------------------------------------------------ what the wire server hands to process_request *)
Section WireProofs.
  Variable xfer : proto -> msg -> rmsg -> out rmsg.

  Definition wire_io (U : universe) (d : descriptor) (args : list val) (kw : list (text * val)) : inobj :=
    match md_in d with
    | MWrap fs => IWrap (bind_args (map fst fs) args kw)
    | MType (TRef c) =>
        match flat_fields U c with
        | Some ffs => IInst (PVal (VObj c (bind_args (map f_name ffs) args kw)))
        | None => IList []
        end
    | MType _ => IList []
    end.

  Lemma wire_in_object_ok : forall U p d args kw,
    shape d -> null_supported U d -> wire_supported U p d ->
    (forall r, client_request U d args kw = Ok r -> xfer p (md_in d) r = Ok r) ->
    (do r <- client_request U d args kw; srv_in_object xfer U p d r) = Ok (wire_io U d args kw).
  Proof.
    intros U p [nm st mi mo nh] args kw Hs Hn Hw Hx.
    unfold client_request, srv_in_object, wire_io, null_supported, wire_supported in *.
    cbn -[hier_bare_lookup] in *.
    assert (Hfound : forall mi', mi' = mi ->
              (match p with PHier => hier_found hier_bare_lookup U (mkdesc nm st mi' mo nh) | _ => true end) = true).
    { intros mi' ->. destruct p; [reflexivity|reflexivity|].
      assert (Hm : forall m, (m = LkSubName \/ text_eqb (msg_type_name U (mkdesc nm st mi mo nh) mi) nm = true) ->
                   hier_found m U (mkdesc nm st mi mo nh) = true).
      { intros m [->|H]; [reflexivity|]. destruct m; [exact H|reflexivity]. }
      apply Hm. exact Hw. }
    unfold srv_in_object_gen.
    destruct mi as [fs|[q|c|e]]; try contradiction.
    - cbn [Prelude.bind md_in]. rewrite (Hfound _ eq_refl). rewrite (Hx _ eq_refl). reflexivity.
    - destruct (flat_fields U c) as [ffs|] eqn:Eff; [|contradiction].
      cbn [Prelude.bind md_in]. rewrite (Hfound _ eq_refl). rewrite (Hx _ eq_refl). reflexivity.
  Qed.

  Lemma wire_io_args : forall U d args kw, shape d -> null_supported U d ->
    pr_args U d (wire_io U d args kw) = Ok (delivered U d args kw).
  Proof.
    intros U [nm st mi mo nh] args kw Hs Hn. unfold pr_args, pr_in_stage, wire_io, delivered, null_supported in *.
    inversion Hs; cbn in *; subst; cbn in *; try reflexivity.
    destruct t as [q|c|e]; try contradiction.
    destruct (flat_fields U c) as [ffs|]; [reflexivity|contradiction].
  Qed.

  Lemma wire_hdr_ok : forall p d hs, hdr_ok p d hs -> wire_hdr p d hs = hdr_of hs.
  Proof.
    intros p d hs [->|[-> Hl]].
    - unfold wire_hdr, hdr_of. destruct p; try reflexivity. destruct (md_nhdr d) as [|[|n]]; reflexivity.
    - unfold wire_hdr, hdr_of. rewrite <- Hl.
      destruct hs as [|v1 [|v2 r]]; try reflexivity.
      cbn [length]. rewrite Nat.sub_diag. cbn [repeat]. rewrite app_nil_r.
      change (S (S (length r))) with (length (v1 :: v2 :: r)). rewrite firstn_all. reflexivity.
  Qed.

  (* ---------------------------------------------------------------- results *)
  Lemma plain_not_ignored_head : forall x, is_plain x = true -> oo_ignored_head (OSeq [x]) = false.
  Proof. destruct x; cbn; congruence. Qed.
  Lemma plain_not_ignored : forall x, is_plain x = true -> oo_is_ignored (ORaw x) = false.
  Proof. destruct x; cbn; congruence. Qed.

  Lemma ret_fits_plain : forall d x, ret_fits d x = true -> is_plain x = true.
  Proof.
    intros d x H. unfold ret_fits in H. destruct (md_out d) as [[|g1 [|g2 gs]]|t]; try exact H.
    - apply Bool.andb_true_iff in H. tauto.
    - destruct x as [[| | |vs]|vs| | |]; try discriminate H; reflexivity.
  Qed.

  (** _cb_sync hands the caller what the declaration promises *)
  Lemma cb_retval_ok : forall U d x, shape d -> ret_fits d x = true ->
    cb_retval U d (out_object_of d x) = Ok (declared_result d x).
  Proof.
    intros U [nm st mi mo nh] x Hs Hf. pose proof (ret_fits_plain _ _ Hf) as Hp.
    unfold cb_retval, declared_result, out_object_of, ret_fits in *.
    inversion Hs as [fs gs E1 E2 E3|t E1 E2 Ho|fs E1 E2 Ho|E1 E2 Ho|E1 E2 Ho]; cbn in E1, E2; subst.
    - cbn in E3. subst mo. destruct gs as [|g1 [|g2 gs]]; cbn -[cmp_eval Z.of_nat].
      + destruct x; try discriminate Hp; reflexivity.
      + destruct x; try discriminate Hp; reflexivity.
      + len2. reflexivity.
    - inversion Ho as [E|t' E]; cbn in E; subst mo; cbn in Hf |- *.
      + destruct x as [[| | |]| | | |]; try discriminate Hf; reflexivity.
      + destruct x; try discriminate Hp; reflexivity.
    - inversion Ho as [E|t' E]; cbn in E; subst mo; cbn in Hf |- *.
      + destruct x as [[| | |]| | | |]; try discriminate Hf; reflexivity.
      + destruct x; try discriminate Hp; reflexivity.
    - inversion Ho as [E|t' E]; cbn in E; subst mo; cbn in Hf |- *.
      + destruct x as [[| | |]| | | |]; try discriminate Hf; reflexivity.
      + destruct x; try discriminate Hp; reflexivity.
    - inversion Ho as [E|t' E]; cbn in E; subst mo; cbn in Hf |- *.
      + destruct x as [[| | |]| | | |]; try discriminate Hf; reflexivity.
      + destruct x; try discriminate Hp; reflexivity.
  Qed.

  Lemma srv_ignored_plain : forall U d x, shape d -> is_plain x = true ->
    srv_ignored U d (out_object_of d x) = Ok (out_object_of d x).
  Proof.
    intros U d x Hs Hp. unfold srv_ignored, srv_ignored_gen.
    assert (H1 : oo_ignored_head (out_object_of d x) = false).
    { unfold out_object_of. destruct (md_style d), (md_out d) as [[|g1 [|g2 gs]]|t];
        try (apply plain_not_ignored_head; exact Hp); reflexivity. }
    assert (H2 : oo_is_ignored (out_object_of d x) = false).
    { unfold out_object_of. destruct (md_style d), (md_out d) as [[|g1 [|g2 gs]]|t];
        try (apply plain_not_ignored; exact Hp); reflexivity. }
    cbn -[oo_ignored_head oo_is_ignored]. rewrite H1. cbn -[oo_ignored_head oo_is_ignored]. rewrite H2. reflexivity.
  Qed.

  Lemma index_range_tuple : forall vs pre,
    index_range (ORaw (PTuple (pre ++ vs))) (length pre) (length vs) = Ok vs.
  Proof.
    induction vs as [|v r IH]; intro pre; [reflexivity|].
    cbn [length index_range oo_index]. rewrite nth_error_app2 by lia. rewrite Nat.sub_diag. cbn.
    replace (pre ++ v :: r) with ((pre ++ [v]) ++ r) by (rewrite <- app_assoc; reflexivity).
    replace (S (length pre)) with (length (pre ++ [v])) by (rewrite app_length; cbn; lia).
    rewrite IH. reflexivity.
  Qed.
  Lemma index_range_list : forall vs pre,
    index_range (ORaw (PVal (VList (pre ++ vs)))) (length pre) (length vs) = Ok vs.
  Proof.
    induction vs as [|v r IH]; intro pre; [reflexivity|].
    cbn [length index_range oo_index]. rewrite nth_error_app2 by lia. rewrite Nat.sub_diag. cbn.
    replace (pre ++ v :: r) with ((pre ++ [v]) ++ r) by (rewrite <- app_assoc; reflexivity).
    replace (S (length pre)) with (length (pre ++ [v])) by (rewrite app_length; cbn; lia).
    rewrite IH. reflexivity.
  Qed.
  Lemma pad_vals_exact : forall vs, pad_vals (map PVal vs) (length vs) = Ok vs.
  Proof. induction vs as [|v r IH]; [reflexivity|]. cbn. rewrite IH. reflexivity. Qed.

  Lemma wv_plain : forall x, is_plain x = true -> exists v, wv x = Ok v /\ norm_ret (PVal v) = norm_ret x.
  Proof. destruct x; cbn; intro H; try discriminate H; eexists; split; reflexivity. Qed.

  (** the value a client decodes from the reply is the returned object, as a sequence *)
  Lemma wire_result_ok : forall U p d x, shape d -> wire_supported U p d -> ret_fits d x = true ->
    (forall m, srv_response U p d (out_object_of d x) = Ok m -> xfer p (md_out d) m = Ok m) ->
    exists y, (do m <- srv_response U p d (out_object_of d x);
               do m' <- xfer p (md_out d) m; client_unwrap d m') = Ok y
              /\ norm_ret y = norm_ret (declared_result d x).
  Proof.
    intros U p [nm st mi mo nh] x Hs Hw Hf Hx. pose proof (ret_fits_plain _ _ Hf) as Hp.
    unfold srv_response in *. rewrite (srv_ignored_plain U _ x Hs Hp) in *. cbn [Prelude.bind] in *.
    destruct (wv_plain x Hp) as [v [Hv Hn]]. cbn [md_out] in Hx.
    assert (Hgen : forall m y, resp_value U p (mkdesc nm st mi mo nh) (out_object_of (mkdesc nm st mi mo nh) x) = Ok m ->
                   client_unwrap (mkdesc nm st mi mo nh) m = Ok y ->
                   norm_ret y = norm_ret (declared_result (mkdesc nm st mi mo nh) x) ->
                   exists y, (do m <- resp_value U p (mkdesc nm st mi mo nh) (out_object_of (mkdesc nm st mi mo nh) x);
                              do m' <- xfer p mo m; client_unwrap (mkdesc nm st mi mo nh) m') = Ok y
                             /\ norm_ret y = norm_ret (declared_result (mkdesc nm st mi mo nh) x)).
    { intros m y Hm Hy Hr. exists y. rewrite Hm. cbn [Prelude.bind]. rewrite (Hx m Hm). cbn [Prelude.bind]. split; assumption. }
    unfold wire_supported, ret_fits, declared_result in *. cbn [md_style md_out md_in md_name] in *.
    inversion Hs as [fs gs E1 E2 E3|t E1 E2 Ho|fs E1 E2 Ho|E1 E2 Ho|E1 E2 Ho]; cbn in E1, E2; subst.
    - (* wrapped *)
      cbn in E3. subst mo. destruct gs as [|g1 [|g2 gs]].
      + (* no return value *)
        eapply Hgen with (m := RWrap []) (y := PVal VNone); try reflexivity.
        unfold resp_value, out_object_of.
        destruct x; try discriminate Hp; destruct p; reflexivity.
      + (* one *)
        eapply Hgen with (m := RWrap [v]) (y := PVal v); try reflexivity; [|exact Hn].
        unfold resp_value, out_object_of.
        destruct x; try discriminate Hp; cbn in Hv; inversion Hv; subst v; destruct p; reflexivity.
      + (* many: one value per declared return type *)
        assert (Hvs : exists vs, (x = PTuple vs \/ x = PVal (VList vs)) /\ length vs = length (g1 :: g2 :: gs)).
        { destruct x as [[| | |vs]|vs| | |]; try discriminate Hf; exists vs; split; auto; apply Nat.eqb_eq; exact Hf. }
        destruct Hvs as [vs [Hxv Hl]].
        eapply Hgen with (m := RWrap vs) (y := PTuple vs).
        * unfold resp_value, out_object_of. cbn [md_style md_out bstyle_eqb].
          destruct p.
          -- cbn [msg_type_info Prelude.bind]. rewrite <- Hl.
             destruct Hxv as [->| ->];
               [pose proof (index_range_tuple vs []) as Hi|pose proof (index_range_list vs []) as Hi];
               cbn [app length] in Hi; rewrite Hi; reflexivity.
          -- cbn [msg_type_info Prelude.bind]. rewrite <- Hl.
             destruct Hxv as [->| ->]; cbn [oo_iter Prelude.bind]; rewrite pad_vals_exact; reflexivity.
          -- cbn [eval_cond existsb is_out_bare_styles bstyle_eqb md_style orb Prelude.bind msg_type_info md_out].
             rewrite <- Hl.
             destruct Hxv as [->| ->];
               [pose proof (index_range_tuple vs []) as Hi|pose proof (index_range_list vs []) as Hi];
               cbn [app length] in Hi; rewrite Hi; reflexivity.
        * cbn. destruct vs as [|v1 [|v2 vr]]; cbn in Hl; try lia. reflexivity.
        * destruct Hxv as [->| ->]; reflexivity.
    - (* bare *)
      cbn in *. inversion Ho as [E|t' E]; cbn in E; subst mo.
      + eapply Hgen with (m := RBare v) (y := PVal VNone); try reflexivity.
        unfold resp_value, out_object_of.
        destruct x; try discriminate Hp; cbn in Hv; inversion Hv; subst v;
          destruct p; cbn -[xml_nonwrapped soap_nonwrapped];
          try (destruct Hw as [Hw|Hw]; [discriminate Hw|rewrite Hw]); reflexivity.
      + eapply Hgen with (m := RBare v) (y := PVal v); try reflexivity; [|exact Hn].
        unfold resp_value, out_object_of.
        destruct x; try discriminate Hp; cbn in Hv; inversion Hv; subst v;
          destruct p; cbn -[xml_nonwrapped soap_nonwrapped];
          try (destruct Hw as [Hw|Hw]; [discriminate Hw|rewrite Hw]); reflexivity.
    - (* out_bare *)
      cbn in *. inversion Ho as [E|t' E]; cbn in E; subst mo.
      + eapply Hgen with (m := RBare v) (y := PVal VNone); try reflexivity.
        unfold resp_value, out_object_of.
        destruct x; try discriminate Hp; cbn in Hv; inversion Hv; subst v;
          destruct p; cbn -[xml_nonwrapped soap_nonwrapped];
          try (destruct Hw as [Hw|Hw]; [discriminate Hw|rewrite Hw]); reflexivity.
      + eapply Hgen with (m := RBare v) (y := PVal v); try reflexivity; [|exact Hn].
        unfold resp_value, out_object_of.
        destruct x; try discriminate Hp; cbn in Hv; inversion Hv; subst v;
          destruct p; cbn -[xml_nonwrapped soap_nonwrapped];
          try (destruct Hw as [Hw|Hw]; [discriminate Hw|rewrite Hw]); reflexivity.
    - (* empty *)
      cbn in *. inversion Ho as [E|t' E]; cbn in E; subst mo.
      + eapply Hgen with (m := RBare v) (y := PVal VNone); try reflexivity.
        unfold resp_value, out_object_of.
        destruct x; try discriminate Hp; cbn in Hv; inversion Hv; subst v;
          destruct p; cbn -[xml_nonwrapped soap_nonwrapped];
          try (destruct Hw as [Hw|Hw]; [discriminate Hw|rewrite Hw]); reflexivity.
      + eapply Hgen with (m := RBare v) (y := PVal v); try reflexivity; [|exact Hn].
        unfold resp_value, out_object_of.
        destruct x; try discriminate Hp; cbn in Hv; inversion Hv; subst v;
          destruct p; cbn -[xml_nonwrapped soap_nonwrapped];
          try (destruct Hw as [Hw|Hw]; [discriminate Hw|rewrite Hw]); reflexivity.
    - (* empty, out bare *)
      cbn in *. inversion Ho as [E|t' E]; cbn in E; subst mo.
      + eapply Hgen with (m := RBare v) (y := PVal VNone); try reflexivity.
        unfold resp_value, out_object_of.
        destruct x; try discriminate Hp; cbn in Hv; inversion Hv; subst v;
          destruct p; cbn -[xml_nonwrapped soap_nonwrapped];
          try (destruct Hw as [Hw|Hw]; [discriminate Hw|rewrite Hw]); reflexivity.
      + eapply Hgen with (m := RBare v) (y := PVal v); try reflexivity; [|exact Hn].
        unfold resp_value, out_object_of.
        destruct x; try discriminate Hp; cbn in Hv; inversion Hv; subst v;
          destruct p; cbn -[xml_nonwrapped soap_nonwrapped];
          try (destruct Hw as [Hw|Hw]; [discriminate Hw|rewrite Hw]); reflexivity.
  Qed.
End WireProofs.

(* ------------------------------------------------------------------ the property *)
Lemma shape_of_method : forall U dcs ms key d,
  decorate_all U dcs = Ok ms -> find_method ms key = Some d -> shape d.
Proof.
  intros U dcs ms key d Hd Hf. apply decorate_all_shape in Hd. rewrite Forall_forall in Hd.
  apply Hd. eapply find_method_in. exact Hf.
Qed.

Lemma wire_supported_soap : forall U d, wire_supported U PSoap d.
Proof. intros U d. right. reflexivity. Qed.

Section Main.
  Variable xfer : proto -> msg -> rmsg -> out rmsg.
  Variable tns : text.

  Theorem null_eq_wire : forall U p dcs ms key d hs f args kw,
    decorate_all U dcs = Ok ms ->
    find_method ms key = Some d ->
    null_supported U d -> wire_supported U p d ->
    call_ok (param_names U d) args kw ->
    hdr_ok p d hs ->
    codec_carries xfer U p d (hdr_of hs) f args kw ->
    fun_fits U d (hdr_of hs) f args kw ->
    outcome_rel (fst (null_call U ms key (hdr_of hs) f args kw))
                (fst (wire_call xfer tns U p ms key hs f args kw))
    /\ app_trace (snd (null_call U ms key (hdr_of hs) f args kw)) = ref_trace U d (hdr_of hs) f args kw
    /\ app_trace (snd (wire_call xfer tns U p ms key hs f args kw)) = ref_trace U d (hdr_of hs) f args kw.
  Proof.
    intros U p dcs ms key d hs f args kw Hd Hf Hn Hw Hc Hh [Hx1 Hx2] Hfit.
    pose proof (shape_of_method _ _ _ _ _ Hd Hf) as Hs.
    unfold null_call, null_call_gen, wire_call. rewrite Hf.
    rewrite (null_in_object_ok U d args kw Hs Hn Hc).
    rewrite (wire_in_object_ok xfer U p d args kw Hs Hn Hw Hx1).
    rewrite (wire_hdr_ok p d hs Hh).
    rewrite (process_request_ref U d f (hdr_of hs) _ _ Hs (null_io_args U d args kw Hs Hn)).
    rewrite (process_request_ref U d f (hdr_of hs) _ _ Hs (wire_io_args U d args kw Hs Hn)).
    unfold pr_ref, ref_trace, fun_fits in *.
    destruct (f (hdr_of hs) (delivered U d args kw)) as [x|flt|] eqn:Ef.
    - specialize (Hfit x eq_refl).
      rewrite (cb_retval_ok U d x Hs Hfit).
      destruct (wire_result_ok xfer U p d x Hs Hw Hfit (fun m => Hx2 x m eq_refl)) as [y [Hy Hr]].
      rewrite Hy. cbn [fst snd outcome_rel]. split; [symmetry; exact Hr|]. split; reflexivity.
    - cbn [fst snd outcome_rel]. split; [reflexivity|]. split; reflexivity.
    - cbn [fst snd outcome_rel]. split; [reflexivity|]. split; reflexivity.
  Qed.

  Theorem unknown_method_same_fault : forall U p ms key hs h f args kw,
    find_method ms key = None ->
    fst (null_call U ms key h f args kw) = Raised (resource_not_found key)
    /\ fst (wire_call xfer tns U p ms key hs f args kw) = Raised (resource_not_found (qname tns key))
    /\ snd (null_call U ms key h f args kw) = [].
  Proof. intros. unfold null_call, null_call_gen, wire_call. rewrite H. repeat split; reflexivity. Qed.
End Main.

(* ------------------------------------------------------------------ keyword = positional *)
Lemma bind_args_full : forall names vs kw, length vs = length names -> bind_args names vs kw = vs.
Proof.
  induction names as [|k ns IH]; intros [|v r] kw H; cbn in *; try reflexivity; try discriminate H.
  f_equal. apply IH. lia.
Qed.

Lemma call_ok_full : forall names vs, length vs = length names -> call_ok names vs [].
Proof. intros names vs H. split; [lia|]. intros; reflexivity. Qed.

Lemma param_names_length_io : forall U d args kw, null_supported U d ->
  null_io U d (bind_args (param_names U d) args kw) [] = null_io U d args kw.
Proof.
  intros U [nm st mi mo nh] args kw Hn. unfold null_io, param_names, null_supported in *. cbn in *.
  destruct mi as [fs|[q|c|e]]; try contradiction.
  - rewrite bind_args_full by (rewrite bind_args_length; reflexivity). reflexivity.
  - destruct (flat_fields U c) as [ffs|]; [|contradiction].
    rewrite bind_args_full by (rewrite bind_args_length; reflexivity). reflexivity.
Qed.

Theorem kw_eq_pos : forall U dcs ms key d h f args kw,
  decorate_all U dcs = Ok ms -> find_method ms key = Some d ->
  null_supported U d -> call_ok (param_names U d) args kw ->
  null_call U ms key h f args kw = null_call U ms key h f (bind_args (param_names U d) args kw) [].
Proof.
  intros U dcs ms key d h f args kw Hd Hf Hn Hc.
  pose proof (shape_of_method _ _ _ _ _ Hd Hf) as Hs.
  unfold null_call, null_call_gen. rewrite Hf.
  rewrite (null_in_object_ok U d args kw Hs Hn Hc).
  rewrite (null_in_object_ok U d _ [] Hs Hn (call_ok_full _ _ (bind_args_length _ _ _))).
  rewrite param_names_length_io by exact Hn. reflexivity.
Qed.

(* ------------------------------------------------------------------ Ignored *)
Lemma index_range_nones : forall n pre,
  index_range (OSeq (pre ++ repeat (PVal VNone) n)) (length pre) n = Ok (repeat VNone n).
Proof.
  induction n as [|n IH]; intro pre; [reflexivity|].
  cbn [repeat index_range oo_index]. rewrite nth_error_app2 by lia. rewrite Nat.sub_diag. cbn.
  replace (pre ++ PVal VNone :: repeat (PVal VNone) n) with ((pre ++ [PVal VNone]) ++ repeat (PVal VNone) n)
    by (rewrite <- app_assoc; reflexivity).
  replace (S (length pre)) with (length (pre ++ [PVal VNone])) by (rewrite app_length; cbn; lia).
  rewrite IH. reflexivity.
Qed.
Lemma pad_vals_nones : forall n, pad_vals (repeat (PVal VNone) n) n = Ok (repeat VNone n).
Proof. induction n as [|n IH]; [reflexivity|]. cbn. rewrite IH. reflexivity. Qed.

Lemma cb_retval_ignored : forall U d pl, shape d ->
  cb_retval U d (out_object_of d (PIgnored pl)) = Ok (PIgnored pl).
Proof.
  intros U [nm st mi mo nh] pl Hs. unfold cb_retval, out_object_of.
  inversion Hs as [fs gs E1 E2 E3|t E1 E2 Ho|fs E1 E2 Ho|E1 E2 Ho|E1 E2 Ho]; cbn in E1, E2; subst; try reflexivity.
  cbn in E3. subst mo. destruct gs as [|g1 [|g2 gs]]; try reflexivity.
  cbn -[cmp_eval Z.of_nat]. len2. reflexivity.
Qed.

Section Ignored.
  Variable xfer : proto -> msg -> rmsg -> out rmsg.
  Variable tns : text.

  (** the response the server writes for an Ignored return carries one null per declared value *)
  Lemma wire_ignored_ok : forall U p d pl, shape d -> wire_supported U p d ->
    (forall m, srv_response U p d (out_object_of d (PIgnored pl)) = Ok m -> xfer p (md_out d) m = Ok m) ->
    (do m <- srv_response U p d (out_object_of d (PIgnored pl));
     do m' <- xfer p (md_out d) m; client_unwrap d m') = Ok (empty_result U d).
  Proof.
    intros U p [nm st mi mo nh] pl Hs Hw Hx. cbn [md_out] in Hx.
    assert (Hgen : forall m, srv_response U p (mkdesc nm st mi mo nh) (out_object_of (mkdesc nm st mi mo nh) (PIgnored pl)) = Ok m ->
                   client_unwrap (mkdesc nm st mi mo nh) m = Ok (empty_result U (mkdesc nm st mi mo nh)) ->
                   (do m <- srv_response U p (mkdesc nm st mi mo nh) (out_object_of (mkdesc nm st mi mo nh) (PIgnored pl));
                    do m' <- xfer p mo m; client_unwrap (mkdesc nm st mi mo nh) m') = Ok (empty_result U (mkdesc nm st mi mo nh))).
    { intros m Hm Hy. rewrite Hm. cbn [Prelude.bind]. rewrite (Hx m Hm). cbn [Prelude.bind]. exact Hy. }
    unfold wire_supported in Hw. cbn [md_style md_in md_name] in Hw.
    inversion Hs as [fs gs E1 E2 E3|t E1 E2 Ho|fs E1 E2 Ho|E1 E2 Ho|E1 E2 Ho]; cbn in E1, E2; subst.
    - cbn in E3. subst mo. destruct gs as [|g1 [|g2 gs]].
      + apply Hgen with (m := RWrap []); [|reflexivity]. destruct p; reflexivity.
      + apply Hgen with (m := RWrap [VNone]); [|reflexivity]. destruct p; reflexivity.
      + apply Hgen with (m := RWrap (repeat VNone (length (g1 :: g2 :: gs)))).
        * unfold srv_response, srv_ignored, srv_ignored_gen, out_object_of.
          cbn [md_style md_out]. cbn -[cmp_eval Z.of_nat repeat Z.to_nat resp_value length].
          unfold out_len, msg_len_own. cbn [md_out msg_type_info Prelude.bind]. rewrite Nat2Z.id.
          unfold resp_value. cbn [md_style md_out bstyle_eqb msg_type_info Prelude.bind].
          destruct p.
          -- pose proof (index_range_nones (length (g1 :: g2 :: gs)) []) as Hi. cbn [app length] in Hi.
             cbn [length]. rewrite Hi. reflexivity.
          -- cbn [oo_iter Prelude.bind]. rewrite pad_vals_nones. reflexivity.
          -- cbn [eval_cond existsb is_out_bare_styles bstyle_eqb md_style orb Prelude.bind msg_type_info md_out].
             pose proof (index_range_nones (length (g1 :: g2 :: gs)) []) as Hi. cbn [app length] in Hi.
             cbn [length]. rewrite Hi. reflexivity.
        * reflexivity.
    - inversion Ho as [E|t' E]; cbn in E; subst mo;
        apply Hgen with (m := RBare VNone); try reflexivity;
        unfold srv_response, srv_ignored, srv_ignored_gen, out_object_of, resp_value;
        destruct p; cbn -[xml_nonwrapped soap_nonwrapped];
        try (destruct Hw as [Hw|Hw]; [discriminate Hw|rewrite Hw]); reflexivity.
    - inversion Ho as [E|t' E]; cbn in E; subst mo;
        apply Hgen with (m := RBare VNone); try reflexivity;
        unfold srv_response, srv_ignored, srv_ignored_gen, out_object_of, resp_value;
        destruct p; cbn -[xml_nonwrapped soap_nonwrapped];
        try (destruct Hw as [Hw|Hw]; [discriminate Hw|rewrite Hw]); reflexivity.
    - inversion Ho as [E|t' E]; cbn in E; subst mo;
        apply Hgen with (m := RBare VNone); try reflexivity;
        unfold srv_response, srv_ignored, srv_ignored_gen, out_object_of, resp_value;
        destruct p; cbn -[xml_nonwrapped soap_nonwrapped];
        try (destruct Hw as [Hw|Hw]; [discriminate Hw|rewrite Hw]); reflexivity.
    - inversion Ho as [E|t' E]; cbn in E; subst mo;
        apply Hgen with (m := RBare VNone); try reflexivity;
        unfold srv_response, srv_ignored, srv_ignored_gen, out_object_of, resp_value;
        destruct p; cbn -[xml_nonwrapped soap_nonwrapped];
        try (destruct Hw as [Hw|Hw]; [discriminate Hw|rewrite Hw]); reflexivity.
  Qed.

  Theorem ignored_direct_and_empty_on_wire : forall U p dcs ms key d hs f args kw pl,
    decorate_all U dcs = Ok ms ->
    find_method ms key = Some d ->
    null_supported U d -> wire_supported U p d ->
    call_ok (param_names U d) args kw ->
    hdr_ok p d hs ->
    f (hdr_of hs) (delivered U d args kw) = URet (PIgnored pl) ->
    (forall r, client_request U d args kw = Ok r -> xfer p (md_in d) r = Ok r) ->
    (forall m, srv_response U p d (out_object_of d (PIgnored pl)) = Ok m -> xfer p (md_out d) m = Ok m) ->
    fst (null_call U ms key (hdr_of hs) f args kw) = Returned (PIgnored pl)
    /\ fst (wire_call xfer tns U p ms key hs f args kw) = Returned (empty_result U d).
  Proof.
    intros U p dcs ms key d hs f args kw pl Hd Hf Hn Hw Hc Hh Hret Hx1 Hx2.
    pose proof (shape_of_method _ _ _ _ _ Hd Hf) as Hs.
    unfold null_call, null_call_gen, wire_call. rewrite Hf.
    rewrite (null_in_object_ok U d args kw Hs Hn Hc).
    rewrite (wire_in_object_ok xfer U p d args kw Hs Hn Hw Hx1).
    rewrite (wire_hdr_ok p d hs Hh).
    rewrite (process_request_ref U d f (hdr_of hs) _ _ Hs (null_io_args U d args kw Hs Hn)).
    rewrite (process_request_ref U d f (hdr_of hs) _ _ Hs (wire_io_args U d args kw Hs Hn)).
    unfold pr_ref. rewrite Hret.
    rewrite (cb_retval_ignored U d pl Hs).
    rewrite (wire_ignored_ok U p d pl Hs Hw Hx2). split; reflexivity.
  Qed.

  (** NullServer(ostr=True) returns exactly the response the wire server writes *)
  Theorem ostr_is_the_wire_response : forall U p dcs ms key d h f args kw x,
    decorate_all U dcs = Ok ms ->
    find_method ms key = Some d ->
    null_supported U d ->
    call_ok (param_names U d) args kw ->
    f h (delivered U d args kw) = URet x ->
    (ret_fits d x = true \/ exists pl, x = PIgnored pl) ->
    fst (null_call_ostr U p ms key h f args kw) =
      match srv_response U p d (out_object_of d x) with
      | Ok m => ReturnedDoc m
      | Crash e => Crashed e
      | VFault => Raised validation_error
      end.
  Proof.
    intros U p dcs ms key d h f args kw x Hd Hf Hn Hc Hret Hx.
    pose proof (shape_of_method _ _ _ _ _ Hd Hf) as Hs.
    unfold null_call_ostr. rewrite Hf.
    rewrite (null_in_object_ok U d args kw Hs Hn Hc).
    rewrite (process_request_ref U d f h _ _ Hs (null_io_args U d args kw Hs Hn)).
    unfold pr_ref. rewrite Hret.
    assert (Hcb : exists r, cb_retval U d (out_object_of d x) = Ok r).
    { destruct Hx as [Hx|[pl ->]]; eexists; [apply cb_retval_ok|apply cb_retval_ignored]; assumption. }
    destruct Hcb as [r Hr]. rewrite Hr. cbn [Prelude.bind]. unfold srv_response.
    change (if cb_ostr_normalises_ignored then srv_ignored U d (out_object_of d x) else Ok (out_object_of d x))
      with (srv_ignored U d (out_object_of d x)).
    destruct (do o' <- srv_ignored U d (out_object_of d x); resp_value U p d o'); reflexivity.
  Qed.
End Ignored.

(* ------------------------------------------------------------------ corollaries and the regions outside the guard *)
Section Corollaries.
  Variable xfer : proto -> msg -> rmsg -> out rmsg.
  Variable tns : text.

  Theorem null_eq_wire_soap : forall U dcs ms key d hs f args kw,
    decorate_all U dcs = Ok ms -> find_method ms key = Some d ->
    null_supported U d ->
    call_ok (param_names U d) args kw ->
    hdr_ok PSoap d hs ->
    codec_carries xfer U PSoap d (hdr_of hs) f args kw ->
    fun_fits U d (hdr_of hs) f args kw ->
    outcome_rel (fst (null_call U ms key (hdr_of hs) f args kw))
                (fst (wire_call xfer tns U PSoap ms key hs f args kw))
    /\ app_trace (snd (null_call U ms key (hdr_of hs) f args kw)) = ref_trace U d (hdr_of hs) f args kw
    /\ app_trace (snd (wire_call xfer tns U PSoap ms key hs f args kw)) = ref_trace U d (hdr_of hs) f args kw.
  Proof. intros. eapply null_eq_wire; eauto. apply wire_supported_soap. Qed.

  Theorem null_eq_wire_xml_when_first : forall U dcs ms key d f args kw,
    xml_nonwrapped = NWFirst ->
    decorate_all U dcs = Ok ms -> find_method ms key = Some d ->
    null_supported U d ->
    call_ok (param_names U d) args kw ->
    codec_carries xfer U PXml d None f args kw ->
    fun_fits U d None f args kw ->
    outcome_rel (fst (null_call U ms key None f args kw))
                (fst (wire_call xfer tns U PXml ms key [] f args kw))
    /\ app_trace (snd (null_call U ms key None f args kw)) = ref_trace U d None f args kw
    /\ app_trace (snd (wire_call xfer tns U PXml ms key [] f args kw)) = ref_trace U d None f args kw.
  Proof.
    intros U dcs ms key d f args kw Hm Hd Hf Hn Hc Hx Hfit.
    apply (null_eq_wire xfer tns U PXml dcs ms key d [] f args kw); auto.
    - right. exact Hm.
    - left. reflexivity.
  Qed.
  Theorem null_eq_wire_hier_when_sub_name : forall U dcs ms key d f args kw,
    hier_bare_lookup = LkSubName ->
    decorate_all U dcs = Ok ms -> find_method ms key = Some d ->
    null_supported U d ->
    call_ok (param_names U d) args kw ->
    codec_carries xfer U PHier d None f args kw ->
    fun_fits U d None f args kw ->
    outcome_rel (fst (null_call U ms key None f args kw))
                (fst (wire_call xfer tns U PHier ms key [] f args kw))
    /\ app_trace (snd (null_call U ms key None f args kw)) = ref_trace U d None f args kw
    /\ app_trace (snd (wire_call xfer tns U PHier ms key [] f args kw)) = ref_trace U d None f args kw.
  Proof.
    intros U dcs ms key d f args kw Hm Hd Hf Hn Hc Hx Hfit.
    apply (null_eq_wire xfer tns U PHier dcs ms key d [] f args kw); auto.
    - left. exact Hm.
    - left. reflexivity.
  Qed.
End Corollaries.

(** more positional arguments than parameters: NullServer raises IndexError before anything runs *)
Theorem null_too_many_args : forall U ms key d h f args kw ti,
  find_method ms key = Some d ->
  msg_type_info U null_ti_source (md_in d) = Ok ti ->
  (length ti < length args)%nat ->
  null_call U ms key h f args kw = (Crashed IndexError, []).
Proof.
  intros U ms key d h f args kw ti Hf Hti Hl. unfold null_call, null_call_gen, null_in_object.
  rewrite Hf, Hti. cbn [Prelude.bind]. rewrite (fill_too_many _ _ Hl). reflexivity.
Qed.

Arguments flat_fields : simpl nomatch.

(** witnesses: class K(a: Integer, b: Unicode), class D(K)(c: Boolean), a bare method bd(D) -> D *)
Definition U_inh : universe :=
  [ mkcls [117] [75] None [mkfield [97] (TPrim PInt) 0 (Some 1) true KElem; mkfield [98] (TPrim PText) 0 (Some 1) true KElem];
    mkcls [117] [68] (Some 0%nat) [mkfield [99] (TPrim PBool) 0 (Some 1) true KElem] ].
Definition dcs_inh : list decl := [ mkdecl [98; 100] DBare [([107], TRef 1%nat)] (RetOne (TRef 1%nat)) 0 ].
Definition d_bd : descriptor := mkdesc [98; 100] BBare (MType (TRef 1%nat)) (MType (TRef 1%nat)) 0.
Definition xfer_id (p : proto) (m : msg) (r : rmsg) : out rmsg := Ok r.

Lemma call_ok_kw_only : forall names kw, call_ok names [] kw.
Proof. intros. split; cbn; [lia|]. intros k []. Qed.

(** pinned null.py (in_message._type_info): the keyword argument of an inherited class lands in
    the wrong field — the function is never entered with the arguments of the call *)
Theorem own_type_info_refuted :
  exists U dcs ms key d args kw,
    decorate_all U dcs = Ok ms /\ find_method ms key = Some d /\ null_supported U d /\
    call_ok (param_names U d) args kw /\
    forall f, ~ In (EvUser None (delivered U d args kw)) (snd (null_call_gen TIOwn U ms key None f args kw)).
Proof.
  exists U_inh, dcs_inh, [d_bd], [98; 100], d_bd, [], [([99], VLeaf (LBool true))].
  split; [reflexivity|]. split; [reflexivity|]. split; [cbn; discriminate|]. split; [apply call_ok_kw_only|].
  intros f Hin. unfold null_call_gen in Hin. cbn in Hin.
  destruct (f None [PVal (VObj 1%nat [VLeaf (LBool true); VNone; VNone])]) as [x|flt|]; cbn in Hin.
  - destruct x; cbn in Hin;
      repeat (destruct Hin as [Hin|Hin]; [try discriminate Hin; inversion Hin|]); try contradiction.
  - repeat (destruct Hin as [Hin|Hin]; [try discriminate Hin; inversion Hin|]); contradiction.
  - repeat (destruct Hin as [Hin|Hin]; [try discriminate Hin; inversion Hin|]); contradiction.
Qed.

(** pinned server/_base.py (out_object = ()): an Ignored return from a method with several return
    values cannot be serialized by the protocols that index ctx.out_object *)
Theorem ignored_empty_tuple_refuted : forall U nm fs g1 g2 gs nh pl,
  let d := mkdesc nm BWrapped (MWrap fs) (MWrap (g1 :: g2 :: gs)) nh in
  let pinned := [(CIgnoredHead, IgnOneNone); (CIsIgnored, IgnEmptyTuple)] in
  (do o <- srv_ignored_gen pinned U d (out_object_of d (PIgnored pl)); resp_value U PXml d o) = Crash IndexError
  /\ (do o <- srv_ignored_gen pinned U d (out_object_of d (PIgnored pl)); resp_value U PHier d o) = Crash IndexError.
Proof. intros. split; reflexivity. Qed.

(** pinned HierDictDocument.deserialize (the request body looked up under the TYPE name of the
    in-message): the argument of a bare method never arrives — the function is entered with []
    where NullServer enters it with the arguments of the call *)
Theorem hier_bare_request_refuted :
  exists U dcs ms key d args kw r,
    decorate_all U dcs = Ok ms /\ find_method ms key = Some d /\ null_supported U d /\
    call_ok (param_names U d) args kw /\ client_request U d args kw = Ok r /\
    (do io <- srv_in_object_gen xfer_id LkTypeName U PHier d r; do io' <- pr_in_stage U d io; args_of io')
      = Ok [PVal (VList [])] /\
    delivered U d args kw <> [PVal (VList [])] /\
    (do io <- null_in_object null_ti_source U d args kw; do io' <- pr_in_stage U d io; args_of io')
      = Ok (delivered U d args kw).
Proof.
  exists U_inh, dcs_inh, [d_bd], [98; 100], d_bd, [], [([99], VLeaf (LBool true))].
  eexists. split; [reflexivity|]. split; [reflexivity|]. split; [cbn; discriminate|].
  split; [apply call_ok_kw_only|]. split; [reflexivity|]. split; [reflexivity|].
  split; [cbn; discriminate|reflexivity].
Qed.
