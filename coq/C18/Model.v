(** C18 — NullServer behaves like the wire.  Executable model, definitions only.

    Mirrors (Spyne tree as repaired by proposed_fixes/C18-*.patch):
      spyne/decorator.py      _produce_input_message, _produce_output_message, the body-style
                              decision at the end of rpc()                       -> [decorate]
      spyne/server/null.py    _FunctionCall.__call__ (argument packing, bare conversion,
                              process_request, close), _cb_sync, ostr mode       -> [null_call], [null_call_ostr]
      spyne/model/complex.py  ComplexModelBase / Array .get_serialization_instance -> [gsi]
      spyne/application.py    Application.process_request, call_wrapper (@rpc/@srpc) -> [process_request]
      spyne/service.py        ServiceBaseBase.call_wrapper (argument tuple)       -> [args_of]
      spyne/server/_base.py   ServerBase.get_out_object / ignored_to_null         -> [srv_ignored]
      spyne/protocol/xml.py, soap/soap11.py, dictdoc/hier.py
                              the part of serialize()/deserialize() that maps ctx.out_object to the
                              instance of the out message and the request body to ctx.in_object
                                                                                   -> [resp_value], [srv_in_object]
    The if/elif chains, the tuple of is_out_bare(), the wrapping condition of process_request,
    the event names and the field table NullServer uses are NOT written here: they are the
    generated definitions of Gen/NullSrv.v and this file interprets them.

    What is abstract: the user function (a Coq function from the delivered header and argument
    list to an outcome) and the protocol codecs of whole messages ([xfer]: what arrives after
    serialising and parsing a message value; C01/C02's subject). *)
From SpyneV Require Export C18.Syntax Gen.NullSrv.
From SpyneV Require Import Base.Digits.

(* ------------------------------------------------------------------ Python objects *)
(** objects that cross the NullServer boundary in addition to the native values of the universe *)
Inductive pyv :=
| PVal (v : val)            (* None, a primitive, an instance, a list of values *)
| PTuple (vs : list val)    (* a tuple of native values *)
| PGen (vs : list val)      (* a generator that yields vs *)
| PIgnored (p : val)        (* spyne.Ignored(p) *)
| PArrInst (m : val).       (* ComplexModel.__new__(Array) with its member set to m (Array.get_serialization_instance) *)

Record fault := mkfault { fcode : text; fstring : text }.
Definition internal_error : fault := mkfault (Lit.server) (Lit.internal_error).
Definition resource_not_found (key : text) : fault :=
  mkfault (Lit.client_resource_not_found) (Lit.requested_resource ++ key ++ Lit.not_found).
Definition validation_error : fault := mkfault (Lit.client_validation_error) [].

(** ctx.in_header as the user function sees it *)
Inductive hdr := HOne (v : val) | HMany (vs : list val).

(** what the user function does with the header and arguments it is given *)
Inductive uret := URet (x : pyv) | URaise (f : fault) | UExc.
Definition ufun := option hdr -> list pyv -> uret.

Inductive event :=
| EvFire (n : evname)                           (* ctx.fire_event(n) *)
| EvUser (h : option hdr) (args : list pyv).    (* the user function is entered with these *)

(* ------------------------------------------------------------------ messages, descriptors, @rpc *)
Inductive msg :=
| MWrap (fs : list (text * ty))   (* ComplexModel.produce(...): synthetic wrapper class *)
| MType (t : ty).                 (* the declared type itself, customised with sub_name (bare) *)

Record descriptor := mkdesc {
  md_name : text; md_style : bstyle; md_in : msg; md_out : msg; md_nhdr : nat }.

Inductive dstyle := DWrapped | DBare | DOutBare.        (* _body_style *)
Inductive returns := RetNone | RetOne (t : ty) | RetMany (ts : list ty).   (* _returns *)
Record decl := mkdecl {
  dc_name : text; dc_style : dstyle; dc_params : list (text * ty); dc_returns : returns; dc_nhdr : nat }.

(** cls.get_type_name() *)
Fixpoint ty_name (U : universe) (t : ty) : text :=
  match t with
  | TPrim PInt => Lit.integer
  | TPrim PText => Lit.string_
  | TPrim PBool => Lit.boolean
  | TRef c => match get_cls U c with Some cl => c_name cl | None => [] end
  | TArr e => ty_name U e ++ Lit.array
  end.

Definition fields_ti (fs : list field) : list (text * ty) := map (fun f => (f_name f, f_ty f)) fs.

(** cls._type_info (TIOwn) / cls.get_flat_type_info(cls) (TIFlat) of a declared type; a
    primitive has neither attribute *)
Definition ty_type_info (U : universe) (src : ti_source) (t : ty) : out (list (text * ty)) :=
  match t with
  | TPrim _ => Crash AttributeError
  | TRef c =>
      match (match src with
             | TIFlat => flat_fields U c
             | TIOwn => match get_cls U c with Some cl => Some (c_own cl) | None => None end
             end) with
      | Some fs => Ok (fields_ti fs)
      | None => Crash OtherExn          (* dangling class id: not a Spyne program *)
      end
  | TArr e => Ok [(ty_name U e, e)]
  end.
Definition msg_type_info (U : universe) (src : ti_source) (m : msg) : out (list (text * ty)) :=
  match m with MWrap fs => Ok fs | MType t => ty_type_info U src t end.

Definition ty_is_complex (t : ty) : bool := match t with TPrim _ => false | _ => true end.
Definition msg_is_complex (m : msg) : bool := match m with MWrap _ => true | MType t => ty_is_complex t end.
Definition msg_len_own (U : universe) (m : msg) : out nat :=
  do ti <- msg_type_info U TIOwn m; Ok (length ti).

(** _produce_input_message; LogicError is OtherExn *)
Definition produce_in (U : universe) (st : dstyle) (params : list (text * ty)) : out msg :=
  match st with
  | DBare =>
      match params with
      | [] => Ok (MWrap [])
      | [(_, t)] =>
          if ty_is_complex t
          then (do n <- msg_len_own U (MType t);
                if Nat.eqb n 0 then Crash OtherExn else Ok (MType t))
          else Ok (MType t)
      | _ => Crash OtherExn
      end
  | _ => Ok (MWrap params)
  end.

Fixpoint result_names (fname : text) (i : Z) (ts : list ty) : list (text * ty) :=
  match ts with
  | [] => []
  | t :: r => (fname ++ result_suffix ++ str_int i, t) :: result_names fname (i + 1) r
  end.
Definition returns_truthy (r : returns) : bool :=
  match r with RetNone => false | RetOne _ => true | RetMany [] => false | RetMany _ => true end.
Definition dstyle_is_wrapped (st : dstyle) : bool := match st with DWrapped => true | _ => false end.

(** _produce_output_message: a list of types has no .customize (AttributeError) *)
Definition produce_out (fname : text) (st : dstyle) (r : returns) : out msg :=
  let out_params :=
    if returns_truthy r && dstyle_is_wrapped st
    then match r with
         | RetMany ts => result_names fname 0 ts
         | RetOne t => [(fname ++ result_suffix, t)]
         | RetNone => []
         end
    else [] in
  if dstyle_is_wrapped st then Ok (MWrap out_params)
  else match r with
       | RetNone => Ok (MWrap out_params)
       | RetOne t => Ok (MType t)
       | RetMany _ => Crash AttributeError
       end.

(** the body-style decision of rpc() *)
Definition decide_style (U : universe) (st : dstyle) (mi mo : msg) : out bstyle :=
  match st with
  | DWrapped => Ok BWrapped
  | _ =>
      let base := match st with DOutBare => BOutBare | _ => BBare end in
      if msg_is_complex mi
      then (do ni <- msg_len_own U mi;
            if Nat.eqb ni 0
            then (if negb (msg_is_complex mo) then Ok BEmptyOutBare
                  else (do no <- msg_len_own U mo;
                        if Nat.ltb 0 no then Ok BEmptyOutBare else Ok BEmpty))
            else Ok base)
      else Ok base
  end.

Definition decorate (U : universe) (dc : decl) : out descriptor :=
  do mi <- produce_in U (dc_style dc) (dc_params dc);
  do mo <- produce_out (dc_name dc) (dc_style dc) (dc_returns dc);
  do st <- decide_style U (dc_style dc) mi mo;
  Ok (mkdesc (dc_name dc) st mi mo (dc_nhdr dc)).

(* ------------------------------------------------------------------ ctx.out_object *)
(** ctx.out_object is either a list/tuple the framework built around the returned object(s)
    or the returned object itself *)
Inductive oobj := OSeq (xs : list pyv) | ORaw (x : pyv).

Definition oo_ignored_head (o : oobj) : bool :=
  match o with OSeq (PIgnored _ :: _) => true | _ => false end.
Definition oo_is_ignored (o : oobj) : bool :=
  match o with ORaw (PIgnored _) => true | _ => false end.

(** o[i] *)
Definition oo_index (o : oobj) (i : nat) : out pyv :=
  match o with
  | OSeq xs => match nth_error xs i with Some x => Ok x | None => Crash IndexError end
  | ORaw (PTuple vs) | ORaw (PVal (VList vs)) =>
      match nth_error vs i with Some v => Ok (PVal v) | None => Crash IndexError end
  | ORaw (PVal (VLeaf (LText t))) =>
      match nth_error t i with Some c => Ok (PVal (VLeaf (LText [c]))) | None => Crash IndexError end
  | ORaw (PVal (VObj _ _)) | ORaw (PArrInst _) => Crash OtherExn   (* an instance indexed as a sequence: not modelled *)
  | ORaw _ => Crash TypeError
  end.
(** iter(o) *)
Definition oo_iter (o : oobj) : out (list pyv) :=
  match o with
  | OSeq xs => Ok xs
  | ORaw (PTuple vs) | ORaw (PVal (VList vs)) | ORaw (PGen vs) => Ok (map PVal vs)
  | ORaw (PVal (VLeaf (LText t))) => Ok (map (fun c => PVal (VLeaf (LText [c]))) t)
  | ORaw (PVal (VObj _ _)) | ORaw (PArrInst _) => Crash OtherExn
  | ORaw _ => Crash TypeError
  end.

Fixpoint all_vals (xs : list pyv) : option (list val) :=
  match xs with
  | [] => Some []
  | PVal v :: r => match all_vals r with Some vs => Some (v :: vs) | None => None end
  | _ :: _ => None
  end.
(** o itself as an object handed to the caller *)
Definition oo_whole (o : oobj) : out pyv :=
  match o with
  | ORaw x => Ok x
  | OSeq xs => match all_vals xs with Some vs => Ok (PVal (VList vs)) | None => Crash OtherExn end
  end.

Definition cmp_eval (op : cmpop) (a b : Z) : bool :=
  match op with
  | OpEq => a =? b | OpNe => negb (a =? b) | OpLt => a <? b | OpLe => a <=? b
  | OpGt => b <? a | OpGe => b <=? a
  end.

(** len(d.out_message._type_info) *)
Definition out_len (U : universe) (d : descriptor) : out Z :=
  do n <- msg_len_own U (md_out d); Ok (Z.of_nat n).

Fixpoint eval_cond (U : universe) (d : descriptor) (o : oobj) (c : cond) : out bool :=
  match c with
  | CIgnoredHead => Ok (oo_ignored_head o)
  | CIsIgnored => Ok (oo_is_ignored o)
  | CIsOutBare => Ok (existsb (bstyle_eqb (md_style d)) is_out_bare_styles)
  | CStyleIs s => Ok (bstyle_eqb (md_style d) s)
  | CStyleIsNot s => Ok (negb (bstyle_eqb (md_style d) s))
  | CLenOut op k => do n <- out_len U d; Ok (cmp_eval op n k)
  | COr a b => do x <- eval_cond U d o a; if x then Ok true else eval_cond U d o b
  | CAnd a b => do x <- eval_cond U d o a; if x then eval_cond U d o b else Ok false
  | CNot a => do x <- eval_cond U d o a; Ok (negb x)
  end.

(** an if/elif chain: the action of the first branch whose condition holds *)
Fixpoint first_match {A} (U : universe) (d : descriptor) (o : oobj) (ch : list (cond * A)) : out (option A) :=
  match ch with
  | [] => Ok None
  | (c, a) :: r => do b <- eval_cond U d o c; if b then Ok (Some a) else first_match U d o r
  end.

(* ------------------------------------------------------------------ Application.process_request *)
(** ctx.in_object: a Python list (NullServer), an instance of the synthetic in-message (wire,
    non-bare), or the bare argument object *)
Inductive inobj := IList (xs : list pyv) | IWrap (vs : list val) | IInst (x : pyv).

Definition inobj_as_py (io : inobj) : out pyv :=
  match io with
  | IInst x => Ok x
  | IList xs => match all_vals xs with Some vs => Ok (PVal (VList vs)) | None => Crash OtherExn end
  | IWrap _ => Crash OtherExn      (* an instance of the wrapper class is not a value of the universe *)
  end.
(** ServiceBaseBase.call_wrapper: args = ctx.in_object, tuple(args) unless it is a Sequence *)
Definition args_of (io : inobj) : out (list pyv) :=
  match io with
  | IList xs => Ok xs
  | IWrap vs => Ok (map PVal vs)            (* __getitem__ over the wrapper's fields *)
  | IInst (PVal (VList vs)) => Ok (map PVal vs)
  | IInst (PVal (VObj _ _)) | IInst (PArrInst _) => Crash OtherExn   (* tuple(instance): not modelled *)
  | IInst (PTuple vs) | IInst (PGen vs) => Ok (map PVal vs)
  | IInst _ => Crash TypeError
  end.

Inductive pr_result := PROut (o : oobj) | PRErr (f : fault).

(** "in object is always a sequence of incoming values. We need to fix that for bare mode." *)
Definition pr_in_stage (U : universe) (d : descriptor) (io : inobj) : out inobj :=
  do a <- first_match U d (OSeq []) pr_in_chain;
  match a with
  | Some InWrapList => do x <- inobj_as_py io; Ok (IList [x])
  | Some InEmptyList => Ok (IList [])
  | None => Ok io
  end.

(** everything happens inside one try block: any exception other than a Fault becomes
    Fault('Server', 'Internal Error') *)
Definition process_request (U : universe) (d : descriptor) (f : ufun) (h : option hdr) (io : inobj)
  : pr_result * list event :=
  let before := map EvFire pr_events_before in
  let fail_exc (evs : list event) := (PRErr internal_error, evs ++ map EvFire pr_events_exception) in
  match pr_in_stage U d io with
  | Ok io' =>
      match args_of io' with
      | Ok args =>
          let evs := before ++ [EvUser h args] in
          match f h args with
          | UExc => fail_exc evs
          | URaise flt => (PRErr flt, evs ++ map EvFire pr_events_fault)
          | URet x =>
              match eval_cond U d (ORaw x) pr_wrap_out with
              | Ok w => (PROut (if w then OSeq [x] else ORaw x), evs ++ map EvFire pr_events_after)
              | _ => fail_exc evs
              end
          end
      | _ => fail_exc before
      end
  | _ => fail_exc before
  end.

(* ------------------------------------------------------------------ NullServer *)
Definition is_none (v : val) : bool := match v with VNone => true | _ => false end.
Fixpoint kw_get (kw : list (text * val)) (k : text) : option val :=
  match kw with
  | [] => None
  | (k', v) :: r => if text_eqb k' k then Some v else kw_get r k
  end.

(** in_object = [None] * n;  for i in range(len(args)): in_object[i] = args[i] *)
Fixpoint fill (n : nat) (args : list val) : out (list val) :=
  match n, args with
  | _, [] => Ok (repeat VNone n)
  | O, _ :: _ => Crash IndexError
  | S k, a :: r => do rest <- fill k r; Ok (a :: rest)
  end.
(** for i, k in enumerate(type_info.keys()): val = kwargs.get(k, None); if val is not None: in_object[i] = val *)
Fixpoint kw_over (skip_none : bool) (names : list text) (cur : list val) (kw : list (text * val)) : list val :=
  match names, cur with
  | k :: ns, c :: cs =>
      (match kw_get kw k with
       | Some v => if skip_none && is_none v then c else v
       | None => c
       end) :: kw_over skip_none ns cs kw
  | _, _ => []
  end.

(** in_message.get_serialization_instance(list) *)
Definition gsi (U : universe) (m : msg) (vs : list val) : out pyv :=
  match m with
  | MType (TRef c) =>
      match flat_fields U c with
      | Some ffs =>
          if Nat.ltb (length ffs) (length vs) then Crash ValueError
          else Ok (PVal (VObj c (vs ++ repeat VNone (length ffs - length vs))))
      | None => Crash OtherExn
      end
  | MType (TArr _) => Ok (PArrInst (VList vs))
  | MType (TPrim _) => Crash AttributeError
  | MWrap _ => Crash OtherExn       (* never the in-message of a BARE method, see decorate_bare_in *)
  end.

Definition find_method (ms : list descriptor) (key : text) : option descriptor :=
  find (fun d => text_eqb (md_name d) key) ms.

(** _FunctionCall.__call__ up to the call of process_request *)
Definition null_in_object (src : ti_source) (U : universe) (d : descriptor)
                          (args : list val) (kwargs : list (text * val)) : out inobj :=
  do ti <- msg_type_info U src (md_in d);
  do base <- fill (length ti) args;
  let packed := kw_over null_kw_skips_none (map fst ti) base kwargs in
  do g <- eval_cond U d (OSeq []) null_gsi_cond;
  if g then (do x <- gsi U (md_in d) packed; Ok (IInst x)) else Ok (IList (map PVal packed)).

(** the retval of _cb_sync before the ostr block *)
Definition cb_retval (U : universe) (d : descriptor) (o : oobj) : out pyv :=
  do a <- first_match U d o cb_sync_chain;
  match (match a with Some x => x | None => cb_sync_default end) with
  | AFirst => oo_index o 0
  | ANone => Ok (PVal VNone)
  | AWhole => oo_whole o
  end.

Inductive rmsg := RWrap (vs : list val) | RBare (v : val).   (* an instance of a message class *)
Inductive outcome :=
| Returned (x : pyv)
| ReturnedDoc (r : rmsg)     (* ostr mode: the serialized response, as the message value it carries *)
| Raised (f : fault)
| Crashed (e : exn).

Definition null_call_gen (src : ti_source) (U : universe) (ms : list descriptor) (key : text)
    (h : option hdr) (f : ufun) (args : list val) (kwargs : list (text * val)) : outcome * list event :=
  match find_method ms key with
  | None => (Raised (resource_not_found key), [])
  | Some d =>
      match null_in_object src U d args kwargs with
      | Ok io =>
          let '(r, evs) := process_request U d f h io in
          match r with
          | PRErr flt => (Raised flt, evs)                (* raise ctx.out_error: p_ctx.close() is skipped *)
          | PROut o =>
              match cb_retval U d o with
              | Ok x => (Returned x, evs ++ [EvFire MethodContextClosed])
              | Crash e => (Crashed e, evs)
              | VFault => (Raised validation_error, evs)
              end
          end
      | Crash e => (Crashed e, [])
      | VFault => (Raised validation_error, [])
      end
  end.
Definition null_call := null_call_gen null_ti_source.

(* ------------------------------------------------------------------ the wire *)
Inductive proto := PXml | PSoap | PHier.      (* XmlDocument | Soap11 | JsonDocument & co. *)

(** the reference client: positional arguments first, then keywords by name, None for the rest *)
Fixpoint bind_args (names : list text) (args : list val) (kw : list (text * val)) : list val :=
  match names with
  | [] => []
  | k :: ns =>
      match args with
      | a :: r => a :: bind_args ns r kw
      | [] => (match kw_get kw k with Some v => v | None => VNone end) :: bind_args ns [] kw
      end
  end.
(** the request message value the client writes: the wrapper with one value per parameter, or
    (bare) the argument itself — a complex argument is given field-wise *)
Definition client_request (U : universe) (d : descriptor) (args : list val) (kw : list (text * val)) : out rmsg :=
  match md_in d with
  | MWrap fs => Ok (RWrap (bind_args (map fst fs) args kw))
  | MType (TRef c) =>
      match flat_fields U c with
      | Some ffs => Ok (RBare (VObj c (bind_args (map f_name ffs) args kw)))
      | None => Crash OtherExn
      end
  | MType _ => Ok (RBare (match args with a :: _ => a | [] => VNone end))
  end.

Definition msg_type_name (U : universe) (d : descriptor) (m : msg) : text :=
  match m with MWrap _ => md_name d | MType t => ty_name U t end.

(** '{tns}name': the method_request_string a wire protocol derives from the request document *)
Definition qname (tns key : text) : text := [123] ++ tns ++ [125] ++ key.

Section Wire.
  (** what arrives when a message value is serialised and parsed back by protocol p *)
  Variable xfer : proto -> msg -> rmsg -> out rmsg.
  (** the application's target namespace *)
  Variable tns : text.

  (** deserialize(): HierDictDocument looks the body up under the type name of the in-message
      (pinned) or under its sub_name, i.e. the message name of a bare method (repaired); the
      wrapper of the other styles is named after the method either way *)
  Definition hier_found (m : lk_mode) (U : universe) (d : descriptor) : bool :=
    match m with
    | LkSubName => true
    | LkTypeName => text_eqb (msg_type_name U d (md_in d)) (md_name d)
    end.
  Definition srv_in_object_gen (m : lk_mode) (U : universe) (p : proto) (d : descriptor) (r : rmsg) : out inobj :=
    let found := match p with PHier => hier_found m U d | _ => true end in
    if found
    then (do r' <- xfer p (md_in d) r;
          match r' with RWrap vs => Ok (IWrap vs) | RBare v => Ok (IInst (PVal v)) end)
    else Ok (IInst (PVal (VList []))).          (* _doc_to_object(cls, None) == [] *)
  Definition srv_in_object := srv_in_object_gen hier_bare_lookup.

  (** ServerBase.get_out_object after process_request *)
  Definition srv_ignored_gen (ch : list (cond * ign_act)) (U : universe) (d : descriptor) (o : oobj) : out oobj :=
    do a <- first_match U d o ch;
    match a with
    | None => Ok o
    | Some IgnOneNone => Ok (OSeq [PVal VNone])
    | Some IgnEmptyTuple => Ok (OSeq [])
    | Some IgnNonePerValue => do n <- out_len U d; Ok (OSeq (repeat (PVal VNone) (Z.to_nat n)))
    end.
  Definition srv_ignored := srv_ignored_gen srv_ign_chain.

  (** a returned object as a value of the declared return type *)
  Definition wv (x : pyv) : out val :=
    match x with
    | PVal v => Ok v
    | PTuple vs | PGen vs => Ok (VList vs)
    | PIgnored _ => Crash TypeError
    | PArrInst _ => Crash OtherExn
    end.
  Fixpoint index_range (o : oobj) (i n : nat) : out (list val) :=
    match n with
    | O => Ok []
    | S k => do x <- oo_index o i; do v <- wv x; do r <- index_range o (S i) k; Ok (v :: r)
    end.
  Fixpoint pad_vals (xs : list pyv) (n : nat) : out (list val) :=
    match n with
    | O => Ok []
    | S k => match xs with
             | [] => do r <- pad_vals [] k; Ok (VNone :: r)
             | x :: xr => do v <- wv x; do r <- pad_vals xr k; Ok (v :: r)
             end
    end.
  Definition nonwrapped_value (mode : nw_mode) (o : oobj) : out rmsg :=
    match mode with
    | NWFirst => do x <- oo_index o 0; do v <- wv x; Ok (RBare v)
    | NWList => Crash OtherExn   (* the message serializer is handed the list itself: inside the codec, not modelled *)
    end.
  (** serialize(): from ctx.out_object to the instance of the out message *)
  Definition resp_value (U : universe) (p : proto) (d : descriptor) (o : oobj) : out rmsg :=
    let wrapped := bstyle_eqb (md_style d) BWrapped in
    match p with
    | PXml =>
        if wrapped
        then (do ti <- msg_type_info U TIOwn (md_out d); do vs <- index_range o 0 (length ti); Ok (RWrap vs))
        else nonwrapped_value xml_nonwrapped o
    | PSoap =>
        if wrapped
        then (do ti <- msg_type_info U TIOwn (md_out d); do xs <- oo_iter o; do vs <- pad_vals xs (length ti); Ok (RWrap vs))
        else nonwrapped_value soap_nonwrapped o
    | PHier =>
        do ob <- eval_cond U d o CIsOutBare;
        if ob
        then (do xs <- oo_iter o;
              match xs with [x] => do v <- wv x; Ok (RBare v) | _ => Crash ValueError end)
        else (do ti <- msg_type_info U TIFlat (md_out d); do vs <- index_range o 0 (length ti); Ok (RWrap vs))
    end.

  (** the reference client decoding a reply: no value, the value, or the tuple of values *)
  Definition client_unwrap (d : descriptor) (m : rmsg) : out pyv :=
    match md_out d, m with
    | MWrap [], _ => Ok (PVal VNone)
    | MWrap [_], RWrap [v] => Ok (PVal v)
    | MWrap _, RWrap vs => Ok (PTuple vs)
    | MType _, RBare v => Ok (PVal v)
    | _, _ => Crash OtherExn
    end.

  (** Soap11.deserialize: headers = [None] * len(header_class); one class: the object itself *)
  Definition wire_hdr (p : proto) (d : descriptor) (hs : list val) : option hdr :=
    match p with
    | PSoap =>
        match md_nhdr d, hs with
        | O, _ => None
        | _, [] => None
        | S O, v :: _ => Some (HOne v)
        | S (S _), _ => Some (HMany (firstn (md_nhdr d) hs ++ repeat VNone (md_nhdr d - length hs)))
        end
    | _ => None
    end.

  (** the response message value the server writes for ctx.out_object *)
  Definition srv_response (U : universe) (p : proto) (d : descriptor) (o : oobj) : out rmsg :=
    do o' <- srv_ignored U d o; resp_value U p d o'.

  Definition wire_call (U : universe) (p : proto) (ms : list descriptor) (key : text) (hs : list val)
      (f : ufun) (args : list val) (kwargs : list (text * val)) : outcome * list event :=
    match find_method ms key with
    | None =>
        (* ServerBase.generate_contexts catches the Fault of the dispatch and fires the event;
           the error response is then serialised *)
        (Raised (resource_not_found (qname tns key)),
         [EvFire MethodExceptionObject; EvFire MethodExceptionDocument; EvFire MethodExceptionString])
    | Some d =>
        match (do r <- client_request U d args kwargs; srv_in_object U p d r) with
        | Ok io =>
            let '(r, evs) := process_request U d f (wire_hdr p d hs) io in
            match r with
            | PRErr flt => (Raised flt, evs ++ [EvFire MethodExceptionDocument; EvFire MethodExceptionString])
            | PROut o =>
                match (do m <- srv_response U p d o; do m' <- xfer p (md_out d) m; client_unwrap d m') with
                | Ok x => (Returned x, evs ++ [EvFire MethodReturnDocument; EvFire MethodReturnString])
                | Crash e => (Crashed e, evs)
                | VFault => (Raised validation_error, evs)
                end
            end
        | Crash e => (Crashed e, [])
        | VFault => (Raised validation_error, [])
        end
    end.

  (** NullServer(ostr=True): _cb_sync computes retval, then (repaired) ignored_to_null,
      get_out_string, retval = ctx.out_string *)
  Definition null_call_ostr (U : universe) (p : proto) (ms : list descriptor) (key : text)
      (h : option hdr) (f : ufun) (args : list val) (kwargs : list (text * val)) : outcome * list event :=
    match find_method ms key with
    | None => (Raised (resource_not_found key), [])
    | Some d =>
        match null_in_object null_ti_source U d args kwargs with
        | Ok io =>
            let '(r, evs) := process_request U d f h io in
            match r with
            | PRErr flt => (Raised flt, evs)
            | PROut o =>
                match (do _ <- cb_retval U d o;
                       do o' <- (if cb_ostr_normalises_ignored then srv_ignored U d o else Ok o);
                       resp_value U p d o') with
                | Ok m => (ReturnedDoc m, evs ++ [EvFire MethodReturnDocument; EvFire MethodReturnString;
                                                   EvFire MethodContextClosed])
                | Crash e => (Crashed e, evs)
                | VFault => (Raised validation_error, evs)
                end
            end
        | Crash e => (Crashed e, [])
        | VFault => (Raised validation_error, [])
        end
    end.
End Wire.

(* ------------------------------------------------------------------ observations *)
Definition is_user (e : event) : bool := match e with EvUser _ _ => true | _ => false end.
Definition is_app_event (e : event) : bool :=
  match e with
  | EvUser _ _ => true
  | EvFire n => evname_eqb n MethodCall || evname_eqb n MethodReturnObject || evname_eqb n MethodExceptionObject
  end.
(** what the application and the user function can observe of a call: the user invocation and
    the Application-level events, in order *)
Definition app_trace (t : list event) : list event := filter is_app_event t.

(** the property's equality notion on results: a generator / tuple / list are the same sequence *)
Definition norm_ret (x : pyv) : pyv :=
  match x with PTuple vs | PGen vs => PVal (VList vs) | _ => x end.

(** the header object(s) a NullServer caller passes (set_options(soapheaders=...)) for the header
    values a wire client sends: the object itself for one header class *)
Definition hdr_of (hs : list val) : option hdr :=
  match hs with [] => None | [v] => Some (HOne v) | _ => Some (HMany hs) end.

(* ------------------------------------------------------------------ equality, for case files *)
Fixpoint list_eqb {A} (e : A -> A -> bool) (a b : list A) : bool :=
  match a, b with
  | [], [] => true
  | x :: r, y :: s => e x y && list_eqb e r s
  | _, _ => false
  end.
Definition pyv_eqb (a b : pyv) : bool :=
  match a, b with
  | PVal x, PVal y => val_eqb x y
  | PTuple x, PTuple y | PGen x, PGen y => list_eqb val_eqb x y
  | PIgnored x, PIgnored y | PArrInst x, PArrInst y => val_eqb x y
  | _, _ => false
  end.
Definition fault_eqb (a b : fault) : bool := text_eqb (fcode a) (fcode b) && text_eqb (fstring a) (fstring b).
Definition rmsg_eqb (a b : rmsg) : bool :=
  match a, b with
  | RWrap x, RWrap y => list_eqb val_eqb x y
  | RBare x, RBare y => val_eqb x y
  | _, _ => false
  end.
Definition outcome_eqb (a b : outcome) : bool :=
  match a, b with
  | Returned x, Returned y => pyv_eqb x y
  | ReturnedDoc x, ReturnedDoc y => rmsg_eqb x y
  | Raised x, Raised y => fault_eqb x y
  | Crashed x, Crashed y => exn_eqb x y
  | _, _ => false
  end.
Definition hdr_eqb (a b : option hdr) : bool :=
  match a, b with
  | None, None => true
  | Some (HOne x), Some (HOne y) => val_eqb x y
  | Some (HMany x), Some (HMany y) => list_eqb val_eqb x y
  | _, _ => false
  end.
Definition event_eqb (a b : event) : bool :=
  match a, b with
  | EvFire x, EvFire y => evname_eqb x y
  | EvUser h x, EvUser k y => hdr_eqb h k && list_eqb pyv_eqb x y
  | _, _ => false
  end.
Definition ty_eqb_fix := fix ty_eqb (a b : ty) : bool :=
  match a, b with
  | TPrim PInt, TPrim PInt | TPrim PText, TPrim PText | TPrim PBool, TPrim PBool => true
  | TRef c, TRef d => Nat.eqb c d
  | TArr x, TArr y => ty_eqb x y
  | _, _ => false
  end.
Definition ti_eqb (a b : list (text * ty)) : bool :=
  list_eqb (fun x y => text_eqb (fst x) (fst y) && ty_eqb_fix (snd x) (snd y)) a b.
Definition msg_eqb (a b : msg) : bool :=
  match a, b with
  | MWrap x, MWrap y => ti_eqb x y
  | MType x, MType y => ty_eqb_fix x y
  | _, _ => false
  end.
Definition descriptor_eqb (a b : descriptor) : bool :=
  text_eqb (md_name a) (md_name b) && bstyle_eqb (md_style a) (md_style b)
  && msg_eqb (md_in a) (md_in b) && msg_eqb (md_out a) (md_out b) && Nat.eqb (md_nhdr a) (md_nhdr b).
