(** C15: the protocol objects passed as prot= / protocol= / p= are caller data:
    no operation writes their type_attrs (the table [protos] of the store). *)
From Coq Require Import ZArith List Bool Lia.
From SpyneV Require Import C15.Spec C15.OpProofs C15.EvoProofs.
Import ListNotations.
Open Scope Z_scope.

Local Opaque FUEL.

Lemma protos_upd : forall s c f, protos (upd s c f) = protos s.
Proof. unfold upd. intros. destruct (c <? 0); reflexivity. Qed.

Lemma customize_simple_protos : forall s c kw s' n,
  customize_simple s c kw = ROk (s', n) -> protos s' = protos s.
Proof.
  intros. destruct (customize_simple_shape _ _ _ _ _ H) as [r [fam [kw1 [tn [ex [_ [_ [_ [_ A]]]]]]]]].
  unfold alloc in A. inversion A. reflexivity.
Qed.

Lemma customize_plain_protos : forall s c kw s' n,
  customize_plain s c kw = ROk (s', n) -> protos s' = protos s.
Proof.
  intros. destruct (customize_plain_shape _ _ _ _ _ H) as [r [t0 [tnm [_ [_ [_ [_ S']]]]]]].
  cbv zeta in S'. subst s'. destruct (c =? CID_COMPLEXMODEL); reflexivity.
Qed.

Lemma customize_any_protos : forall s c kw s' n,
  customize_any s c kw = ROk (s', n) -> protos s' = protos s.
Proof.
  unfold customize_any. intros. destruct (lookup s c) as [r |]; try discriminate.
  destruct (c_kind r); eauto using customize_simple_protos, customize_plain_protos.
Qed.

Lemma cust_all_fields_protos : forall items s n caa s',
  cust_all_fields s n items caa = ROk s' -> protos s' = protos s.
Proof.
  induction items as [| [k t] items IH]; simpl; intros s n caa s' H.
  - inversion H. reflexivity.
  - rdesp H as s1 t1 Q. rewrite (IH _ _ _ _ H). rewrite protos_upd.
    eapply customize_any_protos; eauto.
Qed.

Lemma cust_fields_protos : forall ca s n s' rest,
  cust_fields s n ca = ROk (s', rest) -> protos s' = protos s.
Proof.
  induction ca as [| [k v] ca IH]; simpl; intros s n s' rest H.
  - inversion H. reflexivity.
  - destruct (tassoc k (fields_of s n)) as [t |].
    + rdesp H as s1 t1 Q. rewrite (IH _ _ _ _ H). rewrite protos_upd.
      eapply customize_any_protos; eauto.
    + rdesp H as s1 r1 Q. inversion H; subst. eapply IH; eauto.
Qed.

Lemma customize_complex_protos : forall fuel s c kw ca caa s' n,
  customize_complex fuel s c kw ca caa = ROk (s', n) -> protos s' = protos s.
Proof.
  induction fuel; intros s c kw ca caa s' n H; [discriminate |].
  simpl in H. rdesp H as s0 n0 Q. pose proof (customize_plain_protos _ _ _ _ _ Q) as P0.
  rdes H as s3 Q1.
  assert (P3 : protos s3 = protos s0).
  { destruct caa as [a |].
    - rdes Q1 as s1 Q2. rdes Q1 as s2 Q3. inversion Q1; subst. simpl.
      pose proof (cust_all_fields_protos _ _ _ _ _ Q2) as P1.
      destruct (get_extends s1 n0) as [e |].
      + rdesp Q3 as s1' e' Q4. inversion Q3; subst. rewrite protos_upd.
        rewrite (IHfuel _ _ _ _ _ _ _ Q4). exact P1.
      + inversion Q3; subst. exact P1.
    - inversion Q1; subst. reflexivity. }
  destruct ca as [d |].
  - rdesp H as s4 rest Q5. rdesp H as s5 basefti Q6. inversion H; subst. simpl.
    pose proof (cust_fields_protos _ _ _ _ _ Q5) as P4.
    destruct (get_extends s4 n) as [e |].
    + rdesp Q6 as s4' e' Q7. inversion Q6; subst. rewrite protos_upd.
      rewrite (IHfuel _ _ _ _ _ _ _ Q7). congruence.
    + inversion Q6; subst. congruence.
  - inversion H; subst. congruence.
Qed.

Lemma customize_protos : forall s c kw ca caa ne s' n,
  customize s c kw ca caa ne = ROk (s', n) -> protos s' = protos s.
Proof.
  unfold customize. intros. destruct (lookup s c) as [r |]; try discriminate.
  destruct (c_kind r).
  - destruct ca; try discriminate. destruct caa; try discriminate. destruct ne; try discriminate.
    eapply customize_simple_protos; eauto.
  - destruct (noexc_pre ca caa ne). eapply customize_complex_protos; eauto.
  - destruct (noexc_pre ca caa ne). eapply customize_complex_protos; eauto.
Qed.

Lemma make_array_protos : forall s base t kw s' n,
  make_array s base t kw = ROk (s', n) -> protos s' = protos s.
Proof.
  unfold make_array. intros s base t kw s' n H.
  destruct (lookup s base) as [rb |]; try discriminate.
  destruct (lookup s t) as [rt |]; try discriminate.
  destruct (c_kind rb); try discriminate.
  destruct (c_fields rb); try discriminate.
  destruct (c_orig rb); try discriminate.
  destruct (match c_kind rt, c_fields rt with KArray, [_] => false | KArray, _ => true | _, _ => false end);
    try discriminate.
  rdesp H as s1 a Q1. pose proof (customize_plain_protos _ _ _ _ _ Q1) as P1.
  destruct (get_tname s1 t) as [tnm |]; try discriminate.
  destruct (match tnm with TEmpty => (t_OhNoes, TEmpty) | TStr x => (x, TStr (x ++ t_Array)) end)
    as [member atn].
  rdesp H as s2 ser Q2. inversion H; subst. rewrite protos_upd.
  destruct (is_v (resolve s1 t K_MAX_OCCURS) (VInt 1)).
  - rewrite (customize_any_protos _ _ _ _ _ Q2). exact P1.
  - inversion Q2; subst. exact P1.
Qed.

Lemma mandatory_protos : forall fuel s c s' n,
  mandatory fuel s c = ROk (s', n) -> protos s' = protos s.
Proof.
  induction fuel; intros s c s' n H; [discriminate |]. simpl in H.
  destruct (lookup s c) as [r |]; try discriminate.
  destruct (get_tname s c) as [tnm |]; try discriminate.
  destruct (c_kind r) as [fam | |].
  - destruct fam; eapply customize_simple_protos; eauto.
  - eapply customize_plain_protos; eauto.
  - destruct (c_fields r) as [| [k v] rest]; try discriminate.
    destruct rest; try discriminate.
    destruct (is_v (resolve s v K_MIN_OCCURS) (VInt 0)).
    + rdesp H as s1 n1 Q1. rdesp H as s2 v' Q2. inversion H; subst. rewrite protos_upd.
      rewrite (IHfuel _ _ _ _ Q2). eapply customize_plain_protos; eauto.
    + eapply customize_plain_protos; eauto.
Qed.

Lemma call_simple_protos : forall s c kw s' n,
  call_simple s c kw = ROk (s', n) -> protos s' = protos s.
Proof.
  unfold call_simple, bytearray_new. intros s c kw s' n H.
  destruct (lookup s c) as [r |]; try discriminate.
  destruct (c_kind r) as [[| | |] | |]; try discriminate;
    try (eapply customize_simple_protos; exact H).
  destruct (zassoc K_ENCODING kw) as [v |]; [| eapply customize_simple_protos; exact H].
  destruct (enc_norm v) as [[e tn] |]; try discriminate.
  rdesp H as s1 n1 Q. inversion H; subst.
  destruct tn; [rewrite protos_upd |]; eapply customize_simple_protos; eauto.
Qed.

Lemma subclass_protos : forall s parent name fs s' n,
  subclass s parent name fs = ROk (s', n) -> protos s' = protos s.
Proof.
  intros. destruct (subclass_shape _ _ _ _ _ _ H) as [rp [ex [_ [_ [_ [_ [_ [_ [_ [_ S']]]]]]]]]].
  subst s'. reflexivity.
Qed.

Lemma delayed_type_protos : forall s c k t s1 t1,
  delayed_type s c k t = ROk (s1, t1) -> protos s1 = protos s.
Proof.
  unfold delayed_type. intros s c k t s1 t1 H. rdesp H as sa ta Q1.
  assert (Pa : protos sa = protos s).
  { destruct (get_dcaa s c); [eapply customize_any_protos; eauto | inversion Q1; reflexivity]. }
  destruct (zassoc c (dca sa)) as [d |]; [| inversion H; subst; exact Pa].
  destruct (tassoc k d) as [v |]; [| inversion H; subst; exact Pa].
  rewrite (customize_any_protos _ _ _ _ _ H). exact Pa.
Qed.

Lemma pre_insert_protos : forall k c s, protos (pre_insert k c s) = protos s.
Proof.
  unfold pre_insert. intros. destruct (zassoc c (dca s)); auto. destruct (tmem k l); auto.
Qed.

Lemma append_impl_protos : forall s c k t s', append_impl s c k t = ROk s' -> protos s' = protos s.
Proof.
  unfold append_impl. intros. rdesp H as s1 t1 Q. inversion H; subst. rewrite protos_upd.
  eapply delayed_type_protos; eauto.
Qed.

Lemma insert_impl_protos : forall s c i k t s', insert_impl s c i k t = ROk s' -> protos s' = protos s.
Proof.
  unfold insert_impl. intros. rdesp H as s1 t1 Q. inversion H; subst. rewrite protos_upd.
  fold (pre_insert k c s1). rewrite pre_insert_protos. eapply delayed_type_protos; eauto.
Qed.

Lemma each_protos : forall (A : Type) (f : store -> A -> res store) l s s',
  (forall st x st', f st x = ROk st' -> protos st' = protos st) ->
  each f s l = ROk s' -> protos s' = protos s.
Proof.
  induction l; simpl; intros s s' F H.
  - inversion H. reflexivity.
  - rdes H as s1 Q. rewrite (IHl _ _ F H). eapply F; eauto.
Qed.

Lemma step_protos : forall s o s' res, step s o = ROk (s', res) -> protos s' = protos s.
Proof.
  intros s o s' res H. destruct o; simpl in H.
  - rdesp H as s1 n Q. inversion H; subst. eapply customize_protos; eauto.
  - rdesp H as s1 n Q. inversion H; subst. eapply make_array_protos; eauto.
  - rdesp H as s1 n Q. inversion H; subst. eapply mandatory_protos; eauto.
  - rdesp H as s1 n Q. inversion H; subst. eapply call_simple_protos; eauto.
  - rdesp H as s1 n Q. inversion H; subst. eapply subclass_protos; eauto.
  - rdes H as s1 Q. inversion H; subst. unfold append_field in Q.
    destruct (evolvable s c t); simpl in Q; try discriminate.
    rdes Q as s2 Q2. rewrite (each_protos _ _ _ _ _ (fun st x st' E => append_impl_protos st x k t st' E) Q).
    eapply append_impl_protos; eauto.
  - rdes H as s1 Q. inversion H; subst. unfold insert_field in Q.
    destruct (evolvable s c t); simpl in Q; try discriminate.
    rdes Q as s2 Q2. rewrite (each_protos _ _ _ _ _ (fun st x st' E => insert_impl_protos st x i k t st' E) Q).
    eapply insert_impl_protos; eauto.
Qed.

Lemma run_protos : forall ops s, protos (run s ops) = protos s.
Proof.
  induction ops; simpl; intros; auto.
  destruct (step s a) as [[s1 r] | |] eqn:E; auto.
  rewrite IHops. eapply step_protos; eauto.
Qed.

(** calling a ByteArray type without an 'encoding' keyword is customize():
    the encoding is inherited unless the protocol defaults supply one *)
Lemma call_without_encoding : forall s c kw,
  zassoc K_ENCODING kw = None -> bytearray_new s c kw = customize_simple s c kw.
Proof. unfold bytearray_new. intros. rewrite H. reflexivity. Qed.
