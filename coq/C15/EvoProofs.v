(** C15: append_field / insert_field.  An evolution step rewrites the field
    table of the class and of its registered variants and nothing else of any
    existing class; the field arrives in every one of them, with a type derived
    from the given one. *)
From Coq Require Import ZArith List Bool Lia.
From SpyneV Require Import C15.Spec C15.OdictProofs C15.StoreProofs C15.OpProofs.
Import ListNotations.
Open Scope Z_scope.

Local Opaque FUEL.

(** only the field table differs *)
Definition fields_only (r r' : cls) : Prop :=
  static_eq r r' /\ c_tname r' = c_tname r /\ c_extends r' = c_extends r.

Lemma fields_only_refl : forall r, fields_only r r.
Proof. unfold fields_only. intros. split; [apply static_eq_refl | auto]. Qed.

Lemma fields_only_trans : forall a b c, fields_only a b -> fields_only b c -> fields_only a c.
Proof.
  unfold fields_only. intros a b c [A1 [A2 A3]] [B1 [B2 B3]].
  split; [eapply static_eq_trans; eauto | split; congruence].
Qed.

(** [evo T s s']: all classes of [s] are still there; those outside [T] are
    identical, those in [T] differ at most in their field table *)
Definition evo (T : list cid) (s s' : store) : Prop :=
  size s <= size s' /\
  (forall x, 0 <= x < size s -> ~ In x T -> lookup s' x = lookup s x) /\
  (forall x r, lookup s x = Some r -> exists r', lookup s' x = Some r' /\ fields_only r r') /\
  incl (variants s) (variants s').

Lemma evo_refl : forall T s, evo T s s.
Proof.
  unfold evo. intros. split; [lia | split; [auto | split]].
  - intros. exists r. split; auto. apply fields_only_refl.
  - apply incl_refl.
Qed.

Lemma evo_trans : forall T s1 s2 s3, evo T s1 s2 -> evo T s2 s3 -> evo T s1 s3.
Proof.
  unfold evo. intros T s1 s2 s3 [A1 [A2 [A3 A4]]] [B1 [B2 [B3 B4]]].
  split; [lia | split; [| split]].
  - intros. rewrite B2; auto. lia.
  - intros. destruct (A3 _ _ H) as [r' [H1 H2]]. destruct (B3 _ _ H1) as [r'' [H3 H4]].
    exists r''. split; auto. eapply fields_only_trans; eauto.
  - eapply incl_tran; eauto.
Qed.

Lemma evo_weaken : forall T T' s s', incl T T' -> evo T s s' -> evo T' s s'.
Proof.
  unfold evo. intros T T' s s' I [A1 [A2 [A3 A4]]]. split; [auto | split; [| split]]; auto.
Qed.

Lemma ext_evo : forall T s s', ext (size s) s s' -> evo T s s'.
Proof.
  unfold ext, evo. intros T s s' [A1 [A2 [A3 A4]]]. split; [auto | split; [| split]]; auto.
  intros. rewrite <- (A2 x) in H by (apply lookup_some in H; auto).
  exists r. split; auto. apply fields_only_refl.
Qed.

Lemma evo_size : forall T s s', evo T s s' -> size s <= size s'.
Proof. unfold evo. tauto. Qed.

Lemma evo_upd : forall T s c f,
  In c T -> (forall r, fields_only r (f r)) -> evo T s (upd s c f).
Proof.
  unfold evo. intros. split; [rewrite size_upd; lia | split; [| split]].
  - intros. apply lookup_upd_other. intros X. subst. contradiction.
  - intros. destruct (Z.eq_dec c x).
    + subst. exists (f r). split; auto. apply lookup_upd_same. auto.
    + exists r. split; [| apply fields_only_refl]. rewrite lookup_upd_other; auto.
  - rewrite variants_upd. apply incl_refl.
Qed.

Lemma root_of_evo : forall T s s' y ry,
  evo T s s' -> lookup s y = Some ry -> root_of s' y = root_of s y.
Proof.
  intros T s s' y ry [_ [_ [A _]]] L. destruct (A _ _ L) as [r' [L' [[_ [_ [_ E]]] _]]].
  unfold root_of, orig_or_self. rewrite L, L', E. auto.
Qed.

(** * the delayed child attributes applied to a new field's type *)
Lemma delayed_type_ok : forall s c k t s1 t1 rt,
  inv s -> lookup s t = Some rt -> delayed_type s c k t = ROk (s1, t1) ->
  inv s1 /\ ext (size s) s s1 /\ ref_ok (size s1) t1 /\ root_of s1 t1 = root_of s t.
Proof.
  unfold delayed_type. intros s c k t s1 t1 rt I Lt H.
  rdesp H as sa ta Q1.
  assert (P : inv sa /\ ext (size s) s sa /\ ref_ok (size sa) ta /\ root_of sa ta = root_of s t).
  { destruct (get_dcaa s c) as [a |].
    - pose proof (customize_any_derived _ _ _ _ _ Q1) as D.
      pose proof (derived_valid _ _ _ _ D) as V. destruct D as [D1 [D2 [D3 [D4 D5]]]].
      split; [exact (D4 I) | split; [exact D3 | split; [exact V | exact D5]]].
    - inversion Q1; subst. apply lookup_some in Lt.
      split; [exact I | split; [apply ext_refl | split; [exact Lt | reflexivity]]]. }
  destruct P as [Ia [Xa [Va Ra]]].
  assert (Q : customize_any sa ta
                match zassoc c (dca sa) with Some d => match tassoc k d with Some v => v | None => [] end | None => [] end
              = ROk (s1, t1) \/ (sa, ta) = (s1, t1)).
  { destruct (zassoc c (dca sa)) as [d |]; [| right; inversion H; auto].
    destruct (tassoc k d) as [v |]; [left; auto | right; inversion H; auto]. }
  destruct Q as [Q | Q].
  - pose proof (customize_any_derived _ _ _ _ _ Q) as D.
    pose proof (derived_valid _ _ _ _ D) as V. destruct D as [D1 [D2 [D3 [D4 D5]]]].
    pose proof (ext_size _ _ _ Xa).
    split; [exact (D4 Ia) | split; [| split; [exact V | congruence]]].
    eapply ext_trans; [apply Xa | eapply ext_weaken; [| apply D3]; lia].
  - inversion Q; subst. auto.
Qed.

Section Evo.
Variable k : fname.
Variable g : cid -> list (fname * cid) -> list (fname * cid).
Hypothesis g_ok : forall n t1 r,
  cls_ok n r -> ref_ok n t1 -> cls_ok n (set_fields (g t1 (c_fields r)) r).
Hypothesis g_has : forall t1 fs, NoDup (keys fs) -> tassoc k (g t1 fs) = Some t1.
Variable pre : cid -> store -> store.
Hypothesis pre_cl : forall c s, cl (pre c s) = cl s.
Hypothesis pre_var : forall c s, variants (pre c s) = variants s.

Definition gimpl (s : store) (c : cid) (t : cid) : res store :=
  dor (s1, t1) <- delayed_type s c k t;
  ROk (upd (pre c s1) c (fun x => set_fields (g t1 (c_fields x)) x)).

Lemma lookup_pre : forall c s x, lookup (pre c s) x = lookup s x.
Proof. unfold lookup. intros. rewrite pre_cl. auto. Qed.
Lemma size_pre : forall c s, size (pre c s) = size s.
Proof. unfold size. intros. rewrite pre_cl. auto. Qed.
Lemma inv_pre : forall c s, inv s -> inv (pre c s).
Proof.
  unfold inv, wf, complete. intros c s [[A [B C]] D]. rewrite size_pre, pre_cl, pre_var.
  split; [auto |]. intros. rewrite lookup_pre in H. eauto.
Qed.
Lemma ext_pre : forall b c s, ext b s (pre c s).
Proof.
  unfold ext. intros. rewrite size_pre, pre_var. split; [lia | split; [| split]].
  - intros. apply lookup_pre.
  - intros. exists r. rewrite lookup_pre. split; auto. apply static_eq_refl.
  - apply incl_refl.
Qed.

Lemma gimpl_ok : forall s v t s' rt rv R,
  inv s -> lookup s t = Some rt -> lookup s v = Some rv -> root_of s t = R ->
  gimpl s v t = ROk s' ->
  inv s' /\ evo [v] s s' /\ has s' v k R /\ (forall x, has s x k R -> has s' x k R) /\
  exists t1, ref_ok (size s') t1 /\ root_of s' t1 = R /\
             lookup s' v = Some (set_fields (g t1 (c_fields rv)) rv).
Proof.
  unfold gimpl. intros s v t s' rt rv R I Lt Lv RR H.
  rdesp H as s1 t1 Q. inversion H; subst s'. clear H.
  destruct (delayed_type_ok _ _ _ _ _ _ _ I Lt Q) as [I1 [X1 [V1 R1]]].
  pose proof (ext_size _ _ _ X1) as Z1. pose proof (lookup_some _ _ _ Lv) as Bv.
  set (f := fun x : cls => set_fields (g t1 (c_fields x)) x).
  assert (FO : forall r, fields_only r (f r)).
  { intros. unfold f, fields_only. split; [apply static_set_fields | auto]. }
  assert (I2 : inv (upd (pre v s1) v f)).
  { apply inv_upd.
    - apply inv_pre. auto.
    - intros. unfold f. apply g_ok; auto. rewrite size_pre. auto.
    - intros. apply static_set_fields. }
  assert (E2 : evo [v] s (upd (pre v s1) v f)).
  { eapply evo_trans; [apply ext_evo; eapply ext_trans; [apply X1 | apply ext_pre] |].
    apply evo_upd; simpl; auto. }
  assert (Lv1 : lookup (pre v s1) v = Some rv).
  { rewrite lookup_pre. destruct X1 as [_ [A _]]. rewrite A; auto. }
  assert (Lv2 : lookup (upd (pre v s1) v f) v = Some (f rv)) by (apply lookup_upd_same; auto).
  assert (Rt1 : root_of (upd (pre v s1) v f) t1 = R).
  { destruct (lookup_lt_some s1 t1 V1) as [rt1 Lt1].
    rewrite <- RR, <- R1. eapply root_of_ext with (b := 0); [| apply Lt1].
    eapply ext_trans; [apply ext_pre |]. apply ext_upd; [lia |].
    intros. apply static_set_fields. }
  assert (ND : NoDup (keys (c_fields rv))).
  { destruct I as [W _]. destruct (wf_lookup _ _ _ W Lv) as [_ [_ [_ [_ E]]]]. auto. }
  split; [exact I2 | split; [exact E2 | split; [| split]]].
  - unfold has, fields_of. rewrite Lv2. unfold f at 1. simpl. exists t1. split; auto.
  - intros x [t' [T1 T2]]. unfold has.
    destruct (Z.eq_dec x v).
    + subst x. unfold fields_of. rewrite Lv2. unfold f at 1. simpl. exists t1. split; auto.
    + unfold fields_of in *. destruct (lookup s x) as [rx |] eqn:Lx; [| discriminate].
      pose proof (lookup_some _ _ _ Lx) as Bx.
      assert (Lx2 : lookup (upd (pre v s1) v f) x = Some rx).
      { destruct E2 as [_ [A _]]. rewrite A; auto. simpl. intros [X | []]. congruence. }
      rewrite Lx2. exists t'. split; auto.
      destruct I as [W _]. destruct (wf_lookup _ _ _ W Lx) as [_ [_ [_ [D _]]]].
      apply tassoc_In in T1. apply D in T1.
      destruct (lookup_lt_some s t' T1) as [rt' Lt'].
      rewrite <- T2. eapply root_of_evo; eauto.
  - exists t1. split; [| split; auto].
    rewrite size_upd, size_pre. auto.
Qed.

(** the loop over the registered variants *)
Lemma each_gimpl_ok : forall vs s t s' rt R,
  inv s -> lookup s t = Some rt -> root_of s t = R ->
  (forall v, In v vs -> ref_ok (size s) v) ->
  each (fun st v => gimpl st v t) s vs = ROk s' ->
  inv s' /\ evo vs s s' /\ (forall x, has s x k R -> has s' x k R) /\
  (forall v, In v vs -> has s' v k R).
Proof.
  induction vs as [| v vs IH]; simpl; intros s t s' rt R I Lt RR V H.
  - inversion H; subst. split; [auto | split; [apply evo_refl | split; [auto | contradiction]]].
  - rdes H as s1 Q.
    destruct (lookup_lt_some s v (V v (or_introl eq_refl))) as [rv Lv].
    destruct (gimpl_ok _ _ _ _ _ _ _ I Lt Lv RR Q) as [I1 [E1 [H1 [K1 _]]]].
    pose proof (evo_size _ _ _ E1) as Z1.
    destruct E1 as [E1a [E1b [E1c E1d]]].
    destruct (E1c _ _ Lt) as [rt1 [Lt1 _]].
    assert (RR1 : root_of s1 t = R).
    { rewrite <- RR. eapply root_of_evo with (T := [v]); [| apply Lt].
      unfold evo. auto. }
    destruct (IH s1 t s' rt1 R I1 Lt1 RR1) as [I2 [E2 [K2 H2]]]; auto.
    { intros. eapply ref_ok_mono; [| apply V; auto]. lia. }
    split; [exact I2 | split; [| split]].
    + eapply evo_trans.
      * eapply evo_weaken; [| unfold evo; split; [apply E1a | split; [apply E1b | split; [apply E1c | apply E1d]]]].
        intros x [X | []]. subst. simpl. auto.
      * eapply evo_weaken; [| apply E2]. intros x X. simpl. auto.
    + intros. apply K2. apply K1. auto.
    + intros v0 [X | X].
      * subst. apply K2. auto.
      * apply H2. auto.
Qed.

(** ** where the field lands: the key order of every written table *)
Variable G : list text -> list text.
Hypothesis g_keys : forall t1 fs, keys (g t1 fs) = G (keys fs).
Hypothesis G_idem : forall ks, NoDup ks -> G (G ks) = G ks.

Lemma gimpl_keys : forall s v t s' rt rv,
  inv s -> lookup s t = Some rt -> lookup s v = Some rv ->
  gimpl s v t = ROk s' ->
  keys (fields_of s' v) = G (keys (fields_of s v)) /\
  (forall x, 0 <= x < size s -> x <> v -> fields_of s' x = fields_of s x).
Proof.
  intros s v t s' rt rv I Lt Lv H.
  destruct (gimpl_ok _ _ _ _ _ _ _ I Lt Lv eq_refl H) as [_ [E [_ [_ [t1 [_ [_ L']]]]]]].
  split.
  - unfold fields_of. rewrite L', Lv. simpl. apply g_keys.
  - intros x B NE. unfold fields_of. destruct E as [_ [A _]]. rewrite A; auto.
    simpl. intros [X | []]. congruence.
Qed.

Lemma each_gimpl_keys : forall vs s t s' rt,
  inv s -> lookup s t = Some rt ->
  (forall v, In v vs -> ref_ok (size s) v) ->
  each (fun st v => gimpl st v t) s vs = ROk s' ->
  forall x, 0 <= x < size s ->
    (In x vs -> keys (fields_of s' x) = G (keys (fields_of s x))) /\
    (~ In x vs -> fields_of s' x = fields_of s x).
Proof.
  induction vs as [| v vs IH]; simpl; intros s t s' rt I Lt V H x B.
  - inversion H; subst. split; [contradiction | reflexivity].
  - rdes H as s1 Q.
    destruct (lookup_lt_some s v (V v (or_introl eq_refl))) as [rv Lv].
    destruct (gimpl_keys _ _ _ _ _ _ I Lt Lv Q) as [K1 O1].
    destruct (gimpl_ok _ _ _ _ _ _ _ I Lt Lv eq_refl Q) as [I1 [E1 _]].
    pose proof (evo_size _ _ _ E1) as Z1.
    destruct E1 as [_ [_ [E1c _]]]. destruct (E1c _ _ Lt) as [rt1 [Lt1 _]].
    assert (V1 : forall v0, In v0 vs -> ref_ok (size s1) v0).
    { intros. eapply ref_ok_mono; [| apply V; auto]. lia. }
    assert (B1 : 0 <= x < size s1) by lia.
    destruct (IH s1 t s' rt1 I1 Lt1 V1 H x B1) as [KA KB].
    assert (ND : NoDup (keys (fields_of s x))).
    { unfold fields_of. destruct (lookup s x) as [rx |] eqn:Lx; [| constructor].
      destruct I as [W _]. destruct (wf_lookup _ _ _ W Lx) as [_ [_ [_ [_ E]]]]. exact E. }
    split.
    + intros [X | X].
      * subst x. destruct (in_dec Z.eq_dec v vs) as [Y | Y].
        -- rewrite (KA Y). rewrite K1. apply G_idem. exact ND.
        -- rewrite (KB Y). exact K1.
      * destruct (Z.eq_dec x v) as [Y | Y].
        -- subst x. rewrite (KA X). rewrite K1. apply G_idem. exact ND.
        -- rewrite (KA X). rewrite (O1 x B Y). reflexivity.
    + intros NI. assert (x <> v) by (intros X; apply NI; left; auto).
      rewrite KB by (intros X; apply NI; right; exact X). apply O1; auto.
Qed.

End Evo.

(** * append_field and insert_field are instances *)
Definition pre_insert (k : fname) (c : cid) (s1 : store) : store :=
  match zassoc c (dca s1) with
  | Some d => if tmem k d then set_dca s1 c (od_del k d) else s1
  | None => s1
  end.

Lemma append_impl_gimpl : forall s c k t,
  append_impl s c k t = gimpl k (fun t1 fs => od_set k t1 fs) (fun _ s1 => s1) s c t.
Proof. reflexivity. Qed.

Lemma insert_impl_gimpl : forall s c i k t,
  insert_impl s c i k t = gimpl k (fun t1 fs => od_insert i k t1 fs) (pre_insert k) s c t.
Proof. reflexivity. Qed.

Lemma pre_insert_cl : forall k c s, cl (pre_insert k c s) = cl s.
Proof.
  unfold pre_insert. intros. destruct (zassoc c (dca s)); auto. destruct (tmem k l); auto.
Qed.
Lemma pre_insert_var : forall k c s, variants (pre_insert k c s) = variants s.
Proof.
  unfold pre_insert. intros. destruct (zassoc c (dca s)); auto. destruct (tmem k l); auto.
Qed.

Lemma variants_of_valid : forall s c v,
  wf s -> In v (variants_of s c) -> ref_ok (size s) v /\ c < v.
Proof.
  unfold variants_of. intros s c v W H. apply in_map_iff in H.
  destruct H as [[o v'] [E H]]. simpl in E. subst v'. apply filter_In in H.
  destruct H as [H1 H2]. simpl in H2. apply Z.eqb_eq in H2. subst o.
  destruct (wf_variant _ _ _ W H1) as [_ [B C]]. auto.
Qed.

Definition variant_targets (s : store) (c : cid) : list cid :=
  match lookup s c with
  | Some r => match c_orig r with None => variants_of s c | Some _ => [] end
  | None => []
  end.

Lemma variant_targets_valid : forall s c v,
  wf s -> In v (variant_targets s c) -> ref_ok (size s) v /\ c < v.
Proof.
  unfold variant_targets. intros s c v W H.
  destruct (lookup s c) as [r |]; [| contradiction].
  destruct (c_orig r); [contradiction |]. apply variants_of_valid; auto.
Qed.

Lemma evolvable_lookup : forall s c t,
  evolvable s c t = true -> exists r rt, lookup s c = Some r /\ lookup s t = Some rt.
Proof.
  unfold evolvable. intros. destruct (lookup s c) as [r |]; try discriminate.
  destruct (lookup s t) as [rt |]; try discriminate. eauto.
Qed.

Section Field.
Variable k : fname.
Variable g : cid -> list (fname * cid) -> list (fname * cid).
Hypothesis g_ok : forall n t1 r,
  cls_ok n r -> ref_ok n t1 -> cls_ok n (set_fields (g t1 (c_fields r)) r).
Hypothesis g_has : forall t1 fs, NoDup (keys fs) -> tassoc k (g t1 fs) = Some t1.
Variable pre : cid -> store -> store.
Hypothesis pre_cl : forall c s, cl (pre c s) = cl s.
Hypothesis pre_var : forall c s, variants (pre c s) = variants s.

Lemma gfield_ok : forall s c t s',
  inv s -> evolvable s c t = true ->
  (dor s1 <- gimpl k g pre s c t;
   each (fun st v => gimpl k g pre st v t) s1 (variant_targets s c)) = ROk s' ->
  inv s' /\ evo (c :: variant_targets s c) s s' /\
  (forall x, In x (c :: variant_targets s c) -> has s' x k (root_of s t)).
Proof.
  intros s c t s' I EV H.
  destruct (evolvable_lookup _ _ _ EV) as [r [rt [L Lt]]].
  rdes H as s1 Q.
  destruct (gimpl_ok k g g_ok g_has pre pre_cl pre_var _ _ _ _ _ _ _ I Lt L eq_refl Q)
    as [I1 [E1 [H1 [K1 _]]]].
  pose proof (evo_size _ _ _ E1) as Z1.
  assert (E1' := E1). destruct E1' as [_ [_ [E1c _]]].
  destruct (E1c _ _ Lt) as [rt1 [Lt1 _]].
  assert (RR1 : root_of s1 t = root_of s t) by (eapply root_of_evo; eauto).
  assert (V1 : forall v, In v (variant_targets s c) -> ref_ok (size s1) v).
  { intros v V. destruct I as [W _]. destruct (variant_targets_valid _ _ _ W V) as [A _].
    eapply ref_ok_mono; [| apply A]. lia. }
  destruct (each_gimpl_ok k g g_ok g_has pre pre_cl pre_var _ _ _ _ _ _ I1 Lt1 RR1 V1 H)
    as [I2 [E2 [K2 H2]]].
  split; [exact I2 | split].
  - eapply evo_trans.
    + eapply evo_weaken; [| apply E1]. intros x [X | []]. subst. simpl. auto.
    + eapply evo_weaken; [| apply E2]. intros x X. simpl. auto.
  - intros x [X | X].
    + subst. apply K2. auto.
    + apply H2. auto.
Qed.
Variable G : list text -> list text.
Hypothesis g_keys : forall t1 fs, keys (g t1 fs) = G (keys fs).
Hypothesis G_idem : forall ks, NoDup ks -> G (G ks) = G ks.

Lemma gfield_keys : forall s c t s',
  inv s -> evolvable s c t = true ->
  (dor s1 <- gimpl k g pre s c t;
   each (fun st v => gimpl k g pre st v t) s1 (variant_targets s c)) = ROk s' ->
  forall x, 0 <= x < size s ->
    (In x (c :: variant_targets s c) -> keys (fields_of s' x) = G (keys (fields_of s x))) /\
    (~ In x (c :: variant_targets s c) -> fields_of s' x = fields_of s x).
Proof.
  intros s c t s' I EV H x B.
  (* the class itself is the first of the loop *)
  assert (H' : each (fun st v => gimpl k g pre st v t) s (c :: variant_targets s c) = ROk s').
  { simpl. exact H. }
  destruct (evolvable_lookup _ _ _ EV) as [r [rt [L Lt]]].
  eapply (each_gimpl_keys k g g_ok g_has pre pre_cl pre_var G g_keys G_idem); eauto.
  intros v [X | X].
  - subst. eapply lookup_some; eauto.
  - destruct I as [W _]. destruct (variant_targets_valid _ _ _ W X). auto.
Qed.

End Field.

Lemma append_field_ok : forall s c k t s',
  inv s -> append_field s c k t = ROk s' ->
  inv s' /\ evo (touched s (OAppend c k t)) s s' /\
  (forall x, In x (touched s (OAppend c k t)) -> has s' x k (root_of s t)).
Proof.
  unfold append_field. intros s c k t s' I H.
  destruct (evolvable s c t) eqn:EV; simpl in H; try discriminate.
  apply (gfield_ok k (fun t1 fs => od_set k t1 fs)) with (pre := fun _ s1 => s1); auto.
  - intros. apply cls_ok_od_set; auto.
  - intros. apply tassoc_od_set_same.
Qed.

Lemma insert_field_ok : forall s c i k t s',
  inv s -> insert_field s c i k t = ROk s' ->
  inv s' /\ evo (touched s (OInsert c i k t)) s s' /\
  (forall x, In x (touched s (OInsert c i k t)) -> has s' x k (root_of s t)).
Proof.
  unfold insert_field. intros s c i k t s' I H.
  destruct (evolvable s c t) eqn:EV; simpl in H; try discriminate.
  apply (gfield_ok k (fun t1 fs => od_insert i k t1 fs)) with (pre := pre_insert k); auto.
  - intros. apply cls_ok_od_insert; auto.
  - intros. apply tassoc_od_insert_same. auto.
  - apply pre_insert_cl.
  - apply pre_insert_var.
Qed.

(** where append_field / insert_field put the name *)
Lemma G_append_idem : forall k ks, G_append k (G_append k ks) = G_append k ks.
Proof.
  unfold G_append. simpl. intros. destruct (tmemk k ks) eqn:E.
  - rewrite E. reflexivity.
  - match goal with |- (if ?b then _ else _) = _ => destruct b eqn:Y end; [reflexivity |].
    apply tmemk_false in Y. exfalso. apply Y. apply in_or_app. right. simpl. auto.
Qed.

Lemma remove_key_insert_at : forall n k l, ~ In k l -> remove_key k (insert_at n k l) = l.
Proof.
  induction n; destruct l; simpl; intros NI; try rewrite text_eqb_refl; auto.
  destruct (text_eqb k t) eqn:E.
  - apply text_eqb_eq in E. subst. exfalso. apply NI. auto.
  - rewrite IHn; auto.
Qed.

Lemma G_insert_idem : forall i k ks, NoDup ks -> G_insert i k (G_insert i k ks) = G_insert i k ks.
Proof.
  unfold G_insert. intros i k ks ND. destruct (NoDup_remove_key k ks ND) as [_ NI].
  unfold py_insert at 2. rewrite remove_key_insert_at by exact NI. reflexivity.
Qed.

Lemma append_field_keys : forall s c k t s',
  inv s -> append_field s c k t = ROk s' ->
  forall x, 0 <= x < size s ->
    (In x (touched s (OAppend c k t)) -> keys (fields_of s' x) = G_append k (keys (fields_of s x))) /\
    (~ In x (touched s (OAppend c k t)) -> fields_of s' x = fields_of s x).
Proof.
  unfold append_field. intros s c k t s' I H.
  destruct (evolvable s c t) eqn:EV; simpl in H; try discriminate.
  apply (gfield_keys k (fun t1 fs => od_set k t1 fs)) with (pre := fun _ s1 => s1) (t := t); auto.
  - intros. apply cls_ok_od_set; auto.
  - intros. apply tassoc_od_set_same.
  - intros. unfold G_append. simpl. apply keys_od_set.
  - intros. apply G_append_idem.
Qed.

Lemma insert_field_keys : forall s c i k t s',
  inv s -> insert_field s c i k t = ROk s' ->
  forall x, 0 <= x < size s ->
    (In x (touched s (OInsert c i k t)) -> keys (fields_of s' x) = G_insert i k (keys (fields_of s x))) /\
    (~ In x (touched s (OInsert c i k t)) -> fields_of s' x = fields_of s x).
Proof.
  unfold insert_field. intros s c i k t s' I H.
  destruct (evolvable s c t) eqn:EV; simpl in H; try discriminate.
  apply (gfield_keys k (fun t1 fs => od_insert i k t1 fs)) with (pre := pre_insert k) (t := t); auto.
  - intros. apply cls_ok_od_insert; auto.
  - intros. apply tassoc_od_insert_same. auto.
  - apply pre_insert_cl.
  - apply pre_insert_var.
  - intros. apply keys_od_insert.
  - intros. apply G_insert_idem. auto.
Qed.

(** * any step keeps the invariants *)
Lemma step_inv : forall s o s' res, inv s -> step s o = ROk (s', res) -> inv s'.
Proof.
  intros s o s' res I H. destruct (is_derivation o) eqn:D.
  - destruct (step_derivation_ok _ _ _ _ I D H) as [_ [_ [A _]]]. auto.
  - destruct o; simpl in D; try discriminate; simpl in H.
    + rdes H as s1 Q. inversion H; subst. destruct (append_field_ok _ _ _ _ _ I Q) as [A _]. auto.
    + rdes H as s1 Q. inversion H; subst. destruct (insert_field_ok _ _ _ _ _ _ I Q) as [A _]. auto.
Qed.

Lemma after_inv : forall s o, inv s -> inv (after s o).
Proof.
  unfold after. intros. destruct (step s o) as [[s1 r] | |] eqn:E; auto.
  eapply step_inv; eauto.
Qed.

Lemma run_after : forall ops s, run s ops = match ops with [] => s | o :: r => run (after s o) r end.
Proof.
  destruct ops; simpl; auto. intros. unfold after.
  destruct (step s o) as [[s1 r] | |]; auto.
Qed.

Lemma run_inv : forall ops s, inv s -> inv (run s ops).
Proof.
  induction ops; intros s I.
  - simpl. auto.
  - rewrite run_after. apply IHops. apply after_inv. auto.
Qed.
