(** C15 / layer L6 "class store": an executable model of how Spyne derives
    model classes (spyne/model/_base.py [_s_customize], [SimpleModel.customize];
    spyne/model/complex.py [ComplexModelBase.customize], [_process_child_attrs],
    [Array.__new__/_set_serializer], [Mandatory], the class statement handled by
    [ComplexModelMeta], [append_field]/[insert_field]; spyne/util/odict.py;
    spyne/model/primitive/number.py [Decimal._s_customize]).

    A Python class is a record with an identity (its index in the store).
    Python's dynamic attribute lookup ([class Attributes(cls.Attributes)], and
    class attributes such as [__extends__] / [__type_name__] found through the
    MRO) is a walk along [c_base].  Definitions only. *)
From SpyneV Require Export Base.Prelude.

Definition cid := Z.
Definition akey := Z.
Definition fname := text.

(** values of constraint attributes that the modelled code inspects *)
Inductive aval :=
| VNone | VBool (b : bool) | VInt (z : Z) | VInf | VNegInf
| VStr (t : text) | VInts (l : list Z) | VEmptySet.

Fixpoint zlist_eqb (a b : list Z) : bool :=
  match a, b with
  | [], [] => true
  | x :: a', y :: b' => (x =? y) && zlist_eqb a' b'
  | _, _ => false
  end.

Definition aval_eqb (a b : aval) : bool :=
  match a, b with
  | VNone, VNone | VInf, VInf | VNegInf, VNegInf | VEmptySet, VEmptySet => true
  | VBool x, VBool y => Bool.eqb x y
  | VInt x, VInt y => x =? y
  | VStr x, VStr y => text_eqb x y
  | VInts x, VInts y => zlist_eqb x y
  | _, _ => false
  end.

(** attribute names (the harness maps Python names to these numbers; a
    negative key is a name with a leading underscore) *)
Definition K_NULLABLE := 0.        (* 'nillable' and 'nullable': one property *)
Definition K_MIN_OCCURS := 1.
Definition K_MAX_OCCURS := 2.
Definition K_DEFAULT := 3.
Definition K_GE := 4.
Definition K_GT := 5.
Definition K_LE := 6.
Definition K_LT := 7.
Definition K_MIN_LEN := 8.
Definition K_MAX_LEN := 9.
Definition K_PATTERN := 10.
Definition K_VALUES := 11.
Definition K_MAX_STR_LEN := 12.
Definition K_EXC := 13.
Definition K_SUB_NAME := 14.
Definition K_SUB_NS := 15.
Definition K_TOTAL_DIGITS := 16.
Definition K_FRACTION_DIGITS := 17.
Definition K_EXC_TABLE := 18.
Definition K_EXC_DB := 19.
Definition K_EXPLICIT_TN := 20.    (* Attributes._explicit_type_name *)
Definition K_TYPE_NAME := 21.      (* only ever a keyword argument *)
Definition K_MIN_BOUND := 22.
Definition K_MAX_BOUND := 23.
(* 24..30 : attributes that _s_customize stores with a plain setattr *)
Definition K_ENCODING := 31.       (* ByteArray.Attributes.encoding *)
Definition K_PROT := 32.           (* Attributes.prot: set by 'prot', 'protocol' and 'p' *)
Definition K_PROTOCOL := 33.       (* only ever a keyword argument *)
Definition K_P := 34.              (* only ever a keyword argument *)
Definition K_PRIMARY_KEY := 35.    (* Attributes.primary_key; keyword 'primary_key' *)
Definition K_PK := 36.             (* keyword 'pk' *)
Definition K_COL_PK := 37.         (* sqla_column_args[-1]['primary_key'] *)
(* 38 autoincrement, 39 onupdate, 40 server_default: keywords that are written ONLY into the keyword
   dictionary of Attributes.sqla_column_args, which every derivative gets as a deep copy of its
   original's: an entry is found through the chain of base classes like any attribute *)

Definition kwargs := list (akey * aval).

(** __type_name__: ModelBase.Empty or a string *)
Inductive tn := TEmpty | TStr (t : text).
Definition tn_eqb (a b : tn) : bool :=
  match a, b with
  | TEmpty, TEmpty => true
  | TStr x, TStr y => text_eqb x y
  | _, _ => false
  end.

(** which overrides of _s_customize / is_default / Mandatory apply *)
Inductive family := FDecimal | FUnicode | FPlain | FByteArray.
Inductive kind := KSimple (f : family) | KComplex | KArray.

Record cls := mkcls {
  c_kind : kind;
  c_base : option cid;                 (* the Python base class *)
  c_attrs : list (akey * aval);        (* own dict of cls.Attributes, latest first *)
  c_tname : option tn;                 (* own __type_name__; None = found through the MRO *)
  c_orig : option cid;                 (* __orig__ *)
  c_extends : option (option cid);     (* own __extends__; None = found through the MRO *)
  c_fields : list (fname * cid)        (* own _type_info, in odict order *)
}.

(** the store: the classes, and the private registries kept in
    cls.Attributes (_variants of a root class, _delayed_child_attrs,
    _delayed_child_attrs_all); in the association lists the first entry of a
    key is the current one *)
Record store := mkstore {
  cl : list cls;
  variants : list (cid * cid);                     (* (root, variant), registration order *)
  dca : list (cid * list (fname * kwargs));
  dcaa : list (cid * kwargs);
  protos : list (Z * kwargs)       (* caller data: type_attrs of the protocol objects that may be
                                      passed as prot= / protocol= / p=; no operation writes it *)
}.

(** outcome of a modelled operation: a value, a Python exception, or "outside
    the modelled language" (dangling identity, operation applied to the wrong
    kind of class, walk out of fuel); theorems exclude [RBad], generators never
    produce it *)
Inductive res (A : Type) := ROk (a : A) | RExn (e : exn) | RBad (why : Z).
Arguments ROk {A} a.
Arguments RExn {A} e.
Arguments RBad {A} why.
Definition rbind {A B} (x : res A) (f : A -> res B) : res B :=
  match x with ROk a => f a | RExn e => RExn e | RBad w => RBad w end.
Notation "'dor' x <- e ; f" := (rbind e (fun x => f))
  (at level 200, x pattern, e at level 100, f at level 200, right associativity).

(** * association lists and the odict of spyne/util/odict.py *)
Fixpoint zassoc {V} (k : Z) (l : list (Z * V)) : option V :=
  match l with
  | [] => None
  | (k', v) :: r => if k =? k' then Some v else zassoc k r
  end.
Fixpoint tassoc {V} (k : text) (l : list (text * V)) : option V :=
  match l with
  | [] => None
  | (k', v) :: r => if text_eqb k k' then Some v else tassoc k r
  end.
Definition tmem {V} (k : text) (l : list (text * V)) : bool :=
  match tassoc k l with Some _ => true | None => false end.

(** odict.__setitem__ with a string key: a known key keeps its place and gets
    the new value, a new key goes last *)
Fixpoint od_set {V} (k : text) (v : V) (l : list (text * V)) : list (text * V) :=
  match l with
  | [] => [(k, v)]
  | (k', v') :: r => if text_eqb k k' then (k', v) :: r else (k', v') :: od_set k v r
  end.
Fixpoint od_del {V} (k : text) (l : list (text * V)) : list (text * V) :=
  match l with
  | [] => []
  | (k', v') :: r => if text_eqb k k' then r else (k', v') :: od_del k r
  end.
(** odict.update(items) *)
Fixpoint od_update {V} (l : list (text * V)) (items : list (text * V)) : list (text * V) :=
  match items with
  | [] => l
  | (k, v) :: r => od_update (od_set k v l) r
  end.
(** list.insert(i, x) of CPython: negative indices count from the end, out of
    range indices are clamped *)
Fixpoint insert_at {V} (n : nat) (x : V) (l : list V) : list V :=
  match n, l with
  | O, _ => x :: l
  | S n', [] => [x]
  | S n', y :: r => y :: insert_at n' x r
  end.
Definition py_insert {V} (i : Z) (x : V) (l : list V) : list V :=
  let n := Z.of_nat (length l) in
  let j := if i <? 0 then Z.max 0 (i + n) else Z.min i n in
  insert_at (Z.to_nat j) x l.
(** odict.insert(index, (k, v)): a known key is first removed from the key list *)
Definition od_insert {V} (i : Z) (k : text) (v : V) (l : list (text * V)) : list (text * V) :=
  py_insert i (k, v) (od_del k l).

(** Python dict used as keyword arguments / child_attrs: same update rule *)
Fixpoint zd_set {V} (k : Z) (v : V) (l : list (Z * V)) : list (Z * V) :=
  match l with
  | [] => [(k, v)]
  | (k', v') :: r => if k =? k' then (k', v) :: r else (k', v') :: zd_set k v r
  end.
Fixpoint zd_del {V} (k : Z) (l : list (Z * V)) : list (Z * V) :=
  match l with
  | [] => []
  | (k', v') :: r => if k =? k' then r else (k', v') :: zd_del k r
  end.

(** * the store *)
Definition size (s : store) : Z := Z.of_nat (length (cl s)).
Definition nth_cls (l : list cls) (c : cid) : option cls :=
  if c <? 0 then None else nth_error l (Z.to_nat c).
Definition lookup (s : store) (c : cid) : option cls := nth_cls (cl s) c.

Definition with_cl (s : store) (l : list cls) : store :=
  mkstore l (variants s) (dca s) (dcaa s) (protos s).
Definition alloc (s : store) (r : cls) : store * cid := (with_cl s (cl s ++ [r]), size s).

Fixpoint list_upd {A} (l : list A) (n : nat) (f : A -> A) : list A :=
  match l, n with
  | [], _ => []
  | x :: r, O => f x :: r
  | x :: r, S n' => x :: list_upd r n' f
  end.
Definition upd (s : store) (c : cid) (f : cls -> cls) : store :=
  if c <? 0 then s else with_cl s (list_upd (cl s) (Z.to_nat c) f).

Definition set_fields (fs : list (fname * cid)) (r : cls) : cls :=
  mkcls (c_kind r) (c_base r) (c_attrs r) (c_tname r) (c_orig r) (c_extends r) fs.
Definition set_extends (e : option cid) (r : cls) : cls :=
  mkcls (c_kind r) (c_base r) (c_attrs r) (c_tname r) (c_orig r) (Some e) (c_fields r).
Definition set_tname (t : tn) (r : cls) : cls :=
  mkcls (c_kind r) (c_base r) (c_attrs r) (Some t) (c_orig r) (c_extends r) (c_fields r).

Definition add_variant (s : store) (root v : cid) : store :=
  mkstore (cl s) (variants s ++ [(root, v)]) (dca s) (dcaa s) (protos s).
Definition set_dca (s : store) (c : cid) (d : list (fname * kwargs)) : store :=
  mkstore (cl s) (variants s) ((c, d) :: dca s) (dcaa s) (protos s).
Definition set_dcaa (s : store) (c : cid) (d : kwargs) : store :=
  mkstore (cl s) (variants s) (dca s) ((c, d) :: dcaa s) (protos s).
Definition variants_of (s : store) (root : cid) : list cid :=
  map snd (filter (fun p => fst p =? root) (variants s)).

(** ** lookups through the chain of Python base classes (explicit fuel: the
    theorems hold for every fuel, the harness uses one that exceeds every
    chain it builds) *)
Fixpoint resolve_f (fuel : nat) (l : list cls) (c : cid) (k : akey) : option aval :=
  match fuel with
  | O => None
  | S f =>
    match nth_cls l c with
    | None => None
    | Some r =>
      match zassoc k (c_attrs r) with
      | Some v => Some v
      | None => match c_base r with Some b => resolve_f f l b k | None => None end
      end
    end
  end.
Fixpoint tname_f (fuel : nat) (l : list cls) (c : cid) : option tn :=
  match fuel with
  | O => None
  | S f =>
    match nth_cls l c with
    | None => None
    | Some r =>
      match c_tname r with
      | Some t => Some t
      | None => match c_base r with Some b => tname_f f l b | None => None end
      end
    end
  end.
Fixpoint extends_f (fuel : nat) (l : list cls) (c : cid) : option cid :=
  match fuel with
  | O => None
  | S f =>
    match nth_cls l c with
    | None => None
    | Some r =>
      match c_extends r with
      | Some e => e
      | None => match c_base r with Some b => extends_f f l b | None => None end
      end
    end
  end.
Fixpoint dcaa_f (fuel : nat) (s : store) (c : cid) : option kwargs :=
  match fuel with
  | O => None
  | S f =>
    match zassoc c (dcaa s) with
    | Some d => Some d
    | None =>
      match lookup s c with
      | Some r => match c_base r with Some b => dcaa_f f s b | None => None end
      | None => None
      end
    end
  end.

Definition FUEL : nat := 48.
Definition resolve (s : store) (c : cid) (k : akey) := resolve_f FUEL (cl s) c k.
Definition get_tname (s : store) (c : cid) := tname_f FUEL (cl s) c.
Definition get_extends (s : store) (c : cid) := extends_f FUEL (cl s) c.
Definition get_dcaa (s : store) (c : cid) := dcaa_f FUEL s c.

(** _get_flat_type_info: the parent's flat table first, then
    [retval.update(cls._type_info)] *)
Fixpoint flat_f (fuel : nat) (l : list cls) (c : cid) : list (fname * cid) :=
  match fuel with
  | O => []
  | S f =>
    match nth_cls l c with
    | None => []
    | Some r =>
      od_update (match extends_f FUEL l c with Some p => flat_f f l p | None => [] end)
                (c_fields r)
    end
  end.
Definition flat (s : store) (c : cid) := flat_f FUEL (cl s) c.

(** * observation of a class: the structural snapshot the property names *)
Definition obs_keys : list akey :=
  [0; 1; 2; 3; 4; 5; 6; 7; 8; 9; 10; 11; 12; 13; 14; 15; 16; 17; 18; 19; 20; 22; 23;
   24; 25; 26; 27; 28; 29; 30; 31; 32; 35; 37; 38; 39; 40].

Inductive snap :=
| SBad                      (* dangling identity *)
| SCut                      (* depth bound of the snapshot reached *)
| SNo                       (* no class (__extends__ is None) *)
| Snap (k : kind) (t : option tn) (customized : bool)
       (attrs : list (akey * aval))            (* resolved Attributes, observed keys that exist *)
       (ext : snap)                            (* __extends__ *)
       (fields : list (fname * snap)).         (* own _type_info in order *)

Fixpoint obs_attrs (fuel : nat) (l : list cls) (c : cid) (ks : list akey) : list (akey * aval) :=
  match ks with
  | [] => []
  | k :: r => match resolve_f fuel l c k with
              | Some v => (k, v) :: obs_attrs fuel l c r
              | None => obs_attrs fuel l c r
              end
  end.

Fixpoint obs_f (depth : nat) (fuel : nat) (l : list cls) (c : cid) : snap :=
  match depth with
  | O => SCut
  | S d =>
    match nth_cls l c with
    | None => SBad
    | Some r =>
      Snap (c_kind r) (tname_f fuel l c)
           (match c_orig r with Some _ => true | None => false end)
           (obs_attrs fuel l c obs_keys)
           (match extends_f fuel l c with Some e => obs_f d fuel l e | None => SNo end)
           (map (fun kt => (fst kt, obs_f d fuel l (snd kt))) (c_fields r))
    end
  end.
Definition obs (depth : nat) (s : store) (c : cid) : snap := obs_f depth FUEL (cl s) c.

(** * _s_customize *)
Definition t_unbounded : text := [117; 110; 98; 111; 117; 110; 100; 101; 100].
Definition t_inf : text := [105; 110; 102].
Definition is_unbounded (v : aval) : bool :=
  match v with
  | VInf => true
  | VStr t => text_eqb t t_unbounded || text_eqb t t_inf
  | _ => false
  end.

(** the loop [for k, v in kwargs.items()] of ModelBase._s_customize, restricted
    to the branches the generated keyword sets can reach *)
Definition apply_kwarg (kv : akey * aval) (acc : list (akey * aval)) : list (akey * aval) :=
  let (k, v) := kv in
  if (k <? 0) || (k =? K_EXPLICIT_TN) then acc                  (* leading underscore: ignored *)
  else if k =? K_TYPE_NAME then (K_EXPLICIT_TN, VBool true) :: acc
  else if (k =? K_PROTOCOL) || (k =? K_P) then (K_PROT, v) :: acc
  else if (k =? K_PRIMARY_KEY) || (k =? K_PK) then (K_PRIMARY_KEY, v) :: (K_COL_PK, v) :: acc
  else if k =? K_EXC_TABLE then (K_EXC_TABLE, v) :: (K_EXC_DB, v) :: acc
  else if (k =? K_MAX_OCCURS) && is_unbounded v then (K_MAX_OCCURS, VInf) :: acc
  else (k, v) :: acc.
Fixpoint apply_kwargs (kw : kwargs) (acc : list (akey * aval)) : list (akey * aval) :=
  match kw with
  | [] => acc
  | kv :: r => apply_kwargs r (apply_kwarg kv acc)
  end.

(** kwargs.get(k, None) *)
Definition kwget (kw : kwargs) (k : akey) : option aval :=
  match zassoc k kw with Some VNone => None | x => x end.

(** the protocol named by the keywords: kwargs.get('protocol') or
    kwargs.get('prot') or kwargs.get('p'), and the keyword set _s_customize
    works with: a COPY of the protocol's type_attrs updated with the keywords,
    when the protocol declares any *)
Definition prot_of (kw : kwargs) : option aval :=
  match kwget kw K_PROTOCOL with
  | Some v => Some v
  | None => match kwget kw K_PROT with Some v => Some v | None => kwget kw K_P end
  end.
Fixpoint zd_update {V} (l items : list (Z * V)) : list (Z * V) :=
  match items with
  | [] => l
  | (k, v) :: r => zd_update (zd_set k v l) r
  end.
Definition eff_kw (s : store) (kw : kwargs) : kwargs :=
  match prot_of kw with
  | Some (VInt p) => match zassoc p (protos s) with
                     | Some (x :: ta) => zd_update (x :: ta) kw
                     | _ => kw
                     end
  | _ => kw
  end.

(** the fresh [class Attributes(cls.Attributes): _explicit_type_name = False]
    plus the re-initialised 'nillable' property *)
Definition fresh_attrs (s : store) (c : cid) : list (akey * aval) :=
  match resolve s c K_NULLABLE with
  | Some v => [(K_NULLABLE, v); (K_EXPLICIT_TN, VBool false)]
  | None => [(K_EXPLICIT_TN, VBool false)]
  end.

(** numbers as compared by Python: int against Decimal('inf') *)
Definition num_ltb (a b : aval) : option bool :=
  match a, b with
  | VNegInf, VNegInf => Some false | VNegInf, (VInt _ | VInf) => Some true
  | VInt _, VNegInf => Some false | VInt x, VInt y => Some (x <? y) | VInt _, VInf => Some true
  | VInf, (VNegInf | VInt _ | VInf) => Some false
  | _, _ => None
  end.
Definition num_leb (a b : aval) : option bool :=
  match num_ltb b a with Some x => Some (negb x) | None => None end.
Definition num_add2 (a : aval) : option aval :=
  match a with
  | VInt z => Some (VInt (z + 2)) | VInf => Some VInf | VNegInf => Some VNegInf
  | _ => None
  end.

Definition raise_if {A} (c : option bool) (e : exn) (k : res A) : res A :=
  match c with
  | Some true => RExn e
  | Some false => k
  | None => RBad 20
  end.
Definition chk (a : option aval) (f : aval -> option bool) (e : exn) {A} (k : res A) : res A :=
  match a with None => k | Some x => raise_if (f x) e k end.

(** Decimal._s_customize (number.py), REPAIRED: max_str_len follows the
    requested total_digits and is otherwise inherited *)
Definition decimal_pre (s : store) (c : cid) (kw : kwargs) : res kwargs :=
  let td := kwget kw K_TOTAL_DIGITS in
  let fd := kwget kw K_FRACTION_DIGITS in
  dor _ <- (match td, fd with
            | Some t, Some f =>
                raise_if (num_leb t (VInt 0)) AssertionError
                  (raise_if (num_ltb t f) AssertionError (ROk tt))
            | _, _ => ROk tt
            end);
  dor kw1 <- (match kwget kw K_MAX_STR_LEN with
              | Some _ => ROk kw
              | None =>
                let kw0 := zd_del K_MAX_STR_LEN kw in
                match td with
                | Some t => match num_add2 t with
                            | Some m => ROk (zd_set K_MAX_STR_LEN m kw0)
                            | None => RBad 21
                            end
                | None => ROk kw0
                end
              end);
  let ge := kwget kw K_GE in let gt := kwget kw K_GT in
  let le := kwget kw K_LE in let lt := kwget kw K_LT in
  dor _ <- (match resolve s c K_MIN_BOUND with
            | Some VNone | None => ROk tt
            | Some minb =>
                chk le (fun x => num_ltb x minb) ValueError
                  (chk lt (fun x => num_leb x minb) ValueError (ROk tt))
            end);
  dor _ <- (match resolve s c K_MAX_BOUND with
            | Some VNone | None => ROk tt
            | Some maxb =>
                chk ge (fun x => num_ltb maxb x) ValueError
                  (chk gt (fun x => num_leb maxb x) ValueError (ROk tt))
            end);
  ROk kw1.

(** attribute of the class being built: own dict first, then the chain of [c] *)
Definition res_own (own : list (akey * aval)) (s : store) (c : cid) (k : akey) : option aval :=
  match zassoc k own with Some v => Some v | None => resolve s c k end.
Definition is_v (x : option aval) (v : aval) : bool :=
  match x with Some y => aval_eqb y v | None => false end.

(** is_default of SimpleModel / Decimal / Unicode / ByteArray *)
Definition is_default (f : family) (a : akey -> option aval) : bool :=
  match f with
  | FByteArray => true
  | FPlain => is_v (a K_VALUES) VEmptySet
  | FDecimal => is_v (a K_VALUES) VEmptySet && is_v (a K_GT) VNegInf && is_v (a K_GE) VNegInf
                && is_v (a K_LT) VInf && is_v (a K_LE) VInf
                && is_v (a K_TOTAL_DIGITS) VInf && is_v (a K_FRACTION_DIGITS) VInf
  | FUnicode => is_v (a K_VALUES) VEmptySet && is_v (a K_MIN_LEN) (VInt 0)
                && is_v (a K_MAX_LEN) VInf && is_v (a K_PATTERN) VNone
  end.

Definition orig_or_self (r : cls) (c : cid) : cid :=
  match c_orig r with Some o => o | None => c end.

(** SimpleModel.customize (also what calling a primitive with keywords does) *)
Definition customize_simple (s : store) (c : cid) (kw : kwargs) : res (store * cid) :=
  match lookup s c with
  | None => RBad 1
  | Some r =>
    match c_kind r with
    | KSimple fam =>
      dor kw1 <- (match fam with FDecimal => decimal_pre s c kw | _ => ROk kw end);
      let own := apply_kwargs (eff_kw s kw1) (fresh_attrs s c) in
      let dflt := is_default fam (res_own own s c) in
      let tnm := match zassoc K_TYPE_NAME kw1 with Some (VStr t) => TStr t | _ => TEmpty end in
      ROk (alloc s (mkcls (KSimple fam) (Some c) own
                          (if dflt then None else Some tnm)
                          (Some (orig_or_self r c))
                          (if dflt then None else Some (Some c))
                          []))
    | _ => RBad 2
    end
  end.

(** * calling a primitive with keywords, T(kw):  SimpleModel.__new__ is customize();
    ByteArray.__new__ first normalises an 'encoding' keyword THAT IS GIVEN and
    names the type after it *)
Definition t_enc_default : text := [85; 83; 69; 95; 68; 69; 70; 65; 85; 76; 84].                 (* USE_DEFAULT *)
Definition t_enc_base64 : text := [66; 65; 83; 69; 54; 52].                                      (* BASE64 *)
Definition t_enc_hex : text := [72; 69; 88].                                                     (* HEX *)
Definition t_enc_urlsafe : text := [85; 82; 76; 83; 65; 70; 69; 95; 66; 65; 83; 69; 54; 52].     (* URLSAFE_BASE64 *)
Definition t_base64 : text := [98; 97; 115; 101; 54; 52].
Definition t_base64Binary : text := [98; 97; 115; 101; 54; 52; 66; 105; 110; 97; 114; 121].
Definition t_urlsafe_base64 : text := [117; 114; 108; 115; 97; 102; 101; 95; 98; 97; 115; 101; 54; 52].
Definition t_hex : text := [104; 101; 120].
Definition t_hexBinary : text := [104; 101; 120; 66; 105; 110; 97; 114; 121].
Definition t_string : text := [115; 116; 114; 105; 110; 103].

Definition enc_norm (v : aval) : option (aval * option text) :=
  match v with
  | VNone => Some (VStr t_enc_default, None)
  | VStr t =>
    if text_eqb t t_base64 || text_eqb t t_base64Binary || text_eqb t t_enc_base64
    then Some (VStr t_enc_base64, Some t_base64Binary)
    else if text_eqb t t_urlsafe_base64 || text_eqb t t_enc_urlsafe
    then Some (VStr t_enc_urlsafe, Some t_string)
    else if text_eqb t t_hex || text_eqb t t_hexBinary || text_eqb t t_enc_hex
    then Some (VStr t_enc_hex, Some t_hexBinary)
    else None
  | _ => None
  end.

Definition bytearray_new (s : store) (c : cid) (kw : kwargs) : res (store * cid) :=
  match zassoc K_ENCODING kw with                 (* 'encoding' in kwargs *)
  | None => customize_simple s c kw
  | Some v =>
    match enc_norm v with
    | None => RExn AttributeError   (* the "raise ValueError(... ByteArray._encoding.handlers ...)" line itself
                                       fails: there is no ByteArray._encoding *)
    | Some (e, tn) =>
      dor (s1, n) <- customize_simple s c (zd_set K_ENCODING e kw);
      ROk (match tn with Some t => upd s1 n (set_tname (TStr t)) | None => s1 end, n)
    end
  end.

Definition call_simple (s : store) (c : cid) (kw : kwargs) : res (store * cid) :=
  match lookup s c with
  | None => RBad 1
  | Some r => match c_kind r with
              | KSimple FByteArray => bytearray_new s c kw
              | KSimple _ => customize_simple s c kw
              | _ => RBad 3
              end
  end.

Definition CID_COMPLEXMODEL : cid := 0.

(** ComplexModelBase.customize without child_attrs*: a copy of the field table,
    registration as a variant of the root class *)
Definition customize_plain (s : store) (c : cid) (kw : kwargs) : res (store * cid) :=
  match lookup s c with
  | None => RBad 1
  | Some r =>
    match c_kind r with
    | KSimple _ => RBad 3
    | k =>
      match get_tname s c with
      | None => RBad 4
      | Some t0 =>
        let own := apply_kwargs (eff_kw s kw) (fresh_attrs s c) in
        let tnm := match zassoc K_TYPE_NAME kw with Some (VStr t) => TStr t | _ => t0 end in
        let root := orig_or_self r c in
        let (s1, n) := alloc s (mkcls k (Some c) own (Some tnm) (Some root)
                                      (Some (get_extends s c)) (c_fields r)) in
        let s2 := set_dca s1 n (match zassoc c (dca s) with Some d => d | None => [] end) in
        ROk (if c =? CID_COMPLEXMODEL then s2 else add_variant s2 root n, n)
      end
    end
  end.

(** [ti[k].customize with kw] on a field type of any kind *)
Definition customize_any (s : store) (c : cid) (kw : kwargs) : res (store * cid) :=
  match lookup s c with
  | None => RBad 1
  | Some r => match c_kind r with
              | KSimple _ => customize_simple s c kw
              | _ => customize_plain s c kw
              end
  end.

Definition fields_of (s : store) (c : cid) : list (fname * cid) :=
  match lookup s c with Some r => c_fields r | None => [] end.

(** [for k, v in ti.items(): ti[k] = ti[k].customize with child_attrs_all] *)
Fixpoint cust_all_fields (s : store) (n : cid) (items : list (fname * cid)) (caa : kwargs)
  : res store :=
  match items with
  | [] => ROk s
  | (k, t) :: r =>
    dor (s1, t1) <- customize_any s t caa;
    cust_all_fields (upd s1 n (fun x => set_fields (od_set k t1 (c_fields x)) x)) n r caa
  end.

(** [for k, v in list(child_attrs.items()): if k in ti: ti[k] = ti[k].customize with v; del child_attrs[k]];
    returns the store and the entries that were not consumed *)
Fixpoint cust_fields (s : store) (n : cid) (ca : list (fname * kwargs))
  : res (store * list (fname * kwargs)) :=
  match ca with
  | [] => ROk (s, [])
  | (k, v) :: r =>
    match tassoc k (fields_of s n) with
    | Some t =>
      dor (s1, t1) <- customize_any s t v;
      cust_fields (upd s1 n (fun x => set_fields (od_set k t1 (c_fields x)) x)) n r
    | None =>
      dor (s1, rest) <- cust_fields s n r;
      ROk (s1, (k, v) :: rest)
    end
  end.

Fixpoint delay (d : list (fname * kwargs)) (rest : list (fname * kwargs)) (base : list (fname * cid))
  : list (fname * kwargs) :=
  match rest with
  | [] => d
  | (k, v) :: r => delay (if tmem k base then d else od_set k v d) r base
  end.

(** ComplexModelBase.customize with _process_child_attrs; [fuel] bounds the walk
    up the __extends__ chain *)
Fixpoint customize_complex (fuel : nat) (s : store) (c : cid) (kw : kwargs)
         (ca : option (list (fname * kwargs))) (caa : option kwargs) : res (store * cid) :=
  match fuel with
  | O => RBad 9
  | S f =>
    dor (s0, n) <- customize_plain s c kw;
    dor s3 <- (match caa with
               | None => ROk s0
               | Some a =>
                 dor s1 <- cust_all_fields s0 n (fields_of s0 n) a;
                 dor s2 <- (match get_extends s1 n with
                            | None => ROk s1
                            | Some e =>
                              dor (s1', e') <- customize_complex f s1 e [] None (Some a);
                              ROk (upd s1' n (set_extends (Some e')))
                            end);
                 ROk (set_dcaa s2 n a)
               end);
    match ca with
    | None => ROk (s3, n)
    | Some d =>
      dor (s4, rest) <- cust_fields s3 n d;
      dor (s5, basefti) <- (match get_extends s4 n with
                            | None => ROk (s4, [])
                            | Some e =>
                              dor (s4', e') <- customize_complex f s4 e [] (Some rest) None;
                              ROk (upd s4' n (set_extends (Some e')), flat s4' e')
                            end);
      let d0 := match zassoc n (dca s5) with Some x => x | None => [] end in
      ROk (set_dca s5 n (delay d0 rest basefti), n)
    end
  end.

(** the child_attrs_noexc preamble of _process_child_attrs (REPAIRED: works on
    copies of the caller's dictionaries) *)
Definition noexc_pre (ca : option (list (fname * kwargs))) (caa : option kwargs)
           (noexc : option (list (fname * kwargs)))
  : option (list (fname * kwargs)) * option kwargs :=
  match noexc with
  | None => (ca, caa)
  | Some ne =>
    let caa' := match caa with
                | None => [(K_EXC, VBool true)]
                | Some a => zd_set K_EXC (VBool true) a
                end in
    let ne' := map (fun kv => (fst kv, zd_set K_EXC (VBool false) (snd kv))) ne in
    (Some (match ca with None => ne' | Some d => od_update d ne' end), Some caa')
  end.

(** customize() of any class, as the user calls it *)
Definition customize (s : store) (c : cid) (kw : kwargs) (ca : option (list (fname * kwargs)))
           (caa : option kwargs) (noexc : option (list (fname * kwargs))) : res (store * cid) :=
  match lookup s c with
  | None => RBad 1
  | Some r =>
    match c_kind r with
    | KSimple _ => match ca, caa, noexc with
                   | None, None, None => customize_simple s c kw
                   | _, _, _ => RBad 5
                   end
    | _ => let (ca', caa') := noexc_pre ca caa noexc in customize_complex FUEL s c kw ca' caa'
    end
  end.

(** * Array of a serializer with keywords / Iterable(...) (wrapped) *)
Definition t_Array : text := [65; 114; 114; 97; 121].
Definition t_OhNoes : text := [79; 104; 78; 111; 101; 115].
Definition t_Mandatory : text := [77; 97; 110; 100; 97; 116; 111; 114; 121].

Definition make_array (s : store) (base : cid) (t : cid) (kw : kwargs) : res (store * cid) :=
  match lookup s base, lookup s t with
  | Some rb, Some rt =>
    match c_kind rb, c_fields rb, c_orig rb with
    | KArray, [], None =>
      (* _get_spyne_type refuses an Array class that has no member yet: "Invalid Array definition" *)
      if match c_kind rt, c_fields rt with KArray, [_] => false | KArray, _ => true | _, _ => false end
      then RExn OtherExn else
      dor (s1, a) <- customize_plain s base kw;
      match get_tname s1 t with
      | None => RBad 4
      | Some tnm =>
        let (member, atn) := match tnm with
                             | TEmpty => (t_OhNoes, TEmpty)
                             | TStr x => (x, TStr (x ++ t_Array))
                             end in
        dor (s2, ser) <- (if is_v (resolve s1 t K_MAX_OCCURS) (VInt 1)
                          then customize_any s1 t [(K_MAX_OCCURS, VInf)]
                          else ROk (s1, t));
        let atn' := match zassoc K_TYPE_NAME kw with Some (VStr x) => TStr x | _ => atn end in
        ROk (upd s2 a (fun r => set_tname atn' (set_fields [(member, ser)] r)), a)
      end
    | _, _, _ => RBad 6
    end
  | _, _ => RBad 1
  end.

(** * Mandatory(cls) (REPAIRED: the member of an Array is made mandatory in
    the new class, not in the argument) *)
Fixpoint mandatory (fuel : nat) (s : store) (c : cid) : res (store * cid) :=
  match fuel with
  | O => RBad 9
  | S f =>
    match lookup s c, get_tname s c with
    | Some r, Some tnm =>
      let kw := [(K_MIN_OCCURS, VInt 1); (K_NULLABLE, VBool false)]
                ++ match tnm with TEmpty => [] | TStr x => [(K_TYPE_NAME, VStr (t_Mandatory ++ x))] end in
      match c_kind r with
      | KSimple FUnicode => customize_simple s c (kw ++ [(K_MIN_LEN, VInt 1)])
      | KSimple _ => customize_simple s c kw
      | KComplex => customize_plain s c kw
      | KArray =>
        match c_fields r with
        | [(k, v)] =>
          if is_v (resolve s v K_MIN_OCCURS) (VInt 0) then
            dor (s1, n) <- customize_plain s c kw;
            dor (s2, v') <- mandatory f s1 v;
            ROk (upd s2 n (fun x => set_fields (od_set k v' (c_fields x)) x), n)
          else customize_plain s c kw
        | _ => RExn ValueError
        end
      end
    | _, _ => RBad 1
    end
  end.

(** * class statement: class <name>(<parent>): f1 = T1; ...  (ComplexModelMeta) *)
Fixpoint all_valid (s : store) (fs : list (fname * cid)) : bool :=
  match fs with
  | [] => true
  | (_, t) :: r =>
    match lookup s t with
    | Some rt => (match c_kind rt, c_fields rt with KArray, [_] => true | KArray, _ => false | _, _ => true end)
                 && all_valid s r
    | None => false
    end
  end.
Fixpoint distinct_keys {V} (fs : list (text * V)) : bool :=
  match fs with
  | [] => true
  | (k, _) :: r => negb (tmem k r) && distinct_keys r
  end.

(** _get_type_info: the base class of a class statement becomes its parent
    (__extends__) when it has members of its own or is itself derived from a
    class ("a base class without members of its own still is a base class") *)
Definition real_base (s : store) (parent : cid) (rp : cls) : bool :=
  match c_fields rp with
  | [] => match get_extends s parent with Some _ => true | None => false end
  | _ :: _ => true
  end.

Definition subclass (s : store) (parent : cid) (name : text) (fs : list (fname * cid))
  : res (store * cid) :=
  match lookup s parent with
  | None => RBad 1
  | Some rp =>
    match c_kind rp with
    | KComplex =>
      if negb (all_valid s fs && distinct_keys fs) then RBad 7
      else if real_base s parent rp then
        match c_orig rp with
        | Some _ => RExn AssertionError   (* "You can't inherit from a customized class" *)
        | None =>
          ROk (alloc s (mkcls KComplex (Some parent) [] (Some (TStr name)) None
                              (Some (Some parent)) (od_update [] fs)))
        end
      else
        match c_orig rp with
        | Some _ => RBad 8
        | None =>
          ROk (alloc s (mkcls KComplex (Some parent) [] (Some (TStr name)) None
                              None (od_update [] fs)))
        end
    | _ => RBad 2
    end
  end.

(** * append_field / insert_field with propagation to the registered variants *)
Definition delayed_type (s : store) (c : cid) (k : fname) (t : cid) : res (store * cid) :=
  dor (s1, t1) <- (match get_dcaa s c with
                   | Some a => customize_any s t a
                   | None => ROk (s, t)
                   end);
  match zassoc c (dca s1) with
  | Some d => match tassoc k d with
              | Some v => customize_any s1 t1 v
              | None => ROk (s1, t1)
              end
  | None => ROk (s1, t1)
  end.

Definition append_impl (s : store) (c : cid) (k : fname) (t : cid) : res store :=
  dor (s1, t1) <- delayed_type s c k t;
  ROk (upd s1 c (fun x => set_fields (od_set k t1 (c_fields x)) x)).

Definition insert_impl (s : store) (c : cid) (i : Z) (k : fname) (t : cid) : res store :=
  dor (s1, t1) <- delayed_type s c k t;
  let s2 := match zassoc c (dca s1) with
            | Some d => if tmem k d then set_dca s1 c (od_del k d) else s1
            | None => s1
            end in
  ROk (upd s2 c (fun x => set_fields (od_insert i k t1 (c_fields x)) x)).

Fixpoint each {A} (f : store -> A -> res store) (s : store) (l : list A) : res store :=
  match l with
  | [] => ROk s
  | x :: r => dor s1 <- f s x; each f s1 r
  end.

(** the modelled language of evolution: a field is added to a ComplexModel
    subclass (not to ComplexModel, Array or Iterable themselves), its type is
    not an unfinished Array, and it is not the class itself or one of its own
    variants (a recursive type built without SelfReference: customizing it on
    behalf of a variant would register a new variant while the registry is
    being iterated) *)
Definition evolvable (s : store) (c t : cid) : bool :=
  match lookup s c, lookup s t with
  | Some r, Some rt =>
    match c_kind r with KComplex => negb (c =? CID_COMPLEXMODEL) | _ => false end
    && match c_kind rt, c_fields rt with KArray, [_] => true | KArray, _ => false | _, _ => true end
    && negb (orig_or_self rt t =? orig_or_self r c)
  | _, _ => false
  end.

Definition append_field (s : store) (c : cid) (k : fname) (t : cid) : res store :=
  if negb (evolvable s c t) then RBad 2
  else dor s1 <- append_impl s c k t;
       each (fun st v => append_impl st v k t) s1
            (match lookup s c with
             | Some r => match c_orig r with None => variants_of s c | Some _ => [] end
             | None => []
             end).

Definition insert_field (s : store) (c : cid) (i : Z) (k : fname) (t : cid) : res store :=
  if negb (evolvable s c t) then RBad 2
  else dor s1 <- insert_impl s c i k t;
       each (fun st v => insert_impl st v i k t) s1
            (match lookup s c with
             | Some r => match c_orig r with None => variants_of s c | Some _ => [] end
             | None => []
             end).

(** * operations and histories *)
Inductive op :=
| OCustomize (c : cid) (kw : kwargs) (ca : option (list (fname * kwargs))) (caa : option kwargs)
             (noexc : option (list (fname * kwargs)))
| OArray (base : cid) (t : cid) (kw : kwargs)
| OMandatory (c : cid)
| OCall (c : cid) (kw : kwargs)
| OSubclass (parent : cid) (name : text) (fs : list (fname * cid))
| OAppend (c : cid) (k : fname) (t : cid)
| OInsert (c : cid) (i : Z) (k : fname) (t : cid).

(** a step returns the new store and, for a derivation, the new class *)
Definition step (s : store) (o : op) : res (store * option cid) :=
  match o with
  | OCustomize c kw ca caa ne => dor (s1, n) <- customize s c kw ca caa ne; ROk (s1, Some n)
  | OArray b t kw => dor (s1, n) <- make_array s b t kw; ROk (s1, Some n)
  | OMandatory c => dor (s1, n) <- mandatory FUEL s c; ROk (s1, Some n)
  | OCall c kw => dor (s1, n) <- call_simple s c kw; ROk (s1, Some n)
  | OSubclass p nm fs => dor (s1, n) <- subclass s p nm fs; ROk (s1, Some n)
  | OAppend c k t => dor s1 <- append_field s c k t; ROk (s1, None)
  | OInsert c i k t => dor s1 <- insert_field s c i k t; ROk (s1, None)
  end.

Definition is_derivation (o : op) : bool :=
  match o with OAppend _ _ _ | OInsert _ _ _ _ => false | _ => true end.

(** a history; an operation that raises leaves the store as it was (the
    harness checks that of the implementation too) *)
Fixpoint run (s : store) (ops : list op) : store :=
  match ops with
  | [] => s
  | o :: r => match step s o with
              | ROk (s1, _) => run s1 r
              | _ => run s r
              end
  end.

(** * validation verdicts as functions of the resolved attributes
    (ModelBase/SimpleModel/Decimal.validate_native on an int or None;
    Decimal.validate_string and Unicode.validate_string on the length of a text or None) *)
Definition as_bool (x : option aval) : option bool :=
  match x with Some (VBool b) => Some b | _ => None end.
Definition opt_and (a : option bool) (b : option bool) : option bool :=
  match a with Some true => b | Some false => Some false | None => None end.

Definition validate_native_int (a : akey -> option aval) (v : option Z) : option bool :=
  match as_bool (a K_NULLABLE) with
  | None => None
  | Some nul =>
    opt_and (Some (nul || match v with Some _ => true | None => false end))
   (opt_and (match a K_VALUES with
             | Some VNone | Some VEmptySet | Some (VInts []) => Some true
             | Some (VInts l) => Some (match v with
                                       | None => nul
                                       | Some z => existsb (Z.eqb z) l
                                       end)
             | _ => None
             end)
            (match v with
             | None => Some true
             | Some z =>
               match a K_GT, a K_GE, a K_LT, a K_LE with
               | Some gt, Some ge, Some lt, Some le =>
                 opt_and (num_ltb gt (VInt z)) (opt_and (num_leb ge (VInt z))
                   (opt_and (num_ltb (VInt z) lt) (num_leb (VInt z) le)))
               | _, _, _, _ => None
               end
             end))
  end.

Definition validate_string_dec (a : akey -> option aval) (len : option Z) : option bool :=
  match as_bool (a K_NULLABLE) with
  | None => None
  | Some nul =>
    opt_and (Some (nul || match len with Some _ => true | None => false end))
            (match len with
             | None => Some true
             | Some n => match a K_MAX_STR_LEN with
                         | Some m => num_leb (VInt n) m
                         | None => None
                         end
             end)
  end.

Definition validate_string_uni (a : akey -> option aval) (len : option Z) : option bool :=
  match as_bool (a K_NULLABLE) with
  | None => None
  | Some nul =>
    opt_and (Some (nul || match len with Some _ => true | None => false end))
            (match len with
             | None => Some true
             | Some n => match a K_MIN_LEN, a K_MAX_LEN with
                         | Some lo, Some hi => opt_and (num_leb lo (VInt n)) (num_leb (VInt n) hi)
                         | _, _ => None
                         end
             end)
  end.

Definition int_probes : list (option Z) := [None; Some (-1); Some 0; Some 1; Some 5; Some 10; Some 100].
Definition len_probes : list (option Z) := [None; Some 0; Some 1; Some 3; Some 10; Some 13; Some 2000].

(** the verdicts of class [c] on the probe values, for a class of the
    Integer family ([FDecimal]) or the Unicode family *)
Definition verdicts (s : store) (c : cid) : list (option bool) :=
  match lookup s c with
  | Some r =>
    match c_kind r with
    | KSimple FDecimal => map (validate_native_int (resolve s c)) int_probes
                          ++ map (validate_string_dec (resolve s c)) len_probes
    | KSimple FUnicode => map (validate_string_uni (resolve s c)) len_probes
    | _ => []
    end
  | None => []
  end.

(** * handles: the harness names classes by their position in the pool of
    classes it was handed back, the store by identity *)
Definition pool := list cid.
Definition hget (p : pool) (h : Z) : option cid :=
  if h <? 0 then None else nth_error p (Z.to_nat h).
Fixpoint hfields (p : pool) (fs : list (fname * Z)) : option (list (fname * cid)) :=
  match fs with
  | [] => Some []
  | (k, h) :: r => match hget p h, hfields p r with
                   | Some c, Some r' => Some ((k, c) :: r')
                   | _, _ => None
                   end
  end.
Definition hop (p : pool) (o : op) : option op :=
  match o with
  | OCustomize h kw ca caa ne =>
      match hget p h with Some c => Some (OCustomize c kw ca caa ne) | None => None end
  | OArray b t kw =>
      match hget p b, hget p t with Some b', Some t' => Some (OArray b' t' kw) | _, _ => None end
  | OMandatory h => match hget p h with Some c => Some (OMandatory c) | None => None end
  | OCall h kw => match hget p h with Some c => Some (OCall c kw) | None => None end
  | OSubclass h nm fs =>
      match hget p h, hfields p fs with
      | Some c, Some fs' => Some (OSubclass c nm fs') | _, _ => None end
  | OAppend h k t =>
      match hget p h, hget p t with Some c, Some t' => Some (OAppend c k t') | _, _ => None end
  | OInsert h i k t =>
      match hget p h, hget p t with Some c, Some t' => Some (OInsert c i k t') | _, _ => None end
  end.
Definition hstep (s : store) (p : pool) (o : op) : res (store * pool) :=
  match hop p o with
  | None => RBad 1
  | Some o' => dor (s1, r) <- step s o';
               ROk (s1, match r with Some n => p ++ [n] | None => p end)
  end.
