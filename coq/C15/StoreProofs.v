(** C15: lemmas about the class store: lookups after the primitive moves
    (allocate a class, rewrite one class, extend a registry), the extension
    order between stores, preservation of the invariants by the primitive
    moves, and the agreement lemma: what is observed of a class depends only on
    the classes it refers to. *)
From Coq Require Import ZArith List Bool Lia.
From SpyneV Require Import C15.Spec C15.OdictProofs.
Import ListNotations.
Open Scope Z_scope.

(** * lists of classes *)
Lemma nth_cls_some : forall l c r, nth_cls l c = Some r -> 0 <= c < Z.of_nat (length l).
Proof.
  unfold nth_cls. intros. destruct (c <? 0) eqn:E; try discriminate.
  apply Z.ltb_ge in E. assert (Z.to_nat c < length l)%nat.
  { apply nth_error_Some. congruence. }
  lia.
Qed.

Lemma nth_cls_In : forall l c r, nth_cls l c = Some r -> In r l.
Proof.
  unfold nth_cls. intros. destruct (c <? 0); try discriminate. eapply nth_error_In; eauto.
Qed.

Lemma nth_cls_lt_some : forall l c, 0 <= c < Z.of_nat (length l) -> exists r, nth_cls l c = Some r.
Proof.
  unfold nth_cls. intros. destruct (c <? 0) eqn:E; try (apply Z.ltb_lt in E; lia).
  destruct (nth_error l (Z.to_nat c)) eqn:N; eauto.
  apply nth_error_None in N. lia.
Qed.

Lemma nth_cls_app_old : forall l l' c, c < Z.of_nat (length l) -> nth_cls (l ++ l') c = nth_cls l c.
Proof.
  unfold nth_cls. intros. destruct (c <? 0) eqn:E; auto.
  apply Z.ltb_ge in E. apply nth_error_app1. lia.
Qed.

Lemma nth_cls_app_new : forall l r, nth_cls (l ++ [r]) (Z.of_nat (length l)) = Some r.
Proof.
  unfold nth_cls. intros. destruct (Z.of_nat (length l) <? 0) eqn:E; try (apply Z.ltb_lt in E; lia).
  rewrite Nat2Z.id. rewrite nth_error_app2 by lia. rewrite Nat.sub_diag. auto.
Qed.

Lemma nth_cls_app_inv : forall l r c r',
  nth_cls (l ++ [r]) c = Some r' ->
  nth_cls l c = Some r' \/ (c = Z.of_nat (length l) /\ r' = r).
Proof.
  intros. pose proof (nth_cls_some _ _ _ H) as B. rewrite app_length in B. simpl in B.
  destruct (Z.eq_dec c (Z.of_nat (length l))).
  - subst. rewrite nth_cls_app_new in H. inversion H. auto.
  - left. rewrite nth_cls_app_old in H by lia. auto.
Qed.

Lemma length_list_upd : forall (A : Type) (l : list A) n f, length (list_upd l n f) = length l.
Proof. induction l; destruct n; simpl; auto. Qed.

Lemma nth_error_list_upd_same : forall (A : Type) (l : list A) n f r,
  nth_error l n = Some r -> nth_error (list_upd l n f) n = Some (f r).
Proof.
  induction l; destruct n; simpl; intros; try discriminate; auto. inversion H. auto.
Qed.

Lemma nth_error_list_upd_other : forall (A : Type) (l : list A) n m f,
  n <> m -> nth_error (list_upd l n f) m = nth_error l m.
Proof.
  induction l; destruct n; destruct m; simpl; intros; auto; try congruence.
Qed.

Lemma nth_cls_upd_same : forall l c f r,
  nth_cls l c = Some r -> nth_cls (list_upd l (Z.to_nat c) f) c = Some (f r).
Proof.
  unfold nth_cls. intros. destruct (c <? 0); try discriminate.
  apply nth_error_list_upd_same. auto.
Qed.

Lemma nth_cls_upd_other : forall l c x f,
  0 <= c -> c <> x -> nth_cls (list_upd l (Z.to_nat c) f) x = nth_cls l x.
Proof.
  unfold nth_cls. intros. destruct (x <? 0) eqn:E; auto. apply Z.ltb_ge in E.
  apply nth_error_list_upd_other. lia.
Qed.

(** * the store *)
Lemma size_nonneg : forall s, 0 <= size s.
Proof. unfold size. intros. lia. Qed.

Lemma lookup_some : forall s c r, lookup s c = Some r -> 0 <= c < size s.
Proof. unfold lookup, size. intros. eapply nth_cls_some; eauto. Qed.

Lemma lookup_lt_some : forall s c, 0 <= c < size s -> exists r, lookup s c = Some r.
Proof. unfold lookup, size. intros. apply nth_cls_lt_some. auto. Qed.

Lemma size_alloc : forall s r, size (fst (alloc s r)) = size s + 1.
Proof. unfold alloc, size. simpl. intros. rewrite app_length. simpl. lia. Qed.

Lemma lookup_alloc_old : forall s r c, c < size s -> lookup (fst (alloc s r)) c = lookup s c.
Proof. unfold lookup, alloc, size. simpl. intros. apply nth_cls_app_old. auto. Qed.

Lemma lookup_alloc_new : forall s r, lookup (fst (alloc s r)) (size s) = Some r.
Proof. unfold lookup, alloc, size. simpl. intros. apply nth_cls_app_new. Qed.

Lemma lookup_alloc_inv : forall s r c r',
  lookup (fst (alloc s r)) c = Some r' -> lookup s c = Some r' \/ (c = size s /\ r' = r).
Proof. unfold lookup, alloc, size. simpl. intros. apply nth_cls_app_inv. auto. Qed.

Lemma size_upd : forall s c f, size (upd s c f) = size s.
Proof.
  unfold upd, size. intros. destruct (c <? 0); auto. simpl. rewrite length_list_upd. auto.
Qed.

Lemma lookup_upd_same : forall s c f r, lookup s c = Some r -> lookup (upd s c f) c = Some (f r).
Proof.
  intros. pose proof (lookup_some _ _ _ H). unfold upd.
  destruct (c <? 0) eqn:E; try (apply Z.ltb_lt in E; lia).
  unfold lookup in *. simpl. apply nth_cls_upd_same. auto.
Qed.

Lemma lookup_upd_other : forall s c f x, c <> x -> lookup (upd s c f) x = lookup s x.
Proof.
  intros. unfold upd. destruct (c <? 0) eqn:E; auto. apply Z.ltb_ge in E.
  unfold lookup. simpl. apply nth_cls_upd_other; auto.
Qed.

Lemma lookup_upd_inv : forall s c f x r',
  lookup (upd s c f) x = Some r' ->
  exists r, lookup s x = Some r /\ (r' = r \/ (x = c /\ r' = f r)).
Proof.
  intros. destruct (Z.eq_dec c x).
  - subst. assert (B : 0 <= x < size s) by (rewrite <- (size_upd s x f); eapply lookup_some; eauto).
    destruct (lookup_lt_some _ _ B) as [r Hr]. rewrite (lookup_upd_same _ _ f _ Hr) in H.
    inversion H. eauto.
  - rewrite lookup_upd_other in H by auto. eauto.
Qed.

Lemma variants_upd : forall s c f, variants (upd s c f) = variants s.
Proof. unfold upd. intros. destruct (c <? 0); auto. Qed.
Lemma dca_upd : forall s c f, dca (upd s c f) = dca s.
Proof. unfold upd. intros. destruct (c <? 0); auto. Qed.
Lemma dcaa_upd : forall s c f, dcaa (upd s c f) = dcaa s.
Proof. unfold upd. intros. destruct (c <? 0); auto. Qed.

(** * the extension order *)
Definition static_eq (r r' : cls) : Prop :=
  c_kind r' = c_kind r /\ c_base r' = c_base r /\ c_attrs r' = c_attrs r /\ c_orig r' = c_orig r.

Lemma static_eq_refl : forall r, static_eq r r.
Proof. unfold static_eq. auto. Qed.
Lemma static_eq_trans : forall a b c, static_eq a b -> static_eq b c -> static_eq a c.
Proof. unfold static_eq. intros a b c [? [? [? ?]]] [? [? [? ?]]]. repeat split; congruence. Qed.
Lemma static_set_fields : forall fs r, static_eq r (set_fields fs r).
Proof. unfold static_eq. auto. Qed.
Lemma static_set_extends : forall e r, static_eq r (set_extends e r).
Proof. unfold static_eq. auto. Qed.
Lemma static_set_tname : forall t r, static_eq r (set_tname t r).
Proof. unfold static_eq. auto. Qed.

(** [ext b s s']: [s'] has all the classes of [s]; those below [b] are
    identical, all keep kind, base class, own attributes and __orig__; the
    registry of variants only grows *)
Definition ext (b : Z) (s s' : store) : Prop :=
  size s <= size s' /\
  (forall c, 0 <= c < b -> lookup s' c = lookup s c) /\
  (forall c r, lookup s c = Some r -> exists r', lookup s' c = Some r' /\ static_eq r r') /\
  incl (variants s) (variants s').

Lemma ext_refl : forall b s, ext b s s.
Proof.
  unfold ext. intros. repeat split; auto; try lia.
  - intros. exists r. split; auto. apply static_eq_refl.
  - apply incl_refl.
Qed.

Lemma ext_trans : forall b s1 s2 s3, ext b s1 s2 -> ext b s2 s3 -> ext b s1 s3.
Proof.
  unfold ext. intros b s1 s2 s3 [A1 [A2 [A3 A4]]] [B1 [B2 [B3 B4]]]. repeat split.
  - lia.
  - intros. rewrite B2, A2; auto.
  - intros. destruct (A3 _ _ H) as [r' [H1 H2]]. destruct (B3 _ _ H1) as [r'' [H3 H4]].
    exists r''. split; auto. eapply static_eq_trans; eauto.
  - eapply incl_tran; eauto.
Qed.

Lemma ext_weaken : forall b b' s s', b' <= b -> ext b s s' -> ext b' s s'.
Proof.
  unfold ext. intros b b' s s' L [A1 [A2 [A3 A4]]]. repeat split; auto.
  intros. apply A2. lia.
Qed.

Lemma ext_size : forall b s s', ext b s s' -> size s <= size s'.
Proof. unfold ext. tauto. Qed.

Lemma ext_alloc : forall s r, ext (size s) s (fst (alloc s r)).
Proof.
  unfold ext. intros. repeat split.
  - rewrite size_alloc. lia.
  - intros. apply lookup_alloc_old. lia.
  - intros. exists r0. split; [| apply static_eq_refl].
    rewrite lookup_alloc_old; auto. apply lookup_some in H. lia.
  - unfold alloc. simpl. apply incl_refl.
Qed.

Lemma ext_upd : forall b s c f,
  b <= c -> (forall r, static_eq r (f r)) -> ext b s (upd s c f).
Proof.
  unfold ext. intros. repeat split.
  - rewrite size_upd. lia.
  - intros. apply lookup_upd_other. lia.
  - intros. destruct (Z.eq_dec c c0).
    + subst. exists (f r). split; auto. apply lookup_upd_same. auto.
    + exists r. split; [| apply static_eq_refl]. rewrite lookup_upd_other; auto.
  - rewrite variants_upd. apply incl_refl.
Qed.

Lemma ext_add_variant : forall b s root v, ext b s (add_variant s root v).
Proof.
  unfold ext, add_variant, lookup, size. simpl. intros. repeat split; auto; try lia.
  - intros. exists r. split; auto. apply static_eq_refl.
  - apply incl_appl. apply incl_refl.
Qed.

Lemma ext_set_dca : forall b s c d, ext b s (set_dca s c d).
Proof.
  unfold ext, set_dca, lookup, size. simpl. intros. repeat split; auto; try lia.
  - intros. exists r. split; auto. apply static_eq_refl.
  - apply incl_refl.
Qed.

Lemma ext_set_dcaa : forall b s c d, ext b s (set_dcaa s c d).
Proof.
  unfold ext, set_dcaa, lookup, size. simpl. intros. repeat split; auto; try lia.
  - intros. exists r. split; auto. apply static_eq_refl.
  - apply incl_refl.
Qed.

(** * well-formedness under the primitive moves *)
Lemma ref_ok_mono : forall n m c, n <= m -> ref_ok n c -> ref_ok m c.
Proof. unfold ref_ok. intros. lia. Qed.

Lemma cls_ok_mono : forall n m r, n <= m -> cls_ok n r -> cls_ok m r.
Proof.
  unfold cls_ok. intros n m r L [A [B [C [D E]]]]. repeat split; auto; intros.
  - eapply ref_ok_mono; eauto.
  - eapply ref_ok_mono; eauto.
  - eapply ref_ok_mono; eauto.
  - eapply ref_ok_mono; eauto.
  - eapply ref_ok_mono; eauto.
  - eapply ref_ok_mono; eauto.
  - eapply ref_ok_mono; eauto.
  - eapply ref_ok_mono; eauto.
Qed.

Lemma wf_lookup : forall s c r, wf s -> lookup s c = Some r -> cls_ok (size s) r.
Proof.
  unfold wf, lookup. intros s c r [A _] H. apply nth_cls_In in H.
  rewrite Forall_forall in A. auto.
Qed.

Lemma wf_variant : forall s o v, wf s -> In (o, v) (variants s) ->
  ref_ok (size s) o /\ ref_ok (size s) v /\ o < v.
Proof.
  unfold wf. intros s o v [_ [B _]] H. rewrite Forall_forall in B. apply (B (o, v)). auto.
Qed.

Lemma var_ok_mono : forall n m p, n <= m -> var_ok n p -> var_ok m p.
Proof.
  unfold var_ok. intros n m p L [A [B C]].
  split; [eapply ref_ok_mono; eauto | split; [eapply ref_ok_mono; eauto | auto]].
Qed.

Lemma wf_alloc : forall s r, wf s -> cls_ok (size s) r -> wf (fst (alloc s r)).
Proof.
  intros s r [A [B C]] H. unfold wf. rewrite size_alloc. split; [| split].
  - unfold alloc. simpl. apply Forall_app. split.
    + eapply Forall_impl; [| apply A]. intros. eapply cls_ok_mono; [| eauto]. lia.
    + constructor; auto. eapply cls_ok_mono; [| eauto]. lia.
  - unfold alloc. simpl. eapply Forall_impl; [| apply B]. intros. eapply var_ok_mono; [| eauto]. lia.
  - unfold alloc. simpl. auto.
Qed.

Lemma Forall_list_upd : forall (A : Type) (P : A -> Prop) l n f,
  Forall P l -> (forall x, P x -> P (f x)) -> Forall P (list_upd l n f).
Proof.
  induction l; destruct n; simpl; intros; auto; inversion H; subst; constructor; auto.
Qed.

Lemma wf_upd : forall s c f,
  wf s -> (forall r, cls_ok (size s) r -> cls_ok (size s) (f r)) -> wf (upd s c f).
Proof.
  intros s c f [A [B C]] H. unfold wf. rewrite size_upd. rewrite variants_upd.
  split; [| split; auto].
  unfold upd. destruct (c <? 0); auto. simpl. apply Forall_list_upd; auto.
Qed.

Lemma NoDup_snoc : forall (A : Type) (l : list A) x, NoDup l -> ~ In x l -> NoDup (l ++ [x]).
Proof.
  induction l; simpl; intros x ND H.
  - constructor; auto.
  - inversion ND; subst. constructor.
    + rewrite in_app_iff. simpl. intros [X | [X | []]]; auto.
    + apply IHl; auto.
Qed.

Lemma wf_add_variant : forall s root v,
  wf s -> ref_ok (size s) root -> ref_ok (size s) v -> root < v ->
  ~ In v (map snd (variants s)) -> wf (add_variant s root v).
Proof.
  intros s root v [A [B C]] H1 H2 H3 H4. unfold wf, add_variant, size in *. simpl.
  split; [auto | split].
  - apply Forall_app. split; auto. constructor; auto. unfold var_ok. simpl. auto.
  - rewrite map_app. simpl. apply NoDup_snoc; auto.
Qed.

Lemma wf_set_dca : forall s c d, wf s -> wf (set_dca s c d).
Proof. unfold wf, set_dca, size. simpl. auto. Qed.
Lemma wf_set_dcaa : forall s c d, wf s -> wf (set_dcaa s c d).
Proof. unfold wf, set_dcaa, size. simpl. auto. Qed.

Lemma cls_ok_set_fields : forall n fs r,
  cls_ok n r -> (forall k t, In (k, t) fs -> ref_ok n t) -> NoDup (map fst fs) ->
  cls_ok n (set_fields fs r).
Proof.
  unfold cls_ok. intros n fs r [A [B [C [D E]]]] H N. simpl.
  split; [exact A | split; [exact B | split; [exact C | split; [exact H | exact N]]]].
Qed.

Lemma cls_ok_set_extends : forall n e r,
  cls_ok n r -> (forall x, e = Some x -> ref_ok n x) -> cls_ok n (set_extends e r).
Proof.
  unfold cls_ok. intros n e r [A [B [C [D E]]]] H. simpl.
  split; [exact A | split; [exact B | split; [| split; [exact D | exact E]]]].
  intros. inversion H0. subst. auto.
Qed.

Lemma cls_ok_set_tname : forall n t r, cls_ok n r -> cls_ok n (set_tname t r).
Proof.
  unfold cls_ok. intros n t r [A [B [C [D E]]]]. simpl.
  split; [exact A | split; [exact B | split; [exact C | split; [exact D | exact E]]]].
Qed.

Lemma cls_ok_od_set : forall n k t r,
  cls_ok n r -> ref_ok n t -> cls_ok n (set_fields (od_set k t (c_fields r)) r).
Proof.
  intros. apply cls_ok_set_fields; auto.
  - intros. apply In_od_set in H1. destruct H1 as [[? ?] | H1]; subst; auto.
    destruct H as [_ [_ [_ [D _]]]]. eapply D; eauto.
  - apply NoDup_od_set. destruct H as [_ [_ [_ [_ E]]]]. auto.
Qed.

Lemma cls_ok_od_insert : forall n i k t r,
  cls_ok n r -> ref_ok n t -> cls_ok n (set_fields (od_insert i k t (c_fields r)) r).
Proof.
  intros. apply cls_ok_set_fields; auto.
  - intros. apply In_od_insert in H1. destruct H1 as [H1 | H1].
    + inversion H1; subst; auto.
    + destruct H as [_ [_ [_ [D _]]]]. eapply D; eauto.
  - apply NoDup_od_insert. destruct H as [_ [_ [_ [_ E]]]]. auto.
Qed.

(** * completeness of the registry under the primitive moves *)
Lemma complete_alloc : forall s r,
  complete s ->
  (is_simple (c_kind r) = true \/ c_orig r = None \/ c_base r = Some CID_COMPLEXMODEL) ->
  complete (fst (alloc s r)).
Proof.
  unfold complete. intros s r C H x r' o L S O B.
  apply lookup_alloc_inv in L. destruct L as [L | [? ?]].
  - unfold alloc. simpl. eapply C; eauto.
  - subst. destruct H as [H | [H | H]]; congruence.
Qed.

Lemma complete_same_dom : forall s s',
  complete s ->
  (forall x r', lookup s' x = Some r' -> exists r, lookup s x = Some r /\ static_eq r r') ->
  incl (variants s) (variants s') ->
  complete s'.
Proof.
  unfold complete. intros s s' C H I x r' o L S O B.
  destruct (H _ _ L) as [r [Lr [E1 [E2 [E3 E4]]]]].
  apply I. eapply C; eauto; congruence.
Qed.

Lemma complete_upd : forall s c f,
  complete s -> (forall r, static_eq r (f r)) -> complete (upd s c f).
Proof.
  intros. eapply complete_same_dom; eauto.
  - intros. apply lookup_upd_inv in H1. destruct H1 as [r [L [E | [E1 E2]]]]; subst.
    + exists r. split; auto. apply static_eq_refl.
    + exists r. split; auto.
  - rewrite variants_upd. apply incl_refl.
Qed.

Lemma complete_add_variant : forall s root v, complete s -> complete (add_variant s root v).
Proof.
  intros. eapply complete_same_dom; eauto.
  - intros. exists r'. split; auto. apply static_eq_refl.
  - unfold add_variant. simpl. apply incl_appl. apply incl_refl.
Qed.

Lemma complete_set_dca : forall s c d, complete s -> complete (set_dca s c d).
Proof. unfold complete, set_dca, lookup. simpl. auto. Qed.
Lemma complete_set_dcaa : forall s c d, complete s -> complete (set_dcaa s c d).
Proof. unfold complete, set_dcaa, lookup. simpl. auto. Qed.

(** * boolean checks are sound *)
Lemma ref_okb_ok : forall n c, ref_okb n c = true -> ref_ok n c.
Proof. unfold ref_okb, ref_ok. intros. apply andb_true_iff in H. lia. Qed.

Lemma cls_okb_ok : forall n r, cls_okb n r = true -> cls_ok n r.
Proof.
  unfold cls_okb, cls_ok. intros n r H.
  repeat (apply andb_true_iff in H; destruct H as [H ?]).
  split; [| split; [| split; [| split]]]; intros.
  - rewrite H4 in H. simpl in H. apply ref_okb_ok. auto.
  - rewrite H4 in H3. simpl in H3. apply ref_okb_ok. auto.
  - rewrite H4 in H2. apply ref_okb_ok. auto.
  - rewrite forallb_forall in H1. apply ref_okb_ok. apply (H1 (k, t)). auto.
  - apply nodupb_NoDup. auto.
Qed.

Lemma zmemb_In : forall x l, zmemb x l = true <-> In x l.
Proof.
  induction l; simpl; split; intros H; try discriminate; try contradiction.
  - apply orb_true_iff in H. destruct H as [H | H].
    + apply Z.eqb_eq in H. auto.
    + right. apply IHl. auto.
  - apply orb_true_iff. destruct H as [H | H].
    + subst. left. apply Z.eqb_refl.
    + right. apply IHl. auto.
Qed.

Lemma znodupb_NoDup : forall l, znodupb l = true -> NoDup l.
Proof.
  induction l; simpl; intros H.
  - constructor.
  - apply andb_true_iff in H. destruct H as [H1 H2]. constructor; auto.
    intros X. apply zmemb_In in X. rewrite X in H1. discriminate.
Qed.

Lemma wfb_wf : forall s, wfb s = true -> wf s.
Proof.
  unfold wfb, wf. intros s H. apply andb_true_iff in H. destruct H as [H C].
  apply andb_true_iff in H. destruct H as [A B].
  rewrite forallb_forall in A, B. split; [| split].
  - apply Forall_forall; intros. apply cls_okb_ok. auto.
  - apply Forall_forall; intros. apply B in H. apply andb_true_iff in H. destruct H as [H H3].
    apply andb_true_iff in H. destruct H as [H1 H2]. unfold var_ok.
    split; [apply ref_okb_ok; auto | split; [apply ref_okb_ok; auto | apply Z.ltb_lt; auto]].
  - apply znodupb_NoDup. auto.
Qed.

Lemma pair_mem_In : forall o x l, pair_mem o x l = true -> In (o, x) l.
Proof.
  unfold pair_mem. intros. apply existsb_exists in H. destruct H as [[a b] [H1 H2]].
  simpl in H2. apply andb_true_iff in H2. destruct H2 as [E1 E2].
  apply Z.eqb_eq in E1, E2. subst. auto.
Qed.

Lemma completeb_from_ok : forall l i v,
  0 <= i -> completeb_from i l v = true ->
  forall x r o, 0 <= x -> nth_error l (Z.to_nat x) = Some r -> is_simple (c_kind r) = false ->
    c_orig r = Some o -> c_base r <> Some CID_COMPLEXMODEL -> In (o, i + x) v.
Proof.
  induction l; intros i v I H x r o X N SI O B.
  - destruct (Z.to_nat x); discriminate.
  - simpl in H. apply andb_true_iff in H. destruct H as [H1 H2].
    destruct (Z.eq_dec x 0).
    + subst. simpl in N. inversion N; subst. rewrite SI, O in H1. simpl in H1.
      rewrite Z.add_0_r. destruct (c_base r) as [b |].
      * apply orb_true_iff in H1. destruct H1 as [H1 | H1].
        -- apply Z.eqb_eq in H1. subst. congruence.
        -- apply pair_mem_In. auto.
      * apply pair_mem_In. auto.
    + assert (E : Z.to_nat x = S (Z.to_nat (x - 1))) by lia.
      rewrite E in N. simpl in N.
      replace (i + x) with ((i + 1) + (x - 1)) by lia.
      eapply IHl; eauto; lia.
Qed.

Lemma completeb_complete : forall s, completeb s = true -> complete s.
Proof.
  unfold completeb, complete, lookup, nth_cls. intros s H x r o L S O B.
  destruct (x <? 0) eqn:E; try discriminate. apply Z.ltb_ge in E.
  replace x with (0 + x) by lia. eapply completeb_from_ok; eauto. lia.
Qed.

(** * agreement: lookups along the base chain, and the snapshot, depend only
    on a set of classes that is closed under "refers to" *)
Definition closedP (l : list cls) (P : cid -> Prop) : Prop :=
  forall x r, P x -> nth_cls l x = Some r ->
    (forall b, c_base r = Some b -> P b) /\
    (forall e, c_extends r = Some (Some e) -> P e) /\
    (forall k t, In (k, t) (c_fields r) -> P t).

Local Opaque FUEL obs_keys.

Section Agree.
Variables (l l1 : list cls) (P : cid -> Prop).
Hypothesis AG : forall x, P x -> nth_cls l1 x = nth_cls l x.
Hypothesis CL : closedP l P.

Lemma resolve_agree : forall fuel c k, P c -> resolve_f fuel l1 c k = resolve_f fuel l c k.
Proof.
  induction fuel; simpl; intros; auto.
  rewrite AG by auto. destruct (nth_cls l c) as [r |] eqn:N; auto.
  destruct (zassoc k (c_attrs r)); auto.
  destruct (c_base r) as [b |] eqn:B; auto.
  apply IHfuel. destruct (CL _ _ H N) as [X _]. auto.
Qed.

Lemma tname_agree : forall fuel c, P c -> tname_f fuel l1 c = tname_f fuel l c.
Proof.
  induction fuel; simpl; intros; auto.
  rewrite AG by auto. destruct (nth_cls l c) as [r |] eqn:N; auto.
  destruct (c_tname r); auto.
  destruct (c_base r) as [b |] eqn:B; auto.
  apply IHfuel. destruct (CL _ _ H N) as [X _]. auto.
Qed.

Lemma extends_agree : forall fuel c, P c -> extends_f fuel l1 c = extends_f fuel l c.
Proof.
  induction fuel; simpl; intros; auto.
  rewrite AG by auto. destruct (nth_cls l c) as [r |] eqn:N; auto.
  destruct (c_extends r); auto.
  destruct (c_base r) as [b |] eqn:B; auto.
  apply IHfuel. destruct (CL _ _ H N) as [X _]. auto.
Qed.

Lemma extends_in_P : forall fuel c e, P c -> extends_f fuel l c = Some e -> P e.
Proof.
  induction fuel; simpl; intros; try discriminate.
  destruct (nth_cls l c) as [r |] eqn:N; try discriminate.
  destruct (CL _ _ H N) as [X [Y _]].
  destruct (c_extends r) as [oe |] eqn:E.
  - subst. apply Y. auto.
  - destruct (c_base r) as [b |] eqn:B; try discriminate. apply (IHfuel b e); auto.
Qed.

Lemma obs_attrs_agree : forall fuel c ks, P c -> obs_attrs fuel l1 c ks = obs_attrs fuel l c ks.
Proof.
  induction ks; simpl; intros; auto.
  rewrite resolve_agree by auto. rewrite IHks by auto. auto.
Qed.

Lemma obs_agree : forall depth fuel c, P c -> obs_f depth fuel l1 c = obs_f depth fuel l c.
Proof.
  induction depth; simpl; intros; [reflexivity |].
  rewrite AG by exact H. destruct (nth_cls l c) as [r |] eqn:N; [| reflexivity].
  destruct (CL _ _ H N) as [X [Y Z]].
  rewrite tname_agree, obs_attrs_agree, extends_agree by exact H.
  f_equal.
  - destruct (extends_f fuel l c) as [e |] eqn:E; auto.
    apply IHdepth. eapply extends_in_P; eauto.
  - apply map_ext_in. intros [k t] HI. simpl. f_equal. apply IHdepth. eapply Z; eauto.
Qed.

Lemma flat_agree : forall fuel c, P c -> flat_f fuel l1 c = flat_f fuel l c.
Proof.
  induction fuel; simpl; intros; auto.
  rewrite AG by auto. destruct (nth_cls l c) as [r |] eqn:N; auto.
  rewrite extends_agree by auto.
  destruct (extends_f FUEL l c) as [e |] eqn:E; auto.
  rewrite IHfuel; auto. eapply extends_in_P; eauto.
Qed.

Lemma flat_types_in_P : forall fuel c k t, P c -> In (k, t) (flat_f fuel l c) -> P t.
Proof.
  induction fuel; simpl; intros c k t Pc HI; [contradiction |].
  destruct (nth_cls l c) as [r |] eqn:N; [| contradiction].
  destruct (CL _ _ Pc N) as [_ [_ Z]].
  apply In_od_update in HI. destruct HI as [HI | HI].
  - destruct (extends_f FUEL l c) as [e |] eqn:E; [| contradiction].
    eapply IHfuel; [eapply extends_in_P; eauto | exact HI].
  - eapply Z; eauto.
Qed.

Lemma alias_list_agree : forall (res res1 : cid -> akey -> option aval) fl,
  (forall k t, In (k, t) fl -> forall a, res1 t a = res t a) ->
  alias_list res1 fl = alias_list res fl.
Proof.
  induction fl as [| [k t] fl IH]; simpl; intros H; [reflexivity |].
  rewrite !(H k t (or_introl eq_refl)). rewrite IH; [reflexivity |].
  intros. eapply H. right. eauto.
Qed.

End Agree.

(** in a well-formed store the classes below any bound that covers the store
    are closed under "refers to" *)
Lemma wf_closed : forall s, wf s -> closedP (cl s) (fun x => 0 <= x < size s).
Proof.
  unfold closedP. intros s W x r Hx N.
  assert (K : cls_ok (size s) r) by (eapply wf_lookup; eauto).
  destruct K as [A [B [C [D E]]]]. unfold ref_ok in *. repeat split; intros; eauto.
  - apply A in H. lia.
  - apply A in H. lia.
  - apply C in H. lia.
  - apply C in H. lia.
  - apply D in H. lia.
  - apply D in H. lia.
Qed.

(** classes that do not reach a set [T] are closed under "refers to" *)
Lemma reaches_trans_step : forall l x r y z,
  nth_cls l x = Some r -> ref_of r y -> reaches l y z -> reaches l x z.
Proof. intros. eapply reaches_step; eauto. Qed.

Lemma avoid_closed : forall s (T : list cid), wf s ->
  closedP (cl s) (fun x => 0 <= x < size s /\ forall z, In z T -> ~ reaches (cl s) x z).
Proof.
  unfold closedP. intros s T W x r [Hx NR] N.
  destruct (wf_closed s W x r Hx N) as [A [B C]].
  repeat split; intros.
  - apply A in H. lia.
  - apply A in H. lia.
  - intros R. apply (NR z H0). eapply reaches_step; eauto. left. auto.
  - apply B in H. lia.
  - apply B in H. lia.
  - intros R. apply (NR z H0). eapply reaches_step; eauto. right. left. auto.
  - apply C in H. lia.
  - apply C in H. lia.
  - intros R. apply (NR z H0). eapply reaches_step; eauto. right. right. eauto.
Qed.
