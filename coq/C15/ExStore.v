(** C15: a small concrete store (the pool the harness starts from, with the
    attribute lists shortened) used by the non-vacuity examples.  Definitions only. *)
From SpyneV Require Export C15.Spec.
Open Scope Z_scope.

Definition ex_common : list (akey * aval) :=
  [(K_NULLABLE, VBool true); (K_MIN_OCCURS, VInt 0); (K_MAX_OCCURS, VInt 1); (K_DEFAULT, VNone);
   (K_EXC, VBool false); (K_EXPLICIT_TN, VBool false)].
Definition ex_number (msl : Z) : list (akey * aval) :=
  ex_common ++ [(K_GE, VNegInf); (K_GT, VNegInf); (K_LE, VInf); (K_LT, VInf); (K_VALUES, VEmptySet);
                (K_MAX_STR_LEN, VInt msl); (K_TOTAL_DIGITS, VInf); (K_FRACTION_DIGITS, VInf);
                (K_MIN_BOUND, VNone); (K_MAX_BOUND, VNone)].
Definition ex_text : list (akey * aval) :=
  ex_common ++ [(K_MIN_LEN, VInt 0); (K_MAX_LEN, VInf); (K_PATTERN, VNone); (K_VALUES, VEmptySet)].

Definition t_a : text := [97].
Definition t_b : text := [98].
Definition t_z : text := [122].
Definition t_K : text := [75].
Definition t_L : text := [76].

Definition ex_root (k : kind) (a : list (akey * aval)) (name : text) : cls :=
  mkcls k None a (Some (TStr name)) None (Some None) [].

(** 0 ComplexModel, 1 Array, 2 Iterable, 3 Integer, 4 Unicode *)
Definition ex0 : store :=
  mkstore [ex_root KComplex ex_common [67]; ex_root KArray ex_common [65]; ex_root KArray ex_common [73];
           ex_root (KSimple FDecimal) (ex_number 1024) [105]; ex_root (KSimple FUnicode) ex_text [115]]
          [] [] [] [(0, [(K_MIN_OCCURS, VInt 1)]); (1, [])].

(** the same pool plus ByteArray (#5), for the call syntax *)
Definition ex0b : store :=
  mkstore (cl ex0 ++ [ex_root (KSimple FByteArray) (ex_common ++ [(K_ENCODING, VStr t_enc_default)]) [98]])
          [] [] [] (protos ex0).

(** class K(ComplexModel): a = Integer; b = Unicode   -> 5
    K.customize(min_occurs=1, child_attrs={'a': {min_occurs: 1}})   -> 6 (and 7 for the field)
    class L(K): z = Unicode   -> 8
    Array(K)   -> 9 (and 10 for the member)
    Mandatory(#9)   -> 11 (and 12) *)
Definition ex_hist : list op :=
  [OSubclass 0 t_K [(t_a, 3); (t_b, 4)];
   OCustomize 5 [(K_MIN_OCCURS, VInt 1)] (Some [(t_a, [(K_MIN_OCCURS, VInt 1)])]) None None;
   OSubclass 5 t_L [(t_z, 4)];
   OArray 1 5 [];
   OMandatory 9].
Definition ex1 : store := run ex0 ex_hist.
