(** C15: the lemmas behind the property theorems (Props/C15.v). *)
From Coq Require Import ZArith List Bool Lia.
From SpyneV Require Import C15.Spec C15.OdictProofs C15.StoreProofs C15.OpProofs C15.EvoProofs C15.DecimalProofs C15.FieldsProofs.
Import ListNotations.
Open Scope Z_scope.

Lemma FUEL_S : FUEL = S (pred FUEL).
Proof. reflexivity. Qed.

Local Opaque FUEL obs_keys.

Lemma extends_unfold : forall fuel l n r,
  nth_cls l n = Some r ->
  extends_f (S fuel) l n =
  match c_extends r with
  | Some e => e
  | None => match c_base r with Some b => extends_f fuel l b | None => None end
  end.
Proof. intros. simpl. rewrite H. reflexivity. Qed.

Lemma get_extends_own : forall s n r e,
  lookup s n = Some r -> c_extends r = Some e -> get_extends s n = e.
Proof.
  intros. unfold get_extends. rewrite FUEL_S. rewrite (extends_unfold _ _ _ r) by exact H.
  rewrite H0. reflexivity.
Qed.

(** * every step is an [evo] over the classes it is documented to write *)
Lemma step_evo : forall s o s' res,
  inv s -> step s o = ROk (s', res) -> evo (touched s o) s s'.
Proof.
  intros s o s' res I H. destruct (is_derivation o) eqn:D.
  - destruct (step_derivation_ok _ _ _ _ I D H) as [_ [_ [_ X]]].
    apply ext_evo. auto.
  - destruct o; simpl in D; try discriminate; simpl in H.
    + rdes H as s1 Q. inversion H; subst. destruct (append_field_ok _ _ _ _ _ I Q) as [_ [A _]]. auto.
    + rdes H as s1 Q. inversion H; subst. destruct (insert_field_ok _ _ _ _ _ _ I Q) as [_ [A _]]. auto.
Qed.

Lemma after_evo : forall s o, inv s -> evo (touched s o) s (after s o).
Proof.
  unfold after. intros. destruct (step s o) as [[s1 r] | |] eqn:E; try apply evo_refl.
  eapply step_evo; eauto.
Qed.

(** * what is observed of a class that refers to no written class is unchanged *)
Lemma validate_native_int_ext : forall a a' v,
  (forall k, a k = a' k) -> validate_native_int a v = validate_native_int a' v.
Proof. unfold validate_native_int. intros. repeat rewrite H. auto. Qed.
Lemma validate_string_dec_ext : forall a a' v,
  (forall k, a k = a' k) -> validate_string_dec a v = validate_string_dec a' v.
Proof. unfold validate_string_dec. intros. repeat rewrite H. auto. Qed.
Lemma validate_string_uni_ext : forall a a' v,
  (forall k, a k = a' k) -> validate_string_uni a v = validate_string_uni a' v.
Proof. unfold validate_string_uni. intros. repeat rewrite H. auto. Qed.

Lemma verdicts_ext : forall s s' c,
  lookup s' c = lookup s c -> (forall k, resolve s' c k = resolve s c k) ->
  verdicts s' c = verdicts s c.
Proof.
  unfold verdicts. intros s s' c L R. rewrite L. destruct (lookup s c) as [r |]; [| reflexivity].
  destruct (c_kind r) as [[| | |] | |].
  - rewrite (map_ext (validate_native_int (resolve s' c)) (validate_native_int (resolve s c)))
      by (intros; apply validate_native_int_ext; exact R).
    rewrite (map_ext (validate_string_dec (resolve s' c)) (validate_string_dec (resolve s c)))
      by (intros; apply validate_string_dec_ext; exact R).
    reflexivity.
  - apply map_ext. intros. apply validate_string_uni_ext. exact R.
  - reflexivity.
  - reflexivity.
  - reflexivity.
  - reflexivity.
Qed.

Lemma evo_same_view : forall T s s' c,
  wf s -> evo T s s' -> 0 <= c < size s ->
  (forall z, In z T -> ~ reaches (cl s) c z) -> same_view s s' c.
Proof.
  intros T s s' c W [E1 [E2 [E3 E4]]] B NR.
  set (P := fun x => 0 <= x < size s /\ forall z, In z T -> ~ reaches (cl s) x z).
  assert (AG : forall x, P x -> nth_cls (cl s') x = nth_cls (cl s) x).
  { intros x [Bx Nx]. apply (E2 x Bx). intros X. apply (Nx x X). apply reaches_refl. }
  assert (CL : closedP (cl s) P) by (apply avoid_closed; auto).
  assert (Pc : P c) by (split; auto).
  assert (R : forall k, resolve s' c k = resolve s c k).
  { intros. unfold resolve. apply (resolve_agree _ _ P AG CL). auto. }
  assert (FL : flat s' c = flat s c).
  { unfold flat. apply (flat_agree _ _ P AG CL). auto. }
  unfold same_view. split; [apply AG; auto | split; [| split; [exact R | split; [| split; [| split; [| split]]]]]].
  - intros. unfold obs. apply (obs_agree _ _ P AG CL). auto.
  - unfold get_tname. apply (tname_agree _ _ P AG CL). auto.
  - unfold get_extends. apply (extends_agree _ _ P AG CL). auto.
  - exact FL.
  - apply verdicts_ext; auto. apply AG. auto.
  - unfold alias_table. rewrite FL. apply alias_list_agree.
    intros k t HI a. unfold resolve. apply (resolve_agree _ _ P AG CL).
    unfold flat in HI. eapply (flat_types_in_P (cl s) P CL); eauto.
Qed.

(** ** frame for one step *)
Lemma frame_step : forall s o s' res c,
  inv s -> step s o = ROk (s', res) -> 0 <= c < size s ->
  (forall z, In z (touched s o) -> ~ reaches (cl s) c z) -> same_view s s' c.
Proof.
  intros s o s' res c I H B NR. destruct I as [W C].
  eapply evo_same_view; eauto. eapply step_evo; eauto. split; auto.
Qed.

Lemma touched_derivation : forall s o, is_derivation o = true -> touched s o = [].
Proof. destruct o; simpl; intros; auto; discriminate. Qed.

Lemma frame_derivation : forall s o s' res c,
  inv s -> is_derivation o = true -> step s o = ROk (s', res) -> 0 <= c < size s ->
  same_view s s' c.
Proof.
  intros. eapply frame_step; eauto. rewrite touched_derivation by auto. simpl. tauto.
Qed.

(** ** frame for histories *)
Lemma same_view_trans : forall s1 s2 s3 c,
  same_view s1 s2 c -> same_view s2 s3 c -> same_view s1 s3 c.
Proof.
  unfold same_view. intros s1 s2 s3 c [A1 [A2 [A3 [A4 [A5 [A6 [A7 A8]]]]]]] [B1 [B2 [B3 [B4 [B5 [B6 [B7 B8]]]]]]].
  split; [congruence | split; [| split; [| split; [| split; [| split; [| split]]]]]]; try congruence.
  all: intros; first [rewrite B2, A2; reflexivity | rewrite B3, A3; reflexivity].
Qed.

Lemma same_view_refl : forall s c, same_view s s c.
Proof. unfold same_view. intros. repeat split; auto. Qed.

Lemma frame_history : forall ops s c,
  inv s -> 0 <= c < size s -> undisturbed c s ops -> same_view s (run s ops) c.
Proof.
  induction ops as [| o ops IH]; intros s c I B U.
  - simpl. apply same_view_refl.
  - rewrite run_after. destruct U as [U1 U2].
    pose proof (after_evo s o I) as E. destruct I as [W C].
    eapply same_view_trans.
    + eapply evo_same_view; eauto.
    + apply IH; auto.
      * apply after_inv. split; auto.
      * apply evo_size in E. lia.
Qed.

(** a history of derivations disturbs nothing *)
Lemma undisturbed_derivations : forall ops c s,
  forallb is_derivation ops = true -> undisturbed c s ops.
Proof.
  induction ops; simpl; intros; auto.
  apply andb_true_iff in H. destruct H as [H1 H2]. split; auto.
  rewrite touched_derivation by auto. simpl. tauto.
Qed.

Lemma frame_derivations : forall ops s c,
  inv s -> 0 <= c < size s -> forallb is_derivation ops = true -> same_view s (run s ops) c.
Proof. intros. apply frame_history; auto. apply undisturbed_derivations. auto. Qed.

(** * evolution: which records change, and how *)
Lemma evolution_records : forall s o s' res,
  inv s -> step s o = ROk (s', res) ->
  (forall x, 0 <= x < size s -> ~ In x (touched s o) -> lookup s' x = lookup s x) /\
  (forall x r, lookup s x = Some r ->
     exists r', lookup s' x = Some r' /\
       c_kind r' = c_kind r /\ c_base r' = c_base r /\ c_attrs r' = c_attrs r /\
       c_orig r' = c_orig r /\ c_tname r' = c_tname r /\ c_extends r' = c_extends r).
Proof.
  intros s o s' res I H. destruct (step_evo _ _ _ _ I H) as [_ [A [B _]]]. split; auto.
  intros x r L. destruct (B _ _ L) as [r' [L' [[K1 [K2 [K3 K4]]] [K5 K6]]]].
  exists r'. repeat split; auto.
Qed.

Lemma In_variants_of : forall s c x, In (c, x) (variants s) -> In x (variants_of s c).
Proof.
  unfold variants_of. intros. apply in_map_iff. exists (c, x). split; auto.
  apply filter_In. split; auto. simpl. apply Z.eqb_refl.
Qed.

(** the new field arrives in the class and in every customized variant of it *)
Lemma propagates : forall s o s' res c k t,
  inv s -> step s o = ROk (s', res) ->
  (o = OAppend c k t \/ exists i, o = OInsert c i k t) ->
  forall x r,
    lookup s x = Some r ->
    (x = c \/
     (is_simple (c_kind r) = false /\ c_orig r = Some c /\ c_base r <> Some CID_COMPLEXMODEL /\
      exists rc, lookup s c = Some rc /\ c_orig rc = None)) ->
    exists t', tassoc k (fields_of s' x) = Some t' /\ root_of s' t' = root_of s t.
Proof.
  intros s o s' res c k t I H O x r L X.
  assert (T : In x (c :: variant_targets s c)).
  { destruct X as [X | [X1 [X2 [X3 [rc [X4 X5]]]]]].
    - subst. simpl. auto.
    - right. unfold variant_targets. rewrite X4, X5. apply In_variants_of.
      destruct I as [_ C]. eapply C; eauto. }
  destruct O as [O | [i O]]; subst o; simpl in H.
  - rdes H as s1 Q. inversion H; subst.
    destruct (append_field_ok _ _ _ _ _ I Q) as [_ [_ A]]. apply A. auto.
  - rdes H as s1 Q. inversion H; subst.
    destruct (insert_field_ok _ _ _ _ _ _ I Q) as [_ [_ A]]. apply A. auto.
Qed.

(** * fresh: the attributes of a customized class *)
Lemma zassoc_apply_kwarg : forall k kv acc,
  zassoc k (apply_kwarg kv acc) =
  match requested k [kv] with Some v => Some v | None => zassoc k acc end.
Proof.
  intros k [k' v] acc. unfold apply_kwarg. simpl.
  destruct ((k' <? 0) || (k' =? K_EXPLICIT_TN)) eqn:C1; auto.
  destruct (k' =? K_TYPE_NAME) eqn:C2.
  - simpl. destruct (k =? K_EXPLICIT_TN); auto.
  - destruct ((k' =? K_PROTOCOL) || (k' =? K_P)) eqn:C2'; [simpl; destruct (k =? K_PROT); auto |].
    destruct ((k' =? K_PRIMARY_KEY) || (k' =? K_PK)) eqn:C2'';
      [simpl; destruct (k =? K_PRIMARY_KEY); simpl; auto; destruct (k =? K_COL_PK); auto |].
    destruct (k' =? K_EXC_TABLE) eqn:C3.
    + simpl. destruct (k =? K_EXC_TABLE) eqn:D1; simpl; auto.
      destruct (k =? K_EXC_DB); auto.
    + destruct ((k' =? K_MAX_OCCURS) && is_unbounded v) eqn:C4.
      * simpl. destruct (k =? K_MAX_OCCURS); auto.
      * simpl. destruct (k =? k'); auto.
Qed.

Lemma requested_cons : forall k kv r,
  requested k (kv :: r) =
  match requested k r with Some x => Some x | None => requested k [kv] end.
Proof.
  intros k [k' v] r. simpl. destruct (requested k r); auto.
Qed.

Lemma zassoc_apply_kwargs : forall kw k acc,
  zassoc k (apply_kwargs kw acc) =
  match requested k kw with Some v => Some v | None => zassoc k acc end.
Proof.
  induction kw as [| kv kw IH]; intros; simpl apply_kwargs.
  - reflexivity.
  - rewrite IH. rewrite requested_cons. destruct (requested k kw); auto.
    apply zassoc_apply_kwarg.
Qed.

(** the attribute lookup of a class just allocated on top of [c] *)
Lemma resolve_new : forall s r' fuel k,
  wf s -> (exists c, c_base r' = Some c /\ 0 <= c < size s) ->
  resolve_f (S fuel) (cl (fst (alloc s r'))) (size s) k =
  match zassoc k (c_attrs r') with
  | Some v => Some v
  | None => match c_base r' with Some c => resolve_f fuel (cl s) c k | None => None end
  end.
Proof.
  intros s r' fuel k W [c [B Bc]]. simpl resolve_f.
  unfold size. rewrite nth_cls_app_new. destruct (zassoc k (c_attrs r')); [reflexivity |]. rewrite B.
  apply (resolve_agree (cl s) _ (fun x => 0 <= x < size s)).
  - intros. apply nth_cls_app_old. unfold size in H. lia.
  - apply wf_closed. exact W.
  - exact Bc.
Qed.

Lemma zassoc_fresh_attrs : forall s c k,
  zassoc k (fresh_attrs s c) =
  if k =? K_EXPLICIT_TN then Some (VBool false)
  else if k =? K_NULLABLE then resolve s c K_NULLABLE else None.
Proof.
  intros. unfold fresh_attrs. destruct (resolve s c K_NULLABLE) eqn:R; simpl.
  - destruct (k =? K_NULLABLE) eqn:E1.
    + apply Z.eqb_eq in E1. subst. reflexivity.
    + destruct (k =? K_EXPLICIT_TN); auto.
  - destruct (k =? K_EXPLICIT_TN); auto. destruct (k =? K_NULLABLE); auto.
Qed.

Lemma fresh_simple : forall s c kw s' n,
  wf s -> customize_simple s c kw = ROk (s', n) ->
  exists r fam kw1 r',
    lookup s c = Some r /\ c_kind r = KSimple fam /\
    (match fam with FDecimal => decimal_pre s c kw | _ => ROk kw end) = ROk kw1 /\
    n = size s /\ lookup s' n = Some r' /\
    c_kind r' = KSimple fam /\ c_base r' = Some c /\ c_orig r' = Some (root_of s c) /\
    c_fields r' = [] /\
    forall fuel k, resolve_f (S fuel) (cl s') n k = fresh_lookup s c (eff_kw s kw1) fuel k.
Proof.
  intros s c kw s' n W H.
  destruct (customize_simple_shape _ _ _ _ _ H) as [r [fam [kw1 [tn [ex [L [K [D [X A]]]]]]]]].
  exists r, fam, kw1. eexists.
  assert (S' : s' = fst (alloc s (mkcls (KSimple fam) (Some c)
     (apply_kwargs (eff_kw s kw1) (fresh_attrs s c)) tn (Some (orig_or_self r c)) ex []))) by (rewrite <- A; auto).
  assert (N : n = size s) by (unfold alloc in A; inversion A; auto).
  subst n. split; [exact L | split; [exact K | split; [exact D | split; [reflexivity |]]]].
  split; [subst s'; apply lookup_alloc_new |]. cbn [c_kind c_base c_orig c_fields].
  split; [reflexivity | split; [reflexivity | split; [| split; [reflexivity |]]]].
  - unfold root_of. rewrite L. reflexivity.
  - intros. subst s'. rewrite resolve_new; auto.
    + simpl. rewrite zassoc_apply_kwargs. unfold fresh_lookup.
      destruct (requested k (eff_kw s kw1)); [reflexivity |]. rewrite zassoc_fresh_attrs.
      destruct (k =? K_EXPLICIT_TN); [reflexivity |].
      destruct (k =? K_NULLABLE) eqn:E; reflexivity.
    + simpl. exists c. split; auto. eapply lookup_some; eauto.
Qed.


(** * fresh: a customized complex class *)
Lemma resolve_unfold : forall fuel l n k r,
  nth_cls l n = Some r ->
  resolve_f (S fuel) l n k =
  match zassoc k (c_attrs r) with
  | Some v => Some v
  | None => match c_base r with Some b => resolve_f fuel l b k | None => None end
  end.
Proof. intros. simpl. rewrite H. reflexivity. Qed.

Lemma fresh_complex : forall fuel s c kw ca caa s' n,
  inv s -> customize_complex fuel s c kw ca caa = ROk (s', n) ->
  exists r r',
    lookup s c = Some r /\ is_simple (c_kind r) = false /\
    n = size s /\ lookup s' n = Some r' /\
    c_kind r' = c_kind r /\ c_base r' = Some c /\ c_orig r' = Some (root_of s c) /\
    forall fuel k, resolve_f (S fuel) (cl s') n k = fresh_lookup s c (eff_kw s kw) fuel k.
Proof.
  intros fuel s c kw ca caa s' n I H.
  destruct (customize_complex_ok _ _ _ _ _ _ _ _ I H) as [N [Z [I' [X [R [s0 [Q X0]]]]]]].
  destruct (customize_plain_shape _ _ _ _ _ Q) as [r [t0 [tnm [L [K [T [_ S0]]]]]]].
  cbv zeta in S0. subst n.
  set (r0 := mkcls (c_kind r) (Some c) (apply_kwargs (eff_kw s kw) (fresh_attrs s c)) (Some tnm)
                   (Some (orig_or_self r c)) (Some (get_extends s c)) (c_fields r)) in *.
  assert (L0 : lookup s0 (size s) = Some r0).
  { subst s0. destruct (c =? CID_COMPLEXMODEL);
      [| rewrite lookup_add_variant]; rewrite lookup_set_dca; apply lookup_alloc_new. }
  destruct X0 as [_ [_ [X0 _]]]. destruct (X0 _ _ L0) as [r' [L' [S1 [S2 [S3 S4]]]]].
  exists r, r'. split; [exact L | split; [exact K | split; [reflexivity | split; [exact L' |]]]].
  split; [rewrite S1; reflexivity | split; [rewrite S2; reflexivity | split]].
  - rewrite S4. unfold r0. simpl. unfold root_of. rewrite L. reflexivity.
  - intros. rewrite (resolve_unfold _ _ _ _ r') by exact L'.
    rewrite S3, S2. unfold r0. cbn [c_attrs c_base].
    rewrite zassoc_apply_kwargs. unfold fresh_lookup.
    destruct (requested k (eff_kw s kw)); [reflexivity |]. rewrite zassoc_fresh_attrs.
    assert (AG : resolve_f fuel0 (cl s') c k = resolve_f fuel0 (cl s) c k).
    { destruct I as [W _]. destruct X as [_ [XB _]].
      apply (resolve_agree (cl s) _ (fun x => 0 <= x < size s)).
      - intros. apply (XB x H0).
      - apply wf_closed. exact W.
      - eapply lookup_some; eauto. }
    rewrite AG.
    destruct (k =? K_EXPLICIT_TN); [reflexivity |].
    destruct (k =? K_NULLABLE) eqn:E; reflexivity.
Qed.

(** customize() without child attributes copies the field table *)
Lemma customize_plain_fields : forall s c kw s' n,
  customize_plain s c kw = ROk (s', n) ->
  fields_of s' n = fields_of s c /\ get_extends s' n = get_extends s c.
Proof.
  intros.
  destruct (customize_plain_shape _ _ _ _ _ H) as [r [t0 [tnm [L [K [T [N S0]]]]]]].
  cbv zeta in S0. subst n.
  set (r0 := mkcls (c_kind r) (Some c) (apply_kwargs (eff_kw s kw) (fresh_attrs s c)) (Some tnm)
                   (Some (orig_or_self r c)) (Some (get_extends s c)) (c_fields r)) in *.
  assert (L0 : lookup s' (size s) = Some r0).
  { subst s'. destruct (c =? CID_COMPLEXMODEL);
      [| rewrite lookup_add_variant]; rewrite lookup_set_dca; apply lookup_alloc_new. }
  split.
  - unfold fields_of. rewrite L0, L. reflexivity.
  - apply (get_extends_own _ _ r0); [exact L0 | reflexivity].
Qed.

(** * order *)
(** the class statement: own fields are the declared ones, in declaration order *)
Lemma subclass_fields : forall s parent name fs s' n,
  subclass s parent name fs = ROk (s', n) ->
  fields_of s' n = fs /\ NoDup (keys fs) /\
  ((fields_of s parent <> [] \/ get_extends s parent <> None) -> get_extends s' n = Some parent).
Proof.
  intros. destruct (subclass_shape _ _ _ _ _ _ H) as [rp [ex [L [K [O [V1 [V2 [X [Y [N S']]]]]]]]]].
  subst. apply distinct_keys_NoDup in V2.
  assert (F : od_update [] fs = fs).
  { rewrite od_update_fresh; auto. }
  split; [| split; [exact V2 |]].
  - unfold fields_of. rewrite lookup_alloc_new. simpl. exact F.
  - unfold fields_of. rewrite L. intros NE.
    destruct X as [X | X]; subst ex.
    + destruct Y as [Y _]. specialize (Y eq_refl). unfold real_base in Y. exfalso.
      destruct (c_fields rp); [| discriminate].
      destruct (get_extends s parent); [discriminate |].
      destruct NE as [NE | NE]; apply NE; reflexivity.
    + apply (get_extends_own _ _ _ _ (lookup_alloc_new _ _)). reflexivity.
Qed.

(** flat field table: the parent's flat table first, then the own fields that
    are new, each in its own order; a redefined name keeps the parent's place *)
Lemma flat_order : forall fuel l c r,
  nth_cls l c = Some r ->
  keys (flat_f (S fuel) l c) =
  first_ins (keys (match extends_f FUEL l c with Some p => flat_f fuel l p | None => [] end))
            (keys (c_fields r)).
Proof. intros. simpl. rewrite H. apply keys_od_update. Qed.

Lemma flat_order_disjoint : forall fuel l c r,
  nth_cls l c = Some r -> NoDup (keys (c_fields r)) ->
  let parent := match extends_f FUEL l c with Some p => flat_f fuel l p | None => [] end in
  (forall k, In k (keys (c_fields r)) -> ~ In k (keys parent)) ->
  keys (flat_f (S fuel) l c) = keys parent ++ keys (c_fields r).
Proof. intros. rewrite (flat_order _ _ _ _ H). apply first_ins_fresh; auto. Qed.

Lemma flat_parent_prefix : forall fuel l c r,
  nth_cls l c = Some r ->
  exists rest, keys (flat_f (S fuel) l c) =
    keys (match extends_f FUEL l c with Some p => flat_f fuel l p | None => [] end) ++ rest.
Proof. intros. rewrite (flat_order _ _ _ _ H). apply first_ins_prefix. Qed.

Lemma flat_NoDup : forall fuel l c, NoDup (keys (flat_f fuel l c)).
Proof.
  induction fuel; simpl; intros.
  - constructor.
  - destruct (nth_cls l c); [| constructor]. apply NoDup_od_update.
    destruct (extends_f FUEL l c); [apply IHfuel | constructor].
Qed.

(** a class without base class, parent and fields refers to nothing *)
Lemma reaches_leaf : forall l x r z,
  nth_cls l x = Some r -> c_base r = None ->
  (c_extends r = None \/ c_extends r = Some None) -> c_fields r = [] ->
  reaches l x z -> z = x.
Proof.
  intros l x r z N B E F R. inversion R; subst; auto.
  rewrite N in H. inversion H; subst r0.
  destruct H0 as [X | [X | [k X]]].
  - congruence.
  - destruct E; congruence.
  - rewrite F in X. contradiction.
Qed.

(** * the attributes of a class made by customize_plain, seen in any later store
    that only extended the one customize_plain returned *)
Lemma resolve_after : forall s c kw s0 n s',
  inv s -> customize_plain s c kw = ROk (s0, n) -> ext (size s) s0 s' ->
  exists r r',
    lookup s c = Some r /\ n = size s /\ lookup s' n = Some r' /\
    c_kind r' = c_kind r /\ c_base r' = Some c /\ c_orig r' = Some (root_of s c) /\
    forall fuel k, resolve_f (S fuel) (cl s') n k = fresh_lookup s c (eff_kw s kw) fuel k.
Proof.
  intros s c kw s0 n s' I Q X0.
  pose proof (customize_plain_derived _ _ _ _ _ Q) as [_ [_ [D3 _]]].
  assert (X : ext (size s) s s') by (eapply ext_trans; eauto).
  destruct (customize_plain_shape _ _ _ _ _ Q) as [r [t0 [tnm [L [K [T [N S0]]]]]]].
  cbv zeta in S0. subst n.
  set (r0 := mkcls (c_kind r) (Some c) (apply_kwargs (eff_kw s kw) (fresh_attrs s c)) (Some tnm)
                   (Some (orig_or_self r c)) (Some (get_extends s c)) (c_fields r)) in *.
  assert (L0 : lookup s0 (size s) = Some r0).
  { subst s0. destruct (c =? CID_COMPLEXMODEL);
      [| rewrite lookup_add_variant]; rewrite lookup_set_dca; apply lookup_alloc_new. }
  destruct X0 as [_ [_ [X0 _]]]. destruct (X0 _ _ L0) as [r' [L' [S1 [S2 [S3 S4]]]]].
  exists r, r'. split; [exact L | split; [reflexivity | split; [exact L' |]]].
  split; [rewrite S1; reflexivity | split; [rewrite S2; reflexivity | split]].
  - rewrite S4. unfold r0. simpl. unfold root_of. rewrite L. reflexivity.
  - intros. rewrite (resolve_unfold _ _ _ _ r') by exact L'.
    rewrite S3, S2. unfold r0. cbn [c_attrs c_base].
    rewrite zassoc_apply_kwargs. unfold fresh_lookup.
    destruct (requested k (eff_kw s kw)); [reflexivity |]. rewrite zassoc_fresh_attrs.
    assert (AG : resolve_f fuel (cl s') c k = resolve_f fuel (cl s) c k).
    { destruct I as [W _]. destruct X as [_ [XB _]].
      apply (resolve_agree (cl s) _ (fun x => 0 <= x < size s)).
      - intros. apply (XB x H).
      - apply wf_closed. exact W.
      - eapply lookup_some; eauto. }
    rewrite AG.
    destruct (k =? K_EXPLICIT_TN); [reflexivity |].
    destruct (k =? K_NULLABLE) eqn:E; reflexivity.
Qed.

(** * Mandatory(): the new class is mandatory *)
Definition mandatory_kw (tnm : tn) : kwargs :=
  [(K_MIN_OCCURS, VInt 1); (K_NULLABLE, VBool false)]
  ++ match tnm with TEmpty => [] | TStr x => [(K_TYPE_NAME, VStr (t_Mandatory ++ x))] end.

Lemma mandatory_kw_requests : forall tnm extra,
  (extra = [] \/ extra = [(K_MIN_LEN, VInt 1)]) ->
  requested K_MIN_OCCURS (mandatory_kw tnm ++ extra) = Some (VInt 1) /\
  requested K_NULLABLE (mandatory_kw tnm ++ extra) = Some (VBool false) /\
  NoDup (map fst (mandatory_kw tnm ++ extra)).
Proof.
  intros tnm extra [E | E]; subst extra; destruct tnm; unfold mandatory_kw; simpl;
    (split; [reflexivity | split; [reflexivity |]]);
    repeat (constructor; [simpl; intuition discriminate |]); constructor.
Qed.

Lemma mandatory_kw_no_prot : forall tnm extra,
  (extra = [] \/ extra = [(K_MIN_LEN, VInt 1)]) -> prot_of (mandatory_kw tnm ++ extra) = None.
Proof. intros tnm extra [E | E]; subst extra; destruct tnm; reflexivity. Qed.

Lemma mandatory_attrs : forall fuel s c s' n,
  inv s -> mandatory fuel s c = ROk (s', n) ->
  forall f, resolve_f (S f) (cl s') n K_MIN_OCCURS = Some (VInt 1) /\
            resolve_f (S f) (cl s') n K_NULLABLE = Some (VBool false).
Proof.
  intros fuel s c s' n I H f. destruct fuel; [discriminate |]. simpl in H.
  destruct (lookup s c) as [r |] eqn:L; try discriminate.
  destruct (get_tname s c) as [tnm |]; try discriminate.
  fold (mandatory_kw tnm) in H.
  assert (PLAIN : forall s1, customize_plain s c (mandatory_kw tnm) = ROk (s1, n) -> ext (size s) s1 s' ->
            resolve_f (S f) (cl s') n K_MIN_OCCURS = Some (VInt 1) /\
            resolve_f (S f) (cl s') n K_NULLABLE = Some (VBool false)).
  { intros s1 Q X. destruct (resolve_after _ _ _ _ _ _ I Q X) as [_ [_ [_ [_ [_ [_ [_ [_ R]]]]]]]].
    rewrite !R. unfold fresh_lookup.
    destruct (mandatory_kw_requests tnm [] (or_introl eq_refl)) as [A [B _]].
    pose proof (mandatory_kw_no_prot tnm [] (or_introl eq_refl)) as NP.
    rewrite app_nil_r in A, B, NP. rewrite (eff_kw_no_prot _ _ NP). rewrite A, B. split; reflexivity. }
  destruct (c_kind r) as [fam | |].
  - (* a primitive *)
    assert (SIMPLE : forall extra, (extra = [] \/ extra = [(K_MIN_LEN, VInt 1)]) ->
              customize_simple s c (mandatory_kw tnm ++ extra) = ROk (s', n) ->
              resolve_f (S f) (cl s') n K_MIN_OCCURS = Some (VInt 1) /\
              resolve_f (S f) (cl s') n K_NULLABLE = Some (VBool false)).
    { intros extra EX Q. destruct I as [W _].
      destruct (fresh_simple _ _ _ _ _ W Q) as [r1 [fam1 [kw1 [r' [_ [_ [D [_ [_ [_ [_ [_ [_ R]]]]]]]]]]]]].
      destruct (mandatory_kw_requests tnm extra EX) as [A [B ND]].
      assert (RQ : requested K_MIN_OCCURS kw1 = Some (VInt 1) /\ requested K_NULLABLE kw1 = Some (VBool false)).
      { destruct fam1; try (inversion D; subst kw1; split; assumption).
        destruct (decimal_keywords _ _ _ _ D ND) as [KK _].
        rewrite (KK K_MIN_OCCURS), (KK K_NULLABLE) by discriminate. split; assumption. }
      assert (NP : prot_of kw1 = None).
      { pose proof (mandatory_kw_no_prot tnm extra EX) as NP0.
        destruct fam1; try (inversion D; subst kw1; exact NP0).
        rewrite (decimal_pre_prot _ _ _ _ D). exact NP0. }
      destruct RQ as [RA RB]. rewrite !R. unfold fresh_lookup. rewrite (eff_kw_no_prot _ _ NP).
      rewrite RA, RB. split; reflexivity. }
    destruct fam.
    + apply (SIMPLE []); [left; reflexivity | rewrite app_nil_r; exact H].
    + apply (SIMPLE [(K_MIN_LEN, VInt 1)]); [right; reflexivity | exact H].
    + apply (SIMPLE []); [left; reflexivity | rewrite app_nil_r; exact H].
    + apply (SIMPLE []); [left; reflexivity | rewrite app_nil_r; exact H].
  - apply (PLAIN s'); [exact H | apply ext_refl].
  - destruct (c_fields r) as [| [k v] rest]; try discriminate.
    destruct rest; try discriminate.
    destruct (is_v (resolve s v K_MIN_OCCURS) (VInt 0)).
    + rdesp H as s1 n1 Q1. rdesp H as s2 v' Q2. inversion H; subst. clear H.
      pose proof (customize_plain_derived _ _ _ _ _ Q1) as [D1 [D2 [D3 [D4 D5]]]]. subst n.
      destruct (mandatory_ok _ _ _ _ _ (D4 I) Q2) as [A1 [A2 [A3 [A4 A5]]]].
      apply (PLAIN s1); [exact Q1 |].
      eapply ext_trans; [eapply ext_weaken; [| apply A4]; lia |].
      apply ext_upd; [lia | intros; apply static_set_fields].
    + apply (PLAIN s'); [exact H | apply ext_refl].
Qed.

(** * Array(T, **kw): one member, whose type is T or a class customized from T;
    the array class carries kw over the attributes of Array / Iterable *)
Lemma array_shape : forall s base t kw s' n,
  inv s -> make_array s base t kw = ROk (s', n) ->
  exists member ser,
    fields_of s' n = [(member, ser)] /\ root_of s' ser = root_of s t /\
    forall f k, resolve_f (S f) (cl s') n k = fresh_lookup s base (eff_kw s kw) f k.
Proof.
  unfold make_array. intros s base t kw s' n I H.
  destruct (lookup s base) as [rb |] eqn:Lb; try discriminate.
  destruct (lookup s t) as [rt |] eqn:Lt; try discriminate.
  destruct (c_kind rb); try discriminate.
  destruct (c_fields rb); try discriminate.
  destruct (c_orig rb); try discriminate.
  destruct (match c_kind rt, c_fields rt with KArray, [_] => false | KArray, _ => true | _, _ => false end);
    try discriminate.
  rdesp H as s1 a Q1.
  pose proof (customize_plain_derived _ _ _ _ _ Q1) as D.
  destruct D as [D1 [D2 [D3 [D4 D5]]]]. subst a. pose proof (D4 I) as I1.
  pose proof (size_nonneg s) as NN. pose proof (lookup_some _ _ _ Lt) as Bt.
  destruct (get_tname s1 t) as [tnm |]; try discriminate.
  destruct (match tnm with TEmpty => (t_OhNoes, TEmpty) | TStr x => (x, TStr (x ++ t_Array)) end)
    as [member atn].
  rdesp H as s2 ser Q2. inversion H; subst. clear H.
  assert (P : ext (size s) s1 s2 /\ root_of s2 ser = root_of s t /\ ref_ok (size s2) ser /\ size s1 <= size s2).
  { assert (R1 : root_of s1 t = root_of s t) by (eapply root_of_ext; eauto).
    destruct (is_v (resolve s1 t K_MAX_OCCURS) (VInt 1)).
    - pose proof (customize_any_derived _ _ _ _ _ Q2) as D.
      pose proof (derived_valid _ _ _ _ D) as V. destruct D as [E1 [E2 [E3 [E4 E5]]]].
      split; [eapply ext_weaken; [| apply E3]; lia | split; [congruence | split; [exact V | lia]]].
    - inversion Q2; subst.
      split; [apply ext_refl | split; [exact R1 | split; [unfold ref_ok; lia | lia]]]. }
  destruct P as [X2 [R2 [V2 Z2]]].
  set (f := fun r : cls => set_tname
              match zassoc K_TYPE_NAME kw with Some (VStr x) => TStr x | _ => atn end
              (set_fields [(member, ser)] r)).
  assert (SF : forall r, static_eq r (f r)) by (intros; unfold f, static_eq; simpl; auto).
  destruct (lookup_lt_some s2 (size s)) as [r2 L2]; [lia |].
  exists member, ser. split; [| split].
  - unfold fields_of. rewrite (lookup_upd_same _ _ f _ L2). reflexivity.
  - rewrite <- R2. destruct (lookup_lt_some s2 ser V2) as [rs Ls].
    eapply root_of_upd_fields; eauto.
  - assert (X : ext (size s) s1 (upd s2 (size s) f)).
    { eapply ext_trans; [apply X2 |]. apply ext_upd; [lia | exact SF]. }
    destruct (resolve_after _ _ _ _ _ _ I Q1 X) as [_ [_ [_ [_ [_ [_ [_ [_ R]]]]]]]]. exact R.
Qed.

(** * T(kw) on a ByteArray type that does not name an encoding keeps the encoding *)
Lemma call_keeps_encoding : forall s c r kw s' n,
  wf s -> lookup s c = Some r -> c_kind r = KSimple FByteArray ->
  call_simple s c kw = ROk (s', n) ->
  zassoc K_ENCODING kw = None -> requested K_ENCODING (eff_kw s kw) = None ->
  forall fuel, resolve_f (S fuel) (cl s') n K_ENCODING = resolve_f fuel (cl s) c K_ENCODING.
Proof.
  intros s c r kw s' n W L K H NE NR fuel.
  unfold call_simple in H. rewrite L, K in H. unfold bytearray_new in H. rewrite NE in H.
  destruct (fresh_simple _ _ _ _ _ W H) as [r0 [fam [kw1 [r' [L0 [K0 [D [_ [_ [_ [_ [_ [_ R]]]]]]]]]]]]].
  rewrite L in L0. inversion L0; subst r0. rewrite K in K0. inversion K0; subst fam.
  inversion D; subst kw1. rewrite R. unfold fresh_lookup. rewrite NR. reflexivity.
Qed.
