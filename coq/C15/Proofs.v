(** C15: the lemmas behind the property theorems (Props/C15.v). *)
From Coq Require Import ZArith List Bool Lia.
From SpyneV Require Import C15.Spec C15.OdictProofs C15.StoreProofs C15.OpProofs C15.EvoProofs.
Import ListNotations.
Open Scope Z_scope.

Lemma FUEL_S : FUEL = S (pred FUEL).
Proof. reflexivity. Qed.

Local Opaque FUEL obs_keys.

Lemma extends_unfold : forall fuel l n r,
  nth_cls l n = Some r ->
  extends_f (S fuel) l n =
  match c_extends r with
  | Some e => e
  | None => match c_base r with Some b => extends_f fuel l b | None => None end
  end.
Proof. intros. simpl. rewrite H. reflexivity. Qed.

Lemma get_extends_own : forall s n r e,
  lookup s n = Some r -> c_extends r = Some e -> get_extends s n = e.
Proof.
  intros. unfold get_extends. rewrite FUEL_S. rewrite (extends_unfold _ _ _ r) by exact H.
  rewrite H0. reflexivity.
Qed.

(** * every step is an [evo] over the classes it is documented to write *)
Lemma step_evo : forall s o s' res,
  inv s -> step s o = ROk (s', res) -> evo (touched s o) s s'.
Proof.
  intros s o s' res I H. destruct (is_derivation o) eqn:D.
  - destruct (step_derivation_ok _ _ _ _ I D H) as [_ [_ [_ X]]].
    apply ext_evo. auto.
  - destruct o; simpl in D; try discriminate; simpl in H.
    + rdes H as s1 Q. inversion H; subst. destruct (append_field_ok _ _ _ _ _ I Q) as [_ [A _]]. auto.
    + rdes H as s1 Q. inversion H; subst. destruct (insert_field_ok _ _ _ _ _ _ I Q) as [_ [A _]]. auto.
Qed.

Lemma after_evo : forall s o, inv s -> evo (touched s o) s (after s o).
Proof.
  unfold after. intros. destruct (step s o) as [[s1 r] | |] eqn:E; try apply evo_refl.
  eapply step_evo; eauto.
Qed.

(** * what is observed of a class that refers to no written class is unchanged *)
Lemma validate_native_int_ext : forall a a' v,
  (forall k, a k = a' k) -> validate_native_int a v = validate_native_int a' v.
Proof. unfold validate_native_int. intros. repeat rewrite H. auto. Qed.
Lemma validate_string_dec_ext : forall a a' v,
  (forall k, a k = a' k) -> validate_string_dec a v = validate_string_dec a' v.
Proof. unfold validate_string_dec. intros. repeat rewrite H. auto. Qed.
Lemma validate_string_uni_ext : forall a a' v,
  (forall k, a k = a' k) -> validate_string_uni a v = validate_string_uni a' v.
Proof. unfold validate_string_uni. intros. repeat rewrite H. auto. Qed.

Lemma verdicts_ext : forall s s' c,
  lookup s' c = lookup s c -> (forall k, resolve s' c k = resolve s c k) ->
  verdicts s' c = verdicts s c.
Proof.
  unfold verdicts. intros s s' c L R. rewrite L. destruct (lookup s c) as [r |]; [| reflexivity].
  destruct (c_kind r) as [[| | |] | |].
  - rewrite (map_ext (validate_native_int (resolve s' c)) (validate_native_int (resolve s c)))
      by (intros; apply validate_native_int_ext; exact R).
    rewrite (map_ext (validate_string_dec (resolve s' c)) (validate_string_dec (resolve s c)))
      by (intros; apply validate_string_dec_ext; exact R).
    reflexivity.
  - apply map_ext. intros. apply validate_string_uni_ext. exact R.
  - reflexivity.
  - reflexivity.
  - reflexivity.
  - reflexivity.
Qed.

Lemma evo_same_view : forall T s s' c,
  wf s -> evo T s s' -> 0 <= c < size s ->
  (forall z, In z T -> ~ reaches (cl s) c z) -> same_view s s' c.
Proof.
  intros T s s' c W [E1 [E2 [E3 E4]]] B NR.
  set (P := fun x => 0 <= x < size s /\ forall z, In z T -> ~ reaches (cl s) x z).
  assert (AG : forall x, P x -> nth_cls (cl s') x = nth_cls (cl s) x).
  { intros x [Bx Nx]. apply (E2 x Bx). intros X. apply (Nx x X). apply reaches_refl. }
  assert (CL : closedP (cl s) P) by (apply avoid_closed; auto).
  assert (Pc : P c) by (split; auto).
  assert (R : forall k, resolve s' c k = resolve s c k).
  { intros. unfold resolve. apply (resolve_agree _ _ P AG CL). auto. }
  unfold same_view. split; [apply AG; auto | split; [| split; [exact R | split; [| split; [| split]]]]].
  - intros. unfold obs. apply (obs_agree _ _ P AG CL). auto.
  - unfold get_tname. apply (tname_agree _ _ P AG CL). auto.
  - unfold get_extends. apply (extends_agree _ _ P AG CL). auto.
  - unfold flat. apply (flat_agree _ _ P AG CL). auto.
  - apply verdicts_ext; auto. apply AG. auto.
Qed.

(** ** frame for one step *)
Lemma frame_step : forall s o s' res c,
  inv s -> step s o = ROk (s', res) -> 0 <= c < size s ->
  (forall z, In z (touched s o) -> ~ reaches (cl s) c z) -> same_view s s' c.
Proof.
  intros s o s' res c I H B NR. destruct I as [W C].
  eapply evo_same_view; eauto. eapply step_evo; eauto. split; auto.
Qed.

Lemma touched_derivation : forall s o, is_derivation o = true -> touched s o = [].
Proof. destruct o; simpl; intros; auto; discriminate. Qed.

Lemma frame_derivation : forall s o s' res c,
  inv s -> is_derivation o = true -> step s o = ROk (s', res) -> 0 <= c < size s ->
  same_view s s' c.
Proof.
  intros. eapply frame_step; eauto. rewrite touched_derivation by auto. simpl. tauto.
Qed.

(** ** frame for histories *)
Lemma same_view_trans : forall s1 s2 s3 c,
  same_view s1 s2 c -> same_view s2 s3 c -> same_view s1 s3 c.
Proof.
  unfold same_view. intros s1 s2 s3 c [A1 [A2 [A3 [A4 [A5 [A6 A7]]]]]] [B1 [B2 [B3 [B4 [B5 [B6 B7]]]]]].
  split; [congruence | split; [| split; [| split; [| split; [| split]]]]]; try congruence.
  all: intros; first [rewrite B2, A2; reflexivity | rewrite B3, A3; reflexivity].
Qed.

Lemma same_view_refl : forall s c, same_view s s c.
Proof. unfold same_view. intros. repeat split; auto. Qed.

Lemma frame_history : forall ops s c,
  inv s -> 0 <= c < size s -> undisturbed c s ops -> same_view s (run s ops) c.
Proof.
  induction ops as [| o ops IH]; intros s c I B U.
  - simpl. apply same_view_refl.
  - rewrite run_after. destruct U as [U1 U2].
    pose proof (after_evo s o I) as E. destruct I as [W C].
    eapply same_view_trans.
    + eapply evo_same_view; eauto.
    + apply IH; auto.
      * apply after_inv. split; auto.
      * apply evo_size in E. lia.
Qed.

(** a history of derivations disturbs nothing *)
Lemma undisturbed_derivations : forall ops c s,
  forallb is_derivation ops = true -> undisturbed c s ops.
Proof.
  induction ops; simpl; intros; auto.
  apply andb_true_iff in H. destruct H as [H1 H2]. split; auto.
  rewrite touched_derivation by auto. simpl. tauto.
Qed.

Lemma frame_derivations : forall ops s c,
  inv s -> 0 <= c < size s -> forallb is_derivation ops = true -> same_view s (run s ops) c.
Proof. intros. apply frame_history; auto. apply undisturbed_derivations. auto. Qed.

(** * evolution: which records change, and how *)
Lemma evolution_records : forall s o s' res,
  inv s -> step s o = ROk (s', res) ->
  (forall x, 0 <= x < size s -> ~ In x (touched s o) -> lookup s' x = lookup s x) /\
  (forall x r, lookup s x = Some r ->
     exists r', lookup s' x = Some r' /\
       c_kind r' = c_kind r /\ c_base r' = c_base r /\ c_attrs r' = c_attrs r /\
       c_orig r' = c_orig r /\ c_tname r' = c_tname r /\ c_extends r' = c_extends r).
Proof.
  intros s o s' res I H. destruct (step_evo _ _ _ _ I H) as [_ [A [B _]]]. split; auto.
  intros x r L. destruct (B _ _ L) as [r' [L' [[K1 [K2 [K3 K4]]] [K5 K6]]]].
  exists r'. repeat split; auto.
Qed.

Lemma In_variants_of : forall s c x, In (c, x) (variants s) -> In x (variants_of s c).
Proof.
  unfold variants_of. intros. apply in_map_iff. exists (c, x). split; auto.
  apply filter_In. split; auto. simpl. apply Z.eqb_refl.
Qed.

(** the new field arrives in the class and in every customized variant of it *)
Lemma propagates : forall s o s' res c k t,
  inv s -> step s o = ROk (s', res) ->
  (o = OAppend c k t \/ exists i, o = OInsert c i k t) ->
  forall x r,
    lookup s x = Some r ->
    (x = c \/
     (is_simple (c_kind r) = false /\ c_orig r = Some c /\ c_base r <> Some CID_COMPLEXMODEL /\
      exists rc, lookup s c = Some rc /\ c_orig rc = None)) ->
    exists t', tassoc k (fields_of s' x) = Some t' /\ root_of s' t' = root_of s t.
Proof.
  intros s o s' res c k t I H O x r L X.
  assert (T : In x (c :: variant_targets s c)).
  { destruct X as [X | [X1 [X2 [X3 [rc [X4 X5]]]]]].
    - subst. simpl. auto.
    - right. unfold variant_targets. rewrite X4, X5. apply In_variants_of.
      destruct I as [_ C]. eapply C; eauto. }
  destruct O as [O | [i O]]; subst o; simpl in H.
  - rdes H as s1 Q. inversion H; subst.
    destruct (append_field_ok _ _ _ _ _ I Q) as [_ [_ A]]. apply A. auto.
  - rdes H as s1 Q. inversion H; subst.
    destruct (insert_field_ok _ _ _ _ _ _ I Q) as [_ [_ A]]. apply A. auto.
Qed.

(** * fresh: the attributes of a customized class *)
Lemma zassoc_apply_kwarg : forall k kv acc,
  zassoc k (apply_kwarg kv acc) =
  match requested k [kv] with Some v => Some v | None => zassoc k acc end.
Proof.
  intros k [k' v] acc. unfold apply_kwarg. simpl.
  destruct ((k' <? 0) || (k' =? K_EXPLICIT_TN)) eqn:C1; auto.
  destruct (k' =? K_TYPE_NAME) eqn:C2.
  - simpl. destruct (k =? K_EXPLICIT_TN); auto.
  - destruct (k' =? K_EXC_TABLE) eqn:C3.
    + simpl. destruct (k =? K_EXC_TABLE) eqn:D1; simpl; auto.
      destruct (k =? K_EXC_DB); auto.
    + destruct ((k' =? K_MAX_OCCURS) && is_unbounded v) eqn:C4.
      * simpl. destruct (k =? K_MAX_OCCURS); auto.
      * simpl. destruct (k =? k'); auto.
Qed.

Lemma requested_cons : forall k kv r,
  requested k (kv :: r) =
  match requested k r with Some x => Some x | None => requested k [kv] end.
Proof.
  intros k [k' v] r. simpl. destruct (requested k r); auto.
Qed.

Lemma zassoc_apply_kwargs : forall kw k acc,
  zassoc k (apply_kwargs kw acc) =
  match requested k kw with Some v => Some v | None => zassoc k acc end.
Proof.
  induction kw as [| kv kw IH]; intros; simpl apply_kwargs.
  - reflexivity.
  - rewrite IH. rewrite requested_cons. destruct (requested k kw); auto.
    apply zassoc_apply_kwarg.
Qed.

(** the attribute lookup of a class just allocated on top of [c] *)
Lemma resolve_new : forall s r' fuel k,
  wf s -> (exists c, c_base r' = Some c /\ 0 <= c < size s) ->
  resolve_f (S fuel) (cl (fst (alloc s r'))) (size s) k =
  match zassoc k (c_attrs r') with
  | Some v => Some v
  | None => match c_base r' with Some c => resolve_f fuel (cl s) c k | None => None end
  end.
Proof.
  intros s r' fuel k W [c [B Bc]]. simpl resolve_f.
  unfold size. rewrite nth_cls_app_new. destruct (zassoc k (c_attrs r')); [reflexivity |]. rewrite B.
  apply (resolve_agree (cl s) _ (fun x => 0 <= x < size s)).
  - intros. apply nth_cls_app_old. unfold size in H. lia.
  - apply wf_closed. exact W.
  - exact Bc.
Qed.

Lemma zassoc_fresh_attrs : forall s c k,
  zassoc k (fresh_attrs s c) =
  if k =? K_EXPLICIT_TN then Some (VBool false)
  else if k =? K_NULLABLE then resolve s c K_NULLABLE else None.
Proof.
  intros. unfold fresh_attrs. destruct (resolve s c K_NULLABLE) eqn:R; simpl.
  - destruct (k =? K_NULLABLE) eqn:E1.
    + apply Z.eqb_eq in E1. subst. reflexivity.
    + destruct (k =? K_EXPLICIT_TN); auto.
  - destruct (k =? K_EXPLICIT_TN); auto. destruct (k =? K_NULLABLE); auto.
Qed.

Lemma fresh_simple : forall s c kw s' n,
  wf s -> customize_simple s c kw = ROk (s', n) ->
  exists r fam kw1 r',
    lookup s c = Some r /\ c_kind r = KSimple fam /\
    (match fam with FDecimal => decimal_pre s c kw | _ => ROk kw end) = ROk kw1 /\
    n = size s /\ lookup s' n = Some r' /\
    c_kind r' = KSimple fam /\ c_base r' = Some c /\ c_orig r' = Some (root_of s c) /\
    c_fields r' = [] /\
    forall fuel k, resolve_f (S fuel) (cl s') n k = fresh_lookup s c kw1 fuel k.
Proof.
  intros s c kw s' n W H.
  destruct (customize_simple_shape _ _ _ _ _ H) as [r [fam [kw1 [tn [ex [L [K [D [X A]]]]]]]]].
  exists r, fam, kw1. eexists.
  assert (S' : s' = fst (alloc s (mkcls (KSimple fam) (Some c)
     (apply_kwargs kw1 (fresh_attrs s c)) tn (Some (orig_or_self r c)) ex []))) by (rewrite <- A; auto).
  assert (N : n = size s) by (unfold alloc in A; inversion A; auto).
  subst n. split; [exact L | split; [exact K | split; [exact D | split; [reflexivity |]]]].
  split; [subst s'; apply lookup_alloc_new |]. cbn [c_kind c_base c_orig c_fields].
  split; [reflexivity | split; [reflexivity | split; [| split; [reflexivity |]]]].
  - unfold root_of. rewrite L. reflexivity.
  - intros. subst s'. rewrite resolve_new; auto.
    + simpl. rewrite zassoc_apply_kwargs. unfold fresh_lookup.
      destruct (requested k kw1); [reflexivity |]. rewrite zassoc_fresh_attrs.
      destruct (k =? K_EXPLICIT_TN); [reflexivity |].
      destruct (k =? K_NULLABLE) eqn:E; reflexivity.
    + simpl. exists c. split; auto. eapply lookup_some; eauto.
Qed.


(** * fresh: a customized complex class *)
Lemma resolve_unfold : forall fuel l n k r,
  nth_cls l n = Some r ->
  resolve_f (S fuel) l n k =
  match zassoc k (c_attrs r) with
  | Some v => Some v
  | None => match c_base r with Some b => resolve_f fuel l b k | None => None end
  end.
Proof. intros. simpl. rewrite H. reflexivity. Qed.

Lemma fresh_complex : forall fuel s c kw ca caa s' n,
  inv s -> customize_complex fuel s c kw ca caa = ROk (s', n) ->
  exists r r',
    lookup s c = Some r /\ is_simple (c_kind r) = false /\
    n = size s /\ lookup s' n = Some r' /\
    c_kind r' = c_kind r /\ c_base r' = Some c /\ c_orig r' = Some (root_of s c) /\
    forall fuel k, resolve_f (S fuel) (cl s') n k = fresh_lookup s c kw fuel k.
Proof.
  intros fuel s c kw ca caa s' n I H.
  destruct (customize_complex_ok _ _ _ _ _ _ _ _ I H) as [N [Z [I' [X [R [s0 [Q X0]]]]]]].
  destruct (customize_plain_shape _ _ _ _ _ Q) as [r [t0 [tnm [L [K [T [_ S0]]]]]]].
  cbv zeta in S0. subst n.
  set (r0 := mkcls (c_kind r) (Some c) (apply_kwargs kw (fresh_attrs s c)) (Some tnm)
                   (Some (orig_or_self r c)) (Some (get_extends s c)) (c_fields r)) in *.
  assert (L0 : lookup s0 (size s) = Some r0).
  { subst s0. destruct (c =? CID_COMPLEXMODEL);
      [| rewrite lookup_add_variant]; rewrite lookup_set_dca; apply lookup_alloc_new. }
  destruct X0 as [_ [_ [X0 _]]]. destruct (X0 _ _ L0) as [r' [L' [S1 [S2 [S3 S4]]]]].
  exists r, r'. split; [exact L | split; [exact K | split; [reflexivity | split; [exact L' |]]]].
  split; [rewrite S1; reflexivity | split; [rewrite S2; reflexivity | split]].
  - rewrite S4. unfold r0. simpl. unfold root_of. rewrite L. reflexivity.
  - intros. rewrite (resolve_unfold _ _ _ _ r') by exact L'.
    rewrite S3, S2. unfold r0. cbn [c_attrs c_base].
    rewrite zassoc_apply_kwargs. unfold fresh_lookup.
    destruct (requested k kw); [reflexivity |]. rewrite zassoc_fresh_attrs.
    assert (AG : resolve_f fuel0 (cl s') c k = resolve_f fuel0 (cl s) c k).
    { destruct I as [W _]. destruct X as [_ [XB _]].
      apply (resolve_agree (cl s) _ (fun x => 0 <= x < size s)).
      - intros. apply (XB x H0).
      - apply wf_closed. exact W.
      - eapply lookup_some; eauto. }
    rewrite AG.
    destruct (k =? K_EXPLICIT_TN); [reflexivity |].
    destruct (k =? K_NULLABLE) eqn:E; reflexivity.
Qed.

(** customize() without child attributes copies the field table *)
Lemma customize_plain_fields : forall s c kw s' n,
  customize_plain s c kw = ROk (s', n) ->
  fields_of s' n = fields_of s c /\ get_extends s' n = get_extends s c.
Proof.
  intros.
  destruct (customize_plain_shape _ _ _ _ _ H) as [r [t0 [tnm [L [K [T [N S0]]]]]]].
  cbv zeta in S0. subst n.
  set (r0 := mkcls (c_kind r) (Some c) (apply_kwargs kw (fresh_attrs s c)) (Some tnm)
                   (Some (orig_or_self r c)) (Some (get_extends s c)) (c_fields r)) in *.
  assert (L0 : lookup s' (size s) = Some r0).
  { subst s'. destruct (c =? CID_COMPLEXMODEL);
      [| rewrite lookup_add_variant]; rewrite lookup_set_dca; apply lookup_alloc_new. }
  split.
  - unfold fields_of. rewrite L0, L. reflexivity.
  - apply (get_extends_own _ _ r0); [exact L0 | reflexivity].
Qed.

(** * order *)
(** the class statement: own fields are the declared ones, in declaration order *)
Lemma subclass_fields : forall s parent name fs s' n,
  subclass s parent name fs = ROk (s', n) ->
  fields_of s' n = fs /\ NoDup (keys fs) /\
  (fields_of s parent <> [] -> get_extends s' n = Some parent).
Proof.
  intros. destruct (subclass_shape _ _ _ _ _ _ H) as [rp [ex [L [K [O [V1 [V2 [X [Y [N S']]]]]]]]]].
  subst. apply distinct_keys_NoDup in V2.
  assert (F : od_update [] fs = fs).
  { rewrite od_update_fresh; auto. }
  split; [| split; [exact V2 |]].
  - unfold fields_of. rewrite lookup_alloc_new. simpl. exact F.
  - unfold fields_of. rewrite L. intros NE.
    destruct X as [X | X]; subst ex.
    + destruct Y as [Y _]. specialize (Y eq_refl). contradiction.
    + apply (get_extends_own _ _ _ _ (lookup_alloc_new _ _)). reflexivity.
Qed.

(** flat field table: the parent's flat table first, then the own fields that
    are new, each in its own order; a redefined name keeps the parent's place *)
Lemma flat_order : forall fuel l c r,
  nth_cls l c = Some r ->
  keys (flat_f (S fuel) l c) =
  first_ins (keys (match extends_f FUEL l c with Some p => flat_f fuel l p | None => [] end))
            (keys (c_fields r)).
Proof. intros. simpl. rewrite H. apply keys_od_update. Qed.

Lemma flat_order_disjoint : forall fuel l c r,
  nth_cls l c = Some r -> NoDup (keys (c_fields r)) ->
  let parent := match extends_f FUEL l c with Some p => flat_f fuel l p | None => [] end in
  (forall k, In k (keys (c_fields r)) -> ~ In k (keys parent)) ->
  keys (flat_f (S fuel) l c) = keys parent ++ keys (c_fields r).
Proof. intros. rewrite (flat_order _ _ _ _ H). apply first_ins_fresh; auto. Qed.

Lemma flat_parent_prefix : forall fuel l c r,
  nth_cls l c = Some r ->
  exists rest, keys (flat_f (S fuel) l c) =
    keys (match extends_f FUEL l c with Some p => flat_f fuel l p | None => [] end) ++ rest.
Proof. intros. rewrite (flat_order _ _ _ _ H). apply first_ins_prefix. Qed.

Lemma flat_NoDup : forall fuel l c, NoDup (keys (flat_f fuel l c)).
Proof.
  induction fuel; simpl; intros.
  - constructor.
  - destruct (nth_cls l c); [| constructor]. apply NoDup_od_update.
    destruct (extends_f FUEL l c); [apply IHfuel | constructor].
Qed.

(** a class without base class, parent and fields refers to nothing *)
Lemma reaches_leaf : forall l x r z,
  nth_cls l x = Some r -> c_base r = None ->
  (c_extends r = None \/ c_extends r = Some None) -> c_fields r = [] ->
  reaches l x z -> z = x.
Proof.
  intros l x r z N B E F R. inversion R; subst; auto.
  rewrite N in H. inversion H; subst r0.
  destruct H0 as [X | [X | [k X]]].
  - congruence.
  - destruct E; congruence.
  - rewrite F in X. contradiction.
Qed.
