(** C15: the notions the property theorems are stated with (well-formed
    stores, "refers to", the registry of variants being complete, what a
    customization requests, first-insertion order).  Definitions only. *)
From SpyneV Require Export C15.Model.

(** * well-formed stores: every identity stored in a class or in the registry
    of variants names a class of the store, and a field table has no repeated
    name (a Python dict) *)
Definition ref_ok (n : Z) (c : cid) : Prop := 0 <= c < n.

Definition cls_ok (n : Z) (r : cls) : Prop :=
  (forall b, c_base r = Some b -> ref_ok n b) /\
  (forall o, c_orig r = Some o -> ref_ok n o) /\
  (forall e, c_extends r = Some (Some e) -> ref_ok n e) /\
  (forall k t, In (k, t) (c_fields r) -> ref_ok n t) /\
  NoDup (map fst (c_fields r)).

(** a registered variant is newer than its root, and is registered once *)
Definition var_ok (n : Z) (p : cid * cid) : Prop :=
  ref_ok n (fst p) /\ ref_ok n (snd p) /\ fst p < snd p.

Definition wf (s : store) : Prop :=
  Forall (cls_ok (size s)) (cl s) /\
  Forall (var_ok (size s)) (variants s) /\
  NoDup (map snd (variants s)).

(** boolean versions, evaluated on the initial store the harness builds *)
Definition ref_okb (n : Z) (c : cid) : bool := (0 <=? c) && (c <? n).
Definition oref_okb (n : Z) (o : option cid) : bool :=
  match o with Some c => ref_okb n c | None => true end.
Fixpoint tmemk (k : text) (l : list text) : bool :=
  match l with [] => false | x :: r => text_eqb k x || tmemk k r end.
Fixpoint nodupb (l : list text) : bool :=
  match l with [] => true | x :: r => negb (tmemk x r) && nodupb r end.
Definition cls_okb (n : Z) (r : cls) : bool :=
  oref_okb n (c_base r) && oref_okb n (c_orig r)
  && match c_extends r with Some (Some e) => ref_okb n e | _ => true end
  && forallb (fun kt => ref_okb n (snd kt)) (c_fields r)
  && nodupb (map fst (c_fields r)).
Fixpoint zmemb (x : Z) (l : list Z) : bool :=
  match l with [] => false | y :: r => (x =? y) || zmemb x r end.
Fixpoint znodupb (l : list Z) : bool :=
  match l with [] => true | x :: r => negb (zmemb x r) && znodupb r end.
Definition wfb (s : store) : bool :=
  forallb (cls_okb (size s)) (cl s)
  && forallb (fun p => ref_okb (size s) (fst p) && ref_okb (size s) (snd p) && (fst p <? snd p))
             (variants s)
  && znodupb (map snd (variants s)).

(** * the registry of variants is complete: every customized complex class
    (other than a direct customization of ComplexModel itself, which
    [ComplexModelBase.customize] does not register) is listed under its root *)
Definition is_simple (k : kind) : bool := match k with KSimple _ => true | _ => false end.

Definition complete (s : store) : Prop :=
  forall x r o, lookup s x = Some r -> is_simple (c_kind r) = false ->
    c_orig r = Some o -> c_base r <> Some CID_COMPLEXMODEL -> In (o, x) (variants s).

Definition pair_mem (o x : cid) (l : list (cid * cid)) : bool :=
  existsb (fun p => (fst p =? o) && (snd p =? x)) l.
Fixpoint completeb_from (i : Z) (l : list cls) (v : list (cid * cid)) : bool :=
  match l with
  | [] => true
  | r :: rest =>
    (is_simple (c_kind r)
     || match c_orig r with
        | None => true
        | Some o => match c_base r with
                    | Some b => (b =? CID_COMPLEXMODEL) || pair_mem o i v
                    | None => pair_mem o i v
                    end
        end)
    && completeb_from (i + 1) rest v
  end.
Definition completeb (s : store) : bool := completeb_from 0 (cl s) (variants s).

Definition inv (s : store) : Prop := wf s /\ complete s.

(** * "refers to": the base class (attribute and __type_name__/__extends__
    lookups go through it), the own __extends__, the field types *)
Definition ref_of (r : cls) (y : cid) : Prop :=
  c_base r = Some y \/ c_extends r = Some (Some y) \/ exists k, In (k, y) (c_fields r).

Inductive reaches (l : list cls) : cid -> cid -> Prop :=
| reaches_refl : forall x, reaches l x x
| reaches_step : forall x r y z, nth_cls l x = Some r -> ref_of r y -> reaches l y z -> reaches l x z.

(** the root of a class: what it was (transitively) customized from *)
Definition root_of (s : store) (c : cid) : cid :=
  match lookup s c with Some r => orig_or_self r c | None => c end.

(** * the classes whose own field table an operation writes *)
Definition touched (s : store) (o : op) : list cid :=
  match o with
  | OAppend c _ _ | OInsert c _ _ _ =>
    c :: match lookup s c with
         | Some r => match c_orig r with None => variants_of s c | Some _ => [] end
         | None => []
         end
  | _ => []
  end.

Definition after (s : store) (o : op) : store :=
  match step s o with ROk (s1, _) => s1 | _ => s end.

(** class [c] does not refer (transitively) to any class written by an
    evolution step of the history, at the time of that step *)
Fixpoint undisturbed (c : cid) (s : store) (ops : list op) : Prop :=
  match ops with
  | [] => True
  | o :: r => (forall z, In z (touched s o) -> ~ reaches (cl s) c z) /\ undisturbed c (after s o) r
  end.

(** * what a customization requests (SPEC): the value attribute [k] of the new
    class must show, if the request determines it.  [kw] is the keyword set as
    ModelBase._s_customize receives it *)
Fixpoint kw_last (k : akey) (kw : kwargs) : option aval :=
  match kw with
  | [] => None
  | (k', v) :: r => match kw_last k r with
                    | Some x => Some x
                    | None => if k =? k' then Some v else None
                    end
  end.

(** the most recent of the keyword arguments that write attribute [k]:
    [k] itself, [exc_table] for [exc_db], [type_name] for [_explicit_type_name],
    [protocol] and [p] for [prot], [primary_key] and [pk] for [primary_key] and
    the primary_key entry of the column keywords *)
Fixpoint requested (k : akey) (kw : kwargs) : option aval :=
  match kw with
  | [] => None
  | (k', v) :: r =>
    match requested k r with
    | Some x => Some x
    | None =>
      if (k' <? 0) || (k' =? K_EXPLICIT_TN) then None
      else if k' =? K_TYPE_NAME then (if k =? K_EXPLICIT_TN then Some (VBool true) else None)
      else if (k' =? K_PROTOCOL) || (k' =? K_P) then (if k =? K_PROT then Some v else None)
      else if (k' =? K_PRIMARY_KEY) || (k' =? K_PK)
      then (if (k =? K_PRIMARY_KEY) || (k =? K_COL_PK) then Some v else None)
      else if k' =? K_EXC_TABLE then (if (k =? K_EXC_TABLE) || (k =? K_EXC_DB) then Some v else None)
      else if (k' =? K_MAX_OCCURS) && is_unbounded v then (if k =? K_MAX_OCCURS then Some VInf else None)
      else if k =? k' then Some v else None
    end
  end.

(** the attribute of a fresh derivative that nobody requested *)
Definition unrequested (k : akey) (inherited : option aval) : option aval :=
  if k =? K_EXPLICIT_TN then Some (VBool false) else inherited.

(** * first-insertion order: the key order of an odict after a series of
    [__setitem__] calls *)
Fixpoint first_ins (acc : list text) (ks : list text) : list text :=
  match ks with
  | [] => acc
  | k :: r => first_ins (if tmemk k acc then acc else acc ++ [k]) r
  end.

Fixpoint remove_key (k : text) (l : list text) : list text :=
  match l with
  | [] => []
  | x :: r => if text_eqb k x then r else x :: remove_key k r
  end.

Definition keys {V} (l : list (text * V)) : list text := map fst l.

(** * the alias table of a class: the keys, other than the field names, under
    which its (flat) fields are written and read -- sub_name / sub_ns of the
    field types; a function of the flat field table (get_flat_type_info(cls).alt) *)
Definition alias_of (ns name : option aval) (k : fname) : option text :=
  let none x := match x with None | Some VNone => true | _ => false end in
  match ns, name with
  | Some (VStr n), Some (VStr m) => Some ([123] ++ n ++ [125] ++ m)
  | Some (VStr n), _ => if none name then Some ([123] ++ n ++ [125] ++ k) else None
  | _, Some (VStr m) => if none ns then Some m else None
  | _, _ => None
  end.
Fixpoint alias_list (res : cid -> akey -> option aval) (fl : list (fname * cid)) : list (text * fname) :=
  match fl with
  | [] => []
  | (k, t) :: r => match alias_of (res t K_SUB_NS) (res t K_SUB_NAME) k with
                   | Some a => (a, k) :: alias_list res r
                   | None => alias_list res r
                   end
  end.
Definition alias_table (s : store) (c : cid) : list (text * fname) := alias_list (resolve s) (flat s c).

(** * what "observably unchanged" means for class [c] between two stores: the
    same record, the same structural snapshot at every depth, the same resolved
    attributes, type name, parent, flat field table, validation verdicts and
    alias table *)
Definition same_view (s s' : store) (c : cid) : Prop :=
  lookup s' c = lookup s c /\
  (forall d, obs d s' c = obs d s c) /\
  (forall k, resolve s' c k = resolve s c k) /\
  get_tname s' c = get_tname s c /\
  get_extends s' c = get_extends s c /\
  flat s' c = flat s c /\
  verdicts s' c = verdicts s c /\
  alias_table s' c = alias_table s c.

(** class [x] has field [k], of a type whose root is [R] *)
Definition has (s : store) (x : cid) (k : fname) (R : cid) : Prop :=
  exists t', tassoc k (fields_of s x) = Some t' /\ root_of s t' = R.

(** the attribute lookup of a fresh derivative of [c] made with keywords [kw]:
    what was requested, else a fresh _explicit_type_name = False, else what
    [c] shows ('nillable' is copied into the new Attributes class when set) *)
Definition fresh_lookup (s : store) (c : cid) (kw : kwargs) (fuel : nat) (k : akey) : option aval :=
  match requested k kw with
  | Some v => Some v
  | None =>
    if k =? K_EXPLICIT_TN then Some (VBool false)
    else if k =? K_NULLABLE then
      match resolve s c K_NULLABLE with
      | Some v => Some v
      | None => resolve_f fuel (cl s) c k
      end
    else resolve_f fuel (cl s) c k
  end.

(** the field table [F] (in store [s]) derives from the table [F0] (in store
    [s0]): same names in the same order, and every type is the original one or
    a class customized from it (same root) *)
Definition fields_derive (s0 : store) (F0 : list (fname * cid)) (s : store) (F : list (fname * cid)) : Prop :=
  keys F = keys F0 /\
  forall k t', tassoc k F = Some t' -> exists t, tassoc k F0 = Some t /\ root_of s t' = root_of s0 t.

(** where append_field / insert_field put the new name among the existing ones *)
Definition G_append (k : fname) (ks : list text) : list text := first_ins ks [k].
Definition G_insert (i : Z) (k : fname) (ks : list text) : list text := py_insert i k (remove_key k ks).
