(** C15: customize() with child_attrs / child_attrs_all / child_attrs_noexc keeps the
    names and the order of the fields; every field type of the new class is the
    original's or a class customized from it. *)
From Coq Require Import ZArith List Bool Lia.
From SpyneV Require Import C15.Spec C15.OdictProofs C15.StoreProofs C15.OpProofs.
Import ListNotations.
Open Scope Z_scope.

Local Opaque FUEL.

Definition FD (s0 : store) (F0 : list (fname * cid)) (st : store) (n : cid) : Prop :=
  fields_derive s0 F0 st (fields_of st n).

(** nothing that matters moved *)
Lemma FD_keep : forall s0 F0 st st' n,
  wf st -> FD s0 F0 st n -> fields_of st' n = fields_of st n ->
  (forall y ry, lookup st y = Some ry -> root_of st' y = root_of st y) ->
  FD s0 F0 st' n.
Proof.
  unfold FD, fields_derive. intros s0 F0 st st' n W [K D] E R. rewrite E. split; auto.
  intros k t' T. destruct (D _ _ T) as [t [T0 RT]]. exists t. split; auto.
  rewrite <- RT.
  assert (V : ref_ok (size st) t').
  { unfold fields_of in T. destruct (lookup st n) as [rn |] eqn:L; [| discriminate].
    destruct (wf_lookup _ _ _ W L) as [_ [_ [_ [FV _]]]]. apply tassoc_In in T. eapply FV; eauto. }
  destruct (lookup_lt_some st t' V) as [rt' Lt']. eapply R; eauto.
Qed.

Lemma FD_ext : forall s0 F0 st st' n b,
  wf st -> FD s0 F0 st n -> ext b st st' -> 0 <= n < b -> FD s0 F0 st' n.
Proof.
  intros. eapply FD_keep; eauto.
  - unfold fields_of. destruct H1 as [_ [A _]]. rewrite A; auto.
  - intros. eapply root_of_ext; eauto.
Qed.

(** one field gets a type with the same root *)
Lemma FD_set : forall s0 F0 st n k told t1 rn,
  FD s0 F0 st n -> lookup st n = Some rn -> tassoc k (c_fields rn) = Some told ->
  root_of st t1 = root_of st told ->
  (forall y ry, lookup st y = Some ry ->
     root_of (upd st n (fun x => set_fields (od_set k t1 (c_fields x)) x)) y = root_of st y) ->
  wf st -> ref_ok (size st) t1 ->
  FD s0 F0 (upd st n (fun x => set_fields (od_set k t1 (c_fields x)) x)) n.
Proof.
  unfold FD, fields_derive, fields_of. intros s0 F0 st n k told t1 rn [K D] L T R RS W V1.
  rewrite L in K, D. rewrite (lookup_upd_same _ _ _ _ L). simpl. split.
  - rewrite keys_od_set. apply tassoc_some_key in T. apply tmemk_In in T. rewrite T. exact K.
  - intros k' t' T'.
    destruct (text_eqb k' k) eqn:E.
    + apply text_eqb_eq in E. subst k'. rewrite tassoc_od_set_same in T'. inversion T'; subst t'.
      destruct (D _ _ T) as [t [T0 RT]]. exists t. split; auto.
      destruct (lookup_lt_some st t1 V1) as [r1 L1].
      rewrite (RS _ _ L1). rewrite R. exact RT.
    + rewrite tassoc_od_set_other in T' by exact E.
      destruct (D _ _ T') as [t [T0 RT]]. exists t. split; auto.
      assert (V : ref_ok (size st) t').
      { destruct (wf_lookup _ _ _ W L) as [_ [_ [_ [FV _]]]]. apply tassoc_In in T'. eapply FV; eauto. }
      destruct (lookup_lt_some st t' V) as [rt' Lt']. rewrite (RS _ _ Lt'). exact RT.
Qed.

Lemma root_of_upd_fields : forall st n f y ry,
  (forall r, static_eq r (f r)) -> lookup st y = Some ry -> root_of (upd st n f) y = root_of st y.
Proof.
  intros. apply (root_of_ext (Z.min 0 n) st (upd st n f) y ry); auto.
  apply ext_upd; auto. lia.
Qed.

Lemma fields_of_ext : forall b st st' n, ext b st st' -> 0 <= n < b -> fields_of st' n = fields_of st n.
Proof. unfold fields_of. intros b st st' n [_ [A _]] B. rewrite A; auto. Qed.

Lemma field_type_valid : forall st n k t,
  wf st -> tassoc k (fields_of st n) = Some t -> exists rt, lookup st t = Some rt.
Proof.
  unfold fields_of. intros st n k t W T.
  destruct (lookup st n) as [rn |] eqn:L; [| discriminate].
  destruct (wf_lookup _ _ _ W L) as [_ [_ [_ [FV _]]]]. apply tassoc_In in T.
  apply lookup_lt_some. eapply FV; eauto.
Qed.

(** one iteration of either loop: customize the type found at [k], store it back *)
Lemma field_step_FD : forall st n k t kw s1 t1 s0 F0,
  inv st -> 0 <= n < size st -> tassoc k (fields_of st n) = Some t ->
  customize_any st t kw = ROk (s1, t1) -> FD s0 F0 st n ->
  let st' := upd s1 n (fun x => set_fields (od_set k t1 (c_fields x)) x) in
  FD s0 F0 st' n /\ inv st' /\ size st < size st' /\
  (forall k', text_eqb k' k = false -> tassoc k' (fields_of st' n) = tassoc k' (fields_of st n)).
Proof.
  intros st n k t kw s1 t1 s0 F0 I B T Q F st'.
  pose proof (customize_any_derived _ _ _ _ _ Q) as D.
  pose proof (derived_valid _ _ _ _ D) as V. destruct D as [D1 [D2 [D3 [D4 D5]]]].
  destruct I as [W C]. pose proof (D4 (conj W C)) as [W1 C1].
  assert (F1 : FD s0 F0 s1 n) by exact (FD_ext _ _ _ _ _ _ W F D3 B).
  assert (E1 : fields_of s1 n = fields_of st n) by exact (fields_of_ext _ _ _ _ D3 B).
  destruct (lookup_lt_some s1 n) as [rn Ln]; [lia |].
  assert (Tn : tassoc k (c_fields rn) = Some t).
  { rewrite <- E1 in T. unfold fields_of in T. rewrite Ln in T. exact T. }
  destruct (field_type_valid _ _ _ _ W T) as [rt Lt].
  assert (RT : root_of s1 t1 = root_of s1 t).
  { rewrite D5. symmetry. eapply root_of_ext; eauto. }
  assert (RS : forall y ry, lookup s1 y = Some ry -> root_of st' y = root_of s1 y).
  { intros. unfold st'. eapply root_of_upd_fields; eauto. intros. apply static_set_fields. }
  split; [| split; [| split]].
  - unfold st'. eapply FD_set; eauto.
  - unfold st'. destruct (upd_field_ok s1 n k t1 0 (conj W1 C1) V) as [X _]; [lia | exact X].
  - unfold st'. rewrite size_upd. lia.
  - intros k' NE. unfold st', fields_of at 1. rewrite (lookup_upd_same _ _ _ _ Ln). simpl.
    rewrite tassoc_od_set_other by exact NE. rewrite <- E1. unfold fields_of. rewrite Ln. reflexivity.
Qed.

Lemma cust_all_fields_FD : forall items st n caa st' s0 F0,
  inv st -> 0 <= n < size st -> NoDup (keys items) ->
  (forall k t, In (k, t) items -> tassoc k (fields_of st n) = Some t) ->
  FD s0 F0 st n -> cust_all_fields st n items caa = ROk st' -> FD s0 F0 st' n.
Proof.
  induction items as [| [k t] items IH]; simpl; intros st n caa st' s0 F0 I B ND IN F H.
  - inversion H; subst. exact F.
  - rdesp H as s1 t1 Q. inversion ND as [| ? ? NI ND']; subst.
    destruct (field_step_FD st n k t caa s1 t1 s0 F0 I B (IN k t (or_introl eq_refl)) Q F)
      as [F' [I' [Z' K']]].
    eapply IH; [exact I' | | exact ND' | | exact F' | exact H].
    + lia.
    + intros k' t' X. rewrite K'.
      * apply IN. right. exact X.
      * apply text_eqb_neq. intros E. subst k'. apply NI. apply (in_map fst) in X. exact X.
Qed.

Lemma cust_fields_FD : forall ca st n st' rest s0 F0,
  inv st -> 0 <= n < size st ->
  FD s0 F0 st n -> cust_fields st n ca = ROk (st', rest) -> FD s0 F0 st' n.
Proof.
  induction ca as [| [k v] ca IH]; simpl; intros st n st' rest s0 F0 I B F H.
  - inversion H; subst. exact F.
  - destruct (tassoc k (fields_of st n)) as [t |] eqn:T.
    + rdesp H as s1 t1 Q.
      destruct (field_step_FD st n k t v s1 t1 s0 F0 I B T Q F) as [F' [I' [Z' _]]].
      eapply IH; [exact I' | | exact F' | exact H]. lia.
    + rdesp H as s1 r1 Q. inversion H; subst. eapply IH; eauto.
Qed.

Lemma FD_set_extends : forall s0 F0 st n e,
  wf st -> FD s0 F0 st n -> FD s0 F0 (upd st n (set_extends e)) n.
Proof.
  intros. eapply FD_keep; eauto.
  - unfold fields_of. destruct (lookup st n) as [rn |] eqn:L.
    + rewrite (lookup_upd_same _ _ _ _ L). reflexivity.
    + destruct (lookup (upd st n (set_extends e)) n) as [r' |] eqn:L'; auto.
      apply lookup_upd_inv in L'. destruct L' as [r [Lr _]]. congruence.
  - intros. eapply root_of_upd_fields; eauto. intros. apply static_set_extends.
Qed.

Lemma FD_registry : forall s0 F0 st st' n,
  FD s0 F0 st n -> (forall x, lookup st' x = lookup st x) -> FD s0 F0 st' n.
Proof.
  unfold FD, fields_derive, fields_of, root_of. intros s0 F0 st st' n [K D] E.
  rewrite E. split; auto. intros k t' T. destruct (D _ _ T) as [t [T0 R]].
  exists t. split; auto. rewrite E. exact R.
Qed.

Lemma customize_complex_fields : forall fuel s c kw ca caa s' n,
  inv s -> customize_complex fuel s c kw ca caa = ROk (s', n) ->
  fields_derive s (fields_of s c) s' (fields_of s' n).
Proof.
  intros fuel s c kw ca caa s' n I H. destruct fuel; [discriminate |].
  simpl in H. rdesp H as s0 n0 Q.
  pose proof (customize_plain_derived _ _ _ _ _ Q) as D.
  destruct D as [D1 [D2 [D3 [D4 D5]]]]. subst n0.
  pose proof (D4 I) as I0. pose proof (size_nonneg s) as NN.
  assert (Bn : 0 <= size s < size s0) by lia.
  (* the copy made by customize_plain *)
  assert (F0 : FD s (fields_of s c) s0 (size s)).
  { destruct (customize_plain_shape _ _ _ _ _ Q) as [r [t0 [tnm [L [K [T [_ S0]]]]]]].
    cbv zeta in S0.
    assert (E : fields_of s0 (size s) = fields_of s c).
    { unfold fields_of at 1. subst s0. destruct (c =? CID_COMPLEXMODEL);
        [| rewrite lookup_add_variant]; rewrite lookup_set_dca; rewrite lookup_alloc_new; simpl;
        unfold fields_of; rewrite L; reflexivity. }
    unfold FD, fields_derive. rewrite E. split; auto.
    intros k t' T'. exists t'. split; auto.
    destruct I as [W _]. destruct (field_type_valid _ _ _ _ W T') as [rt Lt].
    eapply root_of_ext; eauto. }
  rdes H as s3 Q1.
  assert (P1 : inv s3 /\ ext (size s) s0 s3 /\ FD s (fields_of s c) s3 (size s)).
  { clear H. destruct caa as [a |].
    - rdes Q1 as s1 Q2. rdes Q1 as s2 Q3. inversion Q1; subst. clear Q1.
      assert (B0 : 0 <= size s <= size s) by lia. assert (N0 : size s < size s0) by lia.
      destruct (cust_all_fields_ok _ _ _ _ _ _ I0 B0 N0 Q2) as [I1 X1].
      assert (F1 : FD s (fields_of s c) s1 (size s)).
      { destruct I0 as [W0 C0].
        destruct (lookup_lt_some s0 (size s) Bn) as [r0 L0].
        destruct (wf_lookup _ _ _ W0 L0) as [_ [_ [_ [_ ND]]]].
        eapply cust_all_fields_FD; [exact (conj W0 C0) | exact Bn | | | exact F0 | exact Q2].
        - unfold fields_of. rewrite L0. exact ND.
        - intros k t X. apply NoDup_tassoc; auto. unfold fields_of. rewrite L0. exact ND. }
      assert (Z1 : size s0 <= size s1) by (eapply ext_size; eauto).
      assert (P2 : inv s2 /\ ext (size s) s1 s2 /\ FD s (fields_of s c) s2 (size s)).
      { destruct (get_extends s1 (size s)) as [e |] eqn:G.
        - rdesp Q3 as s1' e' Q4. inversion Q3; subst. clear Q3.
          destruct (customize_complex_ok _ _ _ _ _ _ _ _ I1 Q4) as [A1 [A2 [A3 [A4 A5]]]]. subst e'.
          destruct (upd_extends_ok s1' (size s) (size s1) (size s) A3) as [I3 X3].
          { unfold ref_ok. lia. }
          { lia. }
          split; [exact I3 | split].
          + eapply ext_trans; [eapply ext_weaken; [| apply A4]; lia | exact X3].
          + apply FD_set_extends; [destruct A3; auto |].
            destruct I1 as [W1 _]. eapply FD_ext; [exact W1 | exact F1 | exact A4 | lia].
        - inversion Q3; subst. split; [exact I1 | split; [apply ext_refl | exact F1]]. }
      destruct P2 as [I3 [X3 F3]]. split; [apply inv_set_dcaa; exact I3 | split].
      + eapply ext_trans; [apply X1 |]. eapply ext_trans; [apply X3 | apply ext_set_dcaa].
      + eapply FD_registry; [exact F3 | reflexivity].
    - inversion Q1; subst. split; [exact I0 | split; [apply ext_refl | exact F0]]. }
  destruct P1 as [I3 [X3 F3]]. clear Q1.
  assert (Z3 : size s0 <= size s3) by (eapply ext_size; eauto).
  destruct ca as [d |].
  - rdesp H as s4 rest Q5. rdesp H as s5 basefti Q6. inversion H; subst. clear H.
    assert (B0 : 0 <= size s <= size s) by lia. assert (N0 : size s < size s3) by lia.
    destruct (cust_fields_ok _ _ _ _ _ _ I3 B0 N0 Q5) as [I4 X4].
    assert (F4 : FD s (fields_of s c) s4 (size s)).
    { eapply cust_fields_FD; [exact I3 | | exact F3 | exact Q5]. lia. }
    assert (Z4 : size s3 <= size s4) by (eapply ext_size; eauto).
    assert (P2 : FD s (fields_of s c) s5 (size s)).
    { destruct (get_extends s4 (size s)) as [e |] eqn:G.
      - rdesp Q6 as s4' e' Q7. inversion Q6; subst. clear Q6.
        destruct (customize_complex_ok _ _ _ _ _ _ _ _ I4 Q7) as [A1 [A2 [A3 [A4 A5]]]]. subst e'.
        apply FD_set_extends; [destruct A3; auto |].
        destruct I4 as [W4 _]. eapply FD_ext; [exact W4 | exact F4 | exact A4 | lia].
      - inversion Q6; subst. exact F4. }
    eapply FD_registry; [exact P2 | reflexivity].
  - inversion H; subst. exact F3.
Qed.

(** customize() as the user calls it, on a complex class *)
Lemma customize_fields : forall s c kw ca caa ne s' n r,
  inv s -> lookup s c = Some r -> is_simple (c_kind r) = false ->
  customize s c kw ca caa ne = ROk (s', n) ->
  fields_derive s (fields_of s c) s' (fields_of s' n).
Proof.
  unfold customize. intros s c kw ca caa ne s' n r I L K H. rewrite L in H.
  destruct (c_kind r); try discriminate;
    destruct (noexc_pre ca caa ne) as [ca' caa']; eapply customize_complex_fields; eauto.
Qed.
