(** C15: the keyword set Decimal._s_customize passes on (REPAIRED code): every
    request is kept, and max_str_len is the requested one, else total_digits + 2
    when new total_digits are requested, else not requested at all (inherited). *)
From Coq Require Import ZArith List Bool Lia.
From SpyneV Require Import C15.Spec.
Import ListNotations.
Open Scope Z_scope.

Definition M := K_MAX_STR_LEN.

Lemma requested_one_M : forall k v, requested k [(M, v)] = if k =? M then Some v else None.
Proof. intros. reflexivity. Qed.

Lemma requested_one : forall k k' v,
  requested k [(k', v)] =
  if (k' <? 0) || (k' =? K_EXPLICIT_TN) then None
  else if k' =? K_TYPE_NAME then (if k =? K_EXPLICIT_TN then Some (VBool true) else None)
  else if (k' =? K_PROTOCOL) || (k' =? K_P) then (if k =? K_PROT then Some v else None)
  else if (k' =? K_PRIMARY_KEY) || (k' =? K_PK)
  then (if (k =? K_PRIMARY_KEY) || (k =? K_COL_PK) then Some v else None)
  else if k' =? K_EXC_TABLE then (if (k =? K_EXC_TABLE) || (k =? K_EXC_DB) then Some v else None)
  else if (k' =? K_MAX_OCCURS) && is_unbounded v then (if k =? K_MAX_OCCURS then Some VInf else None)
  else if k =? k' then Some v else None.
Proof. intros. reflexivity. Qed.

Lemma requested_one_M_other : forall k' v, k' <> M -> requested M [(k', v)] = None.
Proof.
  intros. rewrite requested_one.
  destruct ((k' <? 0) || (k' =? K_EXPLICIT_TN)); [reflexivity |].
  destruct (k' =? K_TYPE_NAME); [reflexivity |].
  destruct ((k' =? K_PROTOCOL) || (k' =? K_P)); [reflexivity |].
  destruct ((k' =? K_PRIMARY_KEY) || (k' =? K_PK)); [reflexivity |].
  destruct (k' =? K_EXC_TABLE); [reflexivity |].
  destruct ((k' =? K_MAX_OCCURS) && is_unbounded v); [reflexivity |].
  destruct (M =? k') eqn:E; [apply Z.eqb_eq in E; congruence | reflexivity].
Qed.

Lemma requested_cons' : forall k kv r,
  requested k (kv :: r) = match requested k r with Some x => Some x | None => requested k [kv] end.
Proof. intros k [k' v] r. simpl. destruct (requested k r); auto. Qed.

Lemma requested_M_absent : forall l, ~ In M (map fst l) -> requested M l = None.
Proof.
  induction l as [| [k' v] l IH]; intros NI; [reflexivity |].
  rewrite requested_cons'. rewrite IH by (intros X; apply NI; right; exact X).
  assert (NE : k' <> M) by (intros X; apply NI; left; exact X).
  apply requested_one_M_other. exact NE.
Qed.

Lemma requested_del_other : forall k l, k <> M -> requested k (zd_del M l) = requested k l.
Proof.
  induction l as [| [k' v] l IH]; intros NE; [reflexivity |].
  change (zd_del M ((k', v) :: l)) with (if M =? k' then l else (k', v) :: zd_del M l).
  destruct (M =? k') eqn:E.
  - apply Z.eqb_eq in E. subst k'. rewrite requested_cons'. rewrite requested_one_M.
    destruct (k =? M) eqn:E2; [apply Z.eqb_eq in E2; congruence |].
    destruct (requested k l); reflexivity.
  - rewrite (requested_cons' k _ (zd_del M l)). rewrite IH by exact NE.
    rewrite <- requested_cons'. reflexivity.
Qed.

Lemma zd_del_absent : forall l : kwargs, NoDup (map fst l) -> ~ In M (map fst (zd_del M l)).
Proof.
  induction l as [| [k' v] l IH]; intros ND; [simpl; tauto |].
  change (zd_del M ((k', v) :: l)) with (if M =? k' then l else (k', v) :: zd_del M l).
  inversion ND; subst. destruct (M =? k') eqn:E.
  - apply Z.eqb_eq in E. subst k'. exact H1.
  - change (map fst ((k', v) :: zd_del M l)) with (k' :: map fst (zd_del M l)).
    intros [X | X]; [apply Z.eqb_neq in E; congruence | apply IH; auto].
Qed.

Lemma requested_set_other : forall k v l, k <> M -> requested k (zd_set M v l) = requested k l.
Proof.
  induction l as [| [k' v'] l IH]; intros NE.
  - change (zd_set M v []) with [(M, v)]. rewrite requested_one_M.
    destruct (k =? M) eqn:E; [apply Z.eqb_eq in E; congruence | reflexivity].
  - change (zd_set M v ((k', v') :: l)) with (if M =? k' then (k', v) :: l else (k', v') :: zd_set M v l).
    destruct (M =? k') eqn:E.
    + apply Z.eqb_eq in E. subst k'. rewrite (requested_cons' k _ l). symmetry. rewrite (requested_cons' k _ l).
      rewrite !requested_one_M. destruct (k =? M) eqn:E2; [apply Z.eqb_eq in E2; congruence | reflexivity].
    + rewrite (requested_cons' k _ (zd_set M v l)). rewrite IH by exact NE.
      rewrite <- requested_cons'. reflexivity.
Qed.

Lemma requested_set_same : forall v l, ~ In M (map fst l) -> requested M (zd_set M v l) = Some v.
Proof.
  induction l as [| [k' v'] l IH]; intros NI.
  - reflexivity.
  - change (zd_set M v ((k', v') :: l)) with (if M =? k' then (k', v) :: l else (k', v') :: zd_set M v l).
    destruct (M =? k') eqn:E.
    + apply Z.eqb_eq in E. subst k'. exfalso. apply NI. left. reflexivity.
    + rewrite requested_cons'. rewrite IH; [reflexivity |]. intros X. apply NI. right. exact X.
Qed.

Lemma zassoc_requested_M : forall l : kwargs, NoDup (map fst l) -> requested M l = zassoc M l.
Proof.
  induction l as [| [k' v] l IH]; intros ND; [reflexivity |].
  inversion ND; subst. rewrite requested_cons'.
  change (zassoc M ((k', v) :: l)) with (if M =? k' then Some v else zassoc M l).
  destruct (M =? k') eqn:E.
  - apply Z.eqb_eq in E. subst k'. rewrite requested_M_absent by exact H1. reflexivity.
  - rewrite IH by exact H2. destruct (zassoc M l); [reflexivity |].
    apply requested_one_M_other. apply Z.eqb_neq in E. congruence.
Qed.

Lemma decimal_keywords : forall s c kw kw1,
  decimal_pre s c kw = ROk kw1 -> NoDup (map fst kw) ->
  (forall k, k <> K_MAX_STR_LEN -> requested k kw1 = requested k kw) /\
  requested K_MAX_STR_LEN kw1 =
    match kwget kw K_MAX_STR_LEN with
    | Some m => Some m
    | None => match kwget kw K_TOTAL_DIGITS with Some t => num_add2 t | None => None end
    end.
Proof.
  unfold decimal_pre. intros s c kw kw1 H ND. fold M in *.
  destruct (match kwget kw K_TOTAL_DIGITS, kwget kw K_FRACTION_DIGITS with
            | Some t, Some f => raise_if (num_leb t (VInt 0)) AssertionError
                                  (raise_if (num_ltb t f) AssertionError (ROk tt))
            | _, _ => ROk tt end) as [u | |]; simpl in H; try discriminate.
  destruct (match kwget kw M with
            | Some _ => ROk kw
            | None => match kwget kw K_TOTAL_DIGITS with
                      | Some t => match num_add2 t with
                                  | Some m => ROk (zd_set M m (zd_del M kw))
                                  | None => RBad 21
                                  end
                      | None => ROk (zd_del M kw)
                      end
            end) as [kwx | |] eqn:E; simpl in H; try discriminate.
  assert (X : kw1 = kwx).
  { destruct (match resolve s c K_MIN_BOUND with
              | Some VNone | None => ROk tt
              | Some minb => chk (kwget kw K_LE) (fun x => num_ltb x minb) ValueError
                               (chk (kwget kw K_LT) (fun x => num_leb x minb) ValueError (ROk tt))
              end) as [u1 | |]; simpl in H; try discriminate.
    destruct (match resolve s c K_MAX_BOUND with
              | Some VNone | None => ROk tt
              | Some maxb => chk (kwget kw K_GE) (fun x => num_ltb maxb x) ValueError
                               (chk (kwget kw K_GT) (fun x => num_leb maxb x) ValueError (ROk tt))
              end) as [u2 | |]; simpl in H; try discriminate.
    inversion H. reflexivity. }
  subst kwx. clear H.
  destruct (kwget kw M) as [m |] eqn:G.
  - inversion E; subst kw1. split; [reflexivity |].
    rewrite zassoc_requested_M by exact ND. unfold kwget in G.
    destruct (zassoc M kw) as [[] |]; try discriminate; inversion G; reflexivity.
  - pose proof (zd_del_absent kw ND) as NA.
    destruct (kwget kw K_TOTAL_DIGITS) as [t |].
    + destruct (num_add2 t) as [m |]; [| discriminate]. inversion E; subst kw1. split.
      * intros. rewrite requested_set_other by exact H. apply requested_del_other. exact H.
      * apply requested_set_same. exact NA.
    + inversion E; subst kw1. split.
      * intros. apply requested_del_other. exact H.
      * apply requested_M_absent. exact NA.
Qed.

(** the other keywords are passed on as they are *)
Lemma decimal_pre_shape : forall s c kw kw1,
  decimal_pre s c kw = ROk kw1 ->
  kw1 = kw \/ kw1 = zd_del M kw \/ exists m, kw1 = zd_set M m (zd_del M kw).
Proof.
  unfold decimal_pre. intros s c kw kw1 H. fold M in *.
  destruct (match kwget kw K_TOTAL_DIGITS, kwget kw K_FRACTION_DIGITS with
            | Some t, Some f => raise_if (num_leb t (VInt 0)) AssertionError
                                  (raise_if (num_ltb t f) AssertionError (ROk tt))
            | _, _ => ROk tt end) as [u | |]; simpl in H; try discriminate.
  destruct (match kwget kw M with
            | Some _ => ROk kw
            | None => match kwget kw K_TOTAL_DIGITS with
                      | Some t => match num_add2 t with
                                  | Some m => ROk (zd_set M m (zd_del M kw))
                                  | None => RBad 21
                                  end
                      | None => ROk (zd_del M kw)
                      end
            end) as [kwx | |] eqn:E; simpl in H; try discriminate.
  assert (X : kw1 = kwx).
  { destruct (match resolve s c K_MIN_BOUND with
              | Some VNone | None => ROk tt
              | Some minb => chk (kwget kw K_LE) (fun x => num_ltb x minb) ValueError
                               (chk (kwget kw K_LT) (fun x => num_leb x minb) ValueError (ROk tt))
              end) as [u1 | |]; simpl in H; try discriminate.
    destruct (match resolve s c K_MAX_BOUND with
              | Some VNone | None => ROk tt
              | Some maxb => chk (kwget kw K_GE) (fun x => num_ltb maxb x) ValueError
                               (chk (kwget kw K_GT) (fun x => num_leb maxb x) ValueError (ROk tt))
              end) as [u2 | |]; simpl in H; try discriminate.
    inversion H. reflexivity. }
  subst kwx. destruct (kwget kw M).
  - inversion E. auto.
  - destruct (kwget kw K_TOTAL_DIGITS) as [t |].
    + destruct (num_add2 t) as [m |]; [| discriminate]. inversion E. right. right. eauto.
    + inversion E. auto.
Qed.

Lemma zassoc_zd_del_other : forall k (l : kwargs), k <> M -> zassoc k (zd_del M l) = zassoc k l.
Proof.
  induction l as [| [k' v] l IH]; intros NE; [reflexivity |].
  change (zd_del M ((k', v) :: l)) with (if M =? k' then l else (k', v) :: zd_del M l).
  change (zassoc k ((k', v) :: l)) with (if k =? k' then Some v else zassoc k l).
  destruct (M =? k') eqn:E.
  - apply Z.eqb_eq in E. subst k'. destruct (k =? M) eqn:E2; [apply Z.eqb_eq in E2; congruence | reflexivity].
  - change (zassoc k ((k', v) :: zd_del M l)) with (if k =? k' then Some v else zassoc k (zd_del M l)).
    rewrite IH by exact NE. reflexivity.
Qed.

Lemma zassoc_zd_set_other : forall k v (l : kwargs), k <> M -> zassoc k (zd_set M v l) = zassoc k l.
Proof.
  induction l as [| [k' v'] l IH]; intros NE.
  - change (zassoc k (zd_set M v [])) with (if k =? M then Some v else None).
    destruct (k =? M) eqn:E; [apply Z.eqb_eq in E; congruence | reflexivity].
  - change (zd_set M v ((k', v') :: l)) with (if M =? k' then (k', v) :: l else (k', v') :: zd_set M v l).
    change (zassoc k ((k', v') :: l)) with (if k =? k' then Some v' else zassoc k l).
    destruct (M =? k') eqn:E.
    + apply Z.eqb_eq in E. subst k'.
      change (zassoc k ((M, v) :: l)) with (if k =? M then Some v else zassoc k l).
      destruct (k =? M) eqn:E2; [apply Z.eqb_eq in E2; congruence | reflexivity].
    + change (zassoc k ((k', v') :: zd_set M v l)) with (if k =? k' then Some v' else zassoc k (zd_set M v l)).
      rewrite IH by exact NE. reflexivity.
Qed.

Lemma decimal_pre_zassoc : forall s c kw kw1 k,
  decimal_pre s c kw = ROk kw1 -> k <> K_MAX_STR_LEN -> zassoc k kw1 = zassoc k kw.
Proof.
  intros s c kw kw1 k H NE. destruct (decimal_pre_shape _ _ _ _ H) as [X | [X | [m X]]]; subst kw1.
  - reflexivity.
  - apply zassoc_zd_del_other. exact NE.
  - rewrite zassoc_zd_set_other by exact NE. apply zassoc_zd_del_other. exact NE.
Qed.

Lemma decimal_pre_prot : forall s c kw kw1, decimal_pre s c kw = ROk kw1 -> prot_of kw1 = prot_of kw.
Proof.
  intros. unfold prot_of, kwget.
  rewrite !(decimal_pre_zassoc _ _ _ _ _ H) by discriminate. reflexivity.
Qed.

Lemma eff_kw_no_prot : forall s kw, prot_of kw = None -> eff_kw s kw = kw.
Proof. unfold eff_kw. intros. rewrite H. reflexivity. Qed.
