(** C15: comparison functions used by the correspondence case files
    (harness/c15.py).  Definitions only. *)
From SpyneV Require Export C15.Spec.

Definition family_eqb (a b : family) : bool :=
  match a, b with
  | FDecimal, FDecimal | FUnicode, FUnicode | FPlain, FPlain | FByteArray, FByteArray => true
  | _, _ => false
  end.
Definition kind_eqb (a b : kind) : bool :=
  match a, b with
  | KSimple x, KSimple y => family_eqb x y
  | KComplex, KComplex | KArray, KArray => true
  | _, _ => false
  end.
Definition otn_eqb (a b : option tn) : bool :=
  match a, b with
  | None, None => true
  | Some x, Some y => tn_eqb x y
  | _, _ => false
  end.
Fixpoint attrs_eqb (a b : list (akey * aval)) : bool :=
  match a, b with
  | [], [] => true
  | (k, v) :: a', (k', v') :: b' => (k =? k') && aval_eqb v v' && attrs_eqb a' b'
  | _, _ => false
  end.

Fixpoint snap_eqb (a b : snap) {struct a} : bool :=
  match a, b with
  | SBad, SBad | SCut, SCut | SNo, SNo => true
  | Snap k t c at_ e fs, Snap k' t' c' at' e' fs' =>
    kind_eqb k k' && otn_eqb t t' && Bool.eqb c c' && attrs_eqb at_ at' && snap_eqb e e'
    && (fix go (x : list (fname * snap)) (y : list (fname * snap)) {struct x} : bool :=
          match x, y with
          | [], [] => true
          | (n, p) :: x', (n', q) :: y' => text_eqb n n' && snap_eqb p q && go x' y'
          | _, _ => false
          end) fs fs'
  | _, _ => false
  end.

(** what the implementation did at one step: raised, or succeeded and these
    pool classes now have these snapshots (only the ones whose snapshot
    changed, and the new class, are listed) *)
Inductive expect := EOk (delta : list (Z * snap)) | EExn (e : exn).

Fixpoint tbl_set (h : Z) (x : snap) (t : list snap) : list snap :=
  match t, h with
  | [], _ => [x]                       (* a new handle is always the next one *)
  | y :: r, 0 => x :: r
  | y :: r, _ => y :: tbl_set (h - 1) x r
  end.
Fixpoint tbl_apply (d : list (Z * snap)) (t : list snap) : list snap :=
  match d with
  | [] => t
  | (h, x) :: r => tbl_apply r (tbl_set h x t)
  end.

Definition DEPTH : nat := 4.
Fixpoint all_obs_ok (s : store) (p : pool) (t : list snap) : bool :=
  match p, t with
  | [], [] => true
  | c :: p', x :: t' => snap_eqb (obs DEPTH s c) x && all_obs_ok s p' t'
  | _, _ => false
  end.

(** replays a history on the model and compares it with the implementation's
    record after every step; returns the index of the first step that differs *)
Fixpoint first_diff (i : Z) (s : store) (p : pool) (t : list snap) (steps : list (op * expect))
  : option Z :=
  match steps with
  | [] => None
  | (o, e) :: r =>
    match hstep s p o, e with
    | ROk (s1, p1), EOk d =>
      let t1 := tbl_apply d t in
      if all_obs_ok s1 p1 t1 then first_diff (i + 1) s1 p1 t1 r else Some i
    | RExn x, EExn y => if exn_eqb x y then first_diff (i + 1) s p t r else Some i
    | _, _ => Some i
    end
  end.

Fixpoint obool_list_eqb (a b : list (option bool)) : bool :=
  match a, b with
  | [], [] => true
  | Some x :: a', Some y :: b' => Bool.eqb x y && obool_list_eqb a' b'
  | None :: a', None :: b' => obool_list_eqb a' b'
  | _, _ => false
  end.

Fixpoint final_state (s : store) (p : pool) (steps : list (op * expect)) : store * pool :=
  match steps with
  | [] => (s, p)
  | (o, _) :: r => match hstep s p o with
                   | ROk (s1, p1) => final_state s1 p1 r
                   | _ => final_state s p r
                   end
  end.
Fixpoint verdicts_ok (s : store) (p : pool) (v : list (Z * list (option bool))) : bool :=
  match v with
  | [] => true
  | (h, l) :: r => match hget p h with
                   | Some c => obool_list_eqb (verdicts s c) l
                   | None => false
                   end && verdicts_ok s p r
  end.
Fixpoint flat_ok (s : store) (p : pool) (v : list (Z * list fname)) : bool :=
  match v with
  | [] => true
  | (h, l) :: r => match hget p h with
                   | Some c => (fix eq (a b : list text) : bool :=
                                  match a, b with
                                  | [], [] => true
                                  | x :: a', y :: b' => text_eqb x y && eq a' b'
                                  | _, _ => false
                                  end) (map fst (flat s c)) l
                   | None => false
                   end && flat_ok s p r
  end.

(** the alias table (a Python dict: the last entry of a key is the current one) *)
Fixpoint last_alias (a : text) (l : list (text * fname)) : option fname :=
  match l with
  | [] => None
  | (a', k) :: r => match last_alias a r with
                    | Some x => Some x
                    | None => if text_eqb a a' then Some k else None
                    end
  end.
Definition alt_eqb (model impl : list (text * fname)) : bool :=
  forallb (fun p => match last_alias (fst p) model with Some k => text_eqb k (snd p) | None => false end) impl
  && forallb (fun p => existsb (fun q => text_eqb (fst p) (fst q)) impl) model.
Fixpoint alt_ok (s : store) (p : pool) (v : list (Z * list (text * fname))) : bool :=
  match v with
  | [] => true
  | (h, l) :: r => match hget p h with
                   | Some c => alt_eqb (alias_table s c) l
                   | None => false
                   end && alt_ok s p r
  end.

(** one correspondence case: the history with the implementation's record, the
    implementation's verdicts on the probe values and its flat field order for
    pool classes at the end of the history *)
Definition case := (list (op * expect) * list (Z * list (option bool)) * list (Z * list fname)
                     * list (Z * list (text * fname)))%type.
Definition case_ok (s0 : store) (p0 : pool) (t0 : list snap) (c : case) : bool :=
  let '(steps, v, fl, al) := c in
  match first_diff 0 s0 p0 t0 steps with
  | Some _ => false
  | None => let (s, p) := final_state s0 p0 steps in verdicts_ok s p v && flat_ok s p fl && alt_ok s p al
  end.
(** for the log: first differing step, and the model's snapshot of every pool class after it *)
Definition case_show (s0 : store) (p0 : pool) (t0 : list snap) (c : case) :=
  let '(steps, v, fl, al) := c in
  match first_diff 0 s0 p0 t0 steps with
  | Some i => let (s, p) := final_state s0 p0 (firstn (Z.to_nat (i + 1)) steps) in
              (Some i, map (obs DEPTH s) p, @nil (list (option bool)))
  | None => let (s, p) := final_state s0 p0 steps in
            (None, @nil snap, map (verdicts s) p)
  end.
