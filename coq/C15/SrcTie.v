(** C15: the tie between the SOURCE TEXT of the derivation code and the model.
    Gen/DeriveSrc.v is regenerated on every run by harness/translate/derive.py from the tree under
    check; the lemma below says that the tokens it reads are the ones coq/C15/Model.v transcribes:

    - [Mandatory] does not store into its argument and requests min_occurs=1, nillable=False
      (and min_len=1 of a Unicode)                                  -> Model.mandatory
    - [ComplexModelBase.customize] copies the field table and registers the variant
                                                                    -> Model.customize_plain
    - [ModelBase._s_customize] builds a fresh Attributes class, special-cases exactly the listed
      keywords ("_*" = leading underscore), 'unbounded'/'inf'/float('inf') mean infinity
                                                                    -> Model.apply_kwarg
    - [_process_child_attrs] works on copies                         -> Model.noexc_pre
    - a subclass gets its own registry of variants                  -> Model.variants_of / append_field
    - a customized class keeps its __extends__                      -> Model.customize_plain
    - a base class with members of its own, or itself derived, becomes __extends__ -> Model.real_base
    - [_get_flat_type_info]: parent first                           -> Model.flat_f
    - [append_field]/[insert_field]: the class, then its variants   -> Model.append_field / insert_field
    - [Decimal._s_customize]: max_str_len = requested total_digits + 2  -> Model.decimal_pre
    - [odict]: a new key goes last, insert moves a known key        -> Model.od_set / od_insert
    - [_s_customize] updates a COPY of prot.type_attrs               -> Model.eff_kw / protos never written
    - [ByteArray.__new__] rewrites the encoding only when it is given -> Model.bytearray_new
    - [sort_fields] caches per class and re-checks the field table; the flat alias table is a
      function of the flat fields                                   -> protocol side: observed by the oracle *)
From SpyneV Require Import Base.Prelude Gen.DeriveSrc C15.Model.
Import ListNotations.
Open Scope Z_scope.

Definition key_names : list (text * akey) :=
  [([109; 105; 110; 95; 111; 99; 99; 117; 114; 115], K_MIN_OCCURS); ([110; 105; 108; 108; 97; 98; 108; 101], K_NULLABLE); ([109; 105; 110; 95; 108; 101; 110], K_MIN_LEN)].

Fixpoint req_kw (l : list (text * reqval)) : option kwargs :=
  match l with
  | [] => Some []
  | (n, v) :: r =>
    match tassoc n key_names, req_kw r with
    | Some k, Some r' => Some ((k, match v with RZ z => VInt z | RB b => VBool b end) :: r')
    | _, _ => None
    end
  end.

Definition expected_special_keys : list text :=
  [[95; 42];
   [112; 114; 111; 116; 111; 99; 111; 108];
   [112; 114; 111; 116];
   [112];
   [118; 111; 97];
   [118; 97; 108; 105; 100; 97; 116; 101; 95; 111; 110; 95; 97; 115; 115; 105; 103; 110; 109; 101; 110; 116];
   [112; 97; 114; 115; 101; 114];
   [105; 110; 95; 99; 97; 115; 116];
   [115; 97; 110; 105; 116; 105; 122; 101];
   [115; 97; 110; 105; 116; 105; 122; 101; 114];
   [111; 117; 116; 95; 99; 97; 115; 116];
   [108; 111; 103; 103; 101; 100];
   [100; 111; 99];
   [97; 112; 112; 105; 110; 102; 111];
   [112; 114; 105; 109; 97; 114; 121; 95; 107; 101; 121];
   [112; 107];
   [112; 114; 111; 116; 111; 99; 111; 108; 95; 97; 116; 116; 114; 115];
   [112; 114; 111; 116; 95; 97; 116; 116; 114; 115];
   [112; 97];
   [102; 111; 114; 101; 105; 103; 110; 95; 107; 101; 121];
   [102; 107];
   [97; 117; 116; 111; 105; 110; 99; 114; 101; 109; 101; 110; 116];
   [111; 110; 117; 112; 100; 97; 116; 101];
   [115; 101; 114; 118; 101; 114; 95; 100; 101; 102; 97; 117; 108; 116];
   [118; 97; 108; 117; 101; 115; 95; 100; 105; 99; 116];
   [101; 120; 99; 95; 116; 97; 98; 108; 101];
   [109; 97; 120; 95; 111; 99; 99; 117; 114; 115];
   [116; 121; 112; 101; 95; 110; 97; 109; 101]].
Definition expected_unbounded : list text := [[117; 110; 98; 111; 117; 110; 100; 101; 100]; [105; 110; 102]; [102; 108; 111; 97; 116; 58; 105; 110; 102]].

Lemma source_shape :
  mandatory_writes_argument = false /\
  req_kw mandatory_request = Some [(K_MIN_OCCURS, VInt 1); (K_NULLABLE, VBool false)] /\
  req_kw mandatory_unicode_request = Some [(K_MIN_LEN, VInt 1)] /\
  customize_copies_type_info = true /\ customize_registers_variant = true /\
  s_customize_fresh_attributes = true /\
  s_customize_special_keys = expected_special_keys /\
  s_customize_unbounded_aliases = expected_unbounded /\
  child_attrs_copied = true /\ subclass_resets_variants = true /\ customized_keeps_extends = true /\
  memberless_base_kept = true /\
  flat_parent_first = true /\ evolution_propagates = true /\
  decimal_msl_from_request = true /\ decimal_msl_add = 2 /\
  odict_setitem_new_only = true /\ odict_insert_moves = true /\
  type_attrs_copied = true /\ column_args_copied = true /\ bytearray_encoding_only_when_given = true /\
  sortcache_per_class = true /\ sortcache_checked = true /\ flat_alias_from_fields = true.
Proof. repeat split; reflexivity. Qed.
