(** C15: every derivation operation of the model (customize of a primitive or
    of a complex class with child_attrs*, Array/Iterable, Mandatory, the class
    statement) extends the store: it allocates new classes and rewrites only
    classes it allocated itself, and it keeps the store well-formed and the
    registry of variants complete. *)
From Coq Require Import ZArith List Bool Lia.
From SpyneV Require Import C15.Spec C15.OdictProofs C15.StoreProofs.
Import ListNotations.
Open Scope Z_scope.

Ltac rinv H :=
  match type of H with
  | rbind ?e _ = ROk _ =>
    let E := fresh "E" in destruct e as [? | ? | ?] eqn:E; simpl in H; try discriminate
  end.
Ltac rinvp H :=
  match type of H with
  | rbind ?e _ = ROk _ =>
    let E := fresh "E" in destruct e as [[? ?] | ? | ?] eqn:E; simpl in H; try discriminate
  end.

Tactic Notation "rdes" hyp(H) "as" ident(x) ident(E) :=
  match type of H with
  | rbind ?e _ = ROk _ => destruct e as [x | ? | ?] eqn:E; simpl in H; try discriminate
  end.
Tactic Notation "rdesp" hyp(H) "as" ident(x) ident(y) ident(E) :=
  match type of H with
  | rbind ?e _ = ROk _ => destruct e as [[x y] | ? | ?] eqn:E; simpl in H; try discriminate
  end.

(** * small facts *)
Lemma lookup_add_variant : forall s a b x, lookup (add_variant s a b) x = lookup s x.
Proof. reflexivity. Qed.
Lemma lookup_set_dca : forall s c d x, lookup (set_dca s c d) x = lookup s x.
Proof. reflexivity. Qed.
Lemma lookup_set_dcaa : forall s c d x, lookup (set_dcaa s c d) x = lookup s x.
Proof. reflexivity. Qed.
Lemma size_add_variant : forall s a b, size (add_variant s a b) = size s.
Proof. reflexivity. Qed.
Lemma size_set_dca : forall s c d, size (set_dca s c d) = size s.
Proof. reflexivity. Qed.
Lemma size_set_dcaa : forall s c d, size (set_dcaa s c d) = size s.
Proof. reflexivity. Qed.
Lemma variants_set_dca : forall s c d, variants (set_dca s c d) = variants s.
Proof. reflexivity. Qed.
Lemma variants_set_dcaa : forall s c d, variants (set_dcaa s c d) = variants s.
Proof. reflexivity. Qed.

Lemma root_of_ext : forall b s s' c r,
  ext b s s' -> lookup s c = Some r -> root_of s' c = root_of s c.
Proof.
  intros b s s' c r [_ [_ [A _]]] L. destruct (A _ _ L) as [r' [L' [_ [_ [_ E]]]]].
  unfold root_of, orig_or_self. rewrite L, L', E. auto.
Qed.

Lemma get_extends_ok : forall s c e,
  wf s -> 0 <= c < size s -> get_extends s c = Some e -> ref_ok (size s) e.
Proof.
  unfold get_extends. intros.
  apply (extends_in_P (cl s) (fun x => 0 <= x < size s) (wf_closed s H) FUEL c e); auto.
Qed.

Lemma orig_or_self_ok : forall s c r,
  wf s -> lookup s c = Some r -> ref_ok (size s) (orig_or_self r c).
Proof.
  intros. unfold orig_or_self. destruct (c_orig r) as [o |] eqn:O.
  - destruct (wf_lookup _ _ _ H H0) as [_ [B _]]. auto.
  - apply lookup_some in H0. auto.
Qed.

Lemma inv_alloc : forall s r,
  inv s -> cls_ok (size s) r ->
  (is_simple (c_kind r) = true \/ c_orig r = None \/ c_base r = Some CID_COMPLEXMODEL) ->
  inv (fst (alloc s r)).
Proof.
  intros s r [W C] K H. split.
  - apply wf_alloc; auto.
  - apply complete_alloc; auto.
Qed.

Lemma inv_upd : forall s c f,
  inv s -> (forall r, cls_ok (size s) r -> cls_ok (size s) (f r)) ->
  (forall r, static_eq r (f r)) -> inv (upd s c f).
Proof.
  intros s c f [W C] H1 H2. split.
  - apply wf_upd; auto.
  - apply complete_upd; auto.
Qed.

Lemma inv_set_dca : forall s c d, inv s -> inv (set_dca s c d).
Proof. intros s c d [W C]. split; [apply wf_set_dca | apply complete_set_dca]; auto. Qed.
Lemma inv_set_dcaa : forall s c d, inv s -> inv (set_dcaa s c d).
Proof. intros s c d [W C]. split; [apply wf_set_dcaa | apply complete_set_dcaa]; auto. Qed.

(** what every derivation of one class from class [c] guarantees *)
Definition derived (s : store) (c : cid) (s' : store) (n : cid) : Prop :=
  n = size s /\ size s' = size s + 1 /\ ext (size s) s s' /\ (inv s -> inv s') /\
  root_of s' n = root_of s c.

(** * SimpleModel.customize *)
Lemma customize_simple_shape : forall s c kw s' n,
  customize_simple s c kw = ROk (s', n) ->
  exists r fam kw1 tn ex,
    lookup s c = Some r /\ c_kind r = KSimple fam /\
    (match fam with FDecimal => decimal_pre s c kw | _ => ROk kw end) = ROk kw1 /\
    (ex = None \/ ex = Some (Some c)) /\
    (s', n) = alloc s (mkcls (KSimple fam) (Some c) (apply_kwargs (eff_kw s kw1) (fresh_attrs s c)) tn
                             (Some (orig_or_self r c)) ex []).
Proof.
  unfold customize_simple. intros.
  destruct (lookup s c) as [r |] eqn:L; try discriminate.
  destruct (c_kind r) as [fam | |] eqn:K; try discriminate.
  rinv H. inversion H; subst. clear H.
  exists r, fam, a.
  eexists. eexists. repeat split; eauto.
  destruct (is_default fam _); auto.
Qed.

Lemma customize_simple_derived : forall s c kw s' n,
  customize_simple s c kw = ROk (s', n) -> derived s c s' n.
Proof.
  intros. destruct (customize_simple_shape _ _ _ _ _ H) as [r [fam [kw1 [tn [ex [L [K [D [X A]]]]]]]]].
  unfold derived. assert (S' : s' = fst (alloc s (mkcls (KSimple fam) (Some c)
     (apply_kwargs (eff_kw s kw1) (fresh_attrs s c)) tn (Some (orig_or_self r c)) ex []))) by (rewrite <- A; auto).
  assert (N : n = size s) by (unfold alloc in A; inversion A; auto).
  subst n. split; auto. split; [subst s'; apply size_alloc |].
  split; [subst s'; apply ext_alloc |]. split.
  - intros I. subst s'. apply inv_alloc; auto.
    destruct I as [W _]. pose proof (lookup_some _ _ _ L).
    unfold cls_ok. simpl.
    split; [| split; [| split; [| split]]]; intros.
    + inversion H1; subst. auto.
    + inversion H1; subst. eapply orig_or_self_ok; eauto.
    + destruct X; subst; try discriminate. inversion H1; subst. auto.
    + contradiction.
    + constructor.
  - subst s'. unfold root_of at 1. rewrite lookup_alloc_new. unfold orig_or_self at 1. simpl.
    unfold root_of. rewrite L. auto.
Qed.

(** * ComplexModelBase.customize without child attributes *)
Lemma customize_plain_shape : forall s c kw s' n,
  customize_plain s c kw = ROk (s', n) ->
  exists r t0 tnm,
    lookup s c = Some r /\ is_simple (c_kind r) = false /\ get_tname s c = Some t0 /\
    n = size s /\
    let r' := mkcls (c_kind r) (Some c) (apply_kwargs (eff_kw s kw) (fresh_attrs s c)) (Some tnm)
                    (Some (orig_or_self r c)) (Some (get_extends s c)) (c_fields r) in
    let s2 := set_dca (fst (alloc s r')) (size s)
                      (match zassoc c (dca s) with Some d => d | None => [] end) in
    s' = (if c =? CID_COMPLEXMODEL then s2 else add_variant s2 (orig_or_self r c) (size s)).
Proof.
  unfold customize_plain. intros.
  destruct (lookup s c) as [r |] eqn:L; try discriminate.
  destruct (get_tname s c) as [t0 |] eqn:T.
  - destruct (c_kind r) eqn:K; try discriminate.
    + exists r, t0. eexists. rewrite K. simpl in *. repeat split; eauto.
      * inversion H; auto.
      * inversion H; auto.
    + exists r, t0. eexists. rewrite K. simpl in *. repeat split; eauto.
      * inversion H; auto.
      * inversion H; auto.
  - destruct (c_kind r); discriminate.
Qed.

Lemma customize_plain_derived : forall s c kw s' n,
  customize_plain s c kw = ROk (s', n) -> derived s c s' n.
Proof.
  intros. destruct (customize_plain_shape _ _ _ _ _ H) as [r [t0 [tnm [L [K [T [N S']]]]]]].
  cbv zeta in S'. subst n. pose proof (lookup_some _ _ _ L) as B.
  set (r' := mkcls (c_kind r) (Some c) (apply_kwargs (eff_kw s kw) (fresh_attrs s c)) (Some tnm)
                   (Some (orig_or_self r c)) (Some (get_extends s c)) (c_fields r)) in *.
  set (s1 := fst (alloc s r')) in *.
  set (s2 := set_dca s1 (size s) (match zassoc c (dca s) with Some d => d | None => [] end)) in *.
  assert (Z1 : size s1 = size s + 1) by apply size_alloc.
  assert (Z2 : size s2 = size s + 1) by (unfold s2; rewrite size_set_dca; auto).
  assert (E2 : ext (size s) s s2).
  { eapply ext_trans; [apply ext_alloc | apply ext_set_dca]. }
  assert (L2 : lookup s2 (size s) = Some r').
  { unfold s2. rewrite lookup_set_dca. apply lookup_alloc_new. }
  assert (K' : forall (W : wf s), cls_ok (size s) r').
  { intros W. destruct (wf_lookup _ _ _ W L) as [_ [_ [_ [D E]]]].
    unfold cls_ok, r'. simpl.
    split; [| split; [| split; [| split]]]; intros; auto.
    - inversion H0; subst. auto.
    - inversion H0; subst. eapply orig_or_self_ok; eauto.
    - inversion H0. eapply get_extends_ok; eauto.
    - eapply D; eauto. }
  unfold derived. split; auto.
  destruct (c =? CID_COMPLEXMODEL) eqn:C0; cbv iota in S'; subst s'.
  - apply Z.eqb_eq in C0. split; auto. split; auto. split.
    + intros [W C]. unfold s2. apply inv_set_dca. unfold s1. apply inv_alloc.
      * split; auto.
      * auto.
      * right. right. unfold r'. simpl. congruence.
    + unfold root_of at 1. rewrite L2. unfold r', orig_or_self at 1. simpl.
      unfold root_of. rewrite L. auto.
  - split; [rewrite size_add_variant; auto |]. split.
    + eapply ext_trans; [apply E2 | apply ext_add_variant].
    + split.
      * intros [W C]. split.
        -- apply wf_add_variant.
           ++ unfold s2. apply wf_set_dca. unfold s1. apply wf_alloc; auto.
           ++ rewrite Z2. eapply ref_ok_mono; [| eapply orig_or_self_ok; eauto]. lia.
           ++ rewrite Z2. unfold ref_ok. lia.
           ++ pose proof (orig_or_self_ok _ _ _ W L) as OK. unfold ref_ok in OK. lia.
           ++ unfold s2. rewrite variants_set_dca. unfold s1, alloc. simpl.
              intros X. apply in_map_iff in X. destruct X as [[o v] [X1 X2]]. simpl in X1. subst v.
              destruct (wf_variant _ _ _ W X2) as [_ [V2 _]]. unfold ref_ok in V2. lia.
        -- unfold complete. intros x rx o Lx Sx Ox Bx.
           rewrite lookup_add_variant in Lx. unfold s2 in Lx. rewrite lookup_set_dca in Lx.
           unfold s1 in Lx. apply lookup_alloc_inv in Lx. destruct Lx as [Lx | [? ?]].
           ++ unfold add_variant. simpl. apply in_or_app. left. eapply C; eauto.
           ++ subst. unfold add_variant. simpl. apply in_or_app. right.
              unfold r' in Ox. simpl in Ox. inversion Ox. simpl. auto.
      * unfold root_of at 1. rewrite lookup_add_variant.
        rewrite L2. unfold r', orig_or_self at 1. simpl. unfold root_of. rewrite L. auto.
Qed.

Lemma customize_any_derived : forall s c kw s' n,
  customize_any s c kw = ROk (s', n) -> derived s c s' n.
Proof.
  unfold customize_any. intros.
  destruct (lookup s c) as [r |] eqn:L; try discriminate.
  destruct (c_kind r).
  - eapply customize_simple_derived; eauto.
  - eapply customize_plain_derived; eauto.
  - eapply customize_plain_derived; eauto.
Qed.

(** * the loops of _process_child_attrs *)
Lemma derived_valid : forall s c s' n, derived s c s' n -> ref_ok (size s') n.
Proof. unfold derived, ref_ok. intros s c s' n [A [B _]]. pose proof (size_nonneg s). lia. Qed.

Lemma upd_field_ok : forall s n k t b,
  inv s -> ref_ok (size s) t -> b <= n ->
  inv (upd s n (fun x => set_fields (od_set k t (c_fields x)) x)) /\
  ext b s (upd s n (fun x => set_fields (od_set k t (c_fields x)) x)).
Proof.
  intros. split.
  - apply inv_upd; auto.
    + intros. apply cls_ok_od_set; auto.
    + intros. apply static_set_fields.
  - apply ext_upd; auto. intros. apply static_set_fields.
Qed.

Lemma cust_all_fields_ok : forall items s n caa s' b,
  inv s -> 0 <= b <= n -> n < size s ->
  cust_all_fields s n items caa = ROk s' -> inv s' /\ ext b s s'.
Proof.
  induction items as [| [k t] items IH]; simpl; intros s n caa s' b I B N H.
  - inversion H; subst. split; auto. apply ext_refl.
  - rinvp H. pose proof (customize_any_derived _ _ _ _ _ E) as D.
    pose proof (derived_valid _ _ _ _ D) as V.
    destruct D as [D1 [D2 [D3 [D4 D5]]]].
    destruct (upd_field_ok s0 n k c b (D4 I) V) as [I1 X1]; [lia |].
    destruct (IH _ _ _ _ b I1 B ltac:(rewrite size_upd; lia) H) as [I2 X2].
    split; auto.
    eapply ext_trans; [eapply ext_weaken; [| apply D3]; lia |].
    eapply ext_trans; eauto.
Qed.

Lemma cust_fields_ok : forall ca s n s' rest b,
  inv s -> 0 <= b <= n -> n < size s ->
  cust_fields s n ca = ROk (s', rest) -> inv s' /\ ext b s s'.
Proof.
  induction ca as [| [k v] ca IH]; simpl; intros s n s' rest b I B N H.
  - inversion H; subst. split; auto. apply ext_refl.
  - destruct (tassoc k (fields_of s n)) as [t |] eqn:T.
    + rinvp H. pose proof (customize_any_derived _ _ _ _ _ E) as D.
      pose proof (derived_valid _ _ _ _ D) as V.
      destruct D as [D1 [D2 [D3 [D4 D5]]]].
      destruct (upd_field_ok s0 n k c b (D4 I) V) as [I1 X1]; [lia |].
      destruct (IH _ _ _ _ b I1 B ltac:(rewrite size_upd; lia) H) as [I2 X2].
      split; auto.
      eapply ext_trans; [eapply ext_weaken; [| apply D3]; lia |].
      eapply ext_trans; eauto.
    + rinvp H. inversion H; subst. eapply IH; eauto.
Qed.

Lemma upd_extends_ok : forall s n e b,
  inv s -> ref_ok (size s) e -> b <= n ->
  inv (upd s n (set_extends (Some e))) /\ ext b s (upd s n (set_extends (Some e))).
Proof.
  intros. split.
  - apply inv_upd; auto.
    + intros. apply cls_ok_set_extends; auto. intros x X. inversion X; subst. auto.
    + intros. apply static_set_extends.
  - apply ext_upd; auto. intros. apply static_set_extends.
Qed.

(** * ComplexModelBase.customize with child_attrs / child_attrs_all *)
Lemma customize_complex_ok : forall fuel s c kw ca caa s' n,
  inv s -> customize_complex fuel s c kw ca caa = ROk (s', n) ->
  n = size s /\ size s < size s' /\ inv s' /\ ext (size s) s s' /\ root_of s' n = root_of s c /\
  exists s0, customize_plain s c kw = ROk (s0, n) /\ ext (size s) s0 s'.
Proof.
  induction fuel; intros s c kw ca caa s' n I H; [discriminate |].
  simpl in H. rdesp H as s0 n0 E.
  pose proof (customize_plain_derived _ _ _ _ _ E) as D.
  destruct D as [D1 [D2 [D3 [D4 D5]]]]. subst n0.
  pose proof (D4 I) as I0. pose proof (size_nonneg s) as NN.
  rdes H as s3 Q1.
  (* the child_attrs_all block *)
  assert (P1 : inv s3 /\ ext (size s) s0 s3).
  { clear H. destruct caa as [a |].
    - rdes Q1 as s1 Q2. rdes Q1 as s2 Q3. inversion Q1; subst. clear Q1.
      assert (B0 : 0 <= size s <= size s) by lia. assert (N0 : size s < size s0) by lia.
      destruct (cust_all_fields_ok _ _ _ _ _ _ I0 B0 N0 Q2) as [I1 X1].
      assert (Z1 : size s0 <= size s1) by (eapply ext_size; eauto).
      assert (P2 : inv s2 /\ ext (size s) s1 s2).
      { destruct (get_extends s1 (size s)) as [e |] eqn:G.
        - rdesp Q3 as s1' e' Q4. inversion Q3; subst. clear Q3.
          destruct (IHfuel _ _ _ _ _ _ _ I1 Q4) as [A1 [A2 [A3 [A4 A5]]]]. subst e'.
          destruct (upd_extends_ok s1' (size s) (size s1) (size s) A3) as [I3 X3].
          { unfold ref_ok. lia. }
          { lia. }
          split; auto. eapply ext_trans; [eapply ext_weaken; [| apply A4]; lia | auto].
        - inversion Q3; subst. split; auto. apply ext_refl. }
      destruct P2 as [I3 X3]. split.
      + apply inv_set_dcaa. auto.
      + eapply ext_trans; [apply X1 |]. eapply ext_trans; [apply X3 | apply ext_set_dcaa].
    - inversion Q1; subst. split; auto. apply ext_refl. }
  destruct P1 as [I3 X3]. clear Q1.
  assert (Z3 : size s0 <= size s3) by (eapply ext_size; eauto).
  destruct ca as [d |].
  - rdesp H as s4 rest Q5. rdesp H as s5 basefti Q6. inversion H; subst. clear H.
    assert (B0 : 0 <= size s <= size s) by lia. assert (N0 : size s < size s3) by lia.
    destruct (cust_fields_ok _ _ _ _ _ _ I3 B0 N0 Q5) as [I4 X4].
    assert (Z4 : size s3 <= size s4) by (eapply ext_size; eauto).
    assert (P2 : inv s5 /\ ext (size s) s4 s5).
    { destruct (get_extends s4 (size s)) as [e |] eqn:G.
      - rdesp Q6 as s4' e' Q7. inversion Q6; subst. clear Q6.
        destruct (IHfuel _ _ _ _ _ _ _ I4 Q7) as [A1 [A2 [A3 [A4 A5]]]]. subst e'.
        destruct (upd_extends_ok s4' (size s) (size s4) (size s) A3) as [I5 X5].
        { unfold ref_ok. lia. }
        { lia. }
        split; auto. eapply ext_trans; [eapply ext_weaken; [| apply A4]; lia | auto].
      - inversion Q6; subst. split; auto. apply ext_refl. }
    destruct P2 as [I5 X5].
    assert (XX : ext (size s) s0 (set_dca s5 (size s) (delay
               match zassoc (size s) (dca s5) with Some x => x | None => [] end rest basefti))).
    { eapply ext_trans; [apply X3 |]. eapply ext_trans; [apply X4 |].
      eapply ext_trans; [apply X5 | apply ext_set_dca]. }
    assert (L0 : exists r0, lookup s0 (size s) = Some r0) by (apply lookup_lt_some; lia).
    destruct L0 as [r0 L0].
    split; auto. split; [| split; [| split]].
    + apply ext_size in XX. lia.
    + apply inv_set_dca. auto.
    + eapply ext_trans; [apply D3 | apply XX].
    + split; [rewrite <- D5; eapply root_of_ext; eauto |].
      exists s0. split; [reflexivity | exact XX].
  - inversion H; subst.
    assert (L0 : exists r0, lookup s0 (size s) = Some r0) by (apply lookup_lt_some; lia).
    destruct L0 as [r0 L0].
    split; auto. split; [lia |]. split; auto. split.
    + eapply ext_trans; eauto.
    + split; [rewrite <- D5; eapply root_of_ext; eauto |].
      exists s0. split; [reflexivity | exact X3].
Qed.

Definition extended (s : store) (c : cid) (s' : store) (n : cid) : Prop :=
  n = size s /\ size s < size s' /\ inv s' /\ ext (size s) s s' /\ root_of s' n = root_of s c.

Lemma derived_extended : forall s c s' n, inv s -> derived s c s' n -> extended s c s' n.
Proof.
  unfold derived, extended. intros s c s' n I [A [B [C [D E]]]].
  split; [exact A | split; [lia | split; [exact (D I) | split; [exact C | exact E]]]].
Qed.

(** * customize() as the user calls it *)
Lemma customize_ok : forall s c kw ca caa ne s' n,
  inv s -> customize s c kw ca caa ne = ROk (s', n) -> extended s c s' n.
Proof.
  unfold customize. intros s c kw ca caa ne s' n I H.
  destruct (lookup s c) as [r |] eqn:L; try discriminate.
  destruct (c_kind r) eqn:K.
  - destruct ca; try discriminate. destruct caa; try discriminate. destruct ne; try discriminate.
    apply derived_extended; auto. eapply customize_simple_derived; eauto.
  - destruct (noexc_pre ca caa ne) as [ca' caa'].
    destruct (customize_complex_ok _ _ _ _ _ _ _ _ I H) as [A [B [C [D [E _]]]]].
    unfold extended. auto.
  - destruct (noexc_pre ca caa ne) as [ca' caa'].
    destruct (customize_complex_ok _ _ _ _ _ _ _ _ I H) as [A [B [C [D [E _]]]]].
    unfold extended. auto.
Qed.

(** * Array(serializer, **kw) / Iterable(...) *)
Lemma make_array_ok : forall s base t kw s' n,
  inv s -> make_array s base t kw = ROk (s', n) -> extended s base s' n.
Proof.
  unfold make_array. intros s base t kw s' n I H.
  destruct (lookup s base) as [rb |] eqn:Lb; try discriminate.
  destruct (lookup s t) as [rt |] eqn:Lt; try discriminate.
  destruct (c_kind rb); try discriminate.
  destruct (c_fields rb); try discriminate.
  destruct (c_orig rb); try discriminate.
  destruct (match c_kind rt, c_fields rt with KArray, [_] => false | KArray, _ => true | _, _ => false end);
    try discriminate.
  rdesp H as s1 a Q1.
  pose proof (customize_plain_derived _ _ _ _ _ Q1) as D.
  destruct D as [D1 [D2 [D3 [D4 D5]]]]. subst a. pose proof (D4 I) as I1.
  pose proof (size_nonneg s) as NN. pose proof (lookup_some _ _ _ Lt) as Bt.
  destruct (get_tname s1 t) as [tnm |]; try discriminate.
  destruct (match tnm with TEmpty => (t_OhNoes, TEmpty) | TStr x => (x, TStr (x ++ t_Array)) end)
    as [member atn].
  rdesp H as s2 ser Q2. inversion H; subst. clear H.
  assert (P : inv s2 /\ ext (size s) s1 s2 /\ ref_ok (size s2) ser /\ size s1 <= size s2).
  { destruct (is_v (resolve s1 t K_MAX_OCCURS) (VInt 1)).
    - pose proof (customize_any_derived _ _ _ _ _ Q2) as D.
      pose proof (derived_valid _ _ _ _ D) as V. destruct D as [E1 [E2 [E3 [E4 E5]]]].
      split; [exact (E4 I1) | split; [eapply ext_weaken; [| apply E3]; lia | split; [exact V | lia]]].
    - inversion Q2; subst.
      split; [exact I1 | split; [apply ext_refl | split; [unfold ref_ok; lia | lia]]]. }
  destruct P as [I2 [X2 [V2 Z2]]].
  set (f := fun r : cls => set_tname
              match zassoc K_TYPE_NAME kw with Some (VStr x) => TStr x | _ => atn end
              (set_fields [(member, ser)] r)).
  assert (SF : forall r, static_eq r (f r)) by (intros; unfold f, static_eq; simpl; auto).
  assert (L1 : exists r1, lookup s1 (size s) = Some r1) by (apply lookup_lt_some; lia).
  destruct L1 as [r1 L1].
  unfold extended. split; auto. split; [rewrite size_upd; lia |]. split; [| split].
  - apply inv_upd; auto. intros r K. unfold f. apply cls_ok_set_tname.
    apply cls_ok_set_fields; auto.
    + intros k t0 [X | []]. inversion X; subst. auto.
    + simpl. constructor; auto. constructor.
  - eapply ext_trans; [apply D3 |]. eapply ext_trans; [apply X2 |].
    apply ext_upd; auto. lia.
  - rewrite <- D5.
    assert (X3 : ext (size s) s1 (upd s2 (size s) f)).
    { eapply ext_trans; [apply X2 |]. apply ext_upd; auto. lia. }
    eapply root_of_ext; eauto.
Qed.

(** * Mandatory(cls) *)
Lemma mandatory_ok : forall fuel s c s' n,
  inv s -> mandatory fuel s c = ROk (s', n) -> extended s c s' n.
Proof.
  induction fuel; intros s c s' n I H; [discriminate |].
  simpl in H.
  destruct (lookup s c) as [r |] eqn:L; try discriminate.
  destruct (get_tname s c) as [tnm |]; try discriminate.
  pose proof (size_nonneg s) as NN.
  destruct (c_kind r) as [fam | |].
  - apply derived_extended; auto. destruct fam; eapply customize_simple_derived; eauto.
  - apply derived_extended; auto. eapply customize_plain_derived; eauto.
  - destruct (c_fields r) as [| [k v] rest]; try discriminate.
    destruct rest; try discriminate.
    destruct (is_v (resolve s v K_MIN_OCCURS) (VInt 0)).
    + rdesp H as s1 n1 Q1. rdesp H as s2 v' Q2. inversion H; subst. clear H.
      pose proof (customize_plain_derived _ _ _ _ _ Q1) as D.
      destruct D as [D1 [D2 [D3 [D4 D5]]]]. subst n. pose proof (D4 I) as I1.
      destruct (IHfuel _ _ _ _ I1 Q2) as [A1 [A2 [A3 [A4 A5]]]]. subst v'.
      destruct (upd_field_ok s2 (size s) k (size s1) (size s) A3) as [I3 X3].
      { unfold ref_ok. pose proof (size_nonneg s1). lia. }
      { lia. }
      assert (L1 : exists r1, lookup s1 (size s) = Some r1) by (apply lookup_lt_some; lia).
      destruct L1 as [r1 L1].
      assert (X13 : ext (size s) s1 (upd s2 (size s)
                      (fun x => set_fields (od_set k (size s1) (c_fields x)) x))).
      { eapply ext_trans; [eapply ext_weaken; [| apply A4]; lia | apply X3]. }
      unfold extended. split; auto. split; [rewrite size_upd; lia |]. split; auto. split.
      * eapply ext_trans; [apply D3 | apply X13].
      * rewrite <- D5. eapply root_of_ext; eauto.
    + apply derived_extended; auto. eapply customize_plain_derived; eauto.
Qed.

(** * the class statement *)
Lemma all_valid_In : forall s fs k t,
  all_valid s fs = true -> In (k, t) fs -> exists rt, lookup s t = Some rt.
Proof.
  induction fs as [| [k0 t0] fs IH]; simpl; intros k t H HI; try contradiction.
  destruct (lookup s t0) as [rt |] eqn:L; try discriminate.
  apply andb_true_iff in H. destruct H as [_ H].
  destruct HI as [X | X].
  - inversion X; subst. eauto.
  - eapply IH; eauto.
Qed.

Lemma subclass_shape : forall s parent name fs s' n,
  subclass s parent name fs = ROk (s', n) ->
  exists rp ex,
    lookup s parent = Some rp /\ c_kind rp = KComplex /\ c_orig rp = None /\
    all_valid s fs = true /\ distinct_keys fs = true /\
    (ex = None \/ ex = Some (Some parent)) /\
    (ex = None <-> real_base s parent rp = false) /\
    n = size s /\
    s' = fst (alloc s (mkcls KComplex (Some parent) [] (Some (TStr name)) None ex (od_update [] fs))).
Proof.
  unfold subclass. intros.
  destruct (lookup s parent) as [rp |] eqn:L; try discriminate.
  destruct (c_kind rp) eqn:K; try discriminate.
  destruct (all_valid s fs && distinct_keys fs) eqn:V; simpl in H; try discriminate.
  apply andb_true_iff in V. destruct V as [V1 V2].
  destruct (real_base s parent rp) eqn:RB; destruct (c_orig rp) eqn:O; try discriminate.
  - exists rp, (Some (Some parent)).
    split; [reflexivity |]. split; [exact K |]. split; [exact O |].
    split; [exact V1 |]. split; [exact V2 |]. split; [right; reflexivity |].
    split; [rewrite RB; split; intros; discriminate |]. inversion H. auto.
  - exists rp, None.
    split; [reflexivity |]. split; [exact K |]. split; [exact O |].
    split; [exact V1 |]. split; [exact V2 |]. split; [left; reflexivity |].
    split; [rewrite RB; split; intros; reflexivity |]. inversion H. auto.
Qed.

Lemma subclass_ok : forall s parent name fs s' n,
  inv s -> subclass s parent name fs = ROk (s', n) ->
  n = size s /\ size s < size s' /\ inv s' /\ ext (size s) s s'.
Proof.
  intros s parent name fs s' n I H.
  destruct (subclass_shape _ _ _ _ _ _ H) as [rp [ex [L [K [O [V1 [V2 [X [_ [N S']]]]]]]]]].
  subst. split; auto. split; [rewrite size_alloc; lia |]. split; [| apply ext_alloc].
  apply inv_alloc; [exact I | | right; left; reflexivity].
  - pose proof (lookup_some _ _ _ L). unfold cls_ok. simpl.
    split; [| split; [| split; [| split]]]; intros.
    + inversion H1; subst. auto.
    + discriminate.
    + destruct X; subst; try discriminate. inversion H1; subst. auto.
    + apply In_od_update in H1. destruct H1 as [[] | H1].
      destruct (all_valid_In _ _ _ _ V1 H1) as [rt Lt]. eapply lookup_some; eauto.
    + apply NoDup_od_update. constructor.
Qed.

(** * calling a primitive: T(kw) *)
Lemma bytearray_new_ok : forall s c kw s' n,
  inv s -> bytearray_new s c kw = ROk (s', n) -> extended s c s' n.
Proof.
  unfold bytearray_new. intros s c kw s' n I H.
  destruct (zassoc K_ENCODING kw) as [v |].
  - destruct (enc_norm v) as [[e tn] |]; try discriminate.
    rdesp H as s1 n1 Q. inversion H; subst. clear H.
    pose proof (customize_simple_derived _ _ _ _ _ Q) as D.
    destruct (derived_extended _ _ _ _ I D) as [A [B [C [E F]]]].
    destruct tn as [t |]; [| unfold extended; auto].
    subst n. pose proof (size_nonneg s) as NN.
    destruct (lookup_lt_some s1 (size s)) as [r1 L1]; [lia |].
    assert (X : ext (size s) s1 (upd s1 (size s) (set_tname (TStr t)))).
    { apply ext_upd; [lia | intros; apply static_set_tname]. }
    unfold extended. split; [reflexivity | split; [rewrite size_upd; lia | split; [| split]]].
    + apply inv_upd; [exact C | intros; apply cls_ok_set_tname; auto | intros; apply static_set_tname].
    + eapply ext_trans; eauto.
    + rewrite <- F. eapply root_of_ext; eauto.
  - apply derived_extended; auto. eapply customize_simple_derived; eauto.
Qed.

Lemma call_simple_ok : forall s c kw s' n,
  inv s -> call_simple s c kw = ROk (s', n) -> extended s c s' n.
Proof.
  unfold call_simple. intros s c kw s' n I H.
  destruct (lookup s c) as [r |]; try discriminate.
  destruct (c_kind r) as [[| | |] | |]; try discriminate;
    try (apply derived_extended; [exact I | eapply customize_simple_derived; exact H]).
  eapply bytearray_new_ok; eauto.
Qed.

Local Opaque FUEL.

(** * one derivation step *)
Lemma step_derivation_ok : forall s o s' res,
  inv s -> is_derivation o = true -> step s o = ROk (s', res) ->
  res = Some (size s) /\ size s < size s' /\ inv s' /\ ext (size s) s s'.
Proof.
  intros s o s' res I D H. destruct o; simpl in *; try discriminate.
  - rdesp H as s1 n Q. inversion H; subst.
    destruct (customize_ok _ _ _ _ _ _ _ _ I Q) as [A [B [C [E _]]]]. subst. auto.
  - rdesp H as s1 n Q. inversion H; subst.
    destruct (make_array_ok _ _ _ _ _ _ I Q) as [A [B [C [E _]]]]. subst. auto.
  - rdesp H as s1 n Q. inversion H; subst.
    destruct (mandatory_ok _ _ _ _ _ I Q) as [A [B [C [E _]]]]. subst. auto.
  - rdesp H as s1 n Q. inversion H; subst.
    destruct (call_simple_ok _ _ _ _ _ I Q) as [A [B [C [E _]]]]. subst. auto.
  - rdesp H as s1 n Q. inversion H; subst.
    destruct (subclass_ok _ _ _ _ _ _ I Q) as [A [B [C E]]]. subst. auto.
Qed.
