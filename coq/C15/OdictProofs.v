(** C15: lemmas about the odict of spyne/util/odict.py as modelled in
    C15/Model.v ([od_set], [od_update], [od_del], [od_insert]): key order is
    first-insertion order, keys stay distinct, what is stored is what was put. *)
From Coq Require Import ZArith List Bool Lia.
From SpyneV Require Import C15.Spec.
Import ListNotations.
Open Scope Z_scope.

Lemma text_eqb_refl : forall a, text_eqb a a = true.
Proof. induction a; simpl; auto. rewrite Z.eqb_refl. auto. Qed.

Lemma text_eqb_eq : forall a b, text_eqb a b = true <-> a = b.
Proof.
  induction a; destruct b; simpl; split; intros H; try discriminate; auto.
  - apply andb_true_iff in H. destruct H as [H1 H2]. apply Z.eqb_eq in H1. apply IHa in H2. congruence.
  - inversion H; subst. rewrite Z.eqb_refl. simpl. apply text_eqb_refl.
Qed.

Lemma text_eqb_neq : forall a b, text_eqb a b = false <-> a <> b.
Proof.
  intros. split; intros H.
  - intros E. apply text_eqb_eq in E. congruence.
  - destruct (text_eqb a b) eqn:E; auto. apply text_eqb_eq in E. contradiction.
Qed.

Lemma text_eqb_sym : forall a b, text_eqb a b = text_eqb b a.
Proof.
  intros. destruct (text_eqb a b) eqn:E.
  - apply text_eqb_eq in E. subst. symmetry. apply text_eqb_refl.
  - symmetry. apply text_eqb_neq. apply text_eqb_neq in E. congruence.
Qed.

Lemma tmemk_In : forall k l, tmemk k l = true <-> In k l.
Proof.
  induction l; simpl; split; intros H; try discriminate; try contradiction.
  - apply orb_true_iff in H. destruct H as [H | H].
    + left. apply text_eqb_eq in H. auto.
    + right. apply IHl. auto.
  - apply orb_true_iff. destruct H as [H | H].
    + left. subst. apply text_eqb_refl.
    + right. apply IHl. auto.
Qed.

Lemma tmemk_false : forall k l, tmemk k l = false <-> ~ In k l.
Proof.
  intros. split; intros H.
  - intros E. apply tmemk_In in E. congruence.
  - destruct (tmemk k l) eqn:E; auto. apply tmemk_In in E. contradiction.
Qed.

Lemma nodupb_NoDup : forall l, nodupb l = true <-> NoDup l.
Proof.
  induction l; simpl; split; intros H.
  - constructor.
  - auto.
  - apply andb_true_iff in H. destruct H as [H1 H2]. constructor.
    + apply tmemk_false. destruct (tmemk a l); simpl in H1; congruence.
    + apply IHl. auto.
  - inversion H; subst. apply andb_true_iff. split.
    + apply tmemk_false in H2. rewrite H2. auto.
    + apply IHl. auto.
Qed.

Section V.
Context {V : Type}.
Implicit Types l items : list (text * V).

Lemma tmem_keys : forall k l, tmem k l = tmemk k (keys l).
Proof.
  unfold tmem. induction l as [| [k' v'] l IH]; simpl; auto.
  destruct (text_eqb k k'); simpl; auto.
Qed.

Lemma tassoc_In : forall k v l, tassoc k l = Some v -> In (k, v) l.
Proof.
  induction l as [| [k' v'] l IH]; simpl; intros H; try discriminate.
  destruct (text_eqb k k') eqn:E.
  - apply text_eqb_eq in E. inversion H; subst. auto.
  - auto.
Qed.

Lemma tassoc_none : forall k l, tassoc k l = None <-> ~ In k (keys l).
Proof.
  induction l as [| [k' v'] l IH]; simpl; split; intros H; auto.
  - destruct (text_eqb k k') eqn:E; try discriminate. apply text_eqb_neq in E.
    intros [X | X]; [congruence | apply IH in H; contradiction].
  - destruct (text_eqb k k') eqn:E.
    + apply text_eqb_eq in E. subst. exfalso. apply H. auto.
    + apply IH. intros X. apply H. auto.
Qed.

Lemma tassoc_some_key : forall k v l, tassoc k l = Some v -> In k (keys l).
Proof. intros. apply tassoc_In in H. apply (in_map fst) in H. auto. Qed.

Lemma NoDup_tassoc : forall k v l, NoDup (keys l) -> In (k, v) l -> tassoc k l = Some v.
Proof.
  induction l as [| [k' v'] l IH]; simpl; intros ND H; try contradiction.
  inversion ND; subst. destruct H as [H | H].
  - inversion H; subst. rewrite text_eqb_refl. auto.
  - destruct (text_eqb k k') eqn:E.
    + apply text_eqb_eq in E. subst. exfalso. apply H2. apply (in_map fst) in H. auto.
    + auto.
Qed.

(** ** od_set *)
Lemma keys_od_set : forall k v l,
  keys (od_set k v l) = if tmemk k (keys l) then keys l else keys l ++ [k].
Proof.
  induction l as [| [k' v'] l IH]; simpl; auto.
  destruct (text_eqb k k') eqn:E; simpl; auto.
  rewrite IH. destruct (tmemk k (keys l)); auto.
Qed.

Lemma In_od_set : forall k v k' v' l,
  In (k', v') (od_set k v l) -> (k' = k /\ v' = v) \/ In (k', v') l.
Proof.
  induction l as [| [k0 v0] l IH]; simpl; intros H.
  - destruct H as [H | []]. inversion H. auto.
  - destruct (text_eqb k k0) eqn:E; simpl in H.
    + apply text_eqb_eq in E. subst. destruct H as [H | H]; auto. inversion H. auto.
    + destruct H as [H | H]; auto. apply IH in H. tauto.
Qed.

Lemma tassoc_od_set_same : forall k v l, tassoc k (od_set k v l) = Some v.
Proof.
  induction l as [| [k0 v0] l IH]; simpl.
  - rewrite text_eqb_refl. auto.
  - destruct (text_eqb k k0) eqn:E; simpl; rewrite E; auto.
Qed.

Lemma tassoc_od_set_other : forall k v k' l,
  text_eqb k' k = false -> tassoc k' (od_set k v l) = tassoc k' l.
Proof.
  induction l as [| [k0 v0] l IH]; simpl; intros H.
  - rewrite H. auto.
  - destruct (text_eqb k k0) eqn:E; simpl.
    + apply text_eqb_eq in E. subst. rewrite H. auto.
    + destruct (text_eqb k' k0); auto.
Qed.

Lemma NoDup_app_one : forall (A : Type) (l : list A) x, NoDup l -> ~ In x l -> NoDup (l ++ [x]).
Proof.
  induction l; simpl; intros x ND H.
  - constructor; auto.
  - inversion ND; subst. constructor.
    + rewrite in_app_iff. simpl. intros [X | [X | []]]; auto.
    + apply IHl; auto.
Qed.

Lemma NoDup_od_set : forall k v l, NoDup (keys l) -> NoDup (keys (od_set k v l)).
Proof.
  intros. rewrite keys_od_set. destruct (tmemk k (keys l)) eqn:E; auto.
  apply NoDup_app_one; auto. apply tmemk_false. auto.
Qed.

(** ** od_update: first-insertion order *)
Lemma keys_od_update : forall items l, keys (od_update l items) = first_ins (keys l) (keys items).
Proof.
  induction items as [| [k v] items IH]; simpl; intros; auto.
  rewrite IH. rewrite keys_od_set. auto.
Qed.

Lemma NoDup_first_ins : forall ks acc, NoDup acc -> NoDup (first_ins acc ks).
Proof.
  induction ks; simpl; intros; auto.
  apply IHks. destruct (tmemk a acc) eqn:E; auto.
  apply NoDup_app_one; auto. apply tmemk_false. auto.
Qed.

Lemma NoDup_od_update : forall items l, NoDup (keys l) -> NoDup (keys (od_update l items)).
Proof. intros. rewrite keys_od_update. apply NoDup_first_ins. auto. Qed.

Lemma In_od_update : forall items l k v,
  In (k, v) (od_update l items) -> In (k, v) l \/ In (k, v) items.
Proof.
  induction items as [| [k0 v0] items IH]; simpl; intros; auto.
  apply IH in H. destruct H as [H | H]; auto.
  apply In_od_set in H. destruct H as [[? ?] | H]; subst; auto.
Qed.

(** new names go behind the existing ones, in the order given *)
Lemma first_ins_fresh : forall ks acc,
  NoDup ks -> (forall k, In k ks -> ~ In k acc) -> first_ins acc ks = acc ++ ks.
Proof.
  induction ks; simpl; intros acc ND H.
  - rewrite app_nil_r. auto.
  - inversion ND; subst.
    assert (E : tmemk a acc = false) by (apply tmemk_false; apply H; auto).
    rewrite E. rewrite IHks; auto.
    + rewrite <- app_assoc. auto.
    + intros k Hk. rewrite in_app_iff. simpl. intros [X | [X | []]].
      * apply (H k); auto.
      * subst. contradiction.
Qed.

(** the names first seen in [ks], in order: the general form *)
Lemma first_ins_incl : forall ks acc k, In k (first_ins acc ks) <-> In k acc \/ In k ks.
Proof.
  induction ks; simpl; intros.
  - tauto.
  - rewrite IHks. destruct (tmemk a acc) eqn:E.
    + apply tmemk_In in E. split; intros [X | X]; auto. destruct X; subst; auto.
    + rewrite in_app_iff. simpl. tauto.
Qed.

Lemma first_ins_prefix : forall ks acc, exists rest, first_ins acc ks = acc ++ rest.
Proof.
  induction ks; simpl; intros.
  - exists []. rewrite app_nil_r. auto.
  - destruct (tmemk a acc).
    + apply IHks.
    + destruct (IHks (acc ++ [a])) as [rest H]. exists (a :: rest). rewrite H. rewrite <- app_assoc. auto.
Qed.

Lemma distinct_keys_NoDup : forall l, distinct_keys l = true <-> NoDup (keys l).
Proof.
  induction l as [| [k v] l IH]; simpl; split; intros H.
  - constructor.
  - auto.
  - apply andb_true_iff in H. destruct H as [H1 H2]. constructor.
    + rewrite tmem_keys in H1. apply tmemk_false. destruct (tmemk k (keys l)); simpl in H1; congruence.
    + apply IH. auto.
  - inversion H; subst. apply andb_true_iff. split.
    + rewrite tmem_keys. apply tmemk_false in H2. rewrite H2. auto.
    + apply IH. auto.
Qed.

Lemma od_set_fresh : forall k v l, ~ In k (keys l) -> od_set k v l = l ++ [(k, v)].
Proof.
  induction l as [| [k0 v0] l IH]; simpl; intros H; auto.
  destruct (text_eqb k k0) eqn:E.
  - apply text_eqb_eq in E. subst. exfalso. auto.
  - rewrite IH; auto.
Qed.

Lemma od_update_fresh : forall items l,
  NoDup (keys items) -> (forall k, In k (keys items) -> ~ In k (keys l)) ->
  od_update l items = l ++ items.
Proof.
  induction items as [| [k v] items IH]; simpl; intros l ND H.
  - rewrite app_nil_r. auto.
  - inversion ND; subst. rewrite od_set_fresh by (apply H; auto).
    rewrite IH; auto.
    + rewrite <- app_assoc. auto.
    + intros k0 Hk. unfold keys. rewrite map_app. rewrite in_app_iff. simpl.
      intros [X | [X | []]].
      * apply (H k0); auto.
      * subst. contradiction.
Qed.

(** ** od_del *)
Lemma keys_od_del : forall k l, keys (od_del k l) = remove_key k (keys l).
Proof.
  induction l as [| [k0 v0] l IH]; simpl; auto.
  destruct (text_eqb k k0); simpl; auto. rewrite IH. auto.
Qed.

Lemma In_od_del : forall k l x, In x (od_del k l) -> In x l.
Proof.
  induction l as [| [k0 v0] l IH]; simpl; intros; auto.
  destruct (text_eqb k k0); simpl in *; auto. destruct H; auto.
Qed.

End V.

Lemma In_remove_key : forall k l x, In x (remove_key k l) -> In x l.
Proof.
  induction l; simpl; intros; auto.
  destruct (text_eqb k a); simpl in *; auto. destruct H; auto.
Qed.

Lemma NoDup_remove_key : forall k l, NoDup l -> NoDup (remove_key k l) /\ ~ In k (remove_key k l).
Proof.
  induction l; simpl; intros ND.
  - split; [constructor | auto].
  - inversion ND; subst. destruct (text_eqb k a) eqn:E.
    + apply text_eqb_eq in E. subst. auto.
    + destruct (IHl H2) as [A B]. split.
      * constructor; auto. intros X. apply In_remove_key in X. contradiction.
      * simpl. intros [X | X]; auto. apply text_eqb_neq in E. congruence.
Qed.

Lemma remove_key_absent : forall k l, ~ In k l -> remove_key k l = l.
Proof.
  induction l; simpl; intros; auto.
  destruct (text_eqb k a) eqn:E.
  - apply text_eqb_eq in E. subst. exfalso. auto.
  - rewrite IHl; auto.
Qed.

(** ** list.insert *)
Lemma map_insert_at : forall (A B : Type) (f : A -> B) n x l,
  map f (insert_at n x l) = insert_at n (f x) (map f l).
Proof.
  induction n; destruct l; simpl; auto. rewrite IHn. auto.
Qed.

Lemma map_py_insert : forall (A B : Type) (f : A -> B) i x l,
  map f (py_insert i x l) = py_insert i (f x) (map f l).
Proof. intros. unfold py_insert. rewrite map_length. apply map_insert_at. Qed.

Lemma In_insert_at : forall (A : Type) n (x y : A) l, In y (insert_at n x l) <-> y = x \/ In y l.
Proof.
  induction n; destruct l; simpl; try rewrite IHn;
    (split; intros H; repeat (destruct H as [H | H]); subst; auto; try contradiction).
Qed.

Lemma In_py_insert : forall (A : Type) i (x y : A) l, In y (py_insert i x l) <-> y = x \/ In y l.
Proof. intros. apply In_insert_at. Qed.

Lemma NoDup_insert_at : forall (A : Type) n (x : A) l, NoDup l -> ~ In x l -> NoDup (insert_at n x l).
Proof.
  induction n; destruct l; simpl; intros ND H.
  - constructor; auto.
  - constructor; auto.
  - constructor; auto.
  - inversion ND; subst. constructor.
    + rewrite In_insert_at. intros [X | X]; subst; auto.
    + apply IHn; auto.
Qed.

(** list.insert keeps the relative order of what was there *)
Lemma insert_at_split : forall (A : Type) n (x : A) l,
  exists a b, l = a ++ b /\ insert_at n x l = a ++ x :: b.
Proof.
  induction n; destruct l; simpl.
  - exists [], []. auto.
  - exists [], (a :: l). auto.
  - exists [], []. auto.
  - destruct (IHn x l) as [p [q [E1 E2]]]. exists (a :: p), q. simpl. rewrite <- E1, E2. auto.
Qed.

Section V2.
Context {V : Type}.
Implicit Types l : list (text * V).

Lemma keys_od_insert : forall i k v l,
  keys (od_insert i k v l) = py_insert i k (remove_key k (keys l)).
Proof.
  intros. unfold od_insert, keys. rewrite map_py_insert. simpl.
  fold (keys (od_del k l)). rewrite keys_od_del. auto.
Qed.

Lemma NoDup_od_insert : forall i k v l, NoDup (keys l) -> NoDup (keys (od_insert i k v l)).
Proof.
  intros. rewrite keys_od_insert. destruct (NoDup_remove_key k (keys l) H).
  apply NoDup_insert_at; auto.
Qed.

Lemma In_od_insert : forall i k v l x, In x (od_insert i k v l) -> x = (k, v) \/ In x l.
Proof.
  intros. unfold od_insert in H. apply In_py_insert in H. destruct H; auto.
  right. eapply In_od_del; eauto.
Qed.

Lemma In_od_insert_new : forall i k v l, In (k, v) (od_insert i k v l).
Proof. intros. unfold od_insert. apply In_py_insert. auto. Qed.

Lemma tassoc_od_insert_same : forall i k v l,
  NoDup (keys l) -> tassoc k (od_insert i k v l) = Some v.
Proof.
  intros. apply NoDup_tassoc.
  - apply NoDup_od_insert. auto.
  - apply In_od_insert_new.
Qed.

End V2.
