(** Shared vocabulary of the wire-level models (C01, C02, C04, C06, C10, C16,
    C18): type universes, native values, conformance.  Definitions only.
    Mirrors the structure of spyne.model.complex (ComplexModel classes with an
    ordered _type_info, single inheritance, Array(T) wrapper classes, fields
    with min_occurs / max_occurs / nillable, XmlAttribute members).

    Leaves are three representative primitive kinds (Integer, Unicode,
    Boolean); the per-type text codecs are C08's subject and enter structural
    theorems as hypotheses discharged there. *)
From SpyneV Require Export Base.Prelude.

Inductive prim := PInt | PText | PBool.
Inductive pval := LInt (z : Z) | LText (t : text) | LBool (b : bool).

Definition cid := nat.

(** native values: None, a primitive, an instance of class [c] with one value per
    flattened field (ancestors' fields first), a Python list *)
Inductive val :=
| VNone
| VLeaf (p : pval)
| VObj (c : cid) (fs : list val)
| VList (vs : list val).

(** declared types: primitive, reference to a class, Array(elt) (a wrapper
    class with a single unbounded member) *)
Inductive ty :=
| TPrim (p : prim)
| TRef (c : cid)
| TArr (elt : ty).

Inductive fkind := KElem | KAttr.   (* ordinary member | XmlAttribute(T) *)

(** one entry of _type_info.  f_max = None means 'unbounded'.  A member with
    f_max <> Some 1 holds a Python list of element values (unwrapped array). *)
Record field := mkfield {
  f_name : text; f_ty : ty; f_min : Z; f_max : option Z; f_nillable : bool; f_kind : fkind }.

Record cls := mkcls {
  c_ns : text; c_name : text; c_parent : option cid; c_own : list field }.

Definition universe := list cls.

Definition get_cls (U : universe) (c : cid) : option cls := nth_error U c.

(** get_flat_type_info: ancestors' fields first.  Fuel bounds the parent chain;
    in a well-formed universe parents have smaller ids, so [S c] suffices. *)
Fixpoint flat_fields_fuel (fuel : nat) (U : universe) (c : cid) : option (list field) :=
  match fuel with
  | O => None
  | S k =>
      match get_cls U c with
      | None => None
      | Some cl =>
          match c_parent cl with
          | None => Some (c_own cl)
          | Some p => match flat_fields_fuel k U p with
                      | Some pf => Some (pf ++ c_own cl)
                      | None => None
                      end
          end
      end
  end.
Definition flat_fields (U : universe) (c : cid) : option (list field) :=
  flat_fields_fuel (S c) U c.

(** [is_subclass U d c]: d = c or c is an ancestor of d *)
Fixpoint is_subclass_fuel (fuel : nat) (U : universe) (d c : cid) : bool :=
  if Nat.eqb d c then true
  else match fuel with
       | O => false
       | S k => match get_cls U d with
                | Some cl => match c_parent cl with
                             | Some p => is_subclass_fuel k U p c
                             | None => false
                             end
                | None => false
                end
       end.
Definition is_subclass (U : universe) (d c : cid) : bool := is_subclass_fuel (S d) U d c.

Definition is_multi (f : field) : bool :=
  match f_max f with Some m => 1 <? m | None => true end.

Definition prim_has (p : prim) (v : pval) : bool :=
  match p, v with
  | PInt, LInt _ | PText, LText _ | PBool, LBool _ => true
  | _, _ => false
  end.

(** well-formedness of a universe: parents precede children (acyclic single
    inheritance), references resolve, flattened field names are distinct *)
Fixpoint ty_ok (n : nat) (t : ty) : bool :=
  match t with
  | TPrim _ => true
  | TRef c => Nat.ltb c n
  | TArr e => ty_ok n e
  end.
Fixpoint text_mem (x : text) (l : list text) : bool :=
  match l with [] => false | y :: r => text_eqb x y || text_mem x r end.
Fixpoint nodup_text (l : list text) : bool :=
  match l with [] => true | x :: r => negb (text_mem x r) && nodup_text r end.
Definition cls_ok (U : universe) (i : nat) (cl : cls) : bool :=
  match c_parent cl with Some p => Nat.ltb p i | None => true end
  && forallb (fun f => ty_ok (length U) (f_ty f)) (c_own cl)
  && match flat_fields U i with
     | Some fs => nodup_text (map f_name fs)
     | None => false
     end.
Fixpoint wf_from (U : universe) (i : nat) (l : list cls) : bool :=
  match l with [] => true | cl :: r => cls_ok U i cl && wf_from U (S i) r end.
Definition wf_universe (U : universe) : bool := wf_from U 0 U.

(** [conforms U poly t v]: value [v] inhabits declared type [t].  With
    [poly = true] an instance of a subclass may stand where a class is
    declared; with [poly = false] the runtime class must be the declared one.
    Fuel bounds the nesting depth of the value. *)
Fixpoint conforms (fuel : nat) (U : universe) (poly : bool) (t : ty) (v : val) : bool :=
  match fuel with
  | O => false
  | S k =>
      match v with
      | VNone => true
      | VLeaf p => match t with TPrim q => prim_has q p | _ => false end
      | VList vs =>
          match t with
          | TArr e => forallb (conforms k U poly e) vs
          | _ => false
          end
      | VObj d fs =>
          match t with
          | TRef c =>
              (if poly then is_subclass U d c else Nat.eqb d c)
              && match flat_fields U d with
                 | Some ffs =>
                     Nat.eqb (length ffs) (length fs)
                     && forallb (fun fv =>
                          let f := fst fv in let x := snd fv in
                          if is_multi f then
                            match x with
                            | VNone => true
                            | VList xs => forallb (conforms k U poly (f_ty f)) xs
                            | _ => false
                            end
                          else conforms k U poly (f_ty f) x) (combine ffs fs)
                 | None => false
                 end
          | _ => false
          end
      end
  end.

(** a method signature: ordered, named, typed parameters; result types *)
Record signature := mksig {
  s_name : text; s_ns : text; s_params : list field; s_results : list field }.

(** structural equality on values, for case files *)
Definition pval_eqb (a b : pval) : bool :=
  match a, b with
  | LInt x, LInt y => x =? y
  | LText x, LText y => text_eqb x y
  | LBool x, LBool y => Bool.eqb x y
  | _, _ => false
  end.
Fixpoint val_eqb (a b : val) : bool :=
  match a, b with
  | VNone, VNone => true
  | VLeaf x, VLeaf y => pval_eqb x y
  | VObj c xs, VObj d ys =>
      Nat.eqb c d &&
      (fix go (l1 l2 : list val) : bool :=
         match l1, l2 with
         | [], [] => true
         | x :: r1, y :: r2 => val_eqb x y && go r1 r2
         | _, _ => false
         end) xs ys
  | VList xs, VList ys =>
      (fix go (l1 l2 : list val) : bool :=
         match l1, l2 with
         | [], [] => true
         | x :: r1, y :: r2 => val_eqb x y && go r1 r2
         | _, _ => false
         end) xs ys
  | _, _ => false
  end.
