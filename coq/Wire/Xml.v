(** Model of spyne/protocol/xml.py: XmlDocument.to_parent / from_element over a
    type universe (Wire/Universe.v).  Definitions only.

    Mirrors, function by function:
      to_parent / null_to_parent / modelbase_to_parent / xmlattribute_to_parent
      complex_to_parent / gen_members_parent / _get_members_etree   ([enc], [enc_field], [enc_members])
      from_element (xsi:nil, xsi:type hook) / base_from_element / unicode_from_element
      array_from_element / complex_from_element (member lookup by local name, attributes,
      the [frequencies] check of validator='soft')                   ([dec], [dec_kids], [dec_atts])
    lxml is represented by the tree type [xnode] and by [wire], the one identification a
    serialise/parse cycle makes on the trees Spyne builds (text '' becomes no text).

    The primitive text codecs are a parameter ([leaf_codec]); C08 is about them.
    Polymorphism: the output side ([x_poly]) follows get_polymorphic_target; the input side
    is the hook [x_resolve] (xsi:type -> class id), because the prefix resolution of lxml's
    nsmap is not part of the tree vocabulary. *)
From SpyneV Require Export Base.Prelude Wire.Universe.

(** lxml trees as the harness prints them (universe.g_xml): namespace ("" = none), local
    name, attributes (ns, name, value), element.text, children; comments/PIs/entities = XOther *)
Inductive xnode :=
| XElt (ns name : text) (atts : list (text * text * text)) (txt : option text) (kids : list xnode)
| XOther.

Definition attr := (text * text * text)%type.

Definition xsi_ns : text := [104; 116; 116; 112; 58; 47; 47; 119; 119; 119; 46; 119; 51; 46; 111; 114; 103; 47; 50; 48; 48; 49; 47; 88; 77; 76; 83; 99; 104; 101; 109; 97; 45; 105; 110; 115; 116; 97; 110; 99; 101].  (* http://www.w3.org/2001/XMLSchema-instance *)
Definition t_nil : text := [110; 105; 108].  (* nil *)
Definition t_true : text := [116; 114; 117; 101].  (* true *)
Definition t_one : text := [49].  (* 1 *)
Definition t_type : text := [116; 121; 112; 101].  (* type *)
Definition t_integer : text := [105; 110; 116; 101; 103; 101; 114].  (* integer *)
Definition t_string : text := [115; 116; 114; 105; 110; 103].  (* string *)
Definition t_boolean : text := [98; 111; 111; 108; 101; 97; 110].  (* boolean *)
Definition t_Array : text := [65; 114; 114; 97; 121].  (* Array *)

(** ProtocolBase.to_unicode / from_unicode for the primitive kinds, and the set of native
    values on which they are claimed lossless (C08's subject) *)
Record leaf_codec := mkleaf {
  lc_pr : prim -> pval -> out text;
  lc_rd : prim -> text -> out pval;
  lc_ok : prim -> pval -> bool }.

Record xcfg := mkxcfg {
  x_soft : bool;                          (* validator='soft' *)
  x_tns : option text;                    (* Some tns: classes resolved by an Application (Array(primitive) classes live in its
                                             tns); None: no Application, Array classes have no namespace at all *)
  x_poly : bool;                          (* XmlDocument(polymorphic=True), output side *)
  x_resolve : xnode -> option (out cid)   (* xsi:type of an element: None = attribute absent / parse_xsi_type=False *)
}.

(** the lxml serialise/parse cycle on Spyne-built trees: element.text = '' is read back as None *)
Fixpoint wire (e : xnode) : xnode :=
  match e with
  | XElt ns n a t k => XElt ns n a (match t with Some [] => None | _ => t end) (map wire k)
  | XOther => XOther
  end.

Fixpoint mapM {A B} (f : A -> out B) (l : list A) : out (list B) :=
  match l with
  | [] => Ok []
  | x :: r => do y <- f x; do ys <- mapM f r; Ok (y :: ys)
  end.

(** get_flat_type_info with the namespace of the declaring class (parents first):
    _get_members_etree recurses into __extends__ and uses that class's namespace *)
Fixpoint flat_decl_fuel (fuel : nat) (U : universe) (c : cid) : option (list (text * field)) :=
  match fuel with
  | O => None
  | S k =>
      match get_cls U c with
      | None => None
      | Some cl =>
          let own := map (fun f => (c_ns cl, f)) (c_own cl) in
          match c_parent cl with
          | None => Some own
          | Some p => match flat_decl_fuel k U p with
                      | Some pf => Some (pf ++ own)
                      | None => None
                      end
          end
      end
  end.
Definition flat_decl (U : universe) (c : cid) : option (list (text * field)) :=
  flat_decl_fuel (S c) U c.

Fixpoint find_field (k : text) (fs : list field) : option field :=
  match fs with
  | [] => None
  | f :: r => if text_eqb (f_name f) k then Some f else find_field k r
  end.

(** instance attributes: a Python object's __dict__ as an association list, newest first *)
Definition pystate := list (text * val).
Fixpoint getattr (st : pystate) (k : text) : val :=
  match st with
  | [] => VNone                                   (* class-level default: None *)
  | (k', v) :: r => if text_eqb k' k then v else getattr r k
  end.
Definition setattr (st : pystate) (k : text) (v : val) : pystate := (k, v) :: st.

Fixpoint count_text (k : text) (l : list text) : Z :=
  match l with
  | [] => 0
  | x :: r => (if text_eqb x k then 1 else 0) + count_text k r
  end.

Fixpoint lookup_att (ns name : text) (atts : list attr) : option text :=
  match atts with
  | [] => None
  | (a, n, v) :: r => if text_eqb a ns && text_eqb n name then Some v else lookup_att ns name r
  end.

(** element.get(XSI('nil')) in ('true', '1') *)
Definition is_nil (atts : list attr) : bool :=
  match lookup_att xsi_ns t_nil atts with
  | Some v => text_eqb v t_true || text_eqb v t_one
  | None => false
  end.

(** lxml attribute key: Clark notation *)
Definition clark (ns name : text) : text :=
  match ns with [] => name | _ => 123 :: ns ++ 125 :: name end.

Definition nil_att : attr := (xsi_ns, t_nil, t_true).

Section Codec.
  Variable L : leaf_codec.
  Variable C : xcfg.
  Variable U : universe.

  Definition cls_ns (c : cid) : text := match get_cls U c with Some cl => c_ns cl | None => [] end.
  Definition cls_name (c : cid) : text := match get_cls U c with Some cl => c_name cl | None => [] end.

  (** get_type_name of a member type; Array(T) is named T's name + 'Array' *)
  Fixpoint type_name (t : ty) : text :=
    match t with
    | TPrim PInt => t_integer
    | TPrim PText => t_string
    | TPrim PBool => t_boolean
    | TRef c => cls_name c
    | TArr e => type_name e ++ t_Array
    end.
  (** namespace of the Array(T) class = namespace its single member is written in *)
  Fixpoint arr_ns_app (tns : text) (e : ty) : text :=
    match e with
    | TPrim _ => tns
    | TRef c => cls_ns c
    | TArr e' => arr_ns_app tns e'
    end.
  Definition arr_ns (e : ty) : text :=
    match x_tns C with Some tns => arr_ns_app tns e | None => [] end.

  (* ---------------------------------------------------------------- output *)

  (** one entry of _type_info in _get_members_etree: the elements appended to the parent
      and the attributes set on it *)
  Definition enc_field (encf : ty -> text -> text -> val -> out xnode) (dns : text) (f : field) (x : val)
    : out (list xnode * list attr) :=
    match f_kind f with
    | KAttr =>                                       (* to_parent -> xmlattribute_to_parent / null_to_parent *)
        match x with
        | VNone => Ok ([], [])
        | VLeaf pv => match f_ty f with
                      | TPrim p => do s <- lc_pr L p pv; Ok ([], [([], f_name f, s)])
                      | _ => Crash TypeError
                      end
        | _ => Crash TypeError
        end
    | KElem =>
        if is_multi f then                           (* mo > 1 *)
          match x with
          | VNone => if 0 <? f_min f                 (* elif subvalue is not None or min_occurs > 0 *)
                     then do e <- encf (f_ty f) dns (f_name f) VNone; Ok ([e], [])
                     else Ok ([], [])
          | VList xs => do es <- mapM (encf (f_ty f) dns (f_name f)) xs; Ok (es, [])
          | _ => Crash TypeError                     (* iterating a non-sequence *)
          end
        else
          match x with
          | VNone => if 0 <? f_min f
                     then do e <- encf (f_ty f) dns (f_name f) VNone; Ok ([e], [])
                     else Ok ([], [])
          | _ => do e <- encf (f_ty f) dns (f_name f) x; Ok ([e], [])
          end
    end.

  (** the loop over the flattened _type_info (parents first); getattr(inst, k, None) *)
  Fixpoint enc_members (encf : ty -> text -> text -> val -> out xnode)
           (ffs : list (text * field)) (vals : list val) : out (list xnode * list attr) :=
    match ffs with
    | [] => Ok ([], [])
    | (dns, f) :: r =>
        do a <- enc_field encf dns f (hd VNone vals);
        do b <- enc_members encf r (tl vals);
        Ok (fst a ++ fst b, snd a ++ snd b)
    end.

  (** XmlDocument.to_parent for a member that is written as an element.
      Fuel bounds the nesting depth of the value; exhaustion is [Crash OtherExn]. *)
  Fixpoint enc (fuel : nat) (t : ty) (ns name : text) (v : val) : out xnode :=
    match fuel with
    | O => Crash OtherExn
    | S k =>
        match v with
        | VNone => Ok (XElt ns name [nil_att] None [])                     (* null_to_parent *)
        | VLeaf pv =>
            match t with
            | TPrim p => do s <- lc_pr L p pv; Ok (XElt ns name [] (Some s) [])   (* modelbase_to_parent *)
            | _ => Crash TypeError
            end
        | VList xs =>
            match t with
            | TArr e =>                                                    (* Array: one unbounded member *)
                do kids <- mapM (enc k e (arr_ns e) (type_name e)) xs;
                Ok (XElt ns name [] None kids)
            | _ => Crash TypeError
            end
        | VObj d fs =>
            match t with
            | TRef c =>
                if negb (is_subclass U d c) then Crash TypeError
                else
                  let retag := x_poly C && negb (Nat.eqb d c) in           (* get_polymorphic_target *)
                  let tgt := if retag then d else c in
                  match flat_decl U tgt with
                  | None => Crash KeyError
                  | Some ffs =>
                      do r <- enc_members (enc k) ffs fs;
                      let ta := if retag then [(xsi_ns, t_type, cls_name d)] else [] in
                      Ok (XElt ns name (ta ++ snd r) None (fst r))
                  end
            | _ => Crash TypeError
            end
        end
    end.

  (* ---------------------------------------------------------------- input *)

  Definition as_list (v : val) : out (list val) :=
    match v with
    | VNone => Ok []
    | VList l => Ok l
    | _ => Crash AttributeError                      (* value.append on a non-list *)
    end.

  (** the loop over the children of complex_from_element; [freq] is the multiset of local
      names seen (the [frequencies] defaultdict) *)
  Fixpoint dec_kids (decf : field -> xnode -> out val) (fields : list field)
           (kids : list xnode) (st : pystate) (freq : list text) : out (pystate * list text) :=
    match kids with
    | [] => Ok (st, freq)
    | XOther :: r => dec_kids decf fields r st freq                        (* comments are skipped *)
    | (XElt _ name _ _ _ as c) :: r =>
        let freq' := name :: freq in
        match find_field name fields with
        | None => dec_kids decf fields r st freq'                          (* unknown member: ignored *)
        | Some f =>
            do v <- decf f c;
            if is_multi f then
              do l <- as_list (getattr st name);
              dec_kids decf fields r (setattr st name (VList (l ++ [v]))) freq'
            else dec_kids decf fields r (setattr st name v) freq'
        end
    end.

  (** the loop over elt.attrib: only XmlAttribute members are read *)
  Fixpoint dec_atts (fields : list field) (atts : list attr) (st : pystate) (freq : list text)
    : out (pystate * list text) :=
    match atts with
    | [] => Ok (st, freq)
    | (ans, an, av) :: r =>
        let key := clark ans an in
        match find_field key fields with
        | None => dec_atts fields r st freq
        | Some f =>
            match f_kind f with
            | KElem => dec_atts fields r st freq
            | KAttr =>
                match f_ty f with
                | TPrim p => do v <- lc_rd L p av; dec_atts fields r (setattr st key (VLeaf v)) (key :: freq)
                | _ => Crash TypeError               (* "Only primitives can be deserialized from string." *)
                end
            end
        end
    end.

  (** validator='soft': every member's count within [min_occurs, max_occurs] *)
  Definition freq_ok (fields : list field) (freq : list text) : bool :=
    forallb (fun f => let n := count_text (f_name f) freq in
                      (f_min f <=? n) && match f_max f with Some m => n <=? m | None => true end) fields.

  (** XmlDocument.from_element; [nillable] is the Attributes.nillable of the member type *)
  Fixpoint dec (fuel : nat) (t : ty) (nillable : bool) (e : xnode) : out val :=
    match fuel with
    | O => Crash OtherExn
    | S k =>
        match e with
        | XOther => Crash AttributeError
        | XElt _ _ atts txt kids =>
            if is_nil atts then
              (if x_soft C && negb nillable then VFault else Ok VNone)
            else
              do t' <- match x_resolve C e with
                       | None => Ok t
                       | Some r => do c <- r; Ok (TRef c)
                       end;
              match t' with
              | TPrim PText =>                                             (* unicode_from_element *)
                  do v <- lc_rd L PText (match txt with None => [] | Some s => s end); Ok (VLeaf v)
              | TPrim p =>                                                 (* base_from_element *)
                  match txt with
                  | None => if x_soft C && negb nillable then VFault       (* validate_string(cls, None) = nillable *)
                            else Ok VNone                                  (* from_unicode(cls, None) *)
                  | Some s => do v <- lc_rd L p s; Ok (VLeaf v)
                  end
              | TArr el =>                                                 (* array_from_element *)
                  do vs <- mapM (dec k el true) kids; Ok (VList vs)
              | TRef c =>                                                  (* complex_from_element *)
                  match flat_decl U c with
                  | None => Crash KeyError
                  | Some ffs =>
                      let fields := map snd ffs in
                      do r1 <- dec_kids (fun f => dec k (f_ty f) (f_nillable f)) fields kids [] [];
                      do r2 <- dec_atts fields atts (fst r1) (snd r1);
                      if x_soft C && negb (freq_ok fields (snd r2)) then VFault
                      else Ok (VObj c (map (fun f => getattr (fst r2) (f_name f)) fields))
                  end
              end
        end
    end.

  (* ---------------------------------------------------------------- the property's vocabulary *)

  (** values that conform to a declared type *under the published schema*: Universe.conforms
      (without polymorphism) plus the occurrence and nillable constraints, plus the domain of
      the leaf codec *)
  (** number of times a member occurs on the wire (elements named after it, or its attribute) *)
  Definition occ (f : field) (x : val) : Z :=
    match f_kind f with
    | KAttr => match x with VNone => 0 | _ => 1 end
    | KElem =>
        match x with
        | VNone => if 0 <? f_min f then 1 else 0
        | VList xs => if is_multi f then Z.of_nat (length xs) else 1
        | _ => 1
        end
    end.
  Definition field_conf (rec : ty -> val -> bool) (f : field) (x : val) : bool :=
    (f_min f <=? occ f x)
    && match f_max f with Some m => occ f x <=? m | None => true end
    && match f_kind f with
       | KAttr =>
           negb (is_multi f)
           && match f_ty f with TPrim _ => true | _ => false end
           && match x with
              | VNone => true
              | VLeaf _ => rec (f_ty f) x
              | _ => false
              end
       | KElem =>
           if is_multi f then
             match x with
             | VNone => f_min f <=? 0
             | VList xs => forallb (fun y => match y with VNone => f_nillable f | _ => true end && rec (f_ty f) y) xs
             | _ => false
             end
           else
             match x with VNone => (f_min f <=? 0) || f_nillable f | _ => true end && rec (f_ty f) x
       end.

  Fixpoint xconf (fuel : nat) (t : ty) (v : val) : bool :=
    match fuel with
    | O => false
    | S k =>
        match v with
        | VNone => true                   (* whether None is allowed is decided by the position *)
        | VLeaf p => match t with TPrim q => prim_has q p && lc_ok L q p | _ => false end
        | VList vs => match t with TArr e => forallb (xconf k e) vs | _ => false end
        | VObj d fs =>
            match t with
            | TRef c =>
                Nat.eqb d c
                && match flat_fields U c with
                   | Some ffs => Nat.eqb (length ffs) (length fs)
                                 && forallb (fun fv => field_conf (xconf k) (fst fv) (snd fv)) (combine ffs fs)
                   | None => false
                   end
            | _ => false
            end
        end
    end.

  (** the identifications the property allows: an empty unwrapped sequence (a member with
      max_occurs > 1 holding []) is the same as None.  (Absent optional element = None needs
      no clause: None is the only native form.  Empty byte string = None concerns a
      primitive outside this universe; it is the [txt = None] clause of base_from_element.) *)
  Definition norm_field (rec : ty -> val -> val) (f : field) (x : val) : val :=
    match f_kind f with
    | KAttr => x
    | KElem =>
        if is_multi f then
          match x with
          | VList [] => VNone
          | VList xs => VList (map (rec (f_ty f)) xs)
          | _ => x
          end
        else rec (f_ty f) x
    end.
  Fixpoint norm_fields (rec : ty -> val -> val) (ffs : list field) (vals : list val) : list val :=
    match ffs, vals with
    | f :: r, x :: xs => norm_field rec f x :: norm_fields rec r xs
    | _, _ => []
    end.
  Fixpoint norm (fuel : nat) (t : ty) (v : val) : val :=
    match fuel with
    | O => v
    | S k =>
        match t, v with
        | TArr e, VList xs => VList (map (norm k e) xs)
        | TRef c, VObj d fs =>
            match flat_fields U c with
            | Some ffs => VObj c (norm_fields (norm k) ffs fs)
            | None => v
            end
        | _, _ => v
        end
    end.

  (** entry points with the names of the source *)
  Definition to_parent (fuel : nat) (t : ty) (ns name : text) (v : val) : out xnode := enc fuel t ns name v.
  Definition from_element (fuel : nat) (t : ty) (e : xnode) : out val := dec fuel t true e.
End Codec.

(** structural equality of trees for case files; attribute lists compared as sets *)
Definition attr_eqb (a b : attr) : bool :=
  let '(x1, y1, z1) := a in let '(x2, y2, z2) := b in text_eqb x1 x2 && text_eqb y1 y2 && text_eqb z1 z2.
Definition atts_eqb (a b : list attr) : bool :=
  Nat.eqb (length a) (length b)
  && forallb (fun x => existsb (attr_eqb x) b) a && forallb (fun x => existsb (attr_eqb x) a) b.
Definition otext_eqb (a b : option text) : bool :=
  match a, b with Some x, Some y => text_eqb x y | None, None => true | _, _ => false end.
Fixpoint xnode_eqb (a b : xnode) : bool :=
  match a, b with
  | XOther, XOther => true
  | XElt n1 m1 a1 t1 k1, XElt n2 m2 a2 t2 k2 =>
      text_eqb n1 n2 && text_eqb m1 m2 && atts_eqb a1 a2 && otext_eqb t1 t2
      && (fix go (l1 l2 : list xnode) : bool :=
            match l1, l2 with
            | [], [] => true
            | x :: r1, y :: r2 => xnode_eqb x y && go r1 r2
            | _, _ => false
            end) k1 k2
  | _, _ => false
  end.
