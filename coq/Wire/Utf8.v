(** UTF-8 as CPython's strict codec implements it ([str.encode('utf8')],
    [bytes.decode('utf8')]): code points U+0000..U+10FFFF without the surrogates
    U+D800..U+DFFF, shortest form only.  Definitions only.
    Used by the dict-document model for MessagePack keys and text leaves
    (spyne/protocol/dictdoc/hier.py: key_encoding; _outbase.py:unicode_to_bytes;
    _inbase.py:unicode_from_bytes). *)
From SpyneV Require Export Base.Prelude.

(** a Unicode scalar value: what a Python [str] may hold and still be encodable *)
Definition scalar (c : Z) : bool :=
  ((0 <=? c) && (c <? 55296)) || ((57344 <=? c) && (c <? 1114112)).
Definition scalar_text (t : text) : bool := forallb scalar t.

Definition utf8_enc1 (c : Z) : option (list Z) :=
  if (0 <=? c) && (c <? 128) then Some [c]
  else if (128 <=? c) && (c <? 2048) then Some [192 + c / 64; 128 + c mod 64]
  else if ((2048 <=? c) && (c <? 55296)) || ((57344 <=? c) && (c <? 65536)) then
    Some [224 + c / 4096; 128 + (c / 64) mod 64; 128 + c mod 64]
  else if (65536 <=? c) && (c <? 1114112) then
    Some [240 + c / 262144; 128 + (c / 4096) mod 64; 128 + (c / 64) mod 64; 128 + c mod 64]
  else None.

(** [s.encode('utf8')]: [None] is UnicodeEncodeError (a surrogate) *)
Fixpoint utf8_enc (t : text) : option (list Z) :=
  match t with
  | [] => Some []
  | c :: r =>
      match utf8_enc1 c, utf8_enc r with
      | Some b, Some br => Some (b ++ br)
      | _, _ => None
      end
  end.

Definition is_cont (b : Z) : bool := (128 <=? b) && (b <? 192).

(** [b.decode('utf8')], strict: [None] is UnicodeDecodeError *)
Fixpoint utf8_dec (l : list Z) : option text :=
  match l with
  | [] => Some []
  | b0 :: r =>
      if (0 <=? b0) && (b0 <? 128) then option_map (cons b0) (utf8_dec r)
      else if (194 <=? b0) && (b0 <? 224) then
        match r with
        | b1 :: r1 =>
            if is_cont b1 then option_map (cons ((b0 - 192) * 64 + (b1 - 128))) (utf8_dec r1)
            else None
        | _ => None
        end
      else if (224 <=? b0) && (b0 <? 240) then
        match r with
        | b1 :: b2 :: r2 =>
            let c := (b0 - 224) * 4096 + (b1 - 128) * 64 + (b2 - 128) in
            if is_cont b1 && is_cont b2 && (2048 <=? c) && negb ((55296 <=? c) && (c <? 57344))
            then option_map (cons c) (utf8_dec r2) else None
        | _ => None
        end
      else if (240 <=? b0) && (b0 <? 245) then
        match r with
        | b1 :: b2 :: b3 :: r3 =>
            let c := (b0 - 240) * 262144 + (b1 - 128) * 4096 + (b2 - 128) * 64 + (b3 - 128) in
            if is_cont b1 && is_cont b2 && is_cont b3 && (65536 <=? c) && (c <? 1114112)
            then option_map (cons c) (utf8_dec r3) else None
        | _ => None
        end
      else None
  end.
