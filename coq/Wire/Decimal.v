(** Python's [decimal.Decimal]: [str(d)] and [Decimal(s)] for finite numbers
    (definitions only).  Mirrors CPython's Decimal.__str__ (scientific notation
    iff [exponent > 0 or adjusted < -6], observed: DESIGN Appendix C) and the
    accepted grammar of the constructor restricted to ASCII digits, no
    underscores and no special values (NaN / Infinity are outside the modelled
    universe).  Used by spyne/protocol/_outbase.py:decimal_to_unicode and
    _inbase.py:decimal_from_unicode. *)
From SpyneV Require Export Base.Prelude Base.Digits.

(** a finite Decimal: (-1)^neg * coef * 10^exp with coef >= 0; the digit string
    of the coefficient is [str_nat coef] (the constructor strips leading zeros) *)
Record dec := mkdec { d_neg : bool; d_coef : Z; d_exp : Z }.

Definition dec_eqb (a b : dec) : bool :=
  Bool.eqb (d_neg a) (d_neg b) && (d_coef a =? d_coef b) && (d_exp a =? d_exp b).

Definition zeros (n : Z) : text := repeat 48 (Z.to_nat n).

(** ["%+d" % z] *)
Definition fmt_plus_d (z : Z) : text :=
  if z <? 0 then 45 :: str_nat (- z) else 43 :: str_nat z.

(** [str(d)] *)
Definition dec_str (d : dec) : text :=
  let digits := str_nat (d_coef d) in
  let n := len digits in
  let left := d_exp d + n in
  let dot := if (d_exp d <=? 0) && (-6 <? left) then left else 1 in
  let intpart :=
    if dot <=? 0 then [48]
    else if n <=? dot then digits ++ zeros (dot - n)
    else firstn (Z.to_nat dot) digits in
  let fracpart :=
    if dot <=? 0 then 46 :: zeros (- dot) ++ digits
    else if n <=? dot then []
    else 46 :: skipn (Z.to_nat dot) digits in
  let exppart := if left =? dot then [] else 69 :: fmt_plus_d (left - dot) in
  (if d_neg d then [45] else []) ++ intpart ++ fracpart ++ exppart.

(** longest prefix of ASCII digits, and the rest *)
Fixpoint span_dig (l : text) : text * text :=
  match l with
  | c :: r => if is_digit c then let '(d, r') := span_dig r in (c :: d, r') else ([], l)
  | [] => ([], [])
  end.

Definition is_nil {A} (l : list A) : bool := match l with [] => true | _ => false end.

(** the unsigned part of the literal: digits [. digits] [(e|E) [sign] digits], at least one
    digit before the exponent; the result is (coefficient, exponent) *)
Definition dec_parse_unsigned (r : text) : option (Z * Z) :=
  let '(ip, r1) := span_dig r in
  let '(fp, r2) := match r1 with
                   | 46 :: r' => span_dig r'
                   | _ => ([], r1)
                   end in
  if is_nil ip && is_nil fp then None
  else
    let coef := val_digits 0 (ip ++ fp) in
    match r2 with
    | [] => Some (coef, - len fp)
    | c :: r3 =>
        if (c =? 69) || (c =? 101) then
          let '(eneg, r4) := match r3 with
                             | 45 :: r' => (true, r')
                             | 43 :: r' => (false, r')
                             | _ => (false, r3)
                             end in
          let '(ed, r5) := span_dig r4 in
          if is_nil ed || negb (is_nil r5) then None
          else
            let e := val_digits 0 ed in
            Some (coef, (if eneg then - e else e) - len fp)
        else None
    end.

(** [Decimal(s)] for a str: [None] is InvalidOperation *)
Definition dec_parse (s : text) : option dec :=
  let s := strip s in
  let '(neg, r) := match s with
                   | 45 :: r => (true, r)
                   | 43 :: r => (false, r)
                   | _ => (false, s)
                   end in
  match dec_parse_unsigned r with
  | Some (coef, e) => Some (mkdec neg coef e)
  | None => None
  end.
