(** The dict-document codec of Spyne (JsonDocument, YamlDocument,
    MessagePackDocument, MessagePackRpc): definitions only.

    Mirrors, function by function,
      spyne/protocol/dictdoc/hier.py   HierDictDocument.deserialize / serialize /
                                       _from_dict_value / _doc_to_object /
                                       _object_to_doc / _to_dict_value /
                                       _get_member_pairs / _complex_to_doc
      spyne/protocol/dictdoc/_base.py  decompose_incoming_envelope, _check_freq_dict
      spyne/protocol/json.py, yaml.py  _ret, _ret_number, _ret_bool and the handler tables
      spyne/protocol/msgpack.py        integer_to_bytes / integer_from_bytes, get_class_name,
                                       gen_method_request_string, MessagePackRpc envelope
      spyne/protocol/_inbase.py        decimal_from_unicode, integer_from_bytes (text forms)
    as of the repaired tree (main + proposed_fixes/C02-*.patch).  The json / yaml / msgpack
    libraries are outside the model: the boundary is the parsed document tree [jv].

    Python exceptions are [out] values: [VFault] is spyne.error.ValidationError,
    [Crash e] any other exception escaping the modelled function. *)
From SpyneV Require Export Base.Prelude Base.Digits Base.Ext.
From SpyneV Require Export Wire.Utf8 Wire.Decimal.
From SpyneV Require Import C08.IntModel C08.BinModel.
From SpyneV Require Import Gen.DictDoc.
From SpyneV Require Wire.Universe.

(** * Document trees: what json.loads / yaml.load / msgpack.unpackb return.
    Floats are carried by their IEEE-754 bit pattern (as an integer) so that
    identity is exact; the code only ever asks a float for its class. *)
Inductive jv :=
| JNull
| JBool (b : bool)
| JInt (z : Z)
| JFlt (bits : Z)
| JStr (s : text)
| JBytes (b : list Z)
| JList (l : list jv)
| JMap (kv : list (jv * jv)).

Inductive fclass := FIntegral (z : Z) | FFrac | FInf | FNan.

Definition float_class (bits : Z) : fclass :=
  let neg := 2 ^ 63 <=? bits in
  let b := bits mod 2 ^ 63 in
  let e := b / 2 ^ 52 in
  let m := b mod 2 ^ 52 in
  if e =? 2047 then (if m =? 0 then FInf else FNan)
  else if e =? 0 then (if m =? 0 then FIntegral 0 else FFrac)
  else
    let mant := m + 2 ^ 52 in
    let sh := e - 1075 in
    if 0 <=? sh then FIntegral ((if neg then -1 else 1) * (mant * 2 ^ sh))
    else if mant mod 2 ^ (- sh) =? 0 then FIntegral ((if neg then -1 else 1) * (mant / 2 ^ (- sh)))
    else FFrac.

Definition jv_is_null (j : jv) : bool := match j with JNull => true | _ => false end.

Fixpoint jv_eqb (a b : jv) : bool :=
  match a, b with
  | JNull, JNull => true
  | JBool x, JBool y => Bool.eqb x y
  | JInt x, JInt y => x =? y
  | JFlt x, JFlt y => x =? y
  | JStr x, JStr y => text_eqb x y
  | JBytes x, JBytes y => text_eqb x y
  | JList xs, JList ys =>
      (fix go (l1 l2 : list jv) : bool :=
         match l1, l2 with
         | [], [] => true
         | x :: r1, y :: r2 => jv_eqb x y && go r1 r2
         | _, _ => false
         end) xs ys
  | JMap xs, JMap ys =>
      (fix go (l1 l2 : list (jv * jv)) : bool :=
         match l1, l2 with
         | [], [] => true
         | (k1, v1) :: r1, (k2, v2) :: r2 => jv_eqb k1 k2 && jv_eqb v1 v2 && go r1 r2
         | _, _ => false
         end) xs ys
  | _, _ => false
  end.

(** * Configurations *)
(** [PMsgpackRpc] is MessagePackRpc: MessagePackDocument's codec, with arrays unpacked as
    tuples (use_list=False) and the msgpack-rpc envelope *)
Inductive proto := PJson | PYaml | PMsgpack | PMsgpackRpc.

Record cfg := mkcfg {
  c_proto : proto;
  c_iw : bool;        (* ignore_wrappers *)
  c_list : bool;      (* complex_as is list *)
  c_poly : bool;      (* polymorphic *)
  c_soft : bool       (* validator == 'soft' *)
}.

(** key_encoding: None for Json/Yaml, 'utf8' for MessagePack *)
Definition key_bytes (c : cfg) : bool :=
  match c_proto c with PMsgpack | PMsgpackRpc => true | _ => false end.

(** * Type universe with the primitives the dict protocols distinguish *)
Inductive lkind :=
| KInt (msl : ext)        (* Integer; Attributes.max_str_len *)
| KText                   (* Unicode *)
| KBool                   (* Boolean *)
| KDouble                 (* Double *)
| KDecimal (msl : ext)    (* Decimal; Attributes.max_str_len *)
| KBytes.                 (* ByteArray *)

Inductive lval :=
| LInt (z : Z)
| LText (t : text)
| LBool (b : bool)
| LDouble (bits : Z)
| LDecimal (d : dec)
| LBytes (b : list Z).    (* a ByteArray value: the concatenation of its chunks *)

Definition cid := nat.

Inductive dty :=
| DPrim (k : lkind)
| DPrimE (k : lkind)      (* the primitive customized with empty_is_none=True *)
| DRef (c : cid)
| DArr (e : dty).         (* Array(e): a wrapper class whose only member is unbounded *)

Record dfield := mkdf {
  df_name : text; df_ty : dty; df_min : Z; df_max : option Z; df_nillable : bool }.

Record dcls := mkdc { dc_name : text; dc_parent : option cid; dc_own : list dfield }.

Definition duniverse := list dcls.

(** native values; [DRaw j] is a document node handed through unchanged to a slot
    whose reader does not convert it (only ever produced for non-conformant input) *)
Inductive dval :=
| DNone
| DLeaf (l : lval)
| DObj (c : cid) (fs : list dval)
| DList (vs : list dval)
| DRaw (j : jv).

Definition lval_eqb (a b : lval) : bool :=
  match a, b with
  | LInt x, LInt y => x =? y
  | LText x, LText y => text_eqb x y
  | LBool x, LBool y => Bool.eqb x y
  | LDouble x, LDouble y => x =? y
  | LDecimal x, LDecimal y => dec_eqb x y
  | LBytes x, LBytes y => text_eqb x y
  | _, _ => false
  end.

Fixpoint dval_eqb (a b : dval) : bool :=
  match a, b with
  | DNone, DNone => true
  | DLeaf x, DLeaf y => lval_eqb x y
  | DObj c xs, DObj d ys =>
      Nat.eqb c d &&
      (fix go (l1 l2 : list dval) : bool :=
         match l1, l2 with
         | [], [] => true
         | x :: r1, y :: r2 => dval_eqb x y && go r1 r2
         | _, _ => false
         end) xs ys
  | DList xs, DList ys =>
      (fix go (l1 l2 : list dval) : bool :=
         match l1, l2 with
         | [], [] => true
         | x :: r1, y :: r2 => dval_eqb x y && go r1 r2
         | _, _ => false
         end) xs ys
  | DRaw x, DRaw y => jv_eqb x y
  | _, _ => false
  end.

Definition is_none (v : dval) : bool := match v with DNone => true | _ => false end.

Definition dget (U : duniverse) (c : cid) : option dcls := nth_error U c.

(** get_flat_type_info: ancestors' members first *)
Fixpoint dflat_fuel (fuel : nat) (U : duniverse) (c : cid) : option (list dfield) :=
  match fuel with
  | O => None
  | S k =>
      match dget U c with
      | None => None
      | Some cl =>
          match dc_parent cl with
          | None => Some (dc_own cl)
          | Some p => match dflat_fuel k U p with
                      | Some pf => Some (pf ++ dc_own cl)
                      | None => None
                      end
          end
      end
  end.
Definition dflat (U : duniverse) (c : cid) : option (list dfield) := dflat_fuel (S c) U c.

Fixpoint dsub_fuel (fuel : nat) (U : duniverse) (d c : cid) : bool :=
  if Nat.eqb d c then true
  else match fuel with
       | O => false
       | S k => match dget U d with
                | Some cl => match dc_parent cl with
                             | Some p => dsub_fuel k U p c
                             | None => false
                             end
                | None => false
                end
       end.
(** [dsub U d c]: d = c or c is an ancestor of d *)
Definition dsub (U : duniverse) (d c : cid) : bool := dsub_fuel (S d) U d c.

Definition dmulti (f : dfield) : bool :=
  match df_max f with Some m => 1 <? m | None => true end.

Definition dname (U : duniverse) (c : cid) : option text := option_map dc_name (dget U c).

(** cls.get_subclasses(): every strict descendant *)
Definition dsubclasses (U : duniverse) (c : cid) : list cid :=
  filter (fun d => negb (Nat.eqb d c) && dsub U d c) (seq 0 (length U)).

(** * Leaves: how each protocol carries each primitive *)
Fixpoint mapM {A B} (f : A -> out B) (l : list A) : out (list B) :=
  match l with
  | [] => Ok []
  | x :: r => do y <- f x; do ys <- mapM f r; Ok (y :: ys)
  end.

(** the Python object a parsed document node is, when it is handed on unchanged
    (bytes and maps stay raw document nodes) *)
Fixpoint nat_of_doc (j : jv) : dval :=
  match j with
  | JNull => DNone
  | JBool b => DLeaf (LBool b)
  | JInt z => DLeaf (LInt z)
  | JFlt x => DLeaf (LDouble x)
  | JStr s => DLeaf (LText s)
  | JList l => DList (map nat_of_doc l)
  | _ => DRaw j
  end.

(** [value in (True, False)]: equality with True or False ([1 == True], [0.0 == False]) *)
Definition in_true_false (j : jv) : option Z :=
  match j with
  | JBool b => Some (if b then 1 else 0)
  | JInt z => if (z =? 0) || (z =? 1) then Some z else None
  | JFlt x => match float_class x with
              | FIntegral z => if (z =? 0) || (z =? 1) then Some z else None
              | _ => None
              end
  | _ => None
  end.

(** json.py / yaml.py / msgpack.py [_ret_number]: NON_NUMBER_TYPES is (list, dict, str, bytes);
    a MessagePackRpc array is a tuple, which is not among them.  [int_slot]: json.py / yaml.py
    [_ret_number(cls, value)] with [issubclass(cls, Integer)]: a float is handed over as the
    int it equals and refused when it is not integral (nan and the infinities are not);
    msgpack.py's [_ret_number] (only used for Double there) has no such clause *)
Definition ret_number (tuples int_slot : bool) (j : jv) : out dval :=
  match j with
  | JMap _ | JStr _ | JBytes _ => VFault
  | JList _ => if tuples then Ok (nat_of_doc j) else VFault
  | _ => match in_true_false j with
         | Some z => Ok (DLeaf (LInt z))     (* int(value) *)
         | None =>
             match j with
             | JFlt x =>
                 if int_slot && int_slot_float_is_int then
                   match float_class x with
                   | FIntegral z => Ok (DLeaf (LInt z))
                   | _ => VFault
                   end
                 else Ok (nat_of_doc j)
             | _ => Ok (nat_of_doc j)
             end
         end
  end.

(** [_ret_bool]: None, True and False by identity; before that repair anything equal to
    True or False (1, 0, 1.0, 0.0) *)
Definition ret_bool (j : jv) : out dval :=
  match j with
  | JNull => Ok DNone
  | JBool b => Ok (DLeaf (LBool b))
  | _ => if ret_bool_by_identity then VFault
         else match in_true_false j with
              | Some _ => Ok (nat_of_doc j)
              | None => VFault
              end
  end.

Definition all_ascii (l : list Z) : bool := forallb (fun b => (0 <=? b) && (b <? 128)) l.

(** _inbase.py integer_from_bytes on a str / bytes argument *)
Definition integer_from_text (msl : ext) (s : text) : out dval :=
  if negb (ext_leb (Fin (len s)) msl) then VFault
  else match int_of_text s with
       | Some z => Ok (DLeaf (LInt z))
       | None => VFault
       end.

(** _inbase.py decimal_from_unicode on a str argument *)
Definition decimal_from_text (msl : ext) (s : text) : out dval :=
  if negb (ext_leb (Fin (len s)) msl) then VFault
  else match dec_parse s with
       | Some d => Ok (DLeaf (LDecimal d))
       | None => VFault
       end.

Section Leaf.
  Variable c : cfg.

  Definition is_msgpack : bool := match c_proto c with PMsgpack | PMsgpackRpc => true | _ => false end.
  Definition is_rpc : bool := match c_proto c with PMsgpackRpc => true | _ => false end.

  (** ** to_serstr(cls, value[, binary_encoding]) for a value of the declared kind;
      a value of another kind is outside the modelled region ([Crash OtherExn]) *)
  Definition leaf_enc (k : lkind) (v : dval) : out jv :=
    match v with
    | DNone => Ok JNull
    | DLeaf l =>
        if is_msgpack then
          match k, l with
          | KInt _, LInt z =>
              (* msgpack.py integer_to_bytes: the range test is generated from the source *)
              if mp_native_int z then Ok (JInt z) else Ok (JBytes (str_int z))
          | KBool, LBool b => Ok (JBool b)
          | KDouble, LDouble x =>
              (* msgpack.py _ret_number as an output handler: value in (True, False) -> int(value) *)
              match in_true_false (JFlt x) with Some z => Ok (JInt z) | None => Ok (JFlt x) end
          | KText, LText t =>
              match utf8_enc t with Some b => Ok (JBytes b) | None => Crash UnicodeError end
          | KDecimal _, LDecimal d => Ok (JBytes (dec_str d))
          | KBytes, LBytes b => Ok (JBytes b)
          | _, _ => Crash OtherExn
          end
        else
          match k, l with
          | KInt _, LInt z => Ok (JInt z)
          | KBool, LBool b => Ok (JBool b)
          | KDouble, LDouble x => Ok (JFlt x)
          | KText, LText t => Ok (JStr t)
          | KDecimal _, LDecimal d => Ok (JStr (dec_str d))
          | KBytes, LBytes b => Ok (JStr (b64encode false b))
          | _, _ => Crash OtherExn
          end
    | _ => Crash OtherExn
    end.

  (** ** the leaf branch of _from_dict_value *)

  (** cls.validate_string(cls, inst) for a str *)
  Definition validate_string (k : lkind) (s : text) : bool :=
    match k with
    | KInt msl | KDecimal msl => ext_leb (Fin (len s)) msl
    | _ => true
    end.

  (** text that arrived as a byte string (msgpack bin, YAML !!binary) is decoded before it is
      validated and parsed, for every leaf but ByteArray: unicode_from_bytes for Unicode,
      inst.decode(self.string_encoding or 'utf8') otherwise; UnicodeError is a ValidationError *)
  Definition text_of_bytes (k : lkind) (j : jv) : out jv :=
    match k, j with
    | KBytes, _ => Ok j
    | _, JBytes b => match utf8_dec b with
                     | Some t => Ok (JStr t)
                     | None => VFault
                     end
    | _, _ => Ok j
    end.

  (** the conversion step: from_serstr / the Unicode branch, on the node [text_of_bytes] left *)
  Definition leaf_conv (k : lkind) (j : jv) : out dval :=
    match k with
    | KBytes =>
        match j with
        | JNull => Ok DNone
        | _ =>
            if is_msgpack then
              (* binary_decoding_handlers[None] = lambda x: (x,) *)
              match j with
              | JBytes b => Ok (DLeaf (LBytes b))
              | _ => Ok (DList [nat_of_doc j])
              end
            else
              (* ByteArray.from_base64: b64decode(type(value)().join(value)) *)
              match j with
              | JStr s => if all_ascii s
                          then match b64decode false s with
                               | Ok b => Ok (DLeaf (LBytes b))
                               | VFault => VFault
                               | Crash e => Crash e
                               end
                          else VFault
              | JBytes [] => Ok (DLeaf (LBytes []))   (* b''.join(b'') *)
              | JBytes _ => VFault                    (* b''.join(b'..'): items are ints *)
              | _ => Crash AttributeError
              end
        end
    | KText => Ok (nat_of_doc j)
    | KInt msl =>
        match j with
        | JNull => Ok DNone
        | _ =>
            if is_msgpack then
              (* msgpack.py integer_from_bytes: text goes to the inherited reader; a list or a
                 map is refused, a float is handed over as the int it equals or refused *)
              match j with
              | JStr s => integer_from_text msl s
              | JBytes b => integer_from_text msl b
              | JMap _ => VFault
              | JList _ => if is_rpc then Ok (nat_of_doc j) else VFault
              | JFlt x => match float_class x with
                          | FIntegral z => Ok (DLeaf (LInt z))
                          | _ => VFault
                          end
              | _ => Ok (nat_of_doc j)
              end
            else ret_number is_rpc true j
        end
    | KDouble => match j with JNull => Ok DNone | _ => ret_number is_rpc false j end
    | KBool => ret_bool j
    | KDecimal msl =>
        (* _inbase.py decimal_from_unicode: a number that is not a bool is read from str() of
           it, anything else that is not text is refused *)
        match j with
        | JNull => Ok DNone
        | JStr s => decimal_from_text msl s
        | JInt z => decimal_from_text msl (str_int z)
        | JFlt _ => Crash OtherExn     (* Decimal(repr(float)): outside the modelled region *)
        | JBool _ | JBytes _ | JList _ | JMap _ => VFault
        end
    end.

  (** cls.validate_native(cls, retval); may itself raise.  Double.validate_native judges nan
      and the infinities by the declared range only (none is declared here) *)
  Definition num_native_ok (int_only : bool) (r : dval) : out bool :=
    match r with
    | DNone => Ok true
    | DLeaf (LInt _) | DLeaf (LBool _) => Ok true
    | DLeaf (LDouble x) =>
        match float_class x with
        | FIntegral _ => Ok true
        | FFrac => Ok (negb int_only)
        | FInf => Ok (negb int_only)
        | FNan => if int_only then Crash InvalidOperation else Ok true
        end
    | _ => Crash TypeError
    end.

  Definition validate_native (nillable : bool) (k : lkind) (r : dval) : out bool :=
    if negb nillable && is_none r then Ok false
    else match k with
         | KInt _ => num_native_ok true r
         | KDouble => num_native_ok false r
         | _ => Ok true
         end.

  (** the guards in front of the leaf conversion, under every validator: a ByteArray (like
      every type that travels as text) must arrive as text (VALID_UNICODE_SOURCES), a
      number (Integer, Double, Decimal: the subclasses of Decimal) as an int (bool is one), a
      float or text (VALID_NUMBER_SOURCES); null passes.  Generated: are the guards there *)
  Definition source_ok (k : lkind) (j : jv) : bool :=
    match j with
    | JNull => true
    | _ =>
        match k with
        | KBytes =>
            negb binary_source_checked
            || match j with JStr _ | JBytes _ => true | _ => false end
        | KInt _ | KDouble | KDecimal _ =>
            negb number_source_checked
            || match j with JInt _ | JFlt _ | JBool _ | JStr _ | JBytes _ => true | _ => false end
        | KText | KBool => true
        end
    end.

  Definition leaf_dec (nillable : bool) (k : lkind) (j : jv) : out dval :=
    (* validator is SOFT_VALIDATION: self.validate(key, cls, inst) *)
    if c_soft c && negb (jv_is_null j && nillable)
       && (match k with KText => true | _ => false end)
       && negb (match j with JStr _ | JBytes _ => true | _ => false end)
    then VFault
    else if negb (source_ok k j) then VFault
    else
      do j' <- text_of_bytes k j;
      if c_soft c && (match j' with JStr s => negb (validate_string k s) | _ => false end)
      then VFault
      else
        do r <- leaf_conv k j';
        if c_soft c then
          do ok <- validate_native nillable k r;
          if ok then Ok r else VFault
        else Ok r.
End Leaf.

(** * Structures *)
Fixpoint set_nth {A} (i : nat) (x : A) (l : list A) : list A :=
  match l, i with
  | [], _ => []
  | _ :: r, O => x :: r
  | y :: r, S k => y :: set_nth k x r
  end.

Fixpoint find_name (n : text) (l : list dfield) (i : nat) : option (nat * dfield) :=
  match l with
  | [] => None
  | f :: r => if text_eqb n (df_name f) then Some (i, f) else find_name n r (S i)
  end.

Fixpoint assoc_name (n : text) (names : list text) (vals : list dval) : dval :=
  match names, vals with
  | m :: ns, v :: vs => if text_eqb n m then v else assoc_name n ns vs
  | _, _ => DNone
  end.

(** iterating a document node ([for a in v], [zip(names, doc)]) *)
Definition iter_doc (j : jv) : option (list jv) :=
  match j with
  | JList l => Some l
  | JMap kv => Some (map fst kv)
  | JStr s => Some (map (fun ch => JStr [ch]) s)
  | JBytes b => Some (map JInt b)
  | _ => None
  end.

Section Struct.
  Variable c : cfg.
  Variable U : duniverse.

  (** k.encode(self.key_encoding) / the plain key *)
  Definition mkkey (name : text) : out jv :=
    if key_bytes c then
      match utf8_enc name with Some b => Ok (JBytes b) | None => Crash UnicodeError end
    else Ok (JStr name).

  (** getattr(inst, k, None) after get_serialization_instance *)
  Definition getattr_val (v : dval) (n : text) (pos : nat) : dval :=
    match v with
    | DObj d fs => match dflat U d with
                   | Some ffs => assoc_name n (map df_name ffs) fs
                   | None => DNone
                   end
    | DList xs => nth pos xs DNone
    | _ => DNone
    end.

  (** get_polymorphic_target *)
  Definition poly_target (t : dty) (v : dval) : dty :=
    if c_poly c then
      match t, v with
      | DRef c0, DObj d _ => if negb (Nat.eqb d c0) && dsub U d c0 then DRef d else t
      | _, _ => t
      end
    else t.

  (** the wrapper-stripping loop of _object_to_doc.  Only Array classes are wrappers
      inside a value (one member, _wrapper = True); the loop condition is generated from
      the source: repaired, a repeated Array class (max_occurs > 1) is left alone, so
      exactly one level is unwrapped; the pinned condition went on unwrapping. *)
  Definition occ (multi : bool) : ext := if multi then PosInf else Fin 1.
  Fixpoint strip_arr (multi : bool) (t : dty) : bool * dty :=
    match t with
    | DArr e => if c_iw c && strip_cond true (Fin 1) (occ multi) then strip_arr true e else (multi, t)
    | _ => (multi, t)
    end.

  (** _get_member_pairs *)
  Fixpoint member_pairs (rec : bool -> dty -> dval -> out jv) (ffs : list dfield) (v : dval)
           (i : nat) : out (list (text * jv)) :=
    match ffs with
    | [] => Ok []
    | f :: r =>
        do val <- rec (dmulti f) (df_ty f) (getattr_val v (df_name f) i);
        do rest <- member_pairs rec r v (S i);
        (* `if val is not None or min_o > 0 or complex_as is list`, generated from the source *)
        Ok (if member_written (jv_is_null val) (Fin (df_min f)) (c_list c)
            then (df_name f, val) :: rest else rest)
    end.

  (** _complex_to_doc / _complex_to_dict / _complex_to_list *)
  Definition complex_to_doc (rec : bool -> dty -> dval -> out jv) (d : cid) (v : dval) : out jv :=
    match dflat U d, dname U d with
    | Some ffs, Some cname =>
        do _ <- (match v with
                 | DList xs => if Nat.ltb (length ffs) (length xs) then Crash ValueError else Ok tt
                 | _ => Ok tt
                 end);
        do pairs <- member_pairs rec ffs v 0;
        if c_list c then Ok (JList (map snd pairs))
        else
          do kvs <- mapM (fun p => do k <- mkkey (fst p); Ok (k, snd p)) pairs;
          if c_iw c then Ok (JMap kvs)
          else do k <- mkkey cname; Ok (JMap [(k, JMap kvs)])
    | _, _ => Crash TypeError
    end.

  (** _to_dict_value, with the recursive calls to _object_to_doc abstracted *)
  Definition tdv_with (rec : bool -> dty -> dval -> out jv) (t : dty) (v : dval) : out jv :=
    match poly_target t v with
    | DArr e => rec true e v
    | DRef d => complex_to_doc rec d v
    | DPrim kd | DPrimE kd => leaf_enc c kd v      (* empty_is_none does not act in the writer *)
    end.

  (** _object_to_doc: the class is [t], with max_occurs > 1 iff [multi].  One unit of
      fuel per nested _object_to_doc call; running out is the distinguished
      [Crash OtherExn], which the theorems exclude. *)
  Fixpoint o2d (fuel : nat) (multi : bool) (t : dty) (v : dval) {struct fuel} : out jv :=
    match fuel with
    | O => Crash OtherExn
    | S k =>
        match v with
        | DNone => Ok JNull
        | _ =>
            let '(multi', t') := strip_arr multi t in
            if multi' then
              match v with
              | DList xs => do l <- mapM (tdv_with (o2d k) t') xs; Ok (JList l)
              | _ => Crash TypeError
              end
            else tdv_with (o2d k) t' v
        end
    end.

  Definition tdv (fuel : nat) (t : dty) (v : dval) : out jv := tdv_with (o2d fuel) t v.

  (** ** reading *)

  (** the leaf branch of _from_dict_value is a parameter of the structural reader, so that
      structural lemmas hold for any leaf reader; the implementation's is [leaf_dec c] *)
  Variable ldec : bool -> lkind -> jv -> out dval.

  (** the key of an item, after [k.decode(self.key_encoding)] *)
  Definition norm_key (k : jv) : out jv :=
    if key_bytes c then
      match k with
      | JBytes b => match utf8_dec b with Some t => Ok (JStr t) | None => VFault end
      | _ => Ok k
      end
    else Ok k.

  Definition find_field (k : jv) (ffs : list dfield) : option (nat * dfield) :=
    match k with JStr n => find_name n ffs 0 | _ => None end.

  Definition add_nth (i : nat) (d : Z) (l : list Z) : list Z := set_nth i (nth i l 0 + d) l.

  (** one iteration of the [for k, v in items] loop of _doc_to_object *)
  Definition step_item (rec : bool -> dty -> jv -> out dval) (ffs : list dfield)
             (st : list dval * list Z) (kv : jv * jv) : out (list dval * list Z) :=
    let '(inst, freq) := st in
    do k <- norm_key (fst kv);
    match find_field k ffs with
    | None => Ok st
    | Some (i, f) =>
        if dmulti f then
          match iter_doc (snd kv) with
          | None => if scalar_for_repeated_refused then VFault else Crash TypeError
          | Some items =>
              do xs <- mapM (rec (df_nillable f) (df_ty f)) items;
              let old := match nth i inst DNone with DList l => l | _ => [] end in
              Ok (set_nth i (DList (old ++ xs)) inst, add_nth i (Z.of_nat (length xs)) freq)
          end
        else
          do x <- rec (df_nillable f) (df_ty f) (snd kv);
          Ok (set_nth i x inst, add_nth i 1 freq)
    end.

  Fixpoint fold_items (rec : bool -> dty -> jv -> out dval) (ffs : list dfield)
           (st : list dval * list Z) (items : list (jv * jv)) : out (list dval * list Z) :=
    match items with
    | [] => Ok st
    | kv :: r => do st' <- step_item rec ffs st kv; fold_items rec ffs st' r
    end.

  (** _check_freq_dict; the two comparisons are generated from the source.  Only a flat
      document counts the items of an array under the key of the array
      ([hier_counts_array_items] is generated: [flat and ...] with flat=False here): in a
      hierarchical document an array member occurs once or not at all, like any other single
      member, and its items are counted where the array itself is read (against the
      occurrence bounds of the item type, which Array() leaves at 0..unbounded) *)
  Definition freq_ok (ffs : list dfield) (freq : list Z) : bool :=
    forallb (fun fn =>
               let f := fst fn in let n := snd fn in
               let '(mn, mx) := match hier_counts_array_items, df_ty f, df_max f with
                                | true, DArr _, Some 1 => (0, None)
                                | _, _, _ => (df_min f, df_max f)
                                end in
               negb (freq_low (Fin n) (Fin mn))
               && negb (freq_high (Fin n) (match mx with Some m => Fin m | None => PosInf end)))
            (combine ffs freq).

  (** the class-name key of a wrapper document, after bytes -> str *)
  Definition key_name (k : jv) : out (option text) :=
    match k with
    | JStr s => Ok (Some s)
    | JBytes b => match utf8_dec b with Some t => Ok (Some t) | None => Crash UnicodeError end
    | _ => Ok None
    end.

  Definition name_is (n : option text) (d : cid) : bool :=
    match n, dname U d with Some a, Some b => text_eqb a b | _, _ => false end.

  Definition find_sub (n : option text) (d : cid) : option cid :=
    find (fun s => name_is n s) (dsubclasses U d).

  (** the wrapper-document prologue of _doc_to_object; [Ok None] is [return None] *)
  Definition unwrap (d : cid) (doc : jv) : out (option (cid * jv)) :=
    if c_iw c then Ok (Some (d, doc))
    else
      match doc with
      | JMap [] => Ok None
      | JMap [(k, body)] =>
          do n <- key_name k;
          if name_is n d || is_nil (dsubclasses U d) then Ok (Some (d, body))
          else match find_sub n d with
               | Some s => Ok (Some (s, body))
               | None => VFault
               end
      | _ => VFault
      end.

  (** _from_dict_value, with the recursive call to _doc_to_object abstracted *)
  Definition fdv_with (rec : dty -> jv -> out dval) (nillable : bool) (t : dty) (j : jv) : out dval :=
    match t with
    | DPrim kd => ldec nillable kd j
    | DPrimE kd =>
        (* `if cls_attrs.empty_is_none and inst in (u'', b''): inst = None` ([ein_empty_str] /
           [ein_empty_bytes] are generated from the members of that tuple): the empty text and the empty byte string,
           nothing else (0, 0.0, False, [] stay what they are), are read as null.  The
           statement comes after self.validate() and the source guards, which every text
           passes, and what follows it sees None exactly as for a null node *)
        ldec nillable kd (if (match j with
                              | JStr [] => ein_empty_str
                              | JBytes [] => ein_empty_bytes
                              | _ => false
                              end) then JNull else j)
    | _ =>
        (* a null member is None (repaired); validate_native: nullable or value is not None *)
        do r <- (match j with
                 | JNull => if null_member_is_none then Ok DNone else rec t j
                 | _ => rec t j
                 end);
        if c_soft c && negb nillable && is_none r then VFault else Ok r
    end.

  (** _doc_to_object *)
  Fixpoint d2o_gen (fuel : nat) (t : dty) (doc : jv) {struct fuel} : out dval :=
    match fuel with
    | O => Crash OtherExn
    | S k =>
        match doc with
        | JNull => Ok (DList [])
        | _ =>
            match t with
            | DPrim _ | DPrimE _ => Crash TypeError
            | DArr e =>
                match iter_doc doc with
                | None => VFault
                | Some items => do xs <- mapM (fdv_with (d2o_gen k) true e) items; Ok (DList xs)
                end
            | DRef d =>
                do w <- unwrap d doc;
                match w with
                | None => Ok DNone
                | Some (d', body) =>
                    match dflat U d' with
                    | None => Crash TypeError
                    | Some ffs =>
                        do items <- (match body with
                                     | JMap kv => Ok kv
                                     | _ => match iter_doc body with
                                            | Some l => Ok (combine (map (fun f => JStr (df_name f)) ffs) l)
                                            | None => VFault
                                            end
                                     end);
                        do st <- fold_items (fdv_with (d2o_gen k)) ffs
                                   (repeat DNone (length ffs), repeat 0 (length ffs)) items;
                        if c_soft c && negb (freq_ok ffs (snd st)) then VFault
                        else Ok (DObj d' (fst st))
                    end
                end
            end
        end
    end.

  Definition fdv_gen (fuel : nat) (nillable : bool) (t : dty) (j : jv) : out dval :=
    fdv_with (d2o_gen fuel) nillable t j.
End Struct.

(** the implementation: the structural reader over the protocol's own leaf reader *)
Definition d2o (c : cfg) (U : duniverse) := d2o_gen c U (leaf_dec c).
Definition fdv (c : cfg) (U : duniverse) := fdv_gen c U (leaf_dec c).

(** * Method envelopes *)
Record dsig := mksig {
  sg_name : text;               (* function name = in_message type name *)
  sg_out : text;                (* out_message type name: name ++ "Response" *)
  sg_params : list dfield;
  sg_results : list dfield      (* nameResult | nameResult0.. *)
}.

(** the universe extended with the in_message and out_message classes of [s] *)
Definition ext_universe (U : duniverse) (s : dsig) : duniverse :=
  U ++ [mkdc (sg_name s) None (sg_params s); mkdc (sg_out s) None (sg_results s)].
Definition in_cid (U : duniverse) : cid := length U.
Definition out_cid (U : duniverse) : cid := S (length U).

(** what the server did with a request *)
Inductive sres :=
| SCall (args : list dval)       (* the user function was entered with these arguments *)
| SBadCall (args : list dval)    (* entered with the wrong number of arguments: TypeError -> Server fault *)
| SInvalid                       (* Client.ValidationError or Client.MessagePackDecodeError, function not entered *)
| SNotFound                      (* Client.ResourceNotFound *)
| SCrash (e : exn).              (* a non-Fault exception escaped the protocol *)

Definition find_sig (sigs : list dsig) (n : text) : option dsig :=
  find (fun s => text_eqb (sg_name s) n) sigs.

(** the single result of a method whose out_message wrapper is stripped *)
Definition single_result (c : cfg) (s : dsig) (rets : list dval) : option (dfield * dval) :=
  match c_iw c, sg_results s, rets with
  | true, [r], [v] => Some (r, v)
  | _, _, _ => None
  end.

Section Envelope.
  Variable c : cfg.
  Variable U : duniverse.
  Variable fuel : nat.

  (** DictDocument.decompose_incoming_envelope + gen_method_request_string:
      [Ok (Some name, key is str, body)] / [Ok (None, ..)] when the single key is not a
      method name string *)
  Definition method_key (req : jv) : out (option text * bool * jv) :=
    match req with
    | JMap [(k, body)] =>
        match k with
        | JStr s => Ok (Some s, true, body)
        | JBytes b =>
            if key_bytes c then
              (* gen_method_request_string: an undecodable key is a MessagePackDecodeError *)
              match utf8_dec b with
              | Some t => Ok (Some t, false, body)
              | None => if mp_envelope_errors_are_decode_errors then VFault else Crash UnicodeError
              end
            else Ok (None, false, body)
        | _ => Ok (None, false, body)
        end
    | _ => VFault
    end.

  Definition args_of (s : dsig) (r : out dval) : sres :=
    match r with
    | Ok (DObj _ args) => SCall args
    | Ok (DList []) => if is_nil (sg_params s) then SCall [] else SBadCall []
    | Ok DNone => if is_nil (sg_params s) then SCall [] else SBadCall []
    | Ok _ => SCrash OtherExn
    | VFault => SInvalid
    | Crash e => SCrash e
    end.

  (** generate_contexts + HierDictDocument.deserialize, Json/Yaml/MessagePackDocument *)
  Definition serve_request (sigs : list dsig) (req : jv) : sres :=
    match method_key req with
    | VFault => SInvalid
    | Crash e => SCrash e
    | Ok (None, _, _) => SNotFound
    | Ok (Some n, is_str, body) =>
        match find_sig sigs n with
        | None => SNotFound
        | Some s =>
            let U' := ext_universe U s in
            (* ignore_wrappers: doc.get(class_name), where MessagePack's class_name is bytes:
               a str key is found only when the lookup tries both forms (generated from the
               source; repaired: it does), else the body is None; without ignore_wrappers the
               whole document is the wrapper document of the in_message *)
            let found := if key_bytes c && is_str && negb body_lookup_both_key_forms then JNull else body in
            (* a null body ({"method": null}): every argument is absent (generated from the
               source), instead of _doc_to_object(None) = [] *)
            if c_iw c && jv_is_null found && null_body_absent_args
            then SCall (repeat DNone (length (sg_params s)))
            else args_of s (d2o c U' fuel (DRef (in_cid U)) (if c_iw c then found else req))
        end
    end.

  (** HierDictDocument.serialize for the RESPONSE message: with ignore_wrappers the
      out_message wrapper of a single result is replaced by that result; a None result
      is null when the source has the `elif inst is not None` guard (generated), else it
      went on to _to_dict_value *)
  Definition serve_response (s : dsig) (rets : list dval) : out jv :=
    let U' := ext_universe U s in
    match single_result c s rets with
    | Some (r, v) =>
        if is_none v && negb single_none_is_null then
          let '(multi', t') := strip_arr c (dmulti r) (df_ty r) in
          if multi' then Ok JNull else tdv c U' fuel t' DNone
        else o2d c U' fuel (dmulti r) (df_ty r) v
    | None => tdv c U' fuel (DRef (out_cid U)) (DObj (out_cid U) rets)
    end.

  (** MessagePackRpc (ignore_wrappers=True): [0, msgid, name, params] (params may be left
      out) -> [1, 0, None, out_message as document].  The envelope is any sequence of three
      or four items; the type is compared with ==. *)
  Definition num_of (j : jv) : option Z :=
    match j with
    | JInt z => Some z
    | JBool b => Some (if b then 1 else 0)
    | JFlt x => match float_class x with FIntegral z => Some z | _ => None end
    | _ => None
    end.

  Definition rpc_go (sigs : list dsig) (t name params : jv) : sres :=
    (* msgname_or_error.decode(default_string_encoding) comes first; an undecodable name, and
       every message type but REQUEST (response, error, notification, unknown: formatted as
       "%r" % (msgtype,)), is a Client.MessagePackDecodeError *)
    match (match name with
           | JStr s => Some (Some s)
           | JBytes b => match utf8_dec b with Some n => Some (Some n) | None => None end
           | _ => Some None
           end) with
    | None => SInvalid
    | Some on =>
        match num_of t with
        | Some 0 =>
            match on with
            | None => SNotFound
            | Some n =>
                match find_sig sigs n with
                | None => SNotFound
                | Some s =>
                    (* [type, id, method, nil]: every argument is absent (generated) *)
                    if jv_is_null params && rpc_nil_params_absent_args
                    then SCall (repeat DNone (length (sg_params s)))
                    else args_of s (d2o c (ext_universe U s) fuel (DRef (in_cid U)) params)
                end
            end
        | _ => SInvalid
        end
    end.

  Definition rpc_request (sigs : list dsig) (req : jv) : sres :=
    match iter_doc req with
    | Some [t; _; name] => rpc_go sigs t name (JList [])
    | Some [t; _; name; params] => rpc_go sigs t name params
    | _ => SInvalid
    end.

  Definition rpc_response (s : dsig) (rets : list dval) : out jv :=
    do body <- tdv c (ext_universe U s) fuel (DRef (out_cid U)) (DObj (out_cid U) rets);
    Ok (JList [JInt 1; JInt 0; JNull; body]).
End Envelope.

(** * Embedding of the shared three-primitive universe (Wire.Universe) *)
Module Lift.
  Import Wire.Universe.
  Definition lift_prim (p : prim) : lkind :=
    match p with PInt => KInt PosInf | PText => KText | PBool => KBool end.
  Fixpoint lift_ty (t : ty) : dty :=
    match t with
    | TPrim p => DPrim (lift_prim p)
    | TRef c => DRef c
    | TArr e => DArr (lift_ty e)
    end.
  Definition lift_field (f : field) : dfield :=
    mkdf (f_name f) (lift_ty (f_ty f)) (f_min f) (f_max f) (f_nillable f).
  Definition lift_cls (cl : cls) : dcls :=
    mkdc (c_name cl) (c_parent cl) (map lift_field (c_own cl)).
  Definition lift_universe (U : universe) : duniverse := map lift_cls U.
  Definition lift_pval (p : pval) : lval :=
    match p with LInt z => Dict.LInt z | LText t => Dict.LText t | LBool b => Dict.LBool b end.
  Fixpoint lift_val (v : val) : dval :=
    match v with
    | VNone => DNone
    | VLeaf p => DLeaf (lift_pval p)
    | VObj c fs => DObj c (map lift_val fs)
    | VList vs => DList (map lift_val vs)
    end.
End Lift.
