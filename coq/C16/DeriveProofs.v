(** C16: when does the metaclass keep the Python base class as __extends__?  Always, except
    for a base that has neither members of its own nor a base class. *)
From Coq Require Import ZArith List Bool Lia Arith.
From SpyneV Require Import Base.Prelude Wire.Universe Wire.Xml C16.Model.
Import ListNotations.

Definition kept (U : universe) (P : list pycls) : Prop :=
  length U = length P
  /\ forall i p, nth_error P i = Some p ->
       exists cl, nth_error U i = Some cl /\ c_parent cl = py_base p /\ c_own cl = py_own p
                  /\ c_ns cl = py_ns p /\ c_name cl = py_name p.

(** every Python base is defined earlier; a class without a base has members *)
Definition bases_ok (P : list pycls) : Prop :=
  forall i p, nth_error P i = Some p ->
    match py_base p with
    | Some b => (b < i)%nat
    | None => py_own p <> []
    end.

Lemma derive_from_kept : forall P Pd U, kept U Pd -> bases_ok (Pd ++ P) -> kept (derive_from shape_ok U P) (Pd ++ P).
Proof.
  induction P as [|p P IH]; intros Pd U Hk Hb.
  - rewrite app_nil_r. exact Hk.
  - cbn [derive_from]. replace (Pd ++ p :: P) with ((Pd ++ [p]) ++ P) by (rewrite <- app_assoc; reflexivity).
    apply IH; [|rewrite <- app_assoc; exact Hb].
    destruct Hk as [Hlen Hk]. split; [rewrite !app_length, Hlen; reflexivity|].
    intros i q Hq. destruct (Nat.lt_ge_cases i (length Pd)) as [Hlt|Hge].
    + rewrite nth_error_app1 in Hq by exact Hlt. destruct (Hk i q Hq) as [cl [H1 H2]].
      exists cl. rewrite nth_error_app1 by (rewrite Hlen; exact Hlt). split; assumption.
    + rewrite nth_error_app2 in Hq by exact Hge.
      destruct (i - length Pd)%nat as [|j] eqn:Ej; [|destruct j; discriminate].
      cbn in Hq. inversion Hq; subst q. assert (i = length Pd) as -> by lia.
      rewrite nth_error_app2 by (rewrite Hlen; lia). rewrite Hlen, Nat.sub_diag. cbn [nth_error].
      eexists. split; [reflexivity|]. cbn [c_parent c_own c_ns c_name]. repeat split; try reflexivity.
      (* the parent link *)
      assert (nth_error (Pd ++ p :: P) (length Pd) = Some p) as Hnp.
      { rewrite nth_error_app2 by lia. rewrite Nat.sub_diag. reflexivity. }
      pose proof (Hb (length Pd) p Hnp) as Hp.
      unfold extends_of. destruct (py_base p) as [b|]; [|reflexivity].
      assert (exists pb, nth_error Pd b = Some pb) as [pb Hpb].
      { destruct (nth_error Pd b) eqn:E; [eauto|]. apply nth_error_None in E. lia. }
      destruct (Hk b pb Hpb) as [bcl [Hb1 [Hb2 [Hb3 _]]]]. unfold get_cls. rewrite Hb1.
      cbn [shape_ok sh_memberless_base andb].
      destruct (c_own bcl) as [|f fs] eqn:Eo; [|reflexivity]. cbn [length Nat.eqb negb orb].
      (* a member-less base: it is not a root, hence it extends a class *)
      assert (nth_error (Pd ++ p :: P) b = Some pb) as Hnb.
      { rewrite nth_error_app1 by lia. exact Hpb. }
      pose proof (Hb b pb Hnb) as Hpb'.
      rewrite Hb2. destruct (py_base pb); [reflexivity|]. exfalso. apply Hpb'. symmetry. exact Hb3.
Qed.

(** on the repaired tree every class keeps its Python base as __extends__ provided no class is
    both without a base and without members *)
Theorem extends_partial : forall P, bases_ok P ->
  forall i p, nth_error P i = Some p ->
    exists cl, get_cls (derive shape_ok P) i = Some cl /\ c_parent cl = py_base p /\ c_own cl = py_own p.
Proof.
  intros P Hb i p Hp.
  assert (kept [] []) as K0 by (split; [reflexivity|intros [|j] q H; discriminate]).
  destruct (derive_from_kept P [] [] K0 Hb) as [_ Hk].
  destruct (Hk i p Hp) as [cl [H1 [H2 [H3 _]]]]. exists cl. unfold get_cls, derive. auto.
Qed.

(** ... and not otherwise: a subclass of a class that has neither members nor a base does not
    extend it (it is not in its _subclasses, not registered by the interface for substitution,
    not found by its wrapper key) *)
Definition ex_empty_root : list pycls :=
  [ mkpy None [117] [69] [];                                                        (* class E(ComplexModel): pass *)
    mkpy (Some 0%nat) [117] [70] [mkfield [102] (TPrim PInt) 0 (Some 1) true KElem] ].  (* class F(E): f = Integer *)
Theorem extends_refuted :
  exists P i p b, nth_error P i = Some p /\ py_base p = Some b /\ (b < i)%nat
                  /\ exists cl, get_cls (derive shape_ok P) i = Some cl /\ c_parent cl <> Some b.
Proof.
  exists ex_empty_root, 1%nat, (mkpy (Some 0%nat) [117] [70] [mkfield [102] (TPrim PInt) 0 (Some 1) true KElem]), 0%nat.
  split; [reflexivity|]. split; [reflexivity|]. split; [lia|].
  eexists. split; [vm_compute; reflexivity|]. cbn. discriminate.
Qed.
