(** C16, XML: every emitted type marker resolves in the emitted document; a marker that is
    honoured on input names a registered subclass of the declared class, anything else is
    refused; polymorphic=False transmits exactly the declared class's projection. *)
From Coq Require Import ZArith List Bool Lia ZifyBool Arith.
From SpyneV Require Import Base.Prelude Wire.Universe Wire.Xml C16.Model C16.Basics C16.XmlProofs.
Import ListNotations.
Open Scope Z_scope.

Lemma mapM_inv {A B} (f : A -> out B) : forall l ys, mapM f l = Ok ys -> Forall2 (fun x y => f x = Ok y) l ys.
Proof.
  induction l as [|x l IH]; intros ys H; cbn in H.
  - inversion H. constructor.
  - destruct (f x) as [y| |] eqn:E; try discriminate. cbn in H.
    destruct (mapM f l) as [ys'| |] eqn:E2; try discriminate. cbn in H. inversion H; subst.
    constructor; [exact E|apply IH; reflexivity].
Qed.

Lemma enc_field_inv L encf dns f x blk ats : is_elem f = true -> enc_field L encf dns f x = Ok (blk, ats) ->
  ats = [] /\ forall kid, In kid blk -> exists y, encf (f_ty f) dns (f_name f) y = Ok kid.
Proof.
  unfold is_elem, enc_field. destruct (f_kind f); [|discriminate]. intros _ H.
  destruct (is_multi f).
  - destruct x as [| |c fs|xs]; try discriminate.
    + destruct (0 <? f_min f).
      * destruct (encf (f_ty f) dns (f_name f) VNone) as [e| |] eqn:E; try discriminate. cbn in H. inversion H; subst.
        split; [reflexivity|]. intros kid [<-|[]]. eauto.
      * inversion H; subst. split; [reflexivity|]. intros ? [].
    + destruct (mapM (encf (f_ty f) dns (f_name f)) xs) as [es| |] eqn:E; try discriminate. cbn in H. inversion H; subst.
      split; [reflexivity|]. intros kid Hk. apply mapM_inv in E.
      clear - E Hk. induction E; [destruct Hk|]. destruct Hk as [<-|Hk]; [eauto|auto].
  - destruct x as [|pv|c fs|xs].
    + destruct (0 <? f_min f).
      * destruct (encf (f_ty f) dns (f_name f) VNone) as [e| |] eqn:E; try discriminate. cbn in H. inversion H; subst.
        split; [reflexivity|]. intros kid [<-|[]]. eauto.
      * inversion H; subst. split; [reflexivity|]. intros ? [].
    + destruct (encf (f_ty f) dns (f_name f) (VLeaf pv)) as [e| |] eqn:E; try discriminate. cbn in H. inversion H; subst.
      split; [reflexivity|]. intros kid [<-|[]]. eauto.
    + destruct (encf (f_ty f) dns (f_name f) (VObj c fs)) as [e| |] eqn:E; try discriminate. cbn in H. inversion H; subst.
      split; [reflexivity|]. intros kid [<-|[]]. eauto.
    + destruct (encf (f_ty f) dns (f_name f) (VList xs)) as [e| |] eqn:E; try discriminate. cbn in H. inversion H; subst.
      split; [reflexivity|]. intros kid [<-|[]]. eauto.
Qed.

Lemma enc_members_inv L encf : forall fl vals kids atts,
  forallb (fun p : text * field => is_elem (snd p)) fl = true ->
  enc_members L encf fl vals = Ok (kids, atts) ->
  atts = [] /\ forall kid, In kid kids -> exists t ns name y, encf t ns name y = Ok kid.
Proof.
  induction fl as [|[dns f] fl IH]; intros vals kids atts Hel H; cbn in H.
  - inversion H; subst. split; [reflexivity|]. intros ? [].
  - cbn in Hel. apply andb_true_iff in Hel. destruct Hel as [Hf Hel].
    destruct (enc_field L encf dns f (hd VNone vals)) as [[blk ats]| |] eqn:E1; try discriminate. cbn in H.
    destruct (enc_members L encf fl (tl vals)) as [[kids' atts']| |] eqn:E2; try discriminate. cbn in H.
    inversion H; subst.
    destruct (enc_field_inv L encf dns f _ blk ats Hf E1) as [-> Hb].
    destruct (IH _ _ _ Hel E2) as [-> Hk].
    split; [reflexivity|]. intros kid Hin. apply in_app_or in Hin. destruct Hin as [Hin|Hin].
    + destruct (Hb kid Hin) as [y Hy]. eauto.
    + apply Hk. exact Hin.
Qed.

Lemma elem_only_decl U : elem_only U = true -> forall c fds, flat_decl U c = Some fds ->
  forallb (fun p : text * field => is_elem (snd p)) fds = true.
Proof.
  intros He c fds H.
  assert (flat_fields U c = Some (map snd fds)) as Hf.
  { unfold flat_fields, flat_decl in *. rewrite <- flat_decl_fuel_snd, H. reflexivity. }
  pose proof (elem_only_flat U He _ _ _ Hf) as X. rewrite forallb_forall in X. apply forallb_forall.
  intros p Hp. apply X. apply in_map. exact Hp.
Qed.

Section Marks.
  Variable L : leaf_codec.
  Variable C : pcfg.
  Variable U : universe.
  Hypothesis Hel : elem_only U = true.
  Hypothesis Hpm : forall ns, pfx_ok (p_pm C ns) = true.

  Definition class_mark (m : rmark) : Prop := exists d, m = RQ (cls_ns U d) (cls_name U d).

  Lemma marks_flat n sc kids : (forall kid, In kid kids -> Forall class_mark (marks n sc kid)) ->
    Forall class_mark (flat_map (marks n sc) kids).
  Proof.
    induction kids as [|k kids IH]; intro H; cbn; [constructor|].
    apply Forall_app. split; [apply H; left; reflexivity|apply IH; intros; apply H; right; assumption].
  Qed.

  (** every xsi:type written by to_parent resolves, under the declarations of the document
      itself and whatever the context [sc] declares, to the key of a class *)
  Theorem marks_resolve : forall k t ns name v e, penc shape_ok L C U k t ns name v = Ok e ->
    forall n sc, Forall class_mark (marks n sc e).
  Proof.
    induction k as [|k IH]; intros t ns name v e H n sc; [discriminate|].
    destruct n as [|n]; [constructor|].
    destruct v as [|pv|d fs|xs]; cbn [penc] in H.
    - inversion H; subst. cbn. constructor.
    - destruct t as [p| |]; try discriminate. destruct (lc_pr L p pv); try discriminate. cbn in H. inversion H; subst.
      cbn. constructor.
    - destruct t as [|c|]; try discriminate.
      destruct (poly_target shape_ok (p_poly C) U c d) as [tgt add_type].
      rewrite members_of_ok in H. destruct (flat_decl U tgt) as [ffs|] eqn:Efd; try discriminate.
      destruct (enc_members L (penc shape_ok L C U k) ffs
                  (map (fun nf : text * field => inst_get U d fs (f_name (snd nf))) ffs)) as [[kids atts]| |] eqn:Em; try discriminate.
      cbn [bind fst snd] in H. inversion H; subst. clear H.
      destruct (enc_members_inv _ _ _ _ _ _ (elem_only_decl U Hel _ _ Efd) Em) as [-> Hk].
      rewrite app_nil_r. cbn [marks]. apply Forall_app. split.
      + destruct add_type.
        * unfold type_marker. cbn [shape_ok sh_type_decl sh_type_keep andb]. unfold real_atts, decls_of.
          cbn [filter]. rewrite is_decl_xsi, is_decl_xmlns. cbn [negb map fst snd lookup_att].
          rewrite (text_eqb_refl xsi_ns), (text_eqb_refl t_type). cbn [andb app].
          rewrite resolve_marker by apply Hpm. constructor; [|constructor]. exists d. reflexivity.
        * cbn. constructor.
      + apply marks_flat. intros kid Hin. destruct (Hk kid Hin) as [t0 [ns0 [nm0 [y Hy]]]]. eapply IH. exact Hy.
    - destruct t as [| |el]; try discriminate.
      destruct (mapM (penc shape_ok L C U k el (item_ns C U ns name el) (type_name U el)) xs) as [kids| |] eqn:Em; try discriminate.
      cbn in H. inversion H; subst. cbn [marks real_atts filter lookup_att app].
      apply marks_flat. intros kid Hin. apply mapM_inv in Em.
      clear - Em Hin IH. induction Em; [destruct Hin|]. destruct Hin as [<-|Hin]; [eapply IH; eauto|auto].
  Qed.

  (** ... and when polymorphic is off, there is none *)
  Theorem mono_no_marks : p_poly C = false ->
    forall k t ns name v e, penc shape_ok L C U k t ns name v = Ok e -> forall n sc, marks n sc e = [].
  Proof.
    intro Hp. induction k as [|k IH]; intros t ns name v e H n sc; [discriminate|].
    destruct n as [|n]; [reflexivity|].
    assert (forall sc' kids, (forall kid, In kid kids -> marks n sc' kid = []) ->
                             flat_map (marks n sc') kids = []) as Hflat.
    { intros sc'. induction kids as [|kd kids IHk]; intro X; cbn [flat_map]; [reflexivity|].
      rewrite (X kd (or_introl eq_refl)), IHk; [reflexivity|]. intros; apply X; right; assumption. }
    destruct v as [|pv|d fs|xs]; cbn [penc] in H.
    - inversion H; subst. reflexivity.
    - destruct t as [p| |]; try discriminate. destruct (lc_pr L p pv); try discriminate. cbn in H. inversion H; subst.
      reflexivity.
    - destruct t as [|c|]; try discriminate. unfold poly_target in H. rewrite Hp in H. cbn [negb] in H.
      rewrite members_of_ok in H. destruct (flat_decl U c) as [ffs|] eqn:Efd; try discriminate.
      destruct (enc_members L (penc shape_ok L C U k) ffs
                  (map (fun nf : text * field => inst_get U d fs (f_name (snd nf))) ffs)) as [[kids atts]| |] eqn:Em; try discriminate.
      cbn [bind fst snd] in H. inversion H; subst. clear H.
      destruct (enc_members_inv _ _ _ _ _ _ (elem_only_decl U Hel _ _ Efd) Em) as [-> Hk].
      cbn [app marks real_atts filter lookup_att]. apply Hflat.
      intros kid Hin. destruct (Hk kid Hin) as [t0 [ns0 [nm0 [y Hy]]]]. eapply IH. exact Hy.
    - destruct t as [| |el]; try discriminate.
      destruct (mapM (penc shape_ok L C U k el (item_ns C U ns name el) (type_name U el)) xs) as [kids| |] eqn:Em; try discriminate.
      cbn in H. inversion H; subst. cbn [marks real_atts filter lookup_att app].
      apply Hflat. intros kid Hin. apply mapM_inv in Em.
      clear - Em Hin IH. induction Em; [destruct Hin|]. destruct Hin as [<-|Hin]; [eapply IH; eauto|auto].
  Qed.
End Marks.

(* ------------------------------------------------------------------ input side: which markers are honoured *)
Section Sound.
  Variable L : leaf_codec.
  Variable C : pcfg.
  Variable U : universe.

  (** what _get_xsi_target lets through: the declared type itself, or -- where a user class is
      declared -- a registered user class that is a subclass of it *)
  Lemma xsi_target_spec tns decl new t : xsi_target U tns decl new = Some t ->
    t = decl \/ exists c c', decl = TRef c /\ new = TRef c' /\ t = TRef c' /\ is_subclass U c' c = true.
  Proof.
    unfold xsi_target, xsi_decide. destruct decl as [p|c|e], new as [q|c'|e']; cbn [negb andb orb];
      try discriminate; try (destruct (prim_eqb p q); [|discriminate]);
      try (destruct (rkey_eqb _ _); cbn [negb andb orb]; [|discriminate]);
      try (intro H; inversion H; left; reflexivity).
    destruct (Nat.eqb c c') eqn:E; cbn [negb andb orb].
    - intro H. inversion H. left. reflexivity.
    - destruct (is_subclass U c' c) eqn:Es; cbn [negb]; [|discriminate].
      intro H. inversion H. right. exists c, c'. auto.
  Qed.

  Lemma retarget_ref sc atts c t' : retarget shape_ok C U sc atts (TRef c) = Ok t' ->
    exists d, t' = TRef d /\ is_subclass U d c = true
              /\ (forall q, lookup_att xsi_ns t_type atts = Some q -> p_parse_xsi C = true ->
                     exists key, resolve_qname sc q = Some key /\ reg_find (p_reg C) key = Some (TRef d)).
  Proof.
    unfold retarget. destruct (p_parse_xsi C) eqn:Ex; cbn [negb].
    - destruct (lookup_att xsi_ns t_type atts) as [q|].
      + destruct (resolve_qname sc q) as [key|] eqn:Eq; [|discriminate].
        destruct (reg_find (p_reg C) key) as [t1|] eqn:Er; [|discriminate].
        cbn [shape_ok sh_xsi_guard]. destruct (xsi_target U (p_tns C) (TRef c) t1) as [t2|] eqn:Et; [|discriminate].
        intro H. inversion H; subst t'.
        assert (exists d, t1 = TRef d /\ t2 = TRef d /\ is_subclass U d c = true) as [d [-> [-> Hs]]].
        { destruct (xsi_target_spec _ _ _ _ Et) as [->|[c0 [c' [H0 [-> [-> Hs]]]]]].
          - unfold xsi_target, xsi_decide in Et. destruct t1 as [q0|c'|e']; cbn [negb andb orb] in Et; try discriminate.
            destruct (Nat.eqb c c') eqn:E; [apply Nat.eqb_eq in E; subst; exists c'; repeat split; apply is_subclass_refl|].
            cbn [negb andb orb] in Et. destruct (is_subclass U c' c); cbn in Et; [|discriminate].
            inversion Et; subst. rewrite Nat.eqb_refl in E. discriminate.
          - inversion H0; subst. exists c'. auto. }
        exists d. split; [reflexivity|]. split; [exact Hs|]. intros q' Hq' _. inversion Hq'; subst. eauto.
      + intro H. inversion H; subst. exists c. split; [reflexivity|]. split; [apply is_subclass_refl|discriminate].
    - intro H. inversion H; subst. exists c. split; [reflexivity|]. split; [apply is_subclass_refl|]. intros; discriminate.
  Qed.

  (** whatever the document says, an object decoded where class [c] is declared is an instance
      of [c] or of a subclass of [c] *)
  Theorem decoded_class : forall k sc c nillable e d fs,
    pdec shape_ok L C U k sc (TRef c) nillable e = Ok (VObj d fs) -> is_subclass U d c = true.
  Proof.
    intros k sc c nillable e d fs H. destruct k as [|k]; [discriminate|]. cbn [pdec] in H.
    destruct e as [ns n atts txt kids|]; [|discriminate].
    destruct (is_nil (real_atts atts)).
    { destruct (p_soft C && negb nillable); discriminate. }
    destruct (retarget shape_ok C U (decls_of atts ++ sc) (real_atts atts) (TRef c)) as [t'| |] eqn:Er; try discriminate.
    destruct (retarget_ref _ _ _ _ Er) as [d' [-> [Hs _]]]. cbn [bind] in H.
    destruct (flat_decl U d') as [ffs|]; [|discriminate].
    destruct (dec_kids _ _ _ _ _) as [r1| |]; try discriminate. cbn [bind] in H.
    destruct (dec_atts _ _ _ _ _) as [r2| |]; try discriminate. cbn [bind] in H.
    destruct (p_soft C && negb (freq_ok (map snd ffs) (snd r2))); [discriminate|].
    inversion H; subst. exact Hs.
  Qed.

  (** a marker is honoured only if its prefix is bound in scope, the resulting key is in the
      interface's registry, and the registered class is a subclass of the declared one *)
  Theorem marker_honoured : forall k sc c nillable ns n atts txt kids v q,
    p_parse_xsi C = true ->
    is_nil (real_atts atts) = false -> lookup_att xsi_ns t_type (real_atts atts) = Some q ->
    pdec shape_ok L C U (S k) sc (TRef c) nillable (XElt ns n atts txt kids) = Ok v ->
    exists key d fs, resolve_qname (decls_of atts ++ sc) q = Some key
                     /\ reg_find (p_reg C) key = Some (TRef d)
                     /\ is_subclass U d c = true /\ v = VObj d fs.
  Proof.
    intros k sc c nillable ns n atts txt kids v q Hx Hnil Hq H. cbn [pdec] in H. rewrite Hnil in H.
    destruct (retarget shape_ok C U (decls_of atts ++ sc) (real_atts atts) (TRef c)) as [t'| |] eqn:Er; try discriminate.
    destruct (retarget_ref _ _ _ _ Er) as [d [-> [Hs Hb]]].
    destruct (Hb q Hq Hx) as [key [Hres Hreg]].
    cbn [bind] in H.
    destruct (flat_decl U d) as [ffs|]; [|discriminate].
    destruct (dec_kids _ _ _ _ _) as [r1| |]; try discriminate. cbn [bind] in H.
    destruct (dec_atts _ _ _ _ _) as [r2| |]; try discriminate. cbn [bind] in H.
    destruct (p_soft C && negb (freq_ok (map snd ffs) (snd r2))); [discriminate|].
    inversion H; subst. eauto 10.
  Qed.

  Theorem marker_refused : forall k sc t nillable ns n atts txt kids q,
    p_parse_xsi C = true ->
    is_nil (real_atts atts) = false -> lookup_att xsi_ns t_type (real_atts atts) = Some q ->
    (match resolve_qname (decls_of atts ++ sc) q with
     | None => true
     | Some key => match reg_find (p_reg C) key with
                   | None => true
                   | Some t' => match xsi_target U (p_tns C) t t' with None => true | Some _ => false end
                   end
     end = true) ->
    pdec shape_ok L C U (S k) sc t nillable (XElt ns n atts txt kids) = VFault.
  Proof.
    intros k sc t nillable ns n atts txt kids q Hx Hnil Hq Hbad. cbn [pdec]. rewrite Hnil.
    unfold retarget. rewrite Hx, Hq. cbn [negb].
    destruct (resolve_qname (decls_of atts ++ sc) q) as [key|]; [|reflexivity].
    destruct (reg_find (p_reg C) key) as [t'|]; [|reflexivity].
    cbn [shape_ok sh_xsi_guard]. destruct (xsi_target U (p_tns C) t t'); [discriminate|reflexivity].
  Qed.
End Sound.
