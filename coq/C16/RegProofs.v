(** C16: Interface.add_class registers, with every class it reaches, all the subclasses of
    that class that live in its namespace; hence every class of a hierarchy placed in one
    namespace can be named by an xsi:type and found. *)
From Coq Require Import ZArith List Bool Lia ZifyBool Arith.
From SpyneV Require Import Base.Prelude Wire.Universe Wire.Xml C16.Model C16.Basics C16.HierProofs.
Import ListNotations.
Open Scope Z_scope.

Lemma rkey_eqb_eq a b : rkey_eqb a b = true <-> a = b.
Proof.
  destruct a as [a1 a2], b as [b1 b2]. unfold rkey_eqb. cbn [fst snd]. rewrite andb_true_iff, !text_eqb_eq.
  split; [intros [-> ->]; reflexivity|intro H; inversion H; auto].
Qed.
Lemma rkey_eqb_refl a : rkey_eqb a a = true.
Proof. apply rkey_eqb_eq. reflexivity. Qed.

Lemma ty_eqb_top_eq : forall a b, ty_eqb_top a b = true -> a = b.
Proof.
  unfold ty_eqb_top. induction a as [p|c|e IH]; intros [q|d|e'] H; cbn in H; try discriminate.
  - destruct p, q; try discriminate; reflexivity.
  - apply Nat.eqb_eq in H. congruence.
  - f_equal. apply IH. exact H.
Qed.

Lemma reg_find_app a b k : reg_find (a ++ b) k = match reg_find a k with Some t => Some t | None => reg_find b k end.
Proof.
  induction a as [|[k' t] a IH]; cbn; [reflexivity|]. destruct (rkey_eqb k' k); [reflexivity|exact IH].
Qed.

Lemma has_key_app_l a b k : has_key a k = true -> has_key (a ++ b) k = true.
Proof. unfold has_key. rewrite reg_find_app. destruct (reg_find a k); [reflexivity|discriminate]. Qed.

Lemma has_key_app_r a b k : has_key b k = true -> has_key (a ++ b) k = true.
Proof. unfold has_key. rewrite reg_find_app. destruct (reg_find a k); [reflexivity|]. auto. Qed.

Lemma reg_find_In reg k t : reg_find reg k = Some t -> In (k, t) reg.
Proof.
  induction reg as [|[k' t'] reg IH]; cbn; [discriminate|].
  destruct (rkey_eqb k' k) eqn:E.
  - intro H. inversion H; subst. apply rkey_eqb_eq in E. subst. left. reflexivity.
  - intro H. right. apply IH. exact H.
Qed.

Lemma In_reg_find reg k t : NoDup (map fst reg) -> In (k, t) reg -> reg_find reg k = Some t.
Proof.
  induction reg as [|[k' t'] reg IH]; intros Hnd Hin; [destruct Hin|].
  cbn in Hnd. inversion Hnd as [|? ? Hni Hnd']; subst. cbn.
  destruct Hin as [Heq|Hin].
  - inversion Heq; subst. rewrite rkey_eqb_refl. reflexivity.
  - destruct (rkey_eqb k' k) eqn:E.
    + apply rkey_eqb_eq in E. subst. exfalso. apply Hni. apply (in_map fst) in Hin. exact Hin.
    + apply IH; assumption.
Qed.

Lemma has_key_false_notin reg k : has_key reg k = false -> ~ In k (map fst reg).
Proof.
  unfold has_key. induction reg as [|[k' t] reg IH]; cbn; [tauto|].
  destruct (rkey_eqb k' k) eqn:E; [discriminate|]. intros H [X|X].
  - subst. rewrite rkey_eqb_refl in E. discriminate.
  - apply IH; assumption.
Qed.

Lemma NoDup_app_cons_end {A} (l : list A) x : ~ In x l -> NoDup l -> NoDup (l ++ [x]).
Proof.
  intros Hx Hn. induction Hn as [|y l Hy Hn IH]; cbn; [constructor; [intros []|constructor]|].
  constructor.
  - intro X. apply in_app_or in X. destruct X as [X|[X|[]]]; [contradiction|]. subst. apply Hx. left. reflexivity.
  - apply IH. intro X. apply Hx. right. exact X.
Qed.

(* ------------------------------------------------------------------ the types of a program *)
Lemma subterms_self t : In t (subterms t).
Proof. destruct t; left; reflexivity. Qed.

Lemma subterms_arr e : forall t, In (TArr e) (subterms t) -> In e (subterms t).
Proof.
  induction t as [p|c|e' IH]; cbn; intros [H|H]; try discriminate; try contradiction.
  - inversion H; subst. right. apply subterms_self.
  - right. apply IH. exact H.
Qed.

Section Reg.
  Variable U : universe.
  Variable tns : text.
  Hypothesis Hwf : wf_universe U = true.

  Notation key := (key_of U tns).
  Notation add_ty := (add_ty shape_ok U tns).

  Lemma all_types_cls i cl t : get_cls U i = Some cl -> In t (cls_types i cl) -> In t (all_types U).
  Proof.
    intros Hc Ht. unfold all_types. apply in_flat_map. exists i. split.
    - apply in_seq. pose proof (get_cls_lt U i cl Hc). lia.
    - rewrite Hc. exact Ht.
  Qed.

  Lemma all_types_ref c cl : get_cls U c = Some cl -> In (TRef c) (all_types U).
  Proof. intro Hc. eapply all_types_cls; [exact Hc|]. left. reflexivity. Qed.

  Lemma all_types_field c cl f : get_cls U c = Some cl -> In f (c_own cl) -> In (f_ty f) (all_types U).
  Proof.
    intros Hc Hf. eapply all_types_cls; [exact Hc|]. unfold cls_types. right. apply in_or_app. right.
    apply in_flat_map. exists f. split; [exact Hf|apply subterms_self].
  Qed.

  Lemma all_types_arr e : In (TArr e) (all_types U) -> In e (all_types U).
  Proof.
    unfold all_types. rewrite !in_flat_map. intros [i [Hi Ht]]. exists i. split; [exact Hi|].
    destruct (get_cls U i) as [cl|]; [|destruct Ht]. unfold cls_types in *.
    destruct Ht as [Ht|Ht]; [discriminate|]. right. apply in_app_or in Ht. apply in_or_app.
    destruct Ht as [Ht|Ht].
    - destruct (c_parent cl); [destruct Ht as [Ht|[]]; discriminate|destruct Ht].
    - right. apply in_flat_map in Ht. destruct Ht as [f [Hf Ht]]. apply in_flat_map. exists f. split; [exact Hf|].
      apply subterms_arr. exact Ht.
  Qed.

  Lemma direct_subs_from_inv c : forall l i s, In s (direct_subs_from i l c) ->
    exists cl, nth_error l (s - i) = Some cl /\ c_parent cl = Some c /\ (i <= s)%nat.
  Proof.
    induction l as [|a l IH]; intros i s H; [destruct H|]. cbn in H.
    assert (In s (direct_subs_from (S i) l c) -> exists cl, nth_error (a :: l) (s - i) = Some cl /\ c_parent cl = Some c /\ (i <= s)%nat) as Hrec.
    { intro X. destruct (IH (S i) s X) as [cl [H1 [H2 H3]]]. exists cl. split; [|split; [exact H2|lia]].
      replace (s - i)%nat with (S (s - S i)) by lia. exact H1. }
    destruct (c_parent a) as [p|] eqn:Ep; [|apply Hrec; exact H].
    destruct (Nat.eqb p c) eqn:E; [|apply Hrec; exact H].
    destruct H as [<-|H]; [|apply Hrec; exact H].
    exists a. rewrite Nat.sub_diag. apply Nat.eqb_eq in E. subst. split; [reflexivity|split; [exact Ep|lia]].
  Qed.

  Lemma direct_subs_inv c s : In s (direct_subs U c) -> exists cl, get_cls U s = Some cl /\ c_parent cl = Some c.
  Proof.
    intro H. destruct (direct_subs_from_inv c U 0 s H) as [cl [H1 [H2 _]]]. rewrite Nat.sub_0_r in H1. eauto.
  Qed.

  (* ---- what it means for a registry to be closed at an entry *)
  Definition closed (reg : registry) (t : ty) : Prop :=
    match t with
    | TPrim _ => True
    | TArr e => has_key reg (key e) = true
    | TRef c => forall cl, get_cls U c = Some cl ->
        (forall f, In f (c_own cl) -> has_key reg (key (f_ty f)) = true)
        /\ (forall s, In s (direct_subs U c) -> text_eqb (cls_ns U s) (cls_ns U c) = true -> has_key reg (key (TRef s)) = true)
    end.
  Definition good (reg : registry) (e : rkey * ty) : Prop :=
    fst e = key (snd e) /\ In (snd e) (all_types U) /\ closed reg (snd e).

  Lemma closed_app reg ext t : closed reg t -> closed (reg ++ ext) t.
  Proof.
    destruct t as [p|c|e]; cbn; [auto| |apply has_key_app_l].
    intros H cl Hc. destruct (H cl Hc) as [H1 H2]. split; intros; apply has_key_app_l; auto.
  Qed.
  Lemma good_app reg ext e : good reg e -> good (reg ++ ext) e.
  Proof. intros [H1 [H2 H3]]. split; [exact H1|]. split; [exact H2|apply closed_app; exact H3]. Qed.

  Definition spec (t : ty) (reg reg' : registry) : Prop :=
    exists ext, reg' = reg ++ ext
                /\ has_key reg' (key t) = true
                /\ (forall e, In e ext -> good reg' e)
                /\ (NoDup (map fst reg) -> NoDup (map fst reg')).

  (** a fold of add_class calls over a list of types *)
  Lemma fold_spec k (IH : forall t ap reg reg', In t (all_types U) -> add_ty k t ap reg = Some reg' -> spec t reg reg')
        {A} (sel : A -> bool) (g : A -> ty) (ap : bool) :
    forall l reg reg',
      (forall x, In x l -> In (g x) (all_types U)) ->
      fold_opt (fun r x => if sel x then add_ty k (g x) ap r else Some r) l reg = Some reg' ->
      exists ext, reg' = reg ++ ext
                  /\ (forall x, In x l -> sel x = true -> has_key reg' (key (g x)) = true)
                  /\ (forall e, In e ext -> good reg' e)
                  /\ (NoDup (map fst reg) -> NoDup (map fst reg')).
  Proof.
    induction l as [|x l IHl]; intros reg reg' Hall H; cbn in H.
    - inversion H; subst. exists []. rewrite app_nil_r.
      split; [reflexivity|]. split; [intros ? []|]. split; [intros ? []|auto].
    - destruct (if sel x then add_ty k (g x) ap reg else Some reg) as [r1|] eqn:E1; [|discriminate].
      destruct (IHl r1 reg' (fun y Hy => Hall y (or_intror Hy)) H) as [ext2 [-> [Hk2 [Hg2 Hn2]]]].
      assert (exists ext1, r1 = reg ++ ext1 /\ (sel x = true -> has_key r1 (key (g x)) = true)
                           /\ (forall e, In e ext1 -> good r1 e) /\ (NoDup (map fst reg) -> NoDup (map fst r1))) as [ext1 [-> [Hk1 [Hg1 Hn1]]]].
      { destruct (sel x).
        - destruct (IH (g x) ap reg r1 (Hall x (or_introl eq_refl)) E1) as [ext1 [-> [Hk [Hg Hn]]]].
          exists ext1. split; [reflexivity|]. split; [intros _; exact Hk|]. split; [exact Hg|exact Hn].
        - inversion E1; subst. exists []. rewrite app_nil_r.
          split; [reflexivity|]. split; [discriminate|]. split; [intros ? []|auto]. }
      exists (ext1 ++ ext2). rewrite app_assoc. split; [reflexivity|]. split; [|split].
      + intros y [<-|Hy] Hs; [apply has_key_app_l; apply Hk1; exact Hs|apply Hk2; assumption].
      + intros e He. apply in_app_or in He. destruct He as [He|He]; [apply good_app; apply Hg1; exact He|apply Hg2; exact He].
      + intro Hn. apply Hn2. apply Hn1. exact Hn.
  Qed.

  Theorem add_ty_spec : forall k t ap reg reg', In t (all_types U) -> add_ty k t ap reg = Some reg' -> spec t reg reg'.
  Proof.
    induction k as [|k IH]; intros t ap reg reg' Hall H; [discriminate|]. cbn [Model.add_ty] in H.
    destruct (has_key reg (key t)) eqn:Ehk.
    { inversion H; subst. exists []. rewrite app_nil_r.
      split; [reflexivity|]. split; [exact Ehk|]. split; [intros ? []|auto]. }
    pose proof (has_key_false_notin reg (key t) Ehk) as Hnotin.
    assert (NoDup (map fst reg) -> NoDup (map fst (reg ++ [(key t, t)]))) as Hnd1.
    { intro Hn. rewrite map_app. cbn [map fst]. apply NoDup_app_cons_end; assumption. }
    assert (has_key (reg ++ [(key t, t)]) (key t) = true) as Hself.
    { apply has_key_app_r. unfold has_key. cbn. rewrite rkey_eqb_refl. reflexivity. }
    destruct t as [p|c|e].
    - (* primitive *)
      inversion H; subst. exists [(key (TPrim p), TPrim p)]. split; [reflexivity|]. split; [exact Hself|]. split; [|exact Hnd1].
      intros e [<-|[]]. split; [reflexivity|]. split; [exact Hall|exact I].
    - (* a class *)
      destruct (get_cls U c) as [cl|] eqn:Ec; [|discriminate].
      set (reg1 := reg ++ [(key (TRef c), TRef c)]) in *.
      destruct (if ap then match c_parent cl with Some p => add_ty k (TRef p) true reg1 | None => Some reg1 end else Some reg1)
        as [reg2|] eqn:E2; [|discriminate].
      assert (exists ext2, reg2 = reg1 ++ ext2 /\ (forall e, In e ext2 -> good reg2 e)
                           /\ (NoDup (map fst reg1) -> NoDup (map fst reg2))) as [ext2 [-> [Hg2 Hn2]]].
      { assert (Some reg2 = Some reg1 -> exists ext2, reg2 = reg1 ++ ext2 /\ (forall e, In e ext2 -> good reg2 e)
                                                     /\ (NoDup (map fst reg1) -> NoDup (map fst reg2))) as Hid.
        { intro X. inversion X; subst. exists []. rewrite app_nil_r.
          split; [reflexivity|]. split; [intros ? []|auto]. }
        destruct ap; [|apply Hid; symmetry; exact E2].
        destruct (c_parent cl) as [p|] eqn:Ep; [|apply Hid; symmetry; exact E2].
        destruct (IH (TRef p) true reg1 reg2) as [ext2 [-> [_ [Hg Hn]]]]; [|exact E2|eauto].
        eapply all_types_cls; [exact Ec|]. unfold cls_types. rewrite Ep. right. left. reflexivity. }
      destruct (fold_opt (fun r f => add_ty k (f_ty f) true r) (c_own cl) (reg1 ++ ext2)) as [reg3|] eqn:E3; [|discriminate].
      destruct (fold_spec k IH (fun _ : field => true) f_ty true (c_own cl) (reg1 ++ ext2) reg3) as [ext3 [-> [Hk3 [Hg3 Hn3]]]].
      { intros f Hf. eapply all_types_field; eauto. }
      { exact E3. }
      destruct (fold_spec k IH (fun s => Bool.eqb (text_eqb (cls_ns U s) (cls_ns U c)) true) (fun s => TRef s) false
                          (direct_subs U c) ((reg1 ++ ext2) ++ ext3) reg') as [ext4 [-> [Hk4 [Hg4 Hn4]]]].
      { intros s Hs. destruct (direct_subs_inv c s Hs) as [cls [Hcs _]]. eapply all_types_ref; eauto. }
      { exact H. }
      exists ([(key (TRef c), TRef c)] ++ ext2 ++ ext3 ++ ext4).
      split; [unfold reg1; rewrite <- !app_assoc; reflexivity|]. split; [|split].
      + apply has_key_app_l. apply has_key_app_l. apply has_key_app_l. exact Hself.
      + intros e He. apply in_app_or in He. destruct He as [[<-|[]]|He].
        * split; [reflexivity|]. split; [exact Hall|]. cbn [snd closed]. intros cl' Hc'. rewrite Ec in Hc'. inversion Hc'; subst cl'.
          split.
          -- intros f Hf. apply has_key_app_l. apply Hk3; [exact Hf|reflexivity].
          -- intros s Hs Hns. apply Hk4; [exact Hs|]. rewrite Hns. reflexivity.
        * apply in_app_or in He. destruct He as [He|He]; [apply good_app; apply good_app; apply Hg2; exact He|].
          apply in_app_or in He. destruct He as [He|He]; [apply good_app; apply Hg3; exact He|apply Hg4; exact He].
      + intro Hn. apply Hn4, Hn3, Hn2, Hnd1, Hn.
    - (* an array class: its single member *)
      set (reg1 := reg ++ [(key (TArr e), TArr e)]) in *.
      destruct (IH e true reg1 reg') as [ext2 [-> [Hk [Hg Hn]]]]; [apply all_types_arr; exact Hall|exact H|].
      exists ([(key (TArr e), TArr e)] ++ ext2). split; [unfold reg1; rewrite <- app_assoc; reflexivity|].
      split; [apply has_key_app_l; exact Hself|]. split.
      + intros x Hx. apply in_app_or in Hx. destruct Hx as [[<-|[]]|Hx]; [|apply Hg; exact Hx].
        split; [reflexivity|]. split; [exact Hall|]. cbn [snd closed]. exact Hk.
      + intro X. apply Hn, Hnd1, X.
  Qed.

  (** the registry built from the message classes of the methods *)
  Theorem populate_spec fuel roots reg : (forall r, In r roots -> exists cl, get_cls U r = Some cl) ->
    populate shape_ok U tns fuel roots = Some reg ->
    (forall r, In r roots -> has_key reg (key (TRef r)) = true)
    /\ (forall e, In e reg -> good reg e) /\ NoDup (map fst reg).
  Proof.
    intros Hroots H. unfold populate in H.
    destruct (fold_spec fuel (add_ty_spec fuel) (fun _ : cid => true) (fun c => TRef c) true roots [] reg) as [ext [-> [Hk [Hg Hn]]]].
    { intros r Hr. destruct (Hroots r Hr) as [cl Hc]. eapply all_types_ref; eauto. }
    { exact H. }
    split; [intros r Hr; apply Hk; [exact Hr|reflexivity]|]. split; [exact Hg|apply Hn; constructor].
  Qed.

  (* ---- from keys to entries: distinct types of the program have distinct keys *)
  Hypothesis Hkeys : keys_ok U tns = true.

  Lemma key_inj t t' : In t (all_types U) -> In t' (all_types U) -> key t = key t' -> t = t'.
  Proof.
    intros Ht Ht' Hk. unfold keys_ok in Hkeys. rewrite forallb_forall in Hkeys.
    specialize (Hkeys t Ht). rewrite forallb_forall in Hkeys. specialize (Hkeys t' Ht').
    rewrite Hk, rkey_eqb_refl in Hkeys. cbn in Hkeys. apply ty_eqb_top_eq. exact Hkeys.
  Qed.

  Definition reg_inv (reg : registry) : Prop := (forall e, In e reg -> good reg e) /\ NoDup (map fst reg).

  Lemma has_key_entry reg t : reg_inv reg -> In t (all_types U) -> has_key reg (key t) = true -> In (key t, t) reg.
  Proof.
    intros [Hg _] Ht Hk. unfold has_key in Hk. destruct (reg_find reg (key t)) as [t'|] eqn:E; [|discriminate].
    apply reg_find_In in E. destruct (Hg _ E) as [H1 [H2 _]]. cbn [fst snd] in *.
    pose proof (key_inj t t' Ht H2 H1) as X. subst t'. exact E.
  Qed.

  (** a registered class has every same-namespace direct subclass registered *)
  Lemma registered_direct reg c s cl : reg_inv reg -> In (key (TRef c), TRef c) reg ->
    get_cls U s = Some cl -> c_parent cl = Some c -> text_eqb (cls_ns U s) (cls_ns U c) = true ->
    In (key (TRef s), TRef s) reg.
  Proof.
    intros Hinv Hc Hs Hp Hns. destruct Hinv as [Hg Hn]. destruct (Hg _ Hc) as [_ [_ Hcl]]. cbn [snd closed] in Hcl.
    assert (exists clc, get_cls U c = Some clc) as [clc Hcc].
    { pose proof (wf_parent_lt U s cl c Hwf Hs Hp) as Hlt. pose proof (get_cls_lt U s cl Hs) as Hl.
      unfold get_cls. destruct (nth_error U c) eqn:E; [eauto|]. apply nth_error_None in E. lia. }
    destruct (Hcl clc Hcc) as [_ Hsub].
    apply has_key_entry; [split; assumption|eapply all_types_ref; eauto|].
    apply Hsub; [eapply direct_subs_In; eauto|exact Hns].
  Qed.

  Hypothesis Hplace : same_ns_tree U = true.

  Lemma same_ns_parent s cl p : get_cls U s = Some cl -> c_parent cl = Some p -> text_eqb (cls_ns U s) (cls_ns U p) = true.
  Proof.
    intros Hs Hp. unfold same_ns_tree in Hplace. rewrite forallb_forall in Hplace.
    assert (In cl U) as Hin by (eapply nth_error_In; exact Hs).
    specialize (Hplace cl Hin). rewrite Hp in Hplace. unfold cls_ns at 1. rewrite Hs. exact Hplace.
  Qed.

  (** ... hence, in a hierarchy placed in one namespace, every subclass at any depth *)
  Theorem registered_subclasses reg c : reg_inv reg -> In (key (TRef c), TRef c) reg ->
    forall d, is_subclass U d c = true -> In (key (TRef d), TRef d) reg.
  Proof.
    intros Hinv Hc. apply (subclass_ind U (fun d => In (key (TRef d), TRef d) reg) c Hwf); [exact Hc|].
    intros d cl p Hd Hp _ _ IH. eapply registered_direct; eauto. eapply same_ns_parent; eauto.
  Qed.

  Lemma registered_bool reg d : reg_inv reg -> In (key (TRef d), TRef d) reg -> registered reg U d = true.
  Proof.
    intros [_ Hn] Hin. unfold registered. change (cls_ns U d, cls_name U d) with (key (TRef d)).
    rewrite (In_reg_find reg _ _ Hn Hin). apply Nat.eqb_refl.
  Qed.

  (** the member types of a registered class are registered *)
  Lemma registered_member reg c cl f : reg_inv reg -> In (key (TRef c), TRef c) reg ->
    get_cls U c = Some cl -> In f (c_own cl) -> In (key (f_ty f), f_ty f) reg.
  Proof.
    intros Hinv Hc Hcl Hf. destruct Hinv as [Hg Hn]. destruct (Hg _ Hc) as [_ [_ Hclo]]. cbn [snd closed] in Hclo.
    destruct (Hclo cl Hcl) as [Hm _].
    apply has_key_entry; [split; assumption|eapply all_types_field; eauto|apply Hm; exact Hf].
  Qed.
  Lemma registered_elem reg e : reg_inv reg -> In (key (TArr e), TArr e) reg -> In (key e, e) reg.
  Proof.
    intros Hinv Ha. destruct Hinv as [Hg Hn]. destruct (Hg _ Ha) as [_ [Hall Hclo]]. cbn [snd closed] in *.
    apply has_key_entry; [split; assumption|apply all_types_arr; exact Hall|exact Hclo].
  Qed.
End Reg.
