(** C16: lemmas about the class hierarchy part of the model (odict / flattened type info,
    subclass relation, getattr-by-name on instances).  Generic list/text lemmas first. *)
From Coq Require Import ZArith List Bool Lia ZifyBool Arith.
From SpyneV Require Import Base.Prelude Wire.Universe Wire.Xml C16.Model.
Import ListNotations.
Open Scope Z_scope.

(* ------------------------------------------------------------------ text *)
Lemma text_eqb_refl a : text_eqb a a = true.
Proof. induction a; cbn; [reflexivity|]. rewrite Z.eqb_refl, IHa. reflexivity. Qed.

Lemma text_eqb_eq a : forall b, text_eqb a b = true <-> a = b.
Proof.
  induction a as [|x a IH]; intros [|y b]; cbn; split; intro H; try reflexivity; try discriminate.
  - apply andb_true_iff in H. destruct H as [H1 H2]. apply Z.eqb_eq in H1. apply IH in H2. congruence.
  - inversion H; subst. rewrite Z.eqb_refl. cbn. apply text_eqb_refl.
Qed.

Lemma text_eqb_neq a b : a <> b -> text_eqb a b = false.
Proof. intro H. destruct (text_eqb a b) eqn:E; [|reflexivity]. apply text_eqb_eq in E. contradiction. Qed.

Lemma text_eqb_false a b : text_eqb a b = false -> a <> b.
Proof. intros H ->. rewrite text_eqb_refl in H. discriminate. Qed.

Lemma text_eqb_sym a b : text_eqb a b = text_eqb b a.
Proof.
  destruct (text_eqb a b) eqn:E.
  - apply text_eqb_eq in E. subst. symmetry. apply text_eqb_refl.
  - destruct (text_eqb b a) eqn:E2; [|reflexivity]. apply text_eqb_eq in E2. subst.
    rewrite text_eqb_refl in E. discriminate.
Qed.

Lemma text_mem_In x l : text_mem x l = true <-> In x l.
Proof.
  induction l as [|y l IH]; cbn; [split; [discriminate|tauto]|].
  rewrite orb_true_iff, IH, text_eqb_eq. split; intros [H|H]; auto.
Qed.

Lemma text_mem_false x l : text_mem x l = false <-> ~ In x l.
Proof.
  split; intro H.
  - intro X. apply text_mem_In in X. congruence.
  - destruct (text_mem x l) eqn:E; [|reflexivity]. apply text_mem_In in E. contradiction.
Qed.

Lemma nodup_text_app l1 : forall l2, nodup_text (l1 ++ l2) = true ->
  nodup_text l1 = true /\ nodup_text l2 = true /\ (forall x, In x l1 -> ~ In x l2).
Proof.
  induction l1 as [|a l1 IH]; intros l2 H; cbn in *.
  - repeat split; auto.
  - apply andb_true_iff in H. destruct H as [Ha H]. apply negb_true_iff in Ha.
    destruct (IH l2 H) as [H1 [H2 H3]]. apply text_mem_false in Ha.
    split; [|split; [exact H2|]].
    + apply andb_true_iff. split; [|exact H1]. apply negb_true_iff. apply text_mem_false.
      intro X. apply Ha. apply in_or_app. left. exact X.
    + intros x [->|Hx]; [|apply H3; exact Hx]. intro X. apply Ha. apply in_or_app. right. exact X.
Qed.

Lemma getattr_set_same st k v : getattr (setattr st k v) k = v.
Proof. unfold setattr. cbn. rewrite text_eqb_refl. reflexivity. Qed.

Lemma getattr_set_other st k k' v : k <> k' -> getattr (setattr st k v) k' = getattr st k'.
Proof. intro H. unfold setattr. cbn. rewrite text_eqb_neq by exact H. reflexivity. Qed.

(* ------------------------------------------------------------------ mapM *)
Lemma mapM_Forall2 {A B} (f : A -> out B) (P : A -> B -> Prop) l :
  (forall x, In x l -> exists y, f x = Ok y /\ P x y) ->
  exists ys, mapM f l = Ok ys /\ Forall2 P l ys.
Proof.
  induction l as [|x l IH]; intro H; cbn.
  - exists []. split; [reflexivity|constructor].
  - destruct (H x (or_introl eq_refl)) as [y [Hy Py]]. rewrite Hy. cbn.
    destruct IH as [ys [Hys Pys]]; [intros; apply H; right; assumption|].
    rewrite Hys. cbn. exists (y :: ys). split; [reflexivity|constructor; assumption].
Qed.

Lemma Forall2_len {A B} (P : A -> B -> Prop) l1 l2 : Forall2 P l1 l2 -> length l1 = length l2.
Proof. induction 1; cbn; congruence. Qed.

Lemma mapM_map_Forall2 {A B V} (g : B -> out V) (w : B -> B) (h : A -> V) l ys :
  Forall2 (fun x y => g (w y) = Ok (h x)) l ys -> mapM g (map w ys) = Ok (map h l).
Proof.
  induction 1; cbn; [reflexivity|]. rewrite H. cbn. rewrite IHForall2. reflexivity.
Qed.

Lemma mapM_ext {A B} (f g : A -> out B) l : (forall x, In x l -> f x = g x) -> mapM f l = mapM g l.
Proof.
  induction l as [|x l IH]; intro H; cbn; [reflexivity|].
  rewrite (H x (or_introl eq_refl)), IH; [reflexivity|]. intros; apply H; right; assumption.
Qed.

(* ------------------------------------------------------------------ well-formed universes *)
Lemma wf_from_nth U : forall l i, wf_from U i l = true ->
  forall j cl, nth_error l j = Some cl -> cls_ok U (i + j) cl = true.
Proof.
  induction l as [|c l IH]; intros i H j cl Hn; [destruct j; discriminate|].
  cbn in H. apply andb_true_iff in H. destruct H as [H1 H2].
  destruct j as [|j]; cbn in Hn.
  - inversion Hn; subst. rewrite Nat.add_0_r. exact H1.
  - replace (i + S j)%nat with (S i + j)%nat by lia. eapply IH; eauto.
Qed.

Lemma wf_cls_ok U c cl : wf_universe U = true -> get_cls U c = Some cl -> cls_ok U c cl = true.
Proof. intros Hwf Hc. exact (wf_from_nth U U 0 Hwf c cl Hc). Qed.

Lemma wf_parent_lt U c cl p : wf_universe U = true -> get_cls U c = Some cl -> c_parent cl = Some p -> (p < c)%nat.
Proof.
  intros Hwf Hc Hp. pose proof (wf_cls_ok U c cl Hwf Hc) as H. unfold cls_ok in H. rewrite Hp in H.
  apply andb_true_iff in H. destruct H as [H _]. apply andb_true_iff in H. destruct H as [H _].
  apply Nat.ltb_lt in H. exact H.
Qed.

(** fuel irrelevance of the parent-chain recursions in a well-formed universe *)
Lemma flat_fields_fuel_enough U : wf_universe U = true ->
  forall n m c, (c < m)%nat -> (m <= n)%nat -> flat_fields_fuel m U c = flat_fields_fuel (S c) U c.
Proof.
  intros Hwf. induction n as [|n IH]; intros m c Hc Hm; [lia|].
  destruct m as [|m]; [lia|]. cbn [flat_fields_fuel].
  destruct (get_cls U c) as [cl|] eqn:Ec; [|reflexivity].
  destruct (c_parent cl) as [p|] eqn:Ep; [|reflexivity].
  pose proof (wf_parent_lt U c cl p Hwf Ec Ep) as Hlt.
  rewrite (IH m p) by lia. rewrite (IH c p) by lia. reflexivity.
Qed.

Lemma flat_fields_unfold U c cl : wf_universe U = true -> get_cls U c = Some cl ->
  flat_fields U c = match c_parent cl with
                    | None => Some (c_own cl)
                    | Some p => match flat_fields U p with Some pf => Some (pf ++ c_own cl) | None => None end
                    end.
Proof.
  intros Hwf Hc. unfold flat_fields at 1. cbn [flat_fields_fuel]. rewrite Hc.
  destruct (c_parent cl) as [p|] eqn:Ep; [|reflexivity].
  pose proof (wf_parent_lt U c cl p Hwf Hc Ep) as Hlt.
  rewrite (flat_fields_fuel_enough U Hwf c c p) by lia. reflexivity.
Qed.

Lemma flat_decl_fuel_enough U : wf_universe U = true ->
  forall n m c, (c < m)%nat -> (m <= n)%nat -> flat_decl_fuel m U c = flat_decl_fuel (S c) U c.
Proof.
  intros Hwf. induction n as [|n IH]; intros m c Hc Hm; [lia|].
  destruct m as [|m]; [lia|]. cbn [flat_decl_fuel].
  destruct (get_cls U c) as [cl|] eqn:Ec; [|reflexivity].
  destruct (c_parent cl) as [p|] eqn:Ep; [|reflexivity].
  pose proof (wf_parent_lt U c cl p Hwf Ec Ep) as Hlt.
  rewrite (IH m p) by lia. rewrite (IH c p) by lia. reflexivity.
Qed.

Lemma flat_decl_fuel_snd n U : forall c,
  option_map (map snd) (flat_decl_fuel n U c) = flat_fields_fuel n U c.
Proof.
  induction n as [|n IH]; intro c; cbn; [reflexivity|].
  destruct (get_cls U c) as [cl|]; [|reflexivity].
  destruct (c_parent cl) as [p|].
  - rewrite <- IH. destruct (flat_decl_fuel n U p); cbn; [|reflexivity].
    rewrite map_app, map_map. cbn. rewrite map_id. reflexivity.
  - cbn. rewrite map_map. cbn. rewrite map_id. reflexivity.
Qed.

Lemma flat_decl_snd U c ffs : flat_fields U c = Some ffs ->
  exists fds, flat_decl U c = Some fds /\ map snd fds = ffs.
Proof.
  unfold flat_fields, flat_decl. rewrite <- flat_decl_fuel_snd.
  destruct (flat_decl_fuel (S c) U c) as [fds|]; cbn; [|discriminate].
  intro H. inversion H. eauto.
Qed.

Lemma wf_flat_nodup U c ffs : wf_universe U = true -> flat_fields U c = Some ffs ->
  nodup_text (map f_name ffs) = true.
Proof.
  intros Hwf Hf.
  assert (exists cl, get_cls U c = Some cl) as [cl Hc].
  { unfold flat_fields in Hf. cbn in Hf. destruct (get_cls U c); [eauto|discriminate]. }
  pose proof (wf_cls_ok U c cl Hwf Hc) as H.
  unfold cls_ok in H. rewrite Hf in H. apply andb_true_iff in H. apply H.
Qed.

Lemma wf_flat_some U c cl : wf_universe U = true -> get_cls U c = Some cl -> exists ffs, flat_fields U c = Some ffs.
Proof.
  intros Hwf Hc. pose proof (wf_cls_ok U c cl Hwf Hc) as H. unfold cls_ok in H.
  destruct (flat_fields U c) as [ffs|]; [eauto|]. rewrite andb_false_r in H. discriminate.
Qed.

Lemma find_field_nodup fs : nodup_text (map f_name fs) = true ->
  forall f, In f fs -> find_field (f_name f) fs = Some f.
Proof.
  induction fs as [|g fs IH]; intros Hn f Hin; [destruct Hin|].
  cbn in Hn. apply andb_true_iff in Hn. destruct Hn as [Hm Hn]. cbn.
  destruct Hin as [->|Hin]; [rewrite text_eqb_refl; reflexivity|].
  destruct (text_eqb (f_name g) (f_name f)) eqn:E.
  - apply text_eqb_eq in E. apply negb_true_iff in Hm.
    assert (text_mem (f_name g) (map f_name fs) = true) as X; [|congruence].
    apply text_mem_In. rewrite E. apply in_map. exact Hin.
  - apply IH; assumption.
Qed.

(* ------------------------------------------------------------------ odict and the flattened type info *)
Lemma od_set_names d f :
  map f_name (od_set d f) = if text_mem (f_name f) (map f_name d) then map f_name d else map f_name d ++ [f_name f].
Proof.
  induction d as [|g d IH]; cbn; [reflexivity|].
  rewrite (text_eqb_sym (f_name f) (f_name g)).
  destruct (text_eqb (f_name g) (f_name f)) eqn:E; cbn.
  - apply text_eqb_eq in E. rewrite E. reflexivity.
  - rewrite IH. destruct (text_mem (f_name f) (map f_name d)); reflexivity.
Qed.

Lemma od_set_find d f : find_field (f_name f) (od_set d f) = Some f.
Proof.
  induction d as [|g d IH]; cbn.
  - rewrite text_eqb_refl. reflexivity.
  - destruct (text_eqb (f_name g) (f_name f)) eqn:E; cbn.
    + rewrite text_eqb_refl. reflexivity.
    + rewrite E. exact IH.
Qed.

Lemma od_set_find_other d f k : k <> f_name f -> find_field k (od_set d f) = find_field k d.
Proof.
  intro Hk. induction d as [|g d IH]; cbn.
  - rewrite text_eqb_neq by congruence. reflexivity.
  - destruct (text_eqb (f_name g) (f_name f)) eqn:E; cbn.
    + apply text_eqb_eq in E. rewrite text_eqb_neq by congruence. rewrite text_eqb_neq by congruence. reflexivity.
    + destruct (text_eqb (f_name g) k); [reflexivity|exact IH].
Qed.

Lemma od_set_fresh d f : ~ In (f_name f) (map f_name d) -> od_set d f = d ++ [f].
Proof.
  induction d as [|g d IH]; intro H; cbn; [reflexivity|].
  rewrite text_eqb_neq; [|intro X; apply H; left; exact X].
  rewrite IH; [reflexivity|]. intro X. apply H. right. exact X.
Qed.

Lemma od_update_fresh fs : forall d, nodup_text (map f_name (d ++ fs)) = true -> od_update d fs = d ++ fs.
Proof.
  induction fs as [|f fs IH]; intros d H; cbn; [rewrite app_nil_r; reflexivity|].
  unfold od_update in *. cbn [fold_left].
  assert (~ In (f_name f) (map f_name d)) as Hf.
  { rewrite map_app in H. destruct (nodup_text_app _ _ H) as [_ [_ H3]]. intro X. apply (H3 _ X). left. reflexivity. }
  rewrite (od_set_fresh d f Hf). rewrite IH; [rewrite <- app_assoc; reflexivity|].
  rewrite <- app_assoc. exact H.
Qed.

(** in a well-formed universe (distinct flattened names) the odict-built type info is the
    parent's members followed by the class's own *)
Lemma flat_ti_fuel_wf U : wf_universe U = true ->
  forall n c, (c < n)%nat -> flat_ti_fuel shape_ok n U c [] = flat_fields U c.
Proof.
  intro Hwf. induction n as [|n IH]; intros c Hc; [lia|].
  cbn [flat_ti_fuel shape_ok sh_flat_parent_first].
  destruct (get_cls U c) as [cl|] eqn:Ec.
  - rewrite (flat_fields_unfold U c cl Hwf Ec).
    pose proof (wf_flat_some U c cl Hwf Ec) as [ffs Hffs].
    pose proof (wf_flat_nodup U c ffs Hwf Hffs) as Hnd.
    rewrite (flat_fields_unfold U c cl Hwf Ec) in Hffs.
    destruct (c_parent cl) as [p|] eqn:Ep.
    + pose proof (wf_parent_lt U c cl p Hwf Ec Ep) as Hlt.
      rewrite IH by lia. destruct (flat_fields U p) as [pf|]; [|reflexivity].
      inversion Hffs; subst ffs. rewrite od_update_fresh by exact Hnd. reflexivity.
    + inversion Hffs; subst ffs. rewrite (od_update_fresh (c_own cl) []) by exact Hnd. reflexivity.
  - unfold flat_fields. cbn. rewrite Ec. reflexivity.
Qed.

Lemma flat_ti_wf U c : wf_universe U = true -> flat_ti shape_ok U c = flat_fields U c.
Proof. intro Hwf. unfold flat_ti. apply flat_ti_fuel_wf; [exact Hwf|lia]. Qed.

(** the general rule, no hypothesis on names: the class's type info is the parent's, updated
    (odict.update) with the class's own members *)
Lemma flat_ti_fuel_enough U : wf_universe U = true ->
  forall n m c, (c < m)%nat -> (m <= n)%nat -> flat_ti_fuel shape_ok m U c [] = flat_ti_fuel shape_ok (S c) U c [].
Proof.
  intros Hwf n m c Hc Hm. rewrite !flat_ti_fuel_wf by (assumption || lia). reflexivity.
Qed.

Lemma flat_ti_step fuel U c cl : get_cls U c = Some cl ->
  flat_ti_fuel shape_ok (S fuel) U c [] =
    match c_parent cl with
    | None => Some (od_update [] (c_own cl))
    | Some p => match flat_ti_fuel shape_ok fuel U p [] with
                | Some pf => Some (od_update pf (c_own cl))
                | None => None
                end
    end.
Proof. intro Hc. cbn [flat_ti_fuel shape_ok sh_flat_parent_first]. rewrite Hc. reflexivity. Qed.

(* ------------------------------------------------------------------ members_of = flat_decl *)
Lemma members_fuel_ok U n : forall c, members_fuel shape_ok U n c = flat_decl_fuel n U c.
Proof.
  induction n as [|n IH]; intro c; cbn [members_fuel flat_decl_fuel shape_ok sh_xml_parent_first]; [reflexivity|].
  destruct (get_cls U c) as [cl|]; [|reflexivity].
  destruct (c_parent cl) as [p|]; [|reflexivity]. rewrite IH. reflexivity.
Qed.

Lemma members_of_ok U c : members_of shape_ok U c = flat_decl U c.
Proof. unfold members_of, flat_decl. apply members_fuel_ok. Qed.

(* ------------------------------------------------------------------ subclass relation *)
Lemma is_subclass_refl U c : is_subclass U c c = true.
Proof. unfold is_subclass. cbn. rewrite Nat.eqb_refl. reflexivity. Qed.

Lemma is_subclass_fuel_enough U : wf_universe U = true ->
  forall n m d c, (d < m)%nat -> (m <= n)%nat -> is_subclass_fuel m U d c = is_subclass_fuel (S d) U d c.
Proof.
  intro Hwf. induction n as [|n IH]; intros m d c Hd Hm; [lia|].
  destruct m as [|m]; [lia|]. cbn [is_subclass_fuel].
  destruct (Nat.eqb d c); [reflexivity|].
  destruct (get_cls U d) as [cl|] eqn:Ec; [|reflexivity].
  destruct (c_parent cl) as [p|] eqn:Ep; [|reflexivity].
  pose proof (wf_parent_lt U d cl p Hwf Ec Ep) as Hlt.
  rewrite (IH m p c) by lia. rewrite (IH d p c) by lia. reflexivity.
Qed.

Lemma is_subclass_unfold U d c : wf_universe U = true ->
  is_subclass U d c = if Nat.eqb d c then true
                      else match get_cls U d with
                           | Some cl => match c_parent cl with Some p => is_subclass U p c | None => false end
                           | None => false
                           end.
Proof.
  intro Hwf. unfold is_subclass at 1. cbn [is_subclass_fuel].
  destruct (Nat.eqb d c); [reflexivity|].
  destruct (get_cls U d) as [cl|] eqn:Ec; [|reflexivity].
  destruct (c_parent cl) as [p|] eqn:Ep; [|reflexivity].
  pose proof (wf_parent_lt U d cl p Hwf Ec Ep) as Hlt.
  unfold is_subclass. apply (is_subclass_fuel_enough U Hwf d); lia.
Qed.

(** induction principle along the parent chain *)
Lemma subclass_ind U (P : cid -> Prop) c : wf_universe U = true ->
  P c ->
  (forall d cl p, get_cls U d = Some cl -> c_parent cl = Some p -> d <> c -> is_subclass U p c = true -> P p -> P d) ->
  forall d, is_subclass U d c = true -> P d.
Proof.
  intros Hwf H0 Hstep d. induction d as [d IH] using lt_wf_ind. intro Hs.
  rewrite is_subclass_unfold in Hs by exact Hwf.
  destruct (Nat.eqb d c) eqn:E; [apply Nat.eqb_eq in E; subst; exact H0|].
  destruct (get_cls U d) as [cl|] eqn:Ec; [|discriminate].
  destruct (c_parent cl) as [p|] eqn:Ep; [|discriminate].
  apply (Hstep d cl p Ec Ep); [apply Nat.eqb_neq; exact E|exact Hs|].
  apply IH; [eapply wf_parent_lt; eauto|exact Hs].
Qed.

(** a subclass's flattened members start with the base's *)
Lemma subclass_flat_prefix U c fc : wf_universe U = true -> flat_fields U c = Some fc ->
  forall d, is_subclass U d c = true -> forall fd, flat_fields U d = Some fd -> exists rest, fd = fc ++ rest.
Proof.
  intros Hwf Hc. apply (subclass_ind U (fun d => forall fd, flat_fields U d = Some fd -> exists rest, fd = fc ++ rest) c Hwf).
  - intros fd Hd. rewrite Hc in Hd. inversion Hd. exists []. rewrite app_nil_r. reflexivity.
  - intros d cl p Hd Hp _ _ IH fd Hfd. rewrite (flat_fields_unfold U d cl Hwf Hd), Hp in Hfd.
    destruct (flat_fields U p) as [pf|]; [|discriminate]. inversion Hfd; subst.
    destruct (IH pf eq_refl) as [rest ->]. exists (rest ++ c_own cl). rewrite app_assoc. reflexivity.
Qed.

Lemma subclass_trans U a b c : wf_universe U = true ->
  is_subclass U a b = true -> is_subclass U b c = true -> is_subclass U a c = true.
Proof.
  intros Hwf Hab Hbc. revert a Hab.
  apply (subclass_ind U (fun a => is_subclass U a c = true) b Hwf); [exact Hbc|].
  intros d cl p Hd Hp _ _ IH. rewrite is_subclass_unfold by exact Hwf.
  destruct (Nat.eqb d c); [reflexivity|]. rewrite Hd, Hp. exact IH.
Qed.

(* ------------------------------------------------------------------ getattr by name on instances *)
Lemma In_firstn {A} (x : A) : forall j l, In x (firstn j l) -> In x l.
Proof.
  induction j as [|j IH]; intros l H; [destruct H|]. destruct l as [|y l]; [destruct H|].
  cbn in H. destruct H as [->|H]; [left; reflexivity|right; apply IH; exact H].
Qed.

Lemma assoc_val_firstn : forall names vals j, nodup_text names = true -> length names = length vals ->
  map (fun n => assoc_val n names vals) (firstn j names) = firstn j vals.
Proof.
  induction names as [|n names IH]; intros vals j Hnd Hl.
  - destruct vals; [|discriminate]. destruct j; reflexivity.
  - destruct vals as [|v vals]; [discriminate|]. cbn in Hl. injection Hl as Hl.
    cbn in Hnd. apply andb_true_iff in Hnd. destruct Hnd as [Hn Hnd]. apply negb_true_iff in Hn.
    destruct j as [|j]; [reflexivity|]. cbn [firstn map assoc_val]. rewrite text_eqb_refl. f_equal.
    rewrite <- (IH vals j Hnd Hl). apply map_ext_in. intros a Ha.
    rewrite text_eqb_neq; [reflexivity|]. intros ->.
    apply text_mem_false in Hn. apply Hn. eapply In_firstn. exact Ha.
Qed.
