(** C16, dict documents (JSON / YAML / MessagePack with ignore_wrappers=False): round trip
    with the class-name wrapper key as type marker, selection of the subclass by that key,
    soundness of the selection. *)
From Coq Require Import ZArith List Bool Lia ZifyBool Arith.
From SpyneV Require Import Base.Prelude Wire.Universe Wire.Xml C16.Model C16.Basics C16.XmlProofs.
Import ListNotations.
Open Scope Z_scope.

(* ------------------------------------------------------------------ get_subclasses *)
Lemma direct_subs_from_In c : forall l i j cl, nth_error l j = Some cl -> c_parent cl = Some c ->
  In (i + j)%nat (direct_subs_from i l c).
Proof.
  induction l as [|a l IH]; intros i j cl Hn Hp; [destruct j; discriminate|].
  destruct j as [|j]; cbn in Hn.
  - inversion Hn; subst a. cbn. rewrite Hp, Nat.eqb_refl. left. lia.
  - cbn. specialize (IH (S i) j cl Hn Hp). replace (i + S j)%nat with (S i + j)%nat by lia.
    destruct (c_parent a) as [p|]; [destruct (Nat.eqb p c); [right|]|]; exact IH.
Qed.

Lemma direct_subs_In U c s cl : get_cls U s = Some cl -> c_parent cl = Some c -> In s (direct_subs U c).
Proof. intros Hs Hp. exact (direct_subs_from_In c U 0 s cl Hs Hp). Qed.

Lemma subclass_ge U c : wf_universe U = true -> forall d, is_subclass U d c = true -> (c <= d)%nat.
Proof.
  intro Hwf. apply (subclass_ind U (fun d => (c <= d)%nat) c Hwf); [lia|].
  intros d cl p Hd Hp _ _ IH. pose proof (wf_parent_lt U d cl p Hwf Hd Hp). lia.
Qed.

(** the child of [c] on the way down to a strict subclass [d] *)
Lemma chain_top U c : wf_universe U = true -> forall d, is_subclass U d c = true -> d <> c ->
  exists s cl, get_cls U s = Some cl /\ c_parent cl = Some c /\ is_subclass U d s = true.
Proof.
  intro Hwf.
  apply (subclass_ind U (fun d => d <> c -> exists s cl, get_cls U s = Some cl /\ c_parent cl = Some c /\ is_subclass U d s = true) c Hwf).
  - intro H. contradiction.
  - intros d cl p Hd Hp Hne Hsp IH _.
    destruct (Nat.eq_dec p c) as [->|Hpc].
    + exists d, cl. split; [exact Hd|]. split; [exact Hp|apply is_subclass_refl].
    + destruct (IH Hpc) as [s [cls [Hs [Hps Hsub]]]]. exists s, cls. split; [exact Hs|]. split; [exact Hps|].
      rewrite is_subclass_unfold by exact Hwf. destruct (Nat.eqb d s); [reflexivity|]. rewrite Hd, Hp. exact Hsub.
Qed.

Lemma subs_complete U : wf_universe U = true -> forall fuel c d,
  is_subclass U d c = true -> d <> c -> (d - c <= fuel)%nat -> In d (get_subclasses fuel U c).
Proof.
  intro Hwf. induction fuel as [|k IH]; intros c d Hs Hne Hf.
  - pose proof (subclass_ge U c Hwf d Hs). lia.
  - destruct (chain_top U c Hwf d Hs Hne) as [s [cl [Hcs [Hp Hds]]]].
    pose proof (wf_parent_lt U s cl c Hwf Hcs Hp) as Hlt.
    cbn [get_subclasses]. apply in_or_app.
    destruct (Nat.eq_dec d s) as [->|Hds'].
    + left. eapply direct_subs_In; eauto.
    + right. apply in_flat_map. exists s. split; [eapply direct_subs_In; eauto|].
      apply IH; [exact Hds|exact Hds'|]. pose proof (subclass_ge U s Hwf d Hds). lia.
Qed.

Lemma find_cid_nodup (nm : cid -> text) d : forall l, nodup_text (map nm l) = true -> In d l ->
  find_cid (fun s => text_eqb (nm s) (nm d)) l = Some d.
Proof.
  induction l as [|a l IH]; intros Hnd Hin; [destruct Hin|].
  cbn in Hnd. apply andb_true_iff in Hnd. destruct Hnd as [Ha Hnd]. apply negb_true_iff in Ha. cbn.
  destruct Hin as [->|Hin]; [rewrite text_eqb_refl; reflexivity|].
  destruct (text_eqb (nm a) (nm d)) eqn:E.
  - apply text_eqb_eq in E. apply text_mem_false in Ha. exfalso. apply Ha. rewrite E. apply in_map. exact Hin.
  - apply IH; assumption.
Qed.

Lemma get_cls_lt U c cl : get_cls U c = Some cl -> (c < length U)%nat.
Proof. intro H. apply nth_error_Some. unfold get_cls in H. congruence. Qed.

(** the wrapper key of a subclass selects that subclass *)
Lemma h_select_ok U c d : wf_universe U = true -> sub_names_ok U = true -> (c < length U)%nat ->
  is_subclass U d c = true -> h_select U c (cls_name U d) = Ok d.
Proof.
  intros Hwf Hn Hc Hs. unfold sub_names_ok in Hn. rewrite forallb_forall in Hn.
  specialize (Hn c). rewrite in_seq in Hn. specialize (Hn ltac:(lia)).
  cbn [map nodup_text] in Hn. apply andb_true_iff in Hn. destruct Hn as [Hc' Hnd]. apply negb_true_iff in Hc'.
  unfold h_select. destruct (Nat.eq_dec d c) as [->|Hne].
  - rewrite text_eqb_refl. reflexivity.
  - assert (In d (get_subclasses (S (length U)) U c)) as Hin.
    { apply subs_complete; [exact Hwf|exact Hs|exact Hne|].
      assert (d < length U)%nat; [|lia].
      rewrite is_subclass_unfold in Hs by exact Hwf. apply Nat.eqb_neq in Hne. rewrite Hne in Hs.
      destruct (get_cls U d) as [cl|] eqn:E; [|discriminate]. eapply get_cls_lt. exact E. }
    assert (text_eqb (cls_name U c) (cls_name U d) = false) as Hcd.
    { apply text_eqb_neq. intro X. apply text_mem_false in Hc'. apply Hc'. rewrite X. apply in_map. exact Hin. }
    rewrite Hcd. cbn [negb andb].
    destruct (get_subclasses (S (length U)) U c) as [|s0 subs] eqn:Es; [destruct Hin|]. cbn [length Nat.eqb negb].
    rewrite (find_cid_nodup (cls_name U) d (s0 :: subs) Hnd Hin). rewrite Hs. reflexivity.
Qed.

Lemma h_select_sound U c nm d : h_select U c nm = Ok d -> is_subclass U d c = true.
Proof.
  unfold h_select. destruct (_ && _).
  - destruct (find_cid _ _) as [s|]; [|discriminate]. destruct (is_subclass U s c) eqn:E; [|discriminate].
    intro H. inversion H; subst. exact E.
  - intro H. inversion H; subst. apply is_subclass_refl.
Qed.

(* ------------------------------------------------------------------ the member loops *)
Lemma mapM_back {A B} (g : B -> out A) : forall (xs : list A) (l : list B),
  Forall2 (fun y j => g j = Ok y) xs l -> mapM g l = Ok xs.
Proof. induction 1; cbn; [reflexivity|]. rewrite H, IHForall2. reflexivity. Qed.

Section HMembers.
  Variable encf : ty -> val -> out jv.
  Variable decf : field -> jv -> out val.
  Variable conf : ty -> val -> bool.
  Variable fields : list field.
  Hypothesis Hone : forall f y, conf (f_ty f) y = true -> exists j, encf (f_ty f) y = Ok j /\ decf f j = Ok y.
  Hypothesis HnoneD : forall f, conf (f_ty f) VNone = true -> decf f JNull = Ok VNone.

  Definition pairs_pass (f : field) (x : val) (blk : list (text * jv)) : Prop :=
    forall st, getattr st (f_name f) = VNone ->
      exists st', (forall rest, h_items decf fields (blk ++ rest) st = h_items decf fields rest st')
                  /\ getattr st' (f_name f) = x
                  /\ (forall key, key <> f_name f -> getattr st' key = getattr st key).

  Lemma hfield_rt f x : find_field (f_name f) fields = Some f -> hfield_conf conf f x = true ->
    exists blk, h_field encf f x = Ok blk /\ pairs_pass f x blk.
  Proof.
    intros Hf Hc.
    assert (forall y, x = y -> y <> VNone -> is_multi f = false -> conf (f_ty f) y = true ->
                      exists blk, (do j <- encf (f_ty f) y; Ok [(f_name f, j)]) = Ok blk /\ pairs_pass f y blk) as Hsingle.
    { intros y _ Hy Hm Hcy. destruct (Hone f y Hcy) as [j [Hj Hd]]. rewrite Hj. cbn [bind].
      exists [(f_name f, j)]. split; [reflexivity|]. intros st Hst.
      exists (setattr st (f_name f) y). split; [|split].
      - intro rest. cbn [app h_items]. rewrite Hf, Hm, Hd. reflexivity.
      - apply getattr_set_same.
      - intros key Hk. apply getattr_set_other. congruence. }
    unfold hfield_conf in Hc. unfold h_field. destruct x as [|pv|d fs|xs].
    - destruct (0 <? f_min f).
      + apply andb_true_iff in Hc. destruct Hc as [Hm Hc]. apply negb_true_iff in Hm.
        exists [(f_name f, JNull)]. split; [reflexivity|]. intros st Hst.
        exists (setattr st (f_name f) VNone). split; [|split].
        * intro rest. cbn [app h_items]. rewrite Hf, Hm, (HnoneD f Hc). reflexivity.
        * apply getattr_set_same.
        * intros key Hk. apply getattr_set_other. congruence.
      + exists []. split; [reflexivity|]. intros st Hst. exists st. repeat split; auto.
    - destruct (is_multi f) eqn:Em; [discriminate|]. apply (Hsingle _ eq_refl); [discriminate|reflexivity|exact Hc].
    - destruct (is_multi f) eqn:Em; [discriminate|]. apply (Hsingle _ eq_refl); [discriminate|reflexivity|exact Hc].
    - destruct (is_multi f) eqn:Em.
      + destruct (mapM_Forall2 (encf (f_ty f)) (fun y j => decf f j = Ok y) xs) as [l [Hl HF]].
        { intros y Hy. rewrite forallb_forall in Hc. destruct (Hone f y (Hc y Hy)) as [j [Hj Hd]]. eauto. }
        rewrite Hl. cbn [bind]. exists [(f_name f, JList l)]. split; [reflexivity|]. intros st Hst.
        exists (setattr st (f_name f) (VList xs)). split; [|split].
        * intro rest. cbn [app h_items]. rewrite Hf, Em, Hst. cbn [as_list bind].
          rewrite (mapM_back (decf f) xs l HF). reflexivity.
        * apply getattr_set_same.
        * intros key Hk. apply getattr_set_other. congruence.
      + apply (Hsingle _ eq_refl); [discriminate|reflexivity|exact Hc].
  Qed.

  Lemma hmembers_rt : forall ffs vals,
    length ffs = length vals ->
    (forall f, In f ffs -> find_field (f_name f) fields = Some f) ->
    nodup_text (map f_name ffs) = true ->
    forallb (fun fv => hfield_conf conf (fst fv) (snd fv)) (combine ffs vals) = true ->
    exists ps, h_members encf ffs vals = Ok ps
      /\ forall st, (forall f, In f ffs -> getattr st (f_name f) = VNone) ->
           exists st', (forall rest, h_items decf fields (ps ++ rest) st = h_items decf fields rest st')
                       /\ (forall key, ~ In key (map f_name ffs) -> getattr st' key = getattr st key)
                       /\ (forall f x, In (f, x) (combine ffs vals) -> getattr st' (f_name f) = x).
  Proof.
    induction ffs as [|f ffs IHl]; intros vals Hlen Hfind Hnd Hconf.
    - destruct vals; [|discriminate]. exists []. split; [reflexivity|].
      intros st _. exists st. split; [reflexivity|]. split; auto. intros ? ? [].
    - destruct vals as [|x vals]; [discriminate|]. cbn in Hlen. injection Hlen as Hlen.
      cbn [map nodup_text] in Hnd. apply andb_true_iff in Hnd. destruct Hnd as [Hnotin Hnd].
      apply negb_true_iff in Hnotin. apply text_mem_false in Hnotin.
      cbn [combine forallb fst snd] in Hconf. apply andb_true_iff in Hconf. destruct Hconf as [Hcf Hconf].
      destruct (hfield_rt f x (Hfind f (or_introl eq_refl)) Hcf) as [blk [He Hp]].
      destruct (IHl vals Hlen) as [ps [He' Hp']]; try assumption.
      { intros g Hg. apply Hfind. right. exact Hg. }
      exists (blk ++ ps). split.
      { cbn [h_members hd tl]. rewrite He. cbn [bind]. rewrite He'. reflexivity. }
      intros st Hpre.
      destruct (Hp st (Hpre f (or_introl eq_refl))) as [st1 [K1 [K2 K3]]].
      destruct (Hp' st1) as [st' [J1 [J2 J3]]].
      { intros g Hg. rewrite K3; [apply Hpre; right; exact Hg|].
        intro X. apply Hnotin. rewrite <- X. apply in_map. exact Hg. }
      exists st'. split; [|split].
      + intro rest. rewrite <- app_assoc, K1, J1. reflexivity.
      + intros key Hkey. cbn [map] in Hkey.
        rewrite J2 by (intro; apply Hkey; right; assumption). apply K3. intro; apply Hkey; left; congruence.
      + intros g y Hin. cbn [combine] in Hin. destruct Hin as [Heq|Hin].
        * inversion Heq; subst g y. rewrite (J2 (f_name f) Hnotin). exact K2.
        * apply J3. exact Hin.
  Qed.
End HMembers.

Lemma map_by_combine {A B} (g : A -> B) : forall (l : list A) (vs : list B), length l = length vs ->
  (forall a v, In (a, v) (combine l vs) -> g a = v) -> map g l = vs.
Proof.
  induction l as [|a l IH]; intros [|v vs] Hl H; try discriminate; [reflexivity|].
  cbn in Hl. injection Hl as Hl. cbn. f_equal; [apply H; left; reflexivity|].
  apply IH; [exact Hl|]. intros; apply H; right; assumption.
Qed.

Lemma inst_get_self_fields U d fs ffs : wf_universe U = true -> flat_fields U d = Some ffs ->
  length ffs = length fs -> map (fun f => inst_get U d fs (f_name f)) ffs = fs.
Proof.
  intros Hwf Hf Hl.
  pose proof (inst_get_self U d fs ffs (map (fun f => ([] : text, f)) ffs) Hwf Hf) as X.
  rewrite !map_map in X. cbn [snd] in X. rewrite map_id in X. apply X; [reflexivity|exact Hl].
Qed.

(* ------------------------------------------------------------------ the round trip *)
Section HRT.
  Variable H : hleaf.
  Variable U : universe.
  Variable poly : bool.
  Hypothesis Hleaf : forall p v, prim_has p v = true -> hl_ok H p v = true ->
    exists j, hl_pr H p v = Ok j /\ hl_rd H p j = Ok v /\ j <> JNull.
  Hypothesis Hwf : wf_universe U = true.
  Hypothesis Hnames : sub_names_ok U = true.

  Notation h_enc := (h_enc shape_ok H poly U).
  Notation h_dec := (h_dec shape_ok H U).
  Notation hconf := (hconf H U poly).

  Lemma h_target c d : (if poly then is_subclass U d c else Nat.eqb d c) = true ->
    fst (poly_target shape_ok poly U c d) = d.
  Proof.
    intro Hd. unfold poly_target. cbn [shape_ok sh_gpt_same_skip sh_gpt_isinstance andb].
    destruct poly; cbn [negb].
    - destruct (Nat.eqb d c) eqn:E; [apply Nat.eqb_eq in E; subst; reflexivity|]. rewrite Hd. reflexivity.
    - apply Nat.eqb_eq in Hd. subst. reflexivity.
  Qed.

  Theorem hier_rt_gen : forall k t v, hconf k t v = true ->
    exists j, h_enc k t v = Ok j /\ h_dec k t j = Ok v.
  Proof.
    induction k as [|k IH]; intros t v Hc; [discriminate|].
    destruct v as [|pv|d fs|xs].
    - destruct t as [p| |]; try discriminate. exists JNull. split; reflexivity.
    - destruct t as [p| |]; try discriminate. cbn [Model.hconf] in Hc. apply andb_true_iff in Hc. destruct Hc as [Hp Hok].
      destruct (Hleaf p pv Hp Hok) as [j [Hj [Hr Hnn]]]. exists j. split; [exact Hj|].
      cbn [Model.h_dec]. destruct j; try congruence; rewrite Hr; reflexivity.
    - destruct t as [|c|]; try discriminate. cbn [Model.hconf] in Hc.
      apply andb_true_iff in Hc. destruct Hc as [Hd Hc].
      destruct (flat_fields U d) as [ffs|] eqn:Eff; [|discriminate].
      apply andb_true_iff in Hc. destruct Hc as [Hlen Hconf]. apply Nat.eqb_eq in Hlen.
      pose proof (wf_flat_nodup U d ffs Hwf Eff) as Hnd.
      assert (is_subclass U d c = true) as Hsub.
      { destruct poly; [exact Hd|]. apply Nat.eqb_eq in Hd. subst. apply is_subclass_refl. }
      destruct (hmembers_rt (h_enc k) (fun f => h_dec k (f_ty f)) (hconf k) ffs) with (ffs := ffs) (vals := fs)
        as [ps [Henc Hk]]; try assumption.
      { intros f y Hy. apply IH. exact Hy. }
      { intros f Hy. destruct k as [|k']; [discriminate|]. cbn [Model.hconf] in Hy.
        destruct (f_ty f); try discriminate. reflexivity. }
      { intros f Hf. apply find_field_nodup; assumption. }
      exists (JMap [(cls_name U d, JMap ps)]). split.
      { cbn [Model.h_enc]. pose proof (h_target c d Hd) as Ht.
        destruct (poly_target shape_ok poly U c d) as [tgt b]. cbn [fst] in Ht. subst tgt.
        rewrite (flat_ti_wf U d Hwf), Eff.
        rewrite (inst_get_self_fields U d fs ffs Hwf Eff Hlen), Henc. reflexivity. }
      cbn [Model.h_dec].
      assert (c < length U)%nat as Hcl.
      { destruct (Nat.eq_dec d c) as [->|Hne].
        - unfold flat_fields in Eff. cbn in Eff. destruct (get_cls U c) as [cl|] eqn:E; [|discriminate]. eapply get_cls_lt; eauto.
        - destruct (chain_top U c Hwf d Hsub Hne) as [s [cl [Hs [Hp _]]]].
          pose proof (wf_parent_lt U s cl c Hwf Hs Hp). pose proof (get_cls_lt U s cl Hs). lia. }
      rewrite (h_select_ok U c d Hwf Hnames Hcl Hsub). cbn [bind].
      rewrite (flat_ti_wf U d Hwf), Eff.
      destruct (Hk []) as [st [K1 [K2 K3]]]; [reflexivity|].
      specialize (K1 []). rewrite app_nil_r in K1. rewrite K1. cbn [h_items bind]. f_equal. f_equal.
      apply map_by_combine; [exact Hlen|]. intros f x Hin. apply K3. exact Hin.
    - destruct t as [| |e]; try discriminate. cbn [Model.hconf] in Hc.
      destruct (mapM_Forall2 (h_enc k e) (fun y j => h_dec k e j = Ok y) xs) as [l [Hl HF]].
      { intros y Hy. rewrite forallb_forall in Hc. destruct (IH e y (Hc y Hy)) as [j [Hj Hd]]. eauto. }
      exists (JList l). split; [cbn [Model.h_enc]; rewrite Hl; reflexivity|].
      cbn [Model.h_dec]. rewrite (mapM_back (h_dec k e) xs l HF). reflexivity.
  Qed.

  (** an object decoded where class [c] is declared is an instance of [c] or of one of its subclasses *)
  Theorem hier_decoded_class : forall k c j d fs, h_dec k (TRef c) j = Ok (VObj d fs) -> is_subclass U d c = true.
  Proof.
    intros k c j d fs Hd. destruct k as [|k]; [discriminate|]. cbn [Model.h_dec] in Hd.
    destruct j as [| | | | |kv]; try discriminate.
    destruct kv as [|[nm inner] [|]]; try discriminate.
    destruct (h_select U c nm) as [c'| |] eqn:Es; try discriminate. cbn [bind] in Hd.
    destruct (flat_ti shape_ok U c') as [fields|]; [|discriminate].
    destruct inner; try discriminate.
    destruct (h_items _ _ _ _) as [st| |]; try discriminate. cbn [bind] in Hd. inversion Hd; subst.
    eapply h_select_sound. exact Es.
  Qed.

  (** a wrapper key that names no subclass of a class that has subclasses is refused *)
  Theorem hier_marker_refused : forall k c nm inner,
    text_eqb (cls_name U c) nm = false -> get_subclasses (S (length U)) U c <> [] ->
    find_cid (fun s => text_eqb (cls_name U s) nm) (get_subclasses (S (length U)) U c) = None ->
    h_dec (S k) (TRef c) (JMap [(nm, inner)]) = VFault.
  Proof.
    intros k c nm inner Hn Hs Hf. cbn [Model.h_dec]. unfold h_select. rewrite Hn, Hf. cbn [negb andb].
    destruct (get_subclasses (S (length U)) U c); [contradiction|]. reflexivity.
  Qed.
End HRT.
