(** C16, XML: with polymorphic=False the document written for an instance of a subclass is the
    document written for its projection on the declared class, at every depth; and the
    projection is a conformant value of the declared types, so the receiver reads it back. *)
From Coq Require Import ZArith List Bool Lia ZifyBool Arith.
From SpyneV Require Import Base.Prelude Wire.Universe Wire.Xml C16.Model C16.Basics C16.XmlProofs.
Import ListNotations.
Open Scope Z_scope.

Lemma mapM_map {A B V} (f : B -> out V) (g : A -> B) l : mapM f (map g l) = mapM (fun x => f (g x)) l.
Proof. induction l as [|x l IH]; cbn; [reflexivity|]. rewrite IH. reflexivity. Qed.

Lemma in_combine_app {A B} (l1 l1' : list A) : forall (l2 : list B) p, In p (combine l1 l2) -> In p (combine (l1 ++ l1') l2).
Proof.
  induction l1 as [|a l1 IH]; intros l2 p H; [destruct H|].
  destruct l2 as [|b l2]; [destruct H|]. cbn in *. destruct H as [H|H]; [left; exact H|right; apply IH; exact H].
Qed.

(** the members of a base class read by name from an instance of a subclass are the first
    values of the instance *)
Lemma inst_get_prefix U c d fs fc fd fdc : wf_universe U = true ->
  is_subclass U d c = true -> flat_fields U c = Some fc -> flat_fields U d = Some fd -> map snd fdc = fc ->
  length fd = length fs ->
  map (fun nf : text * field => inst_get U d fs (f_name (snd nf))) fdc = firstn (length fc) fs.
Proof.
  intros Hwf Hs Hc Hd Hsnd Hl. unfold inst_get. rewrite Hd.
  destruct (subclass_flat_prefix U c fc Hwf Hc d Hs fd Hd) as [rest ->].
  pose proof (wf_flat_nodup U d _ Hwf Hd) as Hnd.
  transitivity (map (fun n => assoc_val n (map f_name (fc ++ rest)) fs) (firstn (length fc) (map f_name (fc ++ rest)))).
  - rewrite map_app, firstn_app, map_length, Nat.sub_diag, firstn_O, app_nil_r.
    rewrite <- (map_length f_name fc), firstn_all. subst fc. rewrite !map_map. reflexivity.
  - apply assoc_val_firstn; [exact Hnd|rewrite map_length; exact Hl].
Qed.

Lemma subclass_flat_exists U c : wf_universe U = true ->
  forall d, is_subclass U d c = true -> forall fd, flat_fields U d = Some fd -> exists fc, flat_fields U c = Some fc.
Proof.
  intro Hwf. apply (subclass_ind U (fun d => forall fd, flat_fields U d = Some fd -> exists fc, flat_fields U c = Some fc) c Hwf).
  - intros fd H. eauto.
  - intros d cl p Hd Hp _ _ IH fd Hfd. rewrite (flat_fields_unfold U d cl Hwf Hd), Hp in Hfd.
    destruct (flat_fields U p) as [pf|] eqn:E; [|discriminate]. eapply IH. reflexivity.
Qed.

(* ------------------------------------------------------------------ shape preservation of [project] *)
Section Proj.
  Variable U : universe.
  Notation project := (project U).

  Lemma project_none k t v : project k t v = VNone -> v = VNone.
  Proof.
    destruct k as [|k]; [cbn; auto|]. destruct t as [p|c|e]; destruct v as [|pv|d fs|xs]; cbn [Model.project];
      try (intro H; exact H); try (intro H; discriminate H).
    destruct (flat_fields U c); intro H; discriminate H.
  Qed.
  Lemma project_of_none k t : project k t VNone = VNone.
  Proof. destruct k; [reflexivity|]. destruct t; reflexivity. Qed.
  Lemma project_list k t xs : exists ys, project k t (VList xs) = VList ys /\ length ys = length xs.
  Proof.
    destruct k as [|k]; [exists xs; split; reflexivity|]. destruct t as [p|c|e]; cbn [Model.project].
    - exists xs; split; reflexivity.
    - exists xs; split; reflexivity.
    - eexists. split; [reflexivity|]. apply map_length.
  Qed.
  Lemma project_leaf k t pv : project k t (VLeaf pv) = VLeaf pv.
  Proof. destruct k; [reflexivity|]. destruct t; reflexivity. Qed.
  Lemma project_obj k t d fs : exists d' fs', project k t (VObj d fs) = VObj d' fs'.
  Proof.
    destruct k as [|k]; [exists d, fs; reflexivity|].
    destruct t as [p|c|e]; cbn [Model.project]; try (exists d, fs; reflexivity).
    destruct (flat_fields U c); eexists; eexists; reflexivity.
  Qed.

  Lemma occ_project k f x : is_elem f = true -> occ f (project_field (project k) f x) = occ f x.
  Proof.
    unfold is_elem, occ, project_field. destruct (f_kind f); [|discriminate]. intros _.
    destruct (is_multi f) eqn:Em.
    - destruct x as [|pv|d fs|xs]; try reflexivity. rewrite map_length. reflexivity.
    - destruct x as [|pv|d fs|xs].
      + rewrite project_of_none. reflexivity.
      + rewrite project_leaf. reflexivity.
      + destruct (project_obj k (f_ty f) d fs) as [d' [fs' ->]]. reflexivity.
      + destruct (project_list k (f_ty f) xs) as [ys [-> _]]. reflexivity.
  Qed.
End Proj.

(* ------------------------------------------------------------------ the encoding of the projection *)
Section Mono.
  Variable L : leaf_codec.
  Variable C : pcfg.
  Variable U : universe.
  Hypothesis Hwf : wf_universe U = true.
  Hypothesis Hpoly : p_poly C = false.

  Notation penc := (penc shape_ok L C U).
  Notation project := (project U).
  (** conformant values with instances of subclasses where a class is declared *)
  Notation sconf := (pconf L U true (fun _ => true)).

  Lemma field_agree (encf : ty -> text -> text -> val -> out xnode) (rec : ty -> val -> val) (conf : ty -> val -> bool) dns f x :
    is_elem f = true -> field_conf conf f x = true ->
    (forall y, conf (f_ty f) y = true -> forall a b, encf (f_ty f) a b y = encf (f_ty f) a b (rec (f_ty f) y)) ->
    (forall t, rec t VNone = VNone) -> (forall t y, rec t y = VNone -> y = VNone) ->
    enc_field L encf dns f x = enc_field L encf dns f (project_field rec f x).
  Proof.
    intros Hel Hc Hag Hn Hnn. unfold field_conf in Hc. apply andb_true_iff in Hc. destruct Hc as [_ Hk].
    unfold is_elem in Hel. unfold enc_field, project_field. destruct (f_kind f); [|discriminate].
    destruct (is_multi f) eqn:Em.
    - destruct x as [|pv|d fs|xs]; try discriminate; [reflexivity|].
      rewrite mapM_map. f_equal. apply mapM_ext. intros y Hy.
      rewrite forallb_forall in Hk. specialize (Hk y Hy). apply andb_true_iff in Hk. destruct Hk as [_ Hk].
      apply Hag. exact Hk.
    - apply andb_true_iff in Hk. destruct Hk as [_ Hx].
      destruct x as [|pv|d fs|xs].
      + rewrite Hn. reflexivity.
      + destruct (rec (f_ty f) (VLeaf pv)) eqn:E; [apply Hnn in E; discriminate| | |]; rewrite <- E; rewrite <- Hag by exact Hx; reflexivity.
      + destruct (rec (f_ty f) (VObj d fs)) eqn:E; [apply Hnn in E; discriminate| | |]; rewrite <- E; rewrite <- Hag by exact Hx; reflexivity.
      + destruct (rec (f_ty f) (VList xs)) eqn:E; [apply Hnn in E; discriminate| | |]; rewrite <- E; rewrite <- Hag by exact Hx; reflexivity.
  Qed.

  Lemma members_agree (encf : ty -> text -> text -> val -> out xnode) (rec : ty -> val -> val) (conf : ty -> val -> bool) :
    (forall t y, conf t y = true -> forall a b, encf t a b y = encf t a b (rec t y)) ->
    (forall t, rec t VNone = VNone) -> (forall t y, rec t y = VNone -> y = VNone) ->
    forall fdc fs,
      forallb (fun fv => is_elem (fst fv) && field_conf conf (fst fv) (snd fv)) (combine (map snd fdc) fs) = true ->
      enc_members L encf fdc (firstn (length fdc) fs) = enc_members L encf fdc (project_fields rec (map snd fdc) fs).
  Proof.
    intros Hag Hn Hnn. induction fdc as [|[dns f] fdc IH]; intros fs Hc; [reflexivity|].
    destruct fs as [|x fs].
    - reflexivity.
    - cbn [map snd combine forallb fst] in Hc. apply andb_true_iff in Hc. destruct Hc as [Hf Hc].
      apply andb_true_iff in Hf. destruct Hf as [Hel Hf].
      cbn [length firstn map snd project_fields enc_members hd tl].
      rewrite <- (field_agree encf rec conf dns f x Hel Hf); [|intros; apply Hag; assumption|exact Hn|exact Hnn].
      rewrite (IH fs Hc). reflexivity.
  Qed.

  Lemma project_fields_length (rec : ty -> val -> val) : forall fc fs, (length fc <= length fs)%nat ->
    length (project_fields rec fc fs) = length fc.
  Proof.
    induction fc as [|f fc IH]; intros fs H; [reflexivity|]. destruct fs as [|x fs]; [cbn in H; lia|].
    cbn in *. rewrite IH by lia. reflexivity.
  Qed.

  Theorem mono_projection : forall k t v ns name, sconf k t v = true ->
    penc k t ns name v = penc k t ns name (project k t v).
  Proof.
    induction k as [|k IH]; intros t v ns name Hc; [discriminate|].
    destruct v as [|pv|d fs|xs].
    - destruct t; reflexivity.
    - destruct t; reflexivity.
    - destruct t as [|c|]; try discriminate. cbn [pconf] in Hc.
      apply andb_true_iff in Hc. destruct Hc as [Hd Hc]. apply andb_true_iff in Hd. destruct Hd as [Hsub _].
      destruct (flat_fields U d) as [fd|] eqn:Efd; [|discriminate].
      apply andb_true_iff in Hc. destruct Hc as [Hlen Hconf]. apply Nat.eqb_eq in Hlen.
      destruct (subclass_flat_exists U c Hwf d Hsub fd Efd) as [fc Efc].
      destruct (flat_decl_snd U c fc Efc) as [fdc [Edc Hsnd]].
      destruct (subclass_flat_prefix U c fc Hwf Efc d Hsub fd Efd) as [rest Hrest].
      assert (length fc <= length fs)%nat as Hle.
      { rewrite <- Hlen, Hrest, app_length. lia. }
      cbn [Model.project]. rewrite Efc. cbn [Model.penc]. unfold poly_target. rewrite Hpoly. cbn [negb].
      rewrite members_of_ok, Edc.
      rewrite (inst_get_prefix U c d fs fc fd fdc Hwf Hsub Efc Efd Hsnd Hlen).
      rewrite (inst_get_self U c _ fc fdc Hwf Efc Hsnd) by (rewrite project_fields_length by exact Hle; reflexivity).
      replace (length fc) with (length fdc) by (rewrite <- Hsnd, map_length; reflexivity).
      rewrite <- Hsnd.
      rewrite (members_agree (penc k) (project k) (sconf k)); [reflexivity| | | |].
      + intros t0 y Hy a b. apply IH. exact Hy.
      + intro t0. apply project_of_none.
      + intros t0 y. apply project_none.
      + rewrite Hsnd. apply forallb_forall. intros p Hp. rewrite forallb_forall in Hconf. apply Hconf.
        rewrite Hrest. apply in_combine_app. exact Hp.
    - destruct t as [| |e]; try discriminate. cbn [pconf] in Hc. cbn [Model.project Model.penc].
      rewrite mapM_map. f_equal. apply mapM_ext. intros y Hy.
      rewrite forallb_forall in Hc. apply IH. apply Hc. exact Hy.
  Qed.

  (* ---- the projection is a conformant value of the declared types *)
  Variable regchk : cid -> bool.
  Notation mconf := (pconf L U false regchk).

  Lemma field_conf_proj k f x : is_elem f = true ->
    (forall t y, sconf k t y = true -> mconf k t (project k t y) = true) ->
    field_conf (sconf k) f x = true -> field_conf (mconf k) f (project_field (project k) f x) = true.
  Proof.
    intros Hel IH Hc. unfold field_conf in *. rewrite (occ_project U k f x Hel).
    apply andb_true_iff in Hc. destruct Hc as [Hocc Hk]. rewrite Hocc. cbn [andb].
    unfold is_elem in Hel. unfold project_field. destruct (f_kind f); [|discriminate].
    destruct (is_multi f) eqn:Em.
    - destruct x as [|pv|d fs|xs]; try discriminate; [exact Hk|].
      rewrite forallb_forall in Hk. apply forallb_forall. intros y' Hy'. apply in_map_iff in Hy'.
      destruct Hy' as [y [<- Hy]]. specialize (Hk y Hy). apply andb_true_iff in Hk. destruct Hk as [Hn Hy2].
      apply andb_true_iff. split; [|apply IH; exact Hy2].
      destruct y as [|pv|d fs|ys].
      + rewrite project_of_none. exact Hn.
      + rewrite project_leaf. reflexivity.
      + destruct (project_obj U k (f_ty f) d fs) as [d' [fs' ->]]. reflexivity.
      + destruct (project_list U k (f_ty f) ys) as [zs [-> _]]. reflexivity.
    - apply andb_true_iff in Hk. destruct Hk as [Hn Hx]. apply andb_true_iff. split; [|apply IH; exact Hx].
      destruct x as [|pv|d fs|ys].
      + rewrite project_of_none. exact Hn.
      + rewrite project_leaf. reflexivity.
      + destruct (project_obj U k (f_ty f) d fs) as [d' [fs' ->]]. reflexivity.
      + destruct (project_list U k (f_ty f) ys) as [zs [-> _]]. reflexivity.
  Qed.

  Theorem project_conf : forall k t v, sconf k t v = true -> mconf k t (project k t v) = true.
  Proof.
    induction k as [|k IH]; intros t v Hc; [discriminate|].
    destruct v as [|pv|d fs|xs].
    - destruct t; reflexivity.
    - destruct t as [p| |]; try discriminate. exact Hc.
    - destruct t as [|c|]; try discriminate. cbn [pconf] in Hc.
      apply andb_true_iff in Hc. destruct Hc as [Hd Hc]. apply andb_true_iff in Hd. destruct Hd as [Hsub _].
      destruct (flat_fields U d) as [fd|] eqn:Efd; [|discriminate].
      apply andb_true_iff in Hc. destruct Hc as [Hlen Hconf]. apply Nat.eqb_eq in Hlen.
      destruct (subclass_flat_exists U c Hwf d Hsub fd Efd) as [fc Efc].
      destruct (subclass_flat_prefix U c fc Hwf Efc d Hsub fd Efd) as [rest Hrest].
      assert (length fc <= length fs)%nat as Hle.
      { rewrite <- Hlen, Hrest, app_length. lia. }
      cbn [Model.project]. rewrite Efc. cbn [pconf]. rewrite Nat.eqb_refl, Efc. cbn [andb].
      rewrite project_fields_length by exact Hle. rewrite Nat.eqb_refl. cbn [andb].
      assert (forallb (fun fv => is_elem (fst fv) && field_conf (sconf k) (fst fv) (snd fv)) (combine fc fs) = true) as Hc2.
      { apply forallb_forall. intros p Hp. rewrite forallb_forall in Hconf. apply Hconf.
        rewrite Hrest. apply in_combine_app. exact Hp. }
      clear - Hc2 IH. revert fs Hc2. induction fc as [|f fc IHf]; intros fs Hc2; [reflexivity|].
      destruct fs as [|x fs]; [reflexivity|].
      cbn [combine forallb fst snd] in Hc2. apply andb_true_iff in Hc2. destruct Hc2 as [Hf Hc2].
      apply andb_true_iff in Hf. destruct Hf as [Hel Hf].
      cbn [project_fields combine forallb fst snd]. rewrite Hel. cbn [andb].
      rewrite (field_conf_proj k f x Hel IH Hf). cbn [andb]. apply IHf. exact Hc2.
    - destruct t as [| |e]; try discriminate. cbn [pconf] in Hc. cbn [Model.project pconf].
      rewrite forallb_forall in Hc. apply forallb_forall. intros y' Hy'. apply in_map_iff in Hy'.
      destruct Hy' as [y [<- Hy]]. apply IH. apply Hc. exact Hy.
  Qed.
End Mono.
