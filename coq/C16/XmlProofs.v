(** C16: the XML codec with type markers.  Round trip (polymorphic and not), the markers
    resolve in the emitted document, polymorphic=False is the declared class's projection,
    a marker that is honoured names a registered subclass of the declared class. *)
From Coq Require Import ZArith List Bool Lia ZifyBool Arith.
From SpyneV Require Import Base.Prelude Wire.Universe Wire.Xml C16.Model C16.Basics.
Import ListNotations.
Open Scope Z_scope.

(* ------------------------------------------------------------------ small facts about attributes and markers *)
Lemma is_nil_nil_att : is_nil [nil_att] = true.
Proof. vm_compute. reflexivity. Qed.

Lemma split_colon_pfx p : forall rest, forallb (fun c => negb (c =? 58)) p = true ->
  split_colon (p ++ 58 :: rest) = Some (p, rest).
Proof.
  induction p as [|c p IH]; intros rest H; cbn.
  - reflexivity.
  - cbn in H. apply andb_true_iff in H. destruct H as [Hc H].
    apply negb_true_iff in Hc. rewrite Hc. rewrite IH by exact H. reflexivity.
Qed.

Lemma resolve_marker (p ns local : text) (sc : scope) : pfx_ok p = true ->
  resolve_qname ((p, ns) :: sc) (p ++ colon :: local) = Some ((ns, local) : rkey).
Proof.
  intro H. unfold resolve_qname, colon. destruct p as [|c p]; [discriminate|].
  cbn [pfx_ok] in H. rewrite split_colon_pfx by exact H.
  cbn [scope_get]. rewrite text_eqb_refl. reflexivity.
Qed.

Lemma xsi_not_xmlns : text_eqb xsi_ns xmlns_ns = false.
Proof. vm_compute. reflexivity. Qed.

Lemma is_decl_xsi n v : is_decl (xsi_ns, n, v) = false.
Proof. unfold is_decl. cbn [fst]. exact xsi_not_xmlns. Qed.
Lemma is_decl_xmlns p u : is_decl (xmlns_ns, p, u) = true.
Proof. unfold is_decl. cbn [fst]. apply text_eqb_refl. Qed.

(** all members element members: no attribute is ever read into the instance *)
Lemma dec_atts_elem L fields : forallb is_elem fields = true ->
  forall atts st fr, dec_atts L fields atts st fr = Ok (st, fr).
Proof.
  intros He. induction atts as [|[[ans an] av] atts IH]; intros st fr; cbn; [reflexivity|].
  destruct (find_field (clark ans an) fields) as [f|] eqn:Ef; [|apply IH].
  assert (is_elem f = true) as Hf.
  { rewrite forallb_forall in He. apply He. clear - Ef. induction fields as [|g fs IH]; [discriminate|].
    cbn in Ef. destruct (text_eqb (f_name g) (clark ans an)); [inversion Ef; left; reflexivity|right; auto]. }
  unfold is_elem in Hf. destruct (f_kind f); [apply IH|discriminate].
Qed.

Lemma elem_only_flat U : elem_only U = true -> forall n c ffs, flat_fields_fuel n U c = Some ffs -> forallb is_elem ffs = true.
Proof.
  intro He. induction n as [|n IH]; intros c ffs H; [discriminate|]. cbn in H.
  destruct (get_cls U c) as [cl|] eqn:Ec; [|discriminate].
  assert (forallb is_elem (c_own cl) = true) as Hown.
  { unfold elem_only in He. rewrite forallb_forall in He. apply He. eapply nth_error_In. exact Ec. }
  destruct (c_parent cl) as [p|].
  - destruct (flat_fields_fuel n U p) as [pf|] eqn:Ep; [|discriminate]. inversion H; subst.
    rewrite forallb_app, (IH p pf Ep), Hown. reflexivity.
  - inversion H; subst. exact Hown.
Qed.

(* ------------------------------------------------------------------ the member loops, generic in the element codec *)
Section Members.
  Variable L : leaf_codec.
  Variable encf : ty -> text -> text -> val -> out xnode.
  Variable decf : field -> xnode -> out val.
  Variable nrm : ty -> val -> val.
  Variable conf : ty -> val -> bool.
  Variable fields : list field.
  (** the element codec round-trips conformant values of member types, and writes the element it is asked for *)
  Hypothesis Hone : forall f dns y, conf (f_ty f) y = true ->
    exists a tx ks, encf (f_ty f) dns (f_name f) y = Ok (XElt dns (f_name f) a tx ks)
                    /\ decf f (wire (XElt dns (f_name f) a tx ks)) = Ok (nrm (f_ty f) y).
  Hypothesis Hnone : forall t, nrm t VNone = VNone.

  Lemma block_single f ns a tx ks v st fr rest :
    find_field (f_name f) fields = Some f -> is_multi f = false ->
    decf f (XElt ns (f_name f) a tx ks) = Ok v ->
    dec_kids decf fields (XElt ns (f_name f) a tx ks :: rest) st fr
    = dec_kids decf fields rest (setattr st (f_name f) v) (f_name f :: fr).
  Proof. intros Hf Hm Hd. cbn. rewrite Hf, Hd. cbn. rewrite Hm. reflexivity. Qed.

  Lemma block_multi f : find_field (f_name f) fields = Some f -> is_multi f = true ->
    forall es vs,
      Forall2 (fun e v => (exists ns a tx ks, e = XElt ns (f_name f) a tx ks) /\ decf f e = Ok v) es vs ->
      forall st fr l, as_list (getattr st (f_name f)) = Ok l ->
      exists st' fr',
        (forall rest, dec_kids decf fields (es ++ rest) st fr = dec_kids decf fields rest st' fr')
        /\ (es <> [] -> getattr st' (f_name f) = VList (l ++ vs))
        /\ (es = [] -> st' = st)
        /\ (forall key, key <> f_name f -> getattr st' key = getattr st key).
  Proof.
    intros Hf Hm es vs H. induction H as [|e v es vs [[ns [a [tx [ks ->]]]] Hd] Hrest IHf]; intros st fr l Hl.
    - exists st, fr. repeat split; try reflexivity; try congruence.
    - set (st1 := setattr st (f_name f) (VList (l ++ [v]))).
      destruct (IHf st1 (f_name f :: fr) (l ++ [v])) as [st' [fr' [H1 [H2 [H3 H4]]]]].
      { unfold st1. rewrite getattr_set_same. reflexivity. }
      exists st', fr'. split; [|split; [|split]].
      + intro rest. cbn [app]. cbn [dec_kids]. rewrite Hf, Hd. cbn [bind]. rewrite Hm, Hl. cbn [bind].
        fold st1. apply H1.
      + intros _. destruct es as [|e' es'].
        * inversion Hrest; subst. rewrite (H3 eq_refl). unfold st1. rewrite getattr_set_same. reflexivity.
        * rewrite H2 by discriminate. rewrite <- app_assoc. reflexivity.
      + discriminate.
      + intros key Hk. rewrite H4 by exact Hk. unfold st1. apply getattr_set_other. congruence.
  Qed.

  Definition kids_pass (f : field) (x : val) (blk : list xnode) : Prop :=
    forall st fr, getattr st (f_name f) = VNone ->
      exists st' fr',
        (forall rest, dec_kids decf fields (map wire blk ++ rest) st fr = dec_kids decf fields rest st' fr')
        /\ getattr st' (f_name f) = norm_field nrm f x
        /\ (forall key, key <> f_name f -> getattr st' key = getattr st key).

  Lemma pass_nothing f x : norm_field nrm f x = VNone -> kids_pass f x [].
  Proof. intros Hv st fr Hst. exists st, fr. rewrite Hv. repeat split; auto. Qed.

  Lemma field_rt dns f x :
    find_field (f_name f) fields = Some f -> is_elem f = true ->
    field_conf conf f x = true ->
    exists blk, enc_field L encf dns f x = Ok (blk, []) /\ kids_pass f x blk.
  Proof.
    intros Hf Hel Hc. unfold field_conf in Hc.
    apply andb_true_iff in Hc. destruct Hc as [_ Hk].
    unfold enc_field. unfold is_elem in Hel. destruct (f_kind f) eqn:Ek; [|discriminate].
    destruct (is_multi f) eqn:Em.
    - (* max_occurs > 1 *)
      destruct x as [| |c fs|xs]; try discriminate.
      + apply Z.leb_le in Hk. replace (0 <? f_min f) with false by lia.
        exists []. split; [reflexivity|]. apply pass_nothing. unfold norm_field. rewrite Ek, Em. reflexivity.
      + destruct (mapM_Forall2 (encf (f_ty f) dns (f_name f))
                    (fun y e => (exists ns a tx ks, wire e = XElt ns (f_name f) a tx ks)
                                /\ decf f (wire e) = Ok (nrm (f_ty f) y)) xs) as [es [He HF]].
        { intros y Hy. rewrite forallb_forall in Hk. specialize (Hk y Hy).
          apply andb_true_iff in Hk. destruct Hk as [_ Hx].
          destruct (Hone f dns y Hx) as [a [tx [ks [H1 H2]]]].
          eexists. split; [exact H1|]. split; [|exact H2]. cbn [wire]. eauto. }
        rewrite He. cbn [bind]. exists es. split; [reflexivity|].
        intros st fr Hst.
        assert (Forall2 (fun e v => (exists ns a tx ks, e = XElt ns (f_name f) a tx ks) /\ decf f e = Ok v)
                        (map wire es) (map (nrm (f_ty f)) xs)) as HF2.
        { clear - HF. induction HF; cbn; constructor; auto. }
        destruct (block_multi f Hf Em _ _ HF2 st fr []) as [st' [fr' [H1 [H2 [H3 H4]]]]].
        { rewrite Hst. reflexivity. }
        exists st', fr'. split; [exact H1|]. split; [|exact H4].
        unfold norm_field. rewrite Ek, Em. destruct xs as [|y ys].
        * inversion HF; subst. rewrite (H3 eq_refl). exact Hst.
        * inversion HF; subst. rewrite H2 by (cbn; discriminate). reflexivity.
    - (* single-valued *)
      apply andb_true_iff in Hk. destruct Hk as [Hn Hx].
      assert (exists e, encf (f_ty f) dns (f_name f) x = Ok e /\ kids_pass f x [e]) as Hone'.
      { destruct (Hone f dns x Hx) as [a [tx [ks [H1 H2]]]].
        eexists. split; [exact H1|]. intros st fr Hst.
        exists (setattr st (f_name f) (nrm (f_ty f) x)), (f_name f :: fr). split; [|split].
        - intro rest. cbn [map app]. cbn [wire] in *. apply block_single; assumption.
        - rewrite getattr_set_same. unfold norm_field. rewrite Ek, Em. reflexivity.
        - intros key Hkey. apply getattr_set_other. congruence. }
      destruct x as [|pv|c fs|xs].
      + destruct (0 <? f_min f) eqn:Emin.
        * destruct Hone' as [e [He Hp]]. rewrite He. cbn [bind]. exists [e]. split; [reflexivity|exact Hp].
        * exists []. split; [reflexivity|]. apply pass_nothing. unfold norm_field. rewrite Ek, Em. apply Hnone.
      + destruct Hone' as [e [He Hp]]. rewrite He. cbn [bind]. exists [e]. split; [reflexivity|exact Hp].
      + destruct Hone' as [e [He Hp]]. rewrite He. cbn [bind]. exists [e]. split; [reflexivity|exact Hp].
      + destruct Hone' as [e [He Hp]]. rewrite He. cbn [bind]. exists [e]. split; [reflexivity|exact Hp].
  Qed.

  Definition names (fl : list (text * field)) : list text := map (fun p => f_name (snd p)) fl.

  Lemma name_in (fl : list (text * field)) (vals : list val) (g : field) (y : val) :
    In (g, y) (combine (map snd fl) vals) -> In (f_name g) (names fl).
  Proof.
    intro H. apply in_combine_l in H. unfold names. rewrite <- (map_map snd f_name).
    apply in_map. exact H.
  Qed.

  Lemma members_rt : forall fl vals,
    length fl = length vals ->
    (forall p, In p fl -> find_field (f_name (snd p)) fields = Some (snd p)) ->
    nodup_text (names fl) = true ->
    forallb (fun fv => is_elem (fst fv) && field_conf conf (fst fv) (snd fv)) (combine (map snd fl) vals) = true ->
    exists kids, enc_members L encf fl vals = Ok (kids, [])
      /\ (forall st fr, (forall p, In p fl -> getattr st (f_name (snd p)) = VNone) ->
           exists st' fr',
             (forall rest, dec_kids decf fields (map wire kids ++ rest) st fr = dec_kids decf fields rest st' fr')
             /\ (forall key, ~ In key (names fl) -> getattr st' key = getattr st key)
             /\ (forall f x, In (f, x) (combine (map snd fl) vals) -> getattr st' (f_name f) = norm_field nrm f x)).
  Proof.
    induction fl as [|[dns f] fl IHl]; intros vals Hlen Hfind Hnd Hconf.
    - destruct vals; [|discriminate]. exists []. split; [reflexivity|].
      intros st fr _. exists st, fr. split; [reflexivity|]. split; auto. intros ? ? [].
    - destruct vals as [|x vals]; [discriminate|]. cbn in Hlen. injection Hlen as Hlen.
      cbn [names map snd nodup_text] in Hnd. apply andb_true_iff in Hnd. destruct Hnd as [Hnotin Hnd].
      apply negb_true_iff in Hnotin.
      assert (~ In (f_name f) (names fl)) as Hnf.
      { intro X. apply text_mem_In in X. unfold names in X. congruence. }
      cbn [map snd combine forallb fst] in Hconf. apply andb_true_iff in Hconf. destruct Hconf as [Hcf Hconf].
      apply andb_true_iff in Hcf. destruct Hcf as [Hel Hcf].
      destruct (field_rt dns f x) as [blk [He Hkp]].
      { apply (Hfind (dns, f)). left. reflexivity. }
      { exact Hel. }
      { exact Hcf. }
      destruct (IHl vals Hlen) as [kids [He' Hkp']]; try assumption.
      { intros p Hp. apply Hfind. right. exact Hp. }
      exists (blk ++ kids). split.
      { cbn [enc_members hd tl]. rewrite He. cbn [bind]. rewrite He'. reflexivity. }
      intros st fr Hpre.
      destruct (Hkp st fr) as [st1 [fr1 [K1 [K2 K3]]]].
      { apply (Hpre (dns, f)). left. reflexivity. }
      destruct (Hkp' st1 fr1) as [st' [fr' [J1 [J2 J3]]]].
      { intros p Hp. rewrite K3.
        - apply Hpre. right. exact Hp.
        - intro X. apply Hnf. rewrite <- X. unfold names. apply (in_map (fun p => f_name (snd p))). exact Hp. }
      exists st', fr'. split; [|split].
      + intro rest. rewrite map_app, <- app_assoc, K1, J1. reflexivity.
      + intros key Hkey. cbn [names map snd] in Hkey.
        assert (key <> f_name f) as N1 by (intro; apply Hkey; left; congruence).
        assert (~ In key (names fl)) as N2 by (intro; apply Hkey; right; assumption).
        rewrite (J2 key N2), K3 by exact N1. reflexivity.
      + intros g y Hin. cbn [map snd combine] in Hin. destruct Hin as [Heq|Hin].
        * inversion Heq; subst g y. rewrite (J2 (f_name f) Hnf), K2. reflexivity.
        * apply J3. exact Hin.
  Qed.
End Members.

Lemma map_norm_fields (rec : ty -> val -> val) (g : field -> val) : forall ffs fs,
  length ffs = length fs ->
  (forall f x, In (f, x) (combine ffs fs) -> g f = norm_field rec f x) ->
  map g ffs = norm_fields rec ffs fs.
Proof.
  induction ffs as [|f ffs IH]; intros [|x fs] Hl H; try discriminate; [reflexivity|].
  cbn in Hl. injection Hl as Hl. cbn. f_equal.
  - apply H. left. reflexivity.
  - apply IH; [exact Hl|]. intros. apply H. right. assumption.
Qed.

(** the values handed to the member loop for the instance's own class are the instance's values *)
Lemma inst_get_self U d fs ffs fds : wf_universe U = true -> flat_fields U d = Some ffs -> map snd fds = ffs ->
  length ffs = length fs ->
  map (fun nf : text * field => inst_get U d fs (f_name (snd nf))) fds = fs.
Proof.
  intros Hwf Hf Hs Hl. unfold inst_get. rewrite Hf.
  pose proof (wf_flat_nodup U d ffs Hwf Hf) as Hnd.
  transitivity (map (fun n => assoc_val n (map f_name ffs) fs) (firstn (length (map f_name ffs)) (map f_name ffs))).
  - rewrite firstn_all. subst ffs. rewrite !map_map. reflexivity.
  - rewrite assoc_val_firstn; [|exact Hnd|rewrite map_length; exact Hl].
    rewrite map_length, Hl. apply firstn_all.
Qed.

(* ------------------------------------------------------------------ the round trip *)
Section RT.
  Variable L : leaf_codec.
  Variable C : pcfg.
  Variable U : universe.
  Hypothesis Hleaf : forall p v, prim_has p v = true -> lc_ok L p v = true ->
    exists s, lc_pr L p v = Ok s /\ lc_rd L p s = Ok v /\ (p <> PText -> s <> []).
  Hypothesis Hwf : wf_universe U = true.
  Hypothesis Hsoft : p_soft C = false.
  Hypothesis Hxsi : p_parse_xsi C = true.
  Hypothesis Hpm : forall ns, pfx_ok (p_pm C ns) = true.

  Notation penc := (penc shape_ok L C U).
  Notation pdec := (pdec shape_ok L C U).
  Notation pconf := (pconf L U (p_poly C) (registered (p_reg C) U)).
  Notation pnorm := (pnorm U).

  Definition rt_stmt (k : nat) : Prop :=
    forall t v ns name nillable sc,
      pconf k t v = true ->
      exists a tx ks, penc k t ns name v = Ok (XElt ns name a tx ks)
                      /\ pdec k sc t nillable (wire (XElt ns name a tx ks)) = Ok (pnorm k t v).

  Lemma pnorm_none k t : pnorm k t VNone = VNone.
  Proof. destruct k; cbn; [reflexivity|]. destruct t; reflexivity. Qed.

  (** the target class of serialisation is the runtime class whenever the value conforms *)
  Lemma target_is_runtime c d :
    (if p_poly C then is_subclass U d c && (Nat.eqb d c || registered (p_reg C) U d) else Nat.eqb d c) = true ->
    poly_target shape_ok (p_poly C) U c d = (d, p_poly C && negb (Nat.eqb d c)).
  Proof.
    intro H. unfold poly_target. cbn [shape_ok sh_gpt_same_skip sh_gpt_isinstance andb].
    destruct (p_poly C); cbn [negb andb].
    - apply andb_true_iff in H. destruct H as [Hs _].
      destruct (Nat.eqb d c) eqn:E; [apply Nat.eqb_eq in E; subst; reflexivity|].
      rewrite Hs. reflexivity.
    - apply Nat.eqb_eq in H. subst. reflexivity.
  Qed.

  Theorem xml_rt_gen : forall k, rt_stmt k.
  Proof.
    induction k as [|k IH]; intros t v ns name nillable sc Hx; [discriminate|].
    destruct v as [|pv|d fs|xs].
    - (* None: an element with xsi:nil *)
      exists [nil_att], None, []. split; [reflexivity|].
      cbn [wire map Model.pdec]. replace (real_atts [nil_att]) with [nil_att] by reflexivity.
      rewrite is_nil_nil_att, Hsoft, pnorm_none. reflexivity.
    - (* primitive *)
      destruct t as [p| |]; try discriminate. cbn in Hx. apply andb_true_iff in Hx. destruct Hx as [Hp Hok].
      destruct (Hleaf p pv Hp Hok) as [s [Hs [Hr Hne]]].
      exists [], (Some s), []. split; [cbn; rewrite Hs; reflexivity|].
      cbn [wire map Model.pdec real_atts filter]. replace (is_nil []) with false by reflexivity.
      unfold retarget. rewrite Hxsi. cbn [negb lookup_att bind fst snd]. rewrite Hsoft. cbn [negb orb andb].
      destruct p.
      + destruct s as [|c s]; [exfalso; apply Hne; [discriminate|reflexivity]|]. rewrite Hr. reflexivity.
      + destruct s as [|c s]; rewrite Hr; reflexivity.
      + destruct s as [|c s]; [exfalso; apply Hne; [discriminate|reflexivity]|]. rewrite Hr. reflexivity.
    - (* object *)
      destruct t as [|c|]; try discriminate. cbn [Model.pconf] in Hx.
      apply andb_true_iff in Hx. destruct Hx as [Hd Hx].
      destruct (flat_fields U d) as [ffs|] eqn:Eff; [|discriminate].
      apply andb_true_iff in Hx. destruct Hx as [Hlen Hconf]. apply Nat.eqb_eq in Hlen.
      destruct (flat_decl_snd U d ffs Eff) as [fds [Efd Hsnd]].
      pose proof (wf_flat_nodup U d ffs Hwf Eff) as Hnd.
      assert (forallb is_elem ffs = true) as Hel.
      { apply forallb_forall. intros f Hf.
        assert (exists x, In (f, x) (combine ffs fs)) as [x Hin].
        { clear - Hlen Hf. revert fs Hlen. induction ffs as [|g ffs IHf]; intros fs Hlen; [destruct Hf|].
          destruct fs as [|y fs]; [discriminate|]. cbn in Hlen. injection Hlen as Hlen.
          destruct Hf as [->|Hf]; [exists y; left; reflexivity|].
          destruct (IHf Hf fs Hlen) as [x Hx]. exists x. right. exact Hx. }
        rewrite forallb_forall in Hconf. specialize (Hconf (f, x) Hin). cbn [fst snd] in Hconf.
        apply andb_true_iff in Hconf. apply Hconf. }
      set (add_type := p_poly C && negb (Nat.eqb d c)).
      set (sc' := (if add_type then [(p_pm C (cls_ns U d), cls_ns U d)] else []) ++ sc).
      destruct (members_rt L (penc k) (fun f => pdec k sc' (f_ty f) (f_nillable f)) (pnorm k)
                           (pconf k) ffs) with (fl := fds) (vals := fs) as [kids [Henc Hk]].
      { intros f dns y Hy. apply IH. exact Hy. }
      { intro t0. apply pnorm_none. }
      { rewrite <- Hlen, <- Hsnd, map_length. reflexivity. }
      { intros p Hp. apply find_field_nodup; [exact Hnd|]. rewrite <- Hsnd. apply in_map. exact Hp. }
      { unfold names. rewrite <- (map_map snd f_name), Hsnd. exact Hnd. }
      { rewrite Hsnd. exact Hconf. }
      exists ((if add_type then type_marker shape_ok C U d else []) ++ []), None, kids. split.
      { cbn [Model.penc]. rewrite (target_is_runtime c d Hd). fold add_type.
        rewrite members_of_ok, Efd.
        rewrite (inst_get_self U d fs ffs fds Hwf Eff Hsnd Hlen), Henc. reflexivity. }
      cbn [wire Model.pdec]. rewrite app_nil_r.
      assert (decls_of (if add_type then type_marker shape_ok C U d else []) ++ sc = sc') as Hsc.
      { unfold sc'. destruct add_type; [|reflexivity]. unfold type_marker, decls_of. cbn [shape_ok sh_type_decl sh_type_keep andb].
        cbn [filter]. rewrite is_decl_xsi, is_decl_xmlns. reflexivity. }
      rewrite Hsc.
      assert (exists atts, real_atts (if add_type then type_marker shape_ok C U d else []) = atts
                           /\ is_nil atts = false
                           /\ retarget shape_ok C U sc' atts (TRef c) = Ok (TRef d)) as [atts [Ea [Hnil Hret]]].
      { destruct add_type eqn:Eat.
        - eexists. split; [reflexivity|]. unfold type_marker. cbn [shape_ok sh_type_decl sh_type_keep andb].
          unfold real_atts. cbn [filter]. rewrite is_decl_xsi, is_decl_xmlns. cbn [negb].
          split; [vm_compute; reflexivity|].
          unfold retarget. rewrite Hxsi. cbn [negb lookup_att]. rewrite (text_eqb_refl xsi_ns), (text_eqb_refl t_type). cbn [andb].
          unfold sc'. cbn [app]. rewrite resolve_marker by apply Hpm.
          unfold add_type in Eat. apply andb_true_iff in Eat. destruct Eat as [Epoly Ene].
          rewrite Epoly in Hd. apply andb_true_iff in Hd. destruct Hd as [Hsub Hreg].
          apply negb_true_iff in Ene. rewrite Ene in Hreg. cbn [orb] in Hreg.
          assert (reg_find (p_reg C) (cls_ns U d, cls_name U d) = Some (TRef d)) as Er.
          { unfold registered in Hreg. revert Hreg.
            destruct (reg_find (p_reg C) (cls_ns U d, cls_name U d)) as [[|d'|]|]; try discriminate.
            intro Hreg. apply Nat.eqb_eq in Hreg. subst d'. reflexivity. }
          rewrite Er. cbn [shape_ok sh_xsi_guard]. unfold xsi_target.
          rewrite Nat.eqb_sym, Ene, Hsub. reflexivity.
        - exists []. split; [reflexivity|]. split; [reflexivity|].
          unfold retarget. rewrite Hxsi. cbn [negb lookup_att].
          unfold add_type in Eat.
          assert (d = c) as ->; [|reflexivity].
          destruct (p_poly C); cbn [andb] in Eat.
          + apply negb_false_iff in Eat. apply Nat.eqb_eq in Eat. exact Eat.
          + apply Nat.eqb_eq in Hd. exact Hd. }
      rewrite Ea, Hnil, Hret. cbn [bind fst snd]. rewrite Efd, Hsnd.
      destruct (Hk [] []) as [st1 [fr1 [K1 [K2 K3]]]]; [reflexivity|].
      specialize (K1 []). rewrite app_nil_r in K1. rewrite K1. cbn [dec_kids bind fst snd].
      rewrite (dec_atts_elem L ffs Hel). cbn [bind fst snd]. rewrite Hsoft. cbn [andb]. f_equal.
      cbn [Model.pnorm]. rewrite Eff. f_equal.
      apply map_norm_fields; [exact Hlen|]. intros f x Hin. apply K3. rewrite Hsnd. exact Hin.
    - (* wrapped array *)
      destruct t as [| |e]; try discriminate. cbn [Model.pconf] in Hx.
      destruct (mapM_Forall2 (penc k e (item_ns C U ns name e) (type_name U e))
                  (fun y el => pdec k ([] ++ sc) e true (wire el) = Ok (pnorm k e y)) xs) as [es [He HF]].
      { intros y Hy. rewrite forallb_forall in Hx.
        destruct (IH e y (item_ns C U ns name e) (type_name U e) true ([] ++ sc) (Hx y Hy)) as [a [tx [ks [H1 H2]]]].
        eexists. split; [exact H1|exact H2]. }
      exists [], None, es. split; [cbn [Model.penc]; rewrite He; reflexivity|].
      cbn [wire Model.pdec real_atts filter decls_of map]. replace (is_nil []) with false by reflexivity.
      unfold retarget. rewrite Hxsi. cbn [negb lookup_att bind fst snd].
      rewrite (mapM_map_Forall2 (pdec k ([] ++ sc) e true) wire (pnorm k e) xs es HF). reflexivity.
  Qed.
End RT.
