(** C16: the lemmas in the form the property theorems state them (Props/C16.v only says
    [exact]).  Everything here is about [shape_ok]; Props states it about the generated
    [shape_src], which must therefore be convertible with [shape_ok]. *)
From Coq Require Import ZArith List Bool Lia ZifyBool Arith.
From SpyneV Require Import Base.Prelude Wire.Universe Wire.Xml C01.Leaf C01.LeafProofs
     C16.Model C16.Leaf C16.Basics C16.XmlProofs C16.XmlMarks C16.XmlMono C16.HierProofs C16.HierMono C16.RegProofs.
Import ListNotations.
Open Scope Z_scope.

(* ------------------------------------------------------------------ field order *)
Lemma flat_fields_main : forall U c, wf_universe U = true ->
  flat_ti shape_ok U c = flat_fields U c
  /\ option_map (map snd) (members_of shape_ok U c) = flat_fields U c
  /\ forall cl, get_cls U c = Some cl ->
       flat_ti shape_ok U c = match c_parent cl with
                              | None => Some (c_own cl)
                              | Some p => match flat_ti shape_ok U p with
                                          | Some pf => Some (pf ++ c_own cl)
                                          | None => None
                                          end
                              end.
Proof.
  intros U c Hwf. split; [apply flat_ti_wf; exact Hwf|]. split.
  - rewrite members_of_ok. unfold flat_decl, flat_fields. apply flat_decl_fuel_snd.
  - intros cl Hc. rewrite (flat_ti_wf U c Hwf), (flat_fields_unfold U c cl Hwf Hc).
    destruct (c_parent cl) as [p|]; [|reflexivity]. rewrite (flat_ti_wf U p Hwf). reflexivity.
Qed.

Lemma flat_override_main :
  (forall fuel U c cl, get_cls U c = Some cl ->
     flat_ti_fuel shape_ok (S fuel) U c [] =
       match c_parent cl with
       | None => Some (od_update [] (c_own cl))
       | Some p => match flat_ti_fuel shape_ok fuel U p [] with
                   | Some pf => Some (od_update pf (c_own cl))
                   | None => None
                   end
       end)
  /\ (forall d f, map f_name (od_set d f)
                  = if text_mem (f_name f) (map f_name d) then map f_name d else map f_name d ++ [f_name f])
  /\ (forall d f, find_field (f_name f) (od_set d f) = Some f)
  /\ (forall d f k, k <> f_name f -> find_field k (od_set d f) = find_field k d).
Proof.
  split; [intros; apply flat_ti_step; assumption|]. split; [exact od_set_names|]. split; [exact od_set_find|exact od_set_find_other].
Qed.

(** the model's get_polymorphic_target is the decision function with the default (empty) polymap *)
Lemma poly_target_decide : forall poly U c d,
  poly_target shape_ok poly U c d
  = match gpt_decide poly (Nat.eqb d c) (is_subclass U d c) true with
    | GDecl => (c, false)
    | GInst => (d, true)
    | GMap => (d, true)
    end.
Proof.
  intros poly U c d. unfold poly_target, gpt_decide. cbn [shape_ok sh_gpt_same_skip sh_gpt_isinstance andb].
  destruct poly; cbn [negb]; [|reflexivity].
  destruct (Nat.eqb d c); [reflexivity|]. destruct (is_subclass U d c); reflexivity.
Qed.

(* ------------------------------------------------------------------ registry *)
Lemma registered_In U tns reg d : registered reg U d = true -> In (key_of U tns (TRef d), TRef d) reg.
Proof.
  unfold registered. change (cls_ns U d, cls_name U d) with (key_of U tns (TRef d)).
  destruct (reg_find reg (key_of U tns (TRef d))) as [[|d'|]|] eqn:E; try discriminate.
  intro H. apply Nat.eqb_eq in H. subst d'. apply reg_find_In. exact E.
Qed.

(** the class a member type refers to, through any number of Array wrappers *)
Fixpoint base_class (t : ty) : option cid :=
  match t with TPrim _ => None | TRef c => Some c | TArr e => base_class e end.

Lemma registered_base U tns (Hwf : wf_universe U = true) (Hk : keys_ok U tns = true) reg :
  reg_inv U tns reg -> forall t c, In (key_of U tns t, t) reg -> base_class t = Some c ->
  In (key_of U tns (TRef c), TRef c) reg.
Proof.
  intros Hinv. induction t as [p|c'|e IH]; intros c Hin Hb; cbn in Hb; [discriminate| |].
  - inversion Hb; subst. exact Hin.
  - apply IH; [|exact Hb]. eapply registered_elem; eauto.
Qed.

Lemma registry_main : forall U tns fuel roots reg,
  wf_universe U = true -> keys_ok U tns = true -> same_ns_tree U = true ->
  (forall r, In r roots -> (r < length U)%nat) ->
  populate shape_ok U tns fuel roots = Some reg ->
  (forall r, In r roots -> registered reg U r = true)
  /\ (forall c d, registered reg U c = true -> is_subclass U d c = true -> registered reg U d = true)
  /\ (forall c cl f c', registered reg U c = true -> get_cls U c = Some cl -> In f (c_own cl) ->
        base_class (f_ty f) = Some c' -> registered reg U c' = true).
Proof.
  intros U tns fuel roots reg Hwf Hk Hpl Hroots Hp.
  destruct (populate_spec U tns Hwf fuel roots reg) as [Hr [Hg Hn]]; [|exact Hp|].
  { intros r Hr. specialize (Hroots r Hr). unfold get_cls. destruct (nth_error U r) eqn:E; [eauto|].
    apply nth_error_None in E. lia. }
  assert (reg_inv U tns reg) as Hinv by (split; assumption).
  split; [|split].
  - intros r Hin. apply (registered_bool U tns reg r Hinv).
    apply (has_key_entry U tns Hk reg (TRef r) Hinv); [|apply Hr; exact Hin].
    specialize (Hroots r Hin). unfold all_types. apply in_flat_map. exists r. split; [apply in_seq; lia|].
    destruct (get_cls U r) as [cl|] eqn:E; [left; reflexivity|].
    unfold get_cls in E. apply nth_error_None in E. lia.
  - intros c d Hc Hs. apply (registered_bool U tns reg d Hinv).
    apply (registered_subclasses U tns Hwf Hk Hpl reg c Hinv); [|exact Hs]. apply registered_In. exact Hc.
  - intros c cl f c' Hc Hcl Hf Hb. apply (registered_bool U tns reg c' Hinv).
    apply (registered_base U tns Hwf Hk reg Hinv (f_ty f) c'); [|exact Hb].
    eapply (registered_member U tns Hwf Hk reg c cl f Hinv); [apply registered_In; exact Hc|exact Hcl|exact Hf].
Qed.

(* ------------------------------------------------------------------ XML *)
Section XmlMain.
  Variable L : leaf_codec.
  Variable C : pcfg.
  Variable U : universe.
  Hypothesis Hleaf : forall p v, prim_has p v = true -> lc_ok L p v = true ->
    exists s, lc_pr L p v = Ok s /\ lc_rd L p s = Ok v /\ (p <> PText -> s <> []).
  Hypothesis Hwf : wf_universe U = true.
  Hypothesis Hsoft : p_soft C = false.
  Hypothesis Hxsi : p_parse_xsi C = true.
  Hypothesis Hpm : forall ns, pfx_ok (p_pm C ns) = true.

  Lemma xml_rt_main : forall n t v ns name,
    pconf L U (p_poly C) (registered (p_reg C) U) n t v = true ->
    exists e, penc shape_ok L C U n t ns name v = Ok e
              /\ forall sc nillable, pdec shape_ok L C U n sc t nillable (wire e) = Ok (pnorm U n t v).
  Proof.
    intros n t v ns name Hx.
    destruct (xml_rt_gen L C U Hleaf Hwf Hsoft Hxsi Hpm n t v ns name true [] Hx) as [a [tx [ks [H1 _]]]].
    eexists. split; [exact H1|]. intros sc nillable.
    destruct (xml_rt_gen L C U Hleaf Hwf Hsoft Hxsi Hpm n t v ns name nillable sc Hx) as [a' [tx' [ks' [H1' H2']]]].
    rewrite H1 in H1'. inversion H1'; subst. exact H2'.
  Qed.

  Lemma xml_mono_main : p_poly C = false -> forall regchk n t v ns name,
    pconf L U true (fun _ => true) n t v = true ->
    penc shape_ok L C U n t ns name v = penc shape_ok L C U n t ns name (project U n t v)
    /\ pconf L U false regchk n t (project U n t v) = true
    /\ exists e, penc shape_ok L C U n t ns name v = Ok e
                 /\ forall sc nillable, pdec shape_ok L C U n sc t nillable (wire e) = Ok (pnorm U n t (project U n t v)).
  Proof.
    intros Hp regchk n t v ns name Hc.
    pose proof (mono_projection L C U Hwf Hp n t v ns name Hc) as H1.
    pose proof (project_conf L C U Hwf Hp (registered (p_reg C) U) n t v Hc) as H2.
    split; [exact H1|]. split; [apply (project_conf L C U Hwf Hp); exact Hc|].
    rewrite H1. apply xml_rt_main. rewrite Hp. exact H2.
  Qed.
End XmlMain.

Lemma xml_marks_main : forall L C U, elem_only U = true -> (forall ns, pfx_ok (p_pm C ns) = true) ->
  forall k t ns name v e, penc shape_ok L C U k t ns name v = Ok e ->
    (forall n sc, Forall (fun m => exists d, m = RQ (cls_ns U d) (cls_name U d)) (marks n sc e))
    /\ (p_poly C = false -> forall n sc, marks n sc e = []).
Proof.
  intros L C U Hel Hpm k t ns name v e H. split.
  - intros n sc. exact (marks_resolve L C U Hel Hpm k t ns name v e H n sc).
  - intros Hp n sc. exact (mono_no_marks L C U Hel Hp k t ns name v e H n sc).
Qed.

Lemma xml_sound_main : forall L C U,
  (forall k sc c nillable e d fs,
     pdec shape_ok L C U k sc (TRef c) nillable e = Ok (VObj d fs) -> is_subclass U d c = true)
  /\ (forall k sc c nillable ns n atts txt kids v q,
        p_parse_xsi C = true ->
        is_nil (real_atts atts) = false -> lookup_att xsi_ns t_type (real_atts atts) = Some q ->
        pdec shape_ok L C U (S k) sc (TRef c) nillable (XElt ns n atts txt kids) = Ok v ->
        exists key d fs, resolve_qname (decls_of atts ++ sc) q = Some key
                         /\ reg_find (p_reg C) key = Some (TRef d)
                         /\ is_subclass U d c = true /\ v = VObj d fs)
  /\ (forall k sc t nillable ns n atts txt kids q,
        p_parse_xsi C = true ->
        is_nil (real_atts atts) = false -> lookup_att xsi_ns t_type (real_atts atts) = Some q ->
        (match resolve_qname (decls_of atts ++ sc) q with
         | None => true
         | Some key => match reg_find (p_reg C) key with
                       | None => true
                       | Some t' => match xsi_target U (p_tns C) t t' with None => true | Some _ => false end
                       end
         end = true) ->
        pdec shape_ok L C U (S k) sc t nillable (XElt ns n atts txt kids) = VFault).
Proof.
  intros L C U. split; [exact (decoded_class L C U)|]. split; [exact (marker_honoured L C U)|exact (marker_refused L C U)].
Qed.

(** what _get_xsi_target lets through, for every pair of modelled types: the declared type itself
    (same class; for Array types only under the same namespace and type name; the declared
    customisation is kept), or a user class that is a subclass of the declared user class;
    in particular a primitive or an array slot is never retyped *)
Lemma xsi_target_main : forall U tns decl new t, xsi_target U tns decl new = Some t ->
  (t = decl \/ exists c c', decl = TRef c /\ new = TRef c' /\ t = TRef c' /\ is_subclass U c' c = true)
  /\ (forall p, decl = TPrim p -> new = TPrim p /\ t = decl)
  /\ (forall e, decl = TArr e -> exists e', new = TArr e' /\ key_of U tns (TArr e') = key_of U tns (TArr e) /\ t = decl).
Proof.
  intros U tns decl new t H. split; [exact (xsi_target_spec U tns decl new t H)|]. split.
  - intros p ->. unfold xsi_target, xsi_decide in H. destruct new as [q|c'|e']; cbn [negb andb orb] in H; try discriminate.
    destruct p, q; cbn in H; try discriminate; inversion H; split; reflexivity.
  - intros e ->. unfold xsi_target, xsi_decide in H. destruct new as [q|c'|e']; cbn [negb andb orb] in H; try discriminate.
    destruct (rkey_eqb (key_of U tns (TArr e)) (key_of U tns (TArr e'))) eqn:E; cbn [negb andb] in H; [|discriminate].
    inversion H. exists e'. split; [reflexivity|]. split; [|reflexivity]. symmetry. apply rkey_eqb_eq. exact E.
Qed.

(** get_subclasses is the transitive closure of the direct-subclass lists: every strict subclass,
    however deep, is in the list the wrapper key is looked up in *)
Lemma subclasses_closure_main : forall U c d cl, wf_universe U = true -> get_cls U d = Some cl ->
  is_subclass U d c = true -> d <> c -> In d (get_subclasses (S (length U)) U c).
Proof.
  intros U c d cl Hwf Hd Hs Hne. apply subs_complete; [exact Hwf|exact Hs|exact Hne|].
  pose proof (get_cls_lt U d cl Hd). lia.
Qed.

(* ------------------------------------------------------------------ dict documents *)
Lemma hier_rt_main : forall H U poly,
  (forall p v, prim_has p v = true -> hl_ok H p v = true ->
     exists j, hl_pr H p v = Ok j /\ hl_rd H p j = Ok v /\ j <> JNull) ->
  wf_universe U = true -> sub_names_ok U = true ->
  forall k t v, hconf H U poly k t v = true ->
    exists j, h_enc shape_ok H poly U k t v = Ok j /\ h_dec shape_ok H U k t j = Ok v.
Proof. intros H U poly Hl Hwf Hn. exact (hier_rt_gen H U poly Hl Hwf Hn). Qed.

Lemma hier_mono_main : forall H U,
  (forall p v, prim_has p v = true -> hl_ok H p v = true ->
     exists j, hl_pr H p v = Ok j /\ hl_rd H p j = Ok v /\ j <> JNull) ->
  wf_universe U = true -> sub_names_ok U = true ->
  forall k t v, hconf H U true k t v = true ->
    h_enc shape_ok H false U k t v = h_enc shape_ok H false U k t (project U k t v)
    /\ exists j, h_enc shape_ok H false U k t v = Ok j /\ h_dec shape_ok H U k t j = Ok (project U k t v).
Proof.
  intros H U Hl Hwf Hn k t v Hc.
  pose proof (hier_mono_projection H U Hwf k t v Hc) as H1. split; [exact H1|].
  rewrite H1. apply (hier_rt_gen H U false Hl Hwf Hn). apply hier_project_conf; assumption.
Qed.

Lemma hier_sound_main : forall H U,
  (forall k c j d fs, h_dec shape_ok H U k (TRef c) j = Ok (VObj d fs) -> is_subclass U d c = true)
  /\ (forall k c nm inner,
        text_eqb (cls_name U c) nm = false -> get_subclasses (S (length U)) U c <> [] ->
        find_cid (fun s => text_eqb (cls_name U s) nm) (get_subclasses (S (length U)) U c) = None ->
        h_dec shape_ok H U (S k) (TRef c) (JMap [(nm, inner)]) = VFault).
Proof. intros H U. split; [exact (hier_decoded_class H U)|exact (hier_marker_refused H U)]. Qed.

(* ------------------------------------------------------------------ with Spyne's own leaves *)
Lemma dict_leaf_rt : forall p v, prim_has p v = true -> hl_ok dict_leaf p v = true ->
  exists j, hl_pr dict_leaf p v = Ok j /\ hl_rd dict_leaf p j = Ok v /\ j <> JNull.
Proof.
  intros p v Hp _. destruct p, v; try discriminate; cbn; eexists; (split; [reflexivity|]); (split; [reflexivity|discriminate]).
Qed.

Lemma xml_rt_spyne_main : forall (tns : text) (poly : bool) (pm : text -> text) (U : universe) (fuel : nat) (roots : list cid) (reg : registry) (unres : list (text * text)),
  wf_universe U = true -> (forall ns, pfx_ok (pm ns) = true) ->
  populate shape_ok U tns fuel roots = Some reg ->
  forall n t v ns name,
    pconf spyne_leaf U poly (registered reg U) n t v = true ->
    exists e, penc shape_ok spyne_leaf (mkpcfg false tns poly true pm reg unres) U n t ns name v = Ok e
              /\ forall sc nillable,
                   pdec shape_ok spyne_leaf (mkpcfg false tns poly true pm reg unres) U n sc t nillable (wire e) = Ok (pnorm U n t v).
Proof.
  intros tns poly pm U fuel roots reg unres Hwf Hpm _ n t v ns name Hx.
  apply (xml_rt_main spyne_leaf (mkpcfg false tns poly true pm reg unres) U spyne_leaf_rt Hwf eq_refl eq_refl Hpm). exact Hx.
Qed.

Lemma hier_rt_spyne_main : forall U poly, wf_universe U = true -> sub_names_ok U = true ->
  forall k t v, hconf dict_leaf U poly k t v = true ->
    exists j, h_enc shape_ok dict_leaf poly U k t v = Ok j /\ h_dec shape_ok dict_leaf U k t j = Ok v.
Proof. intros U poly Hwf Hn. exact (hier_rt_gen dict_leaf U poly dict_leaf_rt Hwf Hn). Qed.
