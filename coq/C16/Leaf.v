(** The primitive leaves of the dict-document family as C16 uses them: Integer, Unicode and
    Boolean of JsonDocument / YamlDocument / MessagePackDocument for values every one of the
    three wire formats carries natively (integers in the signed 64-bit range, text, booleans;
    MessagePack writes text as UTF-8 bin, which the harness shows as text).  The protocols'
    treatment of other leaves (big integers as strings, floats, type confusion) is C02's
    subject; reading anything but the native form is outside this model ([Crash OtherExn]).
    Definitions only. *)
From SpyneV Require Export Base.Prelude Wire.Universe C16.Model.

Definition dl_pr (p : prim) (v : pval) : out jv :=
  match p, v with
  | PInt, LInt z => Ok (JInt z)
  | PText, LText s => Ok (JStr s)
  | PBool, LBool b => Ok (JBool b)
  | _, _ => Crash TypeError
  end.
Definition dl_rd (p : prim) (j : jv) : out pval :=
  match p, j with
  | PInt, JInt z => Ok (LInt z)
  | PText, JStr s => Ok (LText s)
  | PBool, JBool b => Ok (LBool b)
  | _, _ => Crash OtherExn
  end.
Definition dl_ok (p : prim) (v : pval) : bool :=
  match v with
  | LInt z => (- 9223372036854775808 <=? z) && (z <? 9223372036854775808)
  | _ => true
  end.
Definition dict_leaf : hleaf := mkhleaf dl_pr dl_rd dl_ok.
