(** C16, dict documents: with polymorphic=False the document written for an instance of a
    subclass is the document written for its projection on the declared class (wrapper key =
    the declared class's name, members = the declared class's members), at every depth, and
    that projection is a conformant value of the declared types. *)
From Coq Require Import ZArith List Bool Lia ZifyBool Arith.
From SpyneV Require Import Base.Prelude Wire.Universe Wire.Xml C16.Model C16.Basics C16.XmlProofs C16.XmlMono C16.HierProofs.
Import ListNotations.
Open Scope Z_scope.

Lemma inst_get_prefix_fields U c d fs fc fd : wf_universe U = true ->
  is_subclass U d c = true -> flat_fields U c = Some fc -> flat_fields U d = Some fd ->
  length fd = length fs ->
  map (fun f => inst_get U d fs (f_name f)) fc = firstn (length fc) fs.
Proof.
  intros Hwf Hs Hc Hd Hl.
  pose proof (inst_get_prefix U c d fs fc fd (map (fun f => ([] : text, f)) fc) Hwf Hs Hc Hd) as X.
  rewrite !map_map in X. cbn [snd] in X. rewrite map_id in X. apply X; [reflexivity|exact Hl].
Qed.

Lemma pf_length (rec : ty -> val -> val) : forall fc fs, (length fc <= length fs)%nat ->
  length (project_fields rec fc fs) = length fc.
Proof.
  induction fc as [|f fc IH]; intros fs H; [reflexivity|]. destruct fs as [|x fs]; [cbn in H; lia|].
  cbn in *. rewrite IH by lia. reflexivity.
Qed.

Section HMono.
  Variable H : hleaf.
  Variable U : universe.
  Hypothesis Hwf : wf_universe U = true.

  Notation h_enc := (h_enc shape_ok H false U).
  Notation project := (project U).
  Notation sconf := (hconf H U true).
  Notation mconf := (hconf H U false).

  Lemma hfield_agree (encf : ty -> val -> out jv) (rec : ty -> val -> val) (conf : ty -> val -> bool) f x :
    hfield_conf conf f x = true ->
    (forall y, conf (f_ty f) y = true -> encf (f_ty f) y = encf (f_ty f) (rec (f_ty f) y)) ->
    (forall t, rec t VNone = VNone) -> (forall t y, rec t y = VNone -> y = VNone) ->
    h_field encf f x = h_field encf f (project_field rec f x).
  Proof.
    intros Hc Hag Hn Hnn. unfold hfield_conf in Hc. unfold h_field, project_field.
    destruct x as [|pv|d fs|xs].
    - destruct (is_multi f); [reflexivity|]. rewrite Hn. reflexivity.
    - destruct (is_multi f) eqn:Em; [discriminate|].
      destruct (rec (f_ty f) (VLeaf pv)) eqn:E; [apply Hnn in E; discriminate| | |]; rewrite <- E, <- Hag by exact Hc; reflexivity.
    - destruct (is_multi f) eqn:Em; [discriminate|].
      destruct (rec (f_ty f) (VObj d fs)) eqn:E; [apply Hnn in E; discriminate| | |]; rewrite <- E, <- Hag by exact Hc; reflexivity.
    - destruct (is_multi f) eqn:Em.
      + rewrite mapM_map. f_equal. apply mapM_ext. intros y Hy. rewrite forallb_forall in Hc. apply Hag. apply Hc. exact Hy.
      + destruct (rec (f_ty f) (VList xs)) eqn:E; [apply Hnn in E; discriminate| | |]; rewrite <- E, <- Hag by exact Hc; reflexivity.
  Qed.

  Lemma hmembers_agree (encf : ty -> val -> out jv) (rec : ty -> val -> val) (conf : ty -> val -> bool) :
    (forall t y, conf t y = true -> encf t y = encf t (rec t y)) ->
    (forall t, rec t VNone = VNone) -> (forall t y, rec t y = VNone -> y = VNone) ->
    forall fc fs,
      forallb (fun fv => hfield_conf conf (fst fv) (snd fv)) (combine fc fs) = true ->
      h_members encf fc (firstn (length fc) fs) = h_members encf fc (project_fields rec fc fs).
  Proof.
    intros Hag Hn Hnn. induction fc as [|f fc IH]; intros fs Hc; [reflexivity|].
    destruct fs as [|x fs]; [reflexivity|].
    cbn [combine forallb fst snd] in Hc. apply andb_true_iff in Hc. destruct Hc as [Hf Hc].
    cbn [length firstn project_fields h_members hd tl].
    rewrite <- (hfield_agree encf rec conf f x Hf); [|intros; apply Hag; assumption|exact Hn|exact Hnn].
    rewrite (IH fs Hc). reflexivity.
  Qed.

  Theorem hier_mono_projection : forall k t v, sconf k t v = true -> h_enc k t v = h_enc k t (project k t v).
  Proof.
    induction k as [|k IH]; intros t v Hc; [discriminate|].
    destruct v as [|pv|d fs|xs].
    - destruct t; reflexivity.
    - destruct t; reflexivity.
    - destruct t as [|c|]; try discriminate. cbn [hconf] in Hc.
      apply andb_true_iff in Hc. destruct Hc as [Hsub Hc].
      destruct (flat_fields U d) as [fd|] eqn:Efd; [|discriminate].
      apply andb_true_iff in Hc. destruct Hc as [Hlen Hconf]. apply Nat.eqb_eq in Hlen.
      destruct (subclass_flat_exists U c Hwf d Hsub fd Efd) as [fc Efc].
      destruct (subclass_flat_prefix U c fc Hwf Efc d Hsub fd Efd) as [rest Hrest].
      assert (length fc <= length fs)%nat as Hle.
      { rewrite <- Hlen, Hrest, app_length. lia. }
      cbn [Model.project]. rewrite Efc. cbn [Model.h_enc]. unfold poly_target. cbn [negb].
      rewrite (flat_ti_wf U c Hwf), Efc.
      rewrite (inst_get_prefix_fields U c d fs fc fd Hwf Hsub Efc Efd Hlen).
      rewrite (inst_get_self_fields U c _ fc Hwf Efc) by (rewrite pf_length by exact Hle; reflexivity).
      rewrite (hmembers_agree (h_enc k) (project k) (sconf k)); [reflexivity| | | |].
      + intros t0 y Hy. apply IH. exact Hy.
      + intro t0. apply project_of_none.
      + intros t0 y. apply project_none.
      + apply forallb_forall. intros p Hp. rewrite forallb_forall in Hconf. apply Hconf.
        rewrite Hrest. apply in_combine_app. exact Hp.
    - destruct t as [| |e]; try discriminate. cbn [hconf] in Hc. cbn [Model.project Model.h_enc].
      rewrite mapM_map. f_equal. apply mapM_ext. intros y Hy.
      rewrite forallb_forall in Hc. apply IH. apply Hc. exact Hy.
  Qed.

  Lemma hfield_conf_proj k f x :
    (forall t y, sconf k t y = true -> mconf k t (project k t y) = true) ->
    (forall t, sconf k t VNone = mconf k t VNone) ->
    hfield_conf (sconf k) f x = true -> hfield_conf (mconf k) f (project_field (project k) f x) = true.
  Proof.
    intros IH Hnone Hc. unfold hfield_conf, project_field in *.
    destruct x as [|pv|d fs|xs].
    - destruct (is_multi f) eqn:Em.
      + destruct (0 <? f_min f); [discriminate|reflexivity].
      + rewrite project_of_none. destruct (0 <? f_min f); [|reflexivity]. rewrite <- Hnone. exact Hc.
    - destruct (is_multi f) eqn:Em; [discriminate|].
      pose proof (IH _ _ Hc) as X. rewrite project_leaf in *. exact X.
    - destruct (is_multi f) eqn:Em; [discriminate|].
      destruct (project_obj U k (f_ty f) d fs) as [d' [fs' E]]. pose proof (IH _ _ Hc) as X. rewrite E in *. exact X.
    - destruct (is_multi f) eqn:Em.
      + rewrite forallb_forall in Hc. apply forallb_forall. intros y' Hy'. apply in_map_iff in Hy'.
        destruct Hy' as [y [<- Hy]]. apply IH. apply Hc. exact Hy.
      + destruct (project_list U k (f_ty f) xs) as [ys [E _]]. pose proof (IH _ _ Hc) as X. rewrite E in *. exact X.
  Qed.

  Theorem hier_project_conf : forall k t v, sconf k t v = true -> mconf k t (project k t v) = true.
  Proof.
    induction k as [|k IH]; intros t v Hc; [discriminate|].
    destruct v as [|pv|d fs|xs].
    - destruct t; try discriminate. reflexivity.
    - destruct t as [p| |]; try discriminate. exact Hc.
    - destruct t as [|c|]; try discriminate. cbn [hconf] in Hc.
      apply andb_true_iff in Hc. destruct Hc as [Hsub Hc].
      destruct (flat_fields U d) as [fd|] eqn:Efd; [|discriminate].
      apply andb_true_iff in Hc. destruct Hc as [Hlen Hconf]. apply Nat.eqb_eq in Hlen.
      destruct (subclass_flat_exists U c Hwf d Hsub fd Efd) as [fc Efc].
      destruct (subclass_flat_prefix U c fc Hwf Efc d Hsub fd Efd) as [rest Hrest].
      assert (length fc <= length fs)%nat as Hle.
      { rewrite <- Hlen, Hrest, app_length. lia. }
      cbn [Model.project]. rewrite Efc. cbn [hconf]. rewrite Nat.eqb_refl, Efc. cbn [andb].
      rewrite pf_length by exact Hle. rewrite Nat.eqb_refl. cbn [andb].
      assert (forallb (fun fv => hfield_conf (sconf k) (fst fv) (snd fv)) (combine fc fs) = true) as Hc2.
      { apply forallb_forall. intros p Hp. rewrite forallb_forall in Hconf. apply Hconf.
        rewrite Hrest. apply in_combine_app. exact Hp. }
      assert (forall t0, sconf k t0 VNone = mconf k t0 VNone) as Hnone.
      { intro t0. destruct k; reflexivity. }
      clear - Hc2 IH Hnone. revert fs Hc2. induction fc as [|f fc IHf]; intros fs Hc2; [reflexivity|].
      destruct fs as [|x fs]; [reflexivity|].
      cbn [combine forallb fst snd] in Hc2. apply andb_true_iff in Hc2. destruct Hc2 as [Hf Hc2].
      cbn [project_fields combine forallb fst snd].
      rewrite (hfield_conf_proj k f x IH Hnone Hf). cbn [andb]. apply IHf. exact Hc2.
    - destruct t as [| |e]; try discriminate. cbn [hconf] in Hc. cbn [Model.project hconf].
      rewrite forallb_forall in Hc. apply forallb_forall. intros y' Hy'. apply in_map_iff in Hy'.
      destruct Hy' as [y [<- Hy]]. apply IH. apply Hc. exact Hy.
  Qed.
End HMono.
