(** C16 — inheritance and polymorphism.  Model (definitions only) of

      spyne/util/odict.py            odict.__setitem__ / update                      [od_set], [od_update]
      spyne/model/complex.py         _get_flat_type_info (60-69), get_subclasses     [flat_ti], [get_subclasses]
      spyne/protocol/_base.py        get_polymorphic_target (250-282), issubclass    [poly_target], [xsi_guard]
      spyne/interface/_base.py       has_class / add_class (126-152, 428-542)        [add_ty], [populate]
      spyne/protocol/xml.py          to_parent / complex_to_parent / gen_members_parent / _get_members_etree,
                                     from_element (xsi:nil, xsi:type) / complex_from_element / array_from_element
                                                                                     [penc], [pdec]
      spyne/protocol/dictdoc/hier.py _object_to_doc / _to_dict_value / _complex_to_dict / _get_member_pairs,
                                     _doc_to_object / _from_dict_value                [h_enc], [h_dec]

    on top of the shared vocabulary of Wire/Universe.v (classes with a parent link and own
    fields, values [VObj c fs] with one value per flattened field) and the member loops of
    Wire/Xml.v ([enc_members], [dec_kids], [dec_atts]), which are parametric in the element
    codec and are reused unchanged.

    What Wire/Xml.v does not have and this file adds: the prefix of the xsi:type value and
    the namespace declarations in scope (lxml's element.nsmap), the interface's class
    registry and the subclass guard on input, getattr-by-name on instances of arbitrary
    classes (so that "polymorphic=False" really is "the declared class's projection"), the
    odict override rule of the flattened type info, and the dict-document family.

    A declared type [TRef c] stands for the class [c] or any customised variant of it whose
    customisation concerns only min_occurs / max_occurs / nillable (those live in [field]);
    `cls.__orig__ or cls` is what makes the two indistinguishable to the code modelled here.

    The repaired tree is modelled (see known_findings.d/C16.json): gen_members_parent declares
    the interface prefix it uses on the element that carries xsi:type and the namespace clean-up
    keeps it; from_element lets _get_xsi_target decide what an xsi:type may stand for (the declared
    type itself, or a subclass of a declared user class).
    [xshape] carries the handful of source facts that decide the property (statement order,
    one comparison, one guard); harness/translate/c16shape.py regenerates it from the source. *)
From SpyneV Require Export Base.Prelude Wire.Universe Wire.Xml.

Definition xmlns_ns : text := [104; 116; 116; 112; 58; 47; 47; 119; 119; 119; 46; 119; 51; 46; 111; 114; 103; 47; 50; 48; 48; 48; 47; 120; 109; 108; 110; 115; 47].  (* http://www.w3.org/2000/xmlns/ *)
Definition xsd_ns : text := [104; 116; 116; 112; 58; 47; 47; 119; 119; 119; 46; 119; 51; 46; 111; 114; 103; 47; 50; 48; 48; 49; 47; 88; 77; 76; 83; 99; 104; 101; 109; 97].  (* http://www.w3.org/2001/XMLSchema *)

(** the source facts that decide the property; the values on the repaired tree are [shape_ok] *)
Record xshape := mkshape {
  sh_flat_parent_first : bool;    (* _get_flat_type_info: recursion into __extends__ before retval.update(cls._type_info) *)
  sh_xml_parent_first : bool;     (* _get_members_etree: recursion into __extends__ before the loop over cls._type_info *)
  sh_gpt_orig : bool;             (* get_polymorphic_target: orig_cls = cls.__orig__ or cls *)
  sh_gpt_same_skip : bool;        (* ... `inst.__class__ is orig_cls` returns (cls, False) *)
  sh_gpt_isinstance : bool;       (* ... `not isinstance(inst, orig_cls)` returns (cls, False) *)
  sh_sub_same_ns : bool;          (* add_class: subclasses are added iff child_ns == ns *)
  sh_type_decl : bool;            (* gen_members_parent: nsmap={prefix: ns} beside attrib[XSI_TYPE] *)
  sh_type_keep : bool;            (* _cleanup_namespaces keeps the prefixes used in xsi:type values *)
  sh_xsi_guard : bool;            (* from_element: cls = self._get_xsi_target(cls, newclass, xsi_type) *)
  sh_memberless_base : bool;      (* _get_type_info: a base without members of its own is kept as __extends__ when it
                                     extends a class itself (the parent links of the universe are __extends__) *)
  sh_soap_inplace : bool;         (* Soap11.serialize creates Header and Body as SubElements of the envelope and fills them
                                     in place (a finished subtree moved into the envelope loses the declarations lxml
                                     considers redundant, the one of the xsi:type prefix among them) *)
  sh_subclasses_rec : bool;       (* get_subclasses: retval.extend(subca); for subc in subca: retval.extend(subc.get_subclasses())
                                     -- the transitive closure, by recursion on every direct subclass ([get_subclasses]) *)
  sh_flat_fresh : bool            (* get_flat_type_info(cls) = _get_flat_type_info(cls, TypeInfo()): a fresh accumulator per
                                     class, nothing shared between the flattened type infos of a class and its subclasses *)
}.
Definition shape_ok : xshape := mkshape true true true true true true true true true true true true true.

(* ------------------------------------------------------------------ 1. TypeInfo (odict) *)

(** odict.__setitem__: a new key is appended, an existing key keeps its position and gets the
    new value *)
Fixpoint od_set (d : list field) (f : field) : list field :=
  match d with
  | [] => [f]
  | g :: r => if text_eqb (f_name g) (f_name f) then f :: r else g :: od_set r f
  end.
(** odict.update(data): for k, v in data: self[k] = v *)
Definition od_update (d fs : list field) : list field := fold_left od_set fs d.

(** _get_flat_type_info(cls, retval): parent first, then retval.update(cls._type_info) *)
Fixpoint flat_ti_fuel (S0 : xshape) (fuel : nat) (U : universe) (c : cid) (acc : list field) : option (list field) :=
  match fuel with
  | O => None
  | S k =>
      match get_cls U c with
      | None => None
      | Some cl =>
          if sh_flat_parent_first S0 then
            match c_parent cl with
            | None => Some (od_update acc (c_own cl))
            | Some p => match flat_ti_fuel S0 k U p acc with
                        | Some pf => Some (od_update pf (c_own cl))
                        | None => None
                        end
            end
          else
            match c_parent cl with
            | None => Some (od_update acc (c_own cl))
            | Some p => flat_ti_fuel S0 k U p (od_update acc (c_own cl))
            end
      end
  end.
(** ComplexModelBase.get_flat_type_info(cls) *)
Definition flat_ti (S0 : xshape) (U : universe) (c : cid) : option (list field) := flat_ti_fuel S0 (S c) U c [].

(** The class statements as Python sees them: the Python base class (an index into the classes
    defined before) and the class's own data.  What __extends__ becomes is decided by the
    metaclass (complex.py _get_type_info, 293-322): the base itself when it has members of its
    own -- or, on the repaired tree, when it extends a class itself --, otherwise no entry is
    made in the class dict and the attribute is the one inherited from the base, i.e. the
    base's own __extends__. *)
Record pycls := mkpy { py_base : option cid; py_ns : text; py_name : text; py_own : list field }.

Definition extends_of (S0 : xshape) (U : universe) (base : option cid) : option cid :=
  match base with
  | None => None
  | Some b =>
      match get_cls U b with
      | None => None
      | Some bcl =>
          if negb (Nat.eqb (length (c_own bcl)) 0)
             || (sh_memberless_base S0 && match c_parent bcl with Some _ => true | None => false end)
          then Some b
          else c_parent bcl
      end
  end.
Fixpoint derive_from (S0 : xshape) (U : universe) (P : list pycls) : universe :=
  match P with
  | [] => U
  | p :: r => derive_from S0 (U ++ [mkcls (py_ns p) (py_name p) (extends_of S0 U (py_base p)) (py_own p)]) r
  end.
(** the universe (classes with their __extends__ links) a list of class statements produces *)
Definition derive (S0 : xshape) (P : list pycls) : universe := derive_from S0 [] P.

(** cls.Attributes._subclasses: the classes whose __extends__ is [c], in creation order *)
Fixpoint direct_subs_from (i : nat) (l : list cls) (c : cid) : list cid :=
  match l with
  | [] => []
  | cl :: r => match c_parent cl with
               | Some p => if Nat.eqb p c then i :: direct_subs_from (S i) r c else direct_subs_from (S i) r c
               | None => direct_subs_from (S i) r c
               end
  end.
Definition direct_subs (U : universe) (c : cid) : list cid := direct_subs_from 0 U c.

(** ComplexModelBase.get_subclasses: retval.extend(subca); for subc in subca: retval.extend(subc.get_subclasses()) *)
Fixpoint get_subclasses (fuel : nat) (U : universe) (c : cid) : list cid :=
  match fuel with
  | O => []
  | S k => let ds := direct_subs U c in ds ++ flat_map (get_subclasses k U) ds
  end.

(* ------------------------------------------------------------------ 2. instances *)

Fixpoint assoc_val (k : text) (names : list text) (vals : list val) : val :=
  match names, vals with
  | n :: ns, v :: vs => if text_eqb n k then v else assoc_val k ns vs
  | _, _ => VNone
  end.
(** getattr(inst, k, None) on an instance [VObj d fs]: the attribute named [k], None when the
    instance's class has no such member *)
Definition inst_get (U : universe) (d : cid) (fs : list val) (k : text) : val :=
  match flat_fields U d with
  | Some ffs => assoc_val k (map f_name ffs) fs
  | None => VNone
  end.

(* ------------------------------------------------------------------ 3. get_polymorphic_target *)

(** ProtocolMixin.get_polymorphic_target as a decision over four facts (polymorphic; inst.__class__ is the
    class the declared one originates from; isinstance of it; no polymap entry for the instance's class):
    GDecl = (cls, False), GInst = (inst.__class__, True), GMap = (the polymap entry, True).
    harness/translate/c16shape.py regenerates this function from the normalised source as [gpt_src];
    Props/C16.v proves the two equal and that [poly_target] below is this decision with the default (empty) polymap. *)
Inductive gpt_res := GDecl | GInst | GMap.
Definition gpt_decide (poly same_cls is_inst map_none : bool) : gpt_res :=
  if negb poly then GDecl
  else if same_cls then GDecl
  else if negb is_inst then GDecl
  else if map_none then GInst else GMap.

(** returns (class used for serialisation, add_type).  [c] is the declared class (`cls.__orig__ or
    cls`), [d] is inst.__class__; the polymap is empty (its default). *)
Definition poly_target (S0 : xshape) (poly : bool) (U : universe) (c d : cid) : cid * bool :=
  if negb poly then (c, false)
  else if sh_gpt_same_skip S0 && Nat.eqb d c then (c, false)
  else if sh_gpt_isinstance S0 && negb (is_subclass U d c) then (c, false)
  else (d, true).

(* ------------------------------------------------------------------ 4. the interface: prefixes and class registry *)

Definition rkey := (text * text)%type.                  (* '{ns}name' *)
Definition registry := list (rkey * ty).                (* Interface.classes, insertion order *)

Definition rkey_eqb (a b : rkey) : bool := text_eqb (fst a) (fst b) && text_eqb (snd a) (snd b).
Fixpoint reg_find (reg : registry) (k : rkey) : option ty :=
  match reg with
  | [] => None
  | (k', t) :: r => if rkey_eqb k' k then Some t else reg_find r k
  end.
Definition has_key (reg : registry) (k : rkey) : bool := match reg_find reg k with Some _ => true | None => false end.

Definition prim_name (p : prim) : text :=
  match p with PInt => t_integer | PText => t_string | PBool => t_boolean end.

Section Iface.
  Variable S0 : xshape.
  Variable U : universe.
  Variable tns : text.

  Definition xc0 : xcfg := mkxcfg false (Some tns) false (fun _ => None).

  (** '{%s}%s' % (cls.get_namespace(), cls.get_type_name()) *)
  Definition key_of (t : ty) : rkey :=
    match t with
    | TPrim p => (xsd_ns, prim_name p)
    | TRef c => (cls_ns U c, cls_name U c)
    | TArr e => (arr_ns xc0 U e, type_name U (TArr e))
    end.

  Fixpoint fold_opt {A B} (f : B -> A -> option B) (l : list A) (b : B) : option B :=
    match l with
    | [] => Some b
    | x :: r => match f b x with Some b' => fold_opt f r b' | None => None end
    end.

  (** Interface.add_class(cls, add_parent).  has_class is the key test (a clash between
      different classes raises ValueError in the source; universes with clashing keys are
      excluded by [keys_ok]).  Fuel exhaustion is None. *)
  Fixpoint add_ty (fuel : nat) (t : ty) (add_parent : bool) (reg : registry) : option registry :=
    match fuel with
    | O => None
    | S k =>
        if has_key reg (key_of t) then Some reg
        else
          let reg1 := reg ++ [(key_of t, t)] in
          match t with
          | TPrim _ => Some reg1
          | TArr e => add_ty k e true reg1                                   (* the single member of Array(e) *)
          | TRef c =>
              match get_cls U c with
              | None => None
              | Some cl =>
                  match (if add_parent
                         then match c_parent cl with
                              | Some p => add_ty k (TRef p) true reg1
                              | None => Some reg1
                              end
                         else Some reg1) with
                  | None => None
                  | Some reg2 =>
                      match fold_opt (fun r f => add_ty k (f_ty f) true r) (c_own cl) reg2 with
                      | None => None
                      | Some reg3 =>
                          fold_opt (fun r s =>
                                      if Bool.eqb (text_eqb (cls_ns U s) (cls_ns U c)) (sh_sub_same_ns S0)
                                      then add_ty k (TRef s) false r
                                      else Some r)
                                   (direct_subs U c) reg3
                      end
                  end
              end
          end
    end.

  (** populate_interface: add_class on the message classes of every method, in order *)
  Definition populate (fuel : nat) (roots : list cid) : option registry :=
    fold_opt (fun r c => add_ty fuel (TRef c) true r) roots [].
End Iface.

(** XmlDocument._get_xsi_target(cls, newclass, xsi_type) as a decision over five facts about the
    declared class and the registered class the marker names (sup / sub are their __orig__s):
    None = ValidationError, Some false = keep the DECLARED class (with its customisation),
    Some true = take the registered class.  harness/translate/c16shape.py regenerates this
    function from the source as [xsi_target_src]; Props/C16.v proves the two equal. *)
Definition xsi_decide (same_orig sup_array same_key sup_complex sub_of : bool) : option bool :=
  if same_orig then (if sup_array && negb same_key then None else Some false)
  else if negb sup_complex || sup_array || negb sub_of then None else Some true.

Definition prim_eqb (p q : prim) : bool :=
  match p, q with PInt, PInt | PText, PText | PBool, PBool => true | _, _ => false end.

(** the five facts for modelled types: Integer / Unicode / Boolean are unrelated classes; every
    Array(X) class has __orig__ = Array (a ComplexModelBase subclass), so two array types have
    the same origin and are told apart by namespace and type name; user classes are related by
    Python subclassing *)
Definition xsi_target (U : universe) (tns : text) (decl new : ty) : option ty :=
  let same_orig := match decl, new with
                   | TPrim p, TPrim q => prim_eqb p q
                   | TRef c, TRef c' => Nat.eqb c c'
                   | TArr _, TArr _ => true
                   | _, _ => false
                   end in
  let sup_array := match decl with TArr _ => true | _ => false end in
  let same_key := rkey_eqb (key_of U tns decl) (key_of U tns new) in
  let sup_complex := match decl with TPrim _ => false | _ => true end in
  let sub_of := match decl, new with
                | TRef c, TRef c' => is_subclass U c' c
                | TArr _, TArr _ => true
                | _, _ => false
                end in
  match xsi_decide same_orig sup_array same_key sup_complex sub_of with
  | None => None
  | Some false => Some decl
  | Some true => Some new
  end.

(* ------------------------------------------------------------------ 5. XML with namespace scopes *)

(** namespace declarations are attributes in the xmlns namespace (as in the infoset):
    (xmlns_ns, prefix, uri); prefix [] is the default namespace *)
Definition scope := list (text * text).                 (* element.nsmap, innermost first *)
Definition is_decl (a : attr) : bool := text_eqb (fst (fst a)) xmlns_ns.
Definition decls_of (atts : list attr) : scope :=
  map (fun a : attr => (snd (fst a), snd a)) (filter is_decl atts).
Definition real_atts (atts : list attr) : list attr := filter (fun a => negb (is_decl a)) atts.
Fixpoint scope_get (sc : scope) (p : text) : option text :=
  match sc with
  | [] => None
  | (p', u) :: r => if text_eqb p' p then Some u else scope_get r p
  end.

(** xsi_type.split(':', 1) when ':' in xsi_type *)
Fixpoint split_colon (s : text) : option (text * text) :=
  match s with
  | [] => None
  | c :: r => if c =? 58 then Some ([], r)
              else match split_colon r with
                   | Some (a, b) => Some (c :: a, b)
                   | None => None
                   end
  end.
(** prefix, objtype -> '{%s}%s' % (element.nsmap.get(prefix), objtype); None: nsmap has no such prefix *)
Definition resolve_qname (sc : scope) (q : text) : option rkey :=
  match split_colon q with
  | None => match scope_get sc [] with Some ns => Some (ns, q) | None => None end
  | Some ([], _) => None                                 (* '' is never a key of nsmap *)
  | Some (p, local) => match scope_get sc p with Some ns => Some (ns, local) | None => None end
  end.

Record pcfg := mkpcfg {
  p_soft : bool;                 (* validator='soft' *)
  p_tns : text;                  (* Application.tns *)
  p_poly : bool;                 (* XmlDocument(polymorphic=...) *)
  p_parse_xsi : bool;            (* XmlDocument(parse_xsi_type=...) *)
  p_pm : text -> text;           (* Interface.get_namespace_prefix *)
  p_reg : registry;              (* Interface.classes *)
  p_unres : list (text * text) }.
  (* (namespace, name) of the Array-typed members whose Array class has no namespace: the namespace of an
     Array(T) class is assigned (global, on the class object) when resolve_namespace reaches the class that
     declares the member -- message classes, everything add_class visits, their direct subclasses and what
     those refer to.  A member declared in a class no application ever reached (e.g. below a subclass placed
     in another namespace) keeps None and its items are written without a namespace.  That reachability is
     not modelled: the list is an input of every case, read from the implementation's classes; the theorems
     hold for any list, from_element does not look at the names of array items. *)

Definition colon : Z := 58.

Section XmlPoly.
  Variable S0 : xshape.
  Variable L : leaf_codec.
  Variable C : pcfg.
  Variable U : universe.

  Definition xc : xcfg := mkxcfg (p_soft C) (Some (p_tns C)) (p_poly C) (fun _ => None).

  (** cls.get_namespace() of the Array class serialised as element {ns}name *)
  Definition item_ns (ns name : text) (e : ty) : text :=
    if existsb (fun p : text * text => text_eqb (fst p) ns && text_eqb (snd p) name) (p_unres C) then []
    else arr_ns xc U e.

  (** cls.get_type_name_ns(interface) and the declaration that goes with it *)
  Definition type_marker (d : cid) : list attr :=
    let pfx := p_pm C (cls_ns U d) in
    (xsi_ns, t_type, pfx ++ colon :: cls_name U d)
    :: (if sh_type_decl S0 && sh_type_keep S0 then [(xmlns_ns, pfx, cls_ns U d)] else []).

  (** the members written for class [tgt]: _get_members_etree walks the __extends__ chain (parent
      first) and then cls._type_info, each member in the namespace of the class that declares it *)
  Fixpoint members_fuel (fuel : nat) (c : cid) : option (list (text * field)) :=
    match fuel with
    | O => None
    | S k =>
        match get_cls U c with
        | None => None
        | Some cl =>
            let own := map (fun f => (c_ns cl, f)) (c_own cl) in
            match c_parent cl with
            | None => Some own
            | Some p => match members_fuel k p with
                        | Some pf => Some (if sh_xml_parent_first S0 then pf ++ own else own ++ pf)
                        | None => None
                        end
            end
        end
    end.
  Definition members_of (tgt : cid) : option (list (text * field)) := members_fuel (S tgt) tgt.

  (** XmlDocument.to_parent *)
  Fixpoint penc (fuel : nat) (t : ty) (ns name : text) (v : val) : out xnode :=
    match fuel with
    | O => Crash OtherExn
    | S k =>
        match v with
        | VNone => Ok (XElt ns name [nil_att] None [])                     (* null_to_parent *)
        | VLeaf pv =>
            match t with
            | TPrim p => do s <- lc_pr L p pv; Ok (XElt ns name [] (Some s) [])   (* modelbase_to_parent *)
            | _ => Crash TypeError
            end
        | VList xs =>
            match t with
            | TArr e =>                                                    (* Array: one unbounded member *)
                do kids <- mapM (penc k e (item_ns ns name e) (type_name U e)) xs;
                Ok (XElt ns name [] None kids)
            | _ => Crash TypeError
            end
        | VObj d fs =>
            match t with
            | TRef c =>
                let '(tgt, add_type) := poly_target S0 (p_poly C) U c d in
                match members_of tgt with
                | None => Crash KeyError
                | Some ffs =>
                    do r <- enc_members L (penc k) ffs (map (fun nf : text * field => inst_get U d fs (f_name (snd nf))) ffs);
                    Ok (XElt ns name ((if add_type then type_marker d else []) ++ snd r) None (fst r))
                end
            | _ => Crash TypeError
            end
        end
    end.

  (** the xsi:type hook of from_element: the class used from here on.  With the helper in place
      (sh_xsi_guard) the decision is _get_xsi_target's; without it the registered class is taken as is. *)
  Definition retarget (sc : scope) (atts : list attr) (t : ty) : out ty :=
    if negb (p_parse_xsi C) then Ok t
    else match lookup_att xsi_ns t_type atts with
         | None => Ok t
         | Some q =>
             match resolve_qname sc q with
             | None => VFault                                              (* prefix not in nsmap *)
             | Some key =>
                 match reg_find (p_reg C) key with
                 | None => VFault                                          (* not in interface.classes *)
                 | Some t' =>
                     if sh_xsi_guard S0
                     then match xsi_target U (p_tns C) t t' with Some t'' => Ok t'' | None => VFault end
                     else Ok t'
                 end
             end
         end.

  (** XmlDocument.from_element under the namespace scope [sc] of the parent *)
  Fixpoint pdec (fuel : nat) (sc : scope) (t : ty) (nillable : bool) (e : xnode) : out val :=
    match fuel with
    | O => Crash OtherExn
    | S k =>
        match e with
        | XOther => Crash AttributeError
        | XElt _ _ atts0 txt kids =>
            let sc' := decls_of atts0 ++ sc in                             (* element.nsmap *)
            let atts := real_atts atts0 in                                 (* element.attrib *)
            if is_nil atts then
              (if p_soft C && negb nillable then VFault else Ok VNone)
            else
              do t' <- retarget sc' atts t;
              (* soft validation of a primitive: ModelBase.validate_string = nillable or text is not None;
                 a primitive is never replaced by the registered class, so the nillable is the declared one *)
              let text_ok := negb (p_soft C) || nillable || match txt with Some _ => true | None => false end in
              match t' with
              | TPrim PText =>                                             (* unicode_from_element: no text is '' *)
                  do v <- lc_rd L PText (match txt with None => [] | Some s => s end); Ok (VLeaf v)
              | TPrim p =>                                                 (* base_from_element *)
                  if negb text_ok then VFault else
                  match txt with
                  | None => Ok VNone
                  | Some s => do v <- lc_rd L p s; Ok (VLeaf v)
                  end
              | TArr el =>                                                 (* array_from_element *)
                  do vs <- mapM (pdec k sc' el true) kids; Ok (VList vs)
              | TRef c =>                                                  (* complex_from_element *)
                  match flat_decl U c with
                  | None => Crash KeyError
                  | Some ffs =>
                      let fields := map snd ffs in
                      do r1 <- dec_kids (fun f => pdec k sc' (f_ty f) (f_nillable f)) fields kids [] [];
                      do r2 <- dec_atts L fields atts (fst r1) (snd r1);
                      if p_soft C && negb (freq_ok fields (snd r2)) then VFault
                      else Ok (VObj c (map (fun f => getattr (fst r2) (f_name f)) fields))
                  end
              end
        end
    end.

  (* ---- what a receiver sees of the type markers: for the correspondence and for "the marker
          resolves in the transmitted document" *)
  Inductive rmark := RUnbound | RQ (ns local : text).
  Definition rmark_eqb (a b : rmark) : bool :=
    match a, b with
    | RUnbound, RUnbound => true
    | RQ n1 l1, RQ n2 l2 => text_eqb n1 n2 && text_eqb l1 l2
    | _, _ => false
    end.
  (** resolution of every xsi:type value, in document order *)
  Fixpoint marks (fuel : nat) (sc : scope) (e : xnode) : list rmark :=
    match fuel with
    | O => []
    | S k =>
        match e with
        | XOther => []
        | XElt _ _ atts0 _ kids =>
            let sc' := decls_of atts0 ++ sc in
            (match lookup_att xsi_ns t_type (real_atts atts0) with
             | None => []
             | Some q => [match resolve_qname sc' q with Some (ns, l) => RQ ns l | None => RUnbound end]
             end) ++ flat_map (marks k sc') kids
        end
    end.
  (** the tree without its namespace declarations (lxml's attrib does not list them) *)
  Fixpoint strip_decls (e : xnode) : xnode :=
    match e with
    | XOther => XOther
    | XElt ns n atts t kids => XElt ns n (real_atts atts) t (map strip_decls kids)
    end.
End XmlPoly.

(* ------------------------------------------------------------------ 6. dict documents (JSON / YAML / MessagePack) *)

(** parsed documents; map keys are text (msgpack byte keys are decoded by key_encoding) *)
Inductive jv :=
| JNull | JBool (b : bool) | JInt (z : Z) | JStr (s : text)
| JList (l : list jv) | JMap (kv : list (text * jv)).

(** to_serstr / from_serstr of the primitive kinds for one protocol *)
Record hleaf := mkhleaf {
  hl_pr : prim -> pval -> out jv;
  hl_rd : prim -> jv -> out pval;
  hl_ok : prim -> pval -> bool }.

Fixpoint find_cid (f : cid -> bool) (l : list cid) : option cid :=
  match l with [] => None | x :: r => if f x then Some x else find_cid f r end.

Section Hier.
  Variable S0 : xshape.
  Variable H : hleaf.
  Variable poly : bool.           (* HierDictDocument(polymorphic=...) ; ignore_wrappers=False, complex_as=dict, validator=None *)
  Variable U : universe.

  (** one pair of _get_member_pairs: `if val is not None or min_o > 0` *)
  Definition h_field (encf : ty -> val -> out jv) (f : field) (x : val) : out (list (text * jv)) :=
    match x with
    | VNone => if 0 <? f_min f then Ok [(f_name f, JNull)] else Ok []
    | _ =>
        if is_multi f then                                 (* _object_to_doc: cls.Attributes.max_occurs > 1 *)
          match x with
          | VList xs => do l <- mapM (encf (f_ty f)) xs; Ok [(f_name f, JList l)]
          | _ => Crash TypeError
          end
        else do j <- encf (f_ty f) x; Ok [(f_name f, j)]
    end.
  Fixpoint h_members (encf : ty -> val -> out jv) (ffs : list field) (vals : list val) : out (list (text * jv)) :=
    match ffs with
    | [] => Ok []
    | f :: r => do a <- h_field encf f (hd VNone vals); do b <- h_members encf r (tl vals); Ok (a ++ b)
    end.

  (** _to_dict_value(cls, inst) for inst that is not None at member level *)
  Fixpoint h_enc (fuel : nat) (t : ty) (v : val) : out jv :=
    match fuel with
    | O => Crash OtherExn
    | S k =>
        match t with
        | TPrim p =>
            match v with
            | VLeaf pv => hl_pr H p pv
            | VNone => Ok JNull
            | _ => Crash TypeError
            end
        | TArr e =>                                          (* Array: _object_to_doc(st, inst) with st unbounded *)
            match v with
            | VNone => Ok JNull
            | VList xs => do l <- mapM (h_enc k e) xs; Ok (JList l)
            | _ => Crash TypeError
            end
        | TRef c =>
            match v with
            | VObj d fs =>
                let '(tgt, _) := poly_target S0 poly U c d in
                match flat_ti S0 U tgt with                  (* sort_fields(cls) = get_flat_type_info when no `order` *)
                | None => Crash KeyError
                | Some ffs =>
                    do ps <- h_members (h_enc k) ffs (map (fun f => inst_get U d fs (f_name f)) ffs);
                    Ok (JMap [(cls_name U tgt, JMap ps)])    (* {cls.get_type_name(): d} *)
                end
            | VNone =>                                       (* a None inside a list: every getattr(None, k, None) is None *)
                match flat_ti S0 U c with
                | None => Crash KeyError
                | Some ffs =>
                    do ps <- h_members (h_enc k) ffs (map (fun _ => VNone) ffs);
                    Ok (JMap [(cls_name U c, JMap ps)])
                end
            | _ => Crash TypeError
            end
        end
    end.

  (** the loop `for k, v in items` of _doc_to_object on a dict *)
  Fixpoint h_items (decf : field -> jv -> out val) (fields : list field) (kv : list (text * jv)) (st : pystate)
    : out pystate :=
    match kv with
    | [] => Ok st
    | (k, j) :: r =>
        match find_field k fields with
        | None => h_items decf fields r st                   (* unknown key: ignored *)
        | Some f =>
            if is_multi f then
              match j with
              | JList l =>
                  do cur <- as_list (getattr st k);
                  do vs <- mapM (decf f) l;
                  h_items decf fields r (setattr st k (VList (cur ++ vs)))
              | JMap _ | JStr _ => Crash OtherExn            (* iterating a dict / a string: outside the model *)
              | _ => Crash TypeError                         (* `for a in v` on None / a number *)
              end
            else do v <- decf f j; h_items decf fields r (setattr st k v)
        end
    end.

  (** wrapper-key class selection of _doc_to_object (hier.py:278-297) *)
  Definition h_select (c : cid) (class_name : text) : out cid :=
    let subs := get_subclasses (S (length U)) U c in
    if negb (text_eqb (cls_name U c) class_name) && negb (Nat.eqb (length subs) 0) then
      match find_cid (fun s => text_eqb (cls_name U s) class_name) subs with
      | None => VFault                                       (* not registered as a subclass *)
      | Some s => if is_subclass U s c then Ok s else VFault
      end
    else Ok c.

  (** _from_dict_value(cls, inst) / _doc_to_object(cls, doc), validator None *)
  Fixpoint h_dec (fuel : nat) (t : ty) (j : jv) : out val :=
    match fuel with
    | O => Crash OtherExn
    | S k =>
        match t with
        | TPrim p =>
            match j with
            | JNull => Ok VNone
            | _ => do v <- hl_rd H p j; Ok (VLeaf v)
            end
        | TArr e =>
            match j with
            | JNull => Ok VNone                              (* _from_dict_value: a null member is None *)
            | JList l => do vs <- mapM (h_dec k e) l; Ok (VList vs)
            | JMap _ | JStr _ => Crash OtherExn              (* iterable, element-wise junk: outside the model *)
            | _ => VFault                                    (* not isinstance(doc, AbcIterable) *)
            end
        | TRef c =>
            match j with
            | JNull => Ok VNone                              (* _from_dict_value: a null member is None *)
            | JMap [] => Ok VNone                            (* len(doc) == 0 *)
            | JMap [(class_name, inner)] =>
                do c' <- h_select c class_name;
                match flat_ti S0 U c' with
                | None => Crash KeyError
                | Some fields =>
                    match inner with
                    | JMap kv =>
                        do st <- h_items (fun f => h_dec k (f_ty f)) fields kv [];
                        Ok (VObj c' (map (fun f => getattr st (f_name f)) fields))
                    | JList _ | JStr _ => Crash OtherExn     (* positional form: outside the model *)
                    | _ => VFault                            (* zip(keys, doc) raises TypeError *)
                    end
                end
            | JMap _ => VFault                               (* more than one entry in a wrapper dict *)
            | _ => VFault                                    (* wrapper documents must be dicts *)
            end
        end
    end.
End Hier.

(* ------------------------------------------------------------------ 7. the property's vocabulary *)

Definition is_elem (f : field) : bool := match f_kind f with KElem => true | KAttr => false end.

(** every member is an ordinary element member (XmlAttribute members are outside C16's universes) *)
Definition elem_only (U : universe) : bool := forallb (fun cl => forallb is_elem (c_own cl)) U.

(** subclasses live in the namespace of their base: the only placement the interface registers *)
Definition same_ns_tree (U : universe) : bool :=
  forallb (fun cl => match c_parent cl with
                     | Some p => text_eqb (c_ns cl) (cls_ns U p)
                     | None => true
                     end) U.

(** class [d] is in Interface.classes under its own key *)
Definition registered (reg : registry) (U : universe) (d : cid) : bool :=
  match reg_find reg (cls_ns U d, cls_name U d) with
  | Some (TRef d') => Nat.eqb d' d
  | _ => false
  end.

(** what get_namespace_prefix returns: 'tns', 's<n>' or a well-known prefix: not empty, no colon *)
Definition pfx_ok (p : text) : bool :=
  match p with [] => false | _ => forallb (fun c => negb (c =? 58)) p end.

Section Vocab.
  Variable L : leaf_codec.
  Variable U : universe.
  Variable poly : bool.                 (* may an instance of a subclass stand where a class is declared? *)
  Variable regchk : cid -> bool.        (* is the runtime class known to the receiver (XML: registered in the interface) *)

  (** values that conform to a declared type under the published schema (Wire.Xml.field_conf:
      occurrence and nillable constraints, leaves in the domain of the leaf codec), with
      instances of subclasses allowed when [poly]; every member an element member *)
  Fixpoint pconf (fuel : nat) (t : ty) (v : val) : bool :=
    match fuel with
    | O => false
    | S k =>
        match v with
        | VNone => true
        | VLeaf p => match t with TPrim q => prim_has q p && lc_ok L q p | _ => false end
        | VList vs => match t with TArr e => forallb (pconf k e) vs | _ => false end
        | VObj d fs =>
            match t with
            | TRef c =>
                (if poly then is_subclass U d c && (Nat.eqb d c || regchk d) else Nat.eqb d c)
                && match flat_fields U d with
                   | Some ffs => Nat.eqb (length ffs) (length fs)
                                 && forallb (fun fv => is_elem (fst fv) && field_conf (pconf k) (fst fv) (snd fv))
                                            (combine ffs fs)
                   | None => false
                   end
            | _ => false
            end
        end
    end.

  (** the identifications of the property (Wire.Xml.norm_field: an empty unwrapped sequence is
      None), keeping the runtime class of every object *)
  Fixpoint pnorm (fuel : nat) (t : ty) (v : val) : val :=
    match fuel with
    | O => v
    | S k =>
        match t, v with
        | TArr e, VList xs => VList (map (pnorm k e) xs)
        | TRef c, VObj d fs =>
            match flat_fields U d with
            | Some ffs => VObj d (norm_fields (pnorm k) ffs fs)
            | None => v
            end
        | _, _ => v
        end
    end.

  (** the declared class's projection of a value: at every position only the members of the
      declared class, as an instance of the declared class *)
  Definition project_field (rec : ty -> val -> val) (f : field) (x : val) : val :=
    if is_multi f then
      match x with
      | VList xs => VList (map (rec (f_ty f)) xs)
      | _ => x
      end
    else rec (f_ty f) x.
  Fixpoint project_fields (rec : ty -> val -> val) (ffs : list field) (vals : list val) : list val :=
    match ffs, vals with
    | f :: r, x :: xs => project_field rec f x :: project_fields rec r xs
    | _, _ => []
    end.
  Fixpoint project (fuel : nat) (t : ty) (v : val) : val :=
    match fuel with
    | O => v
    | S k =>
        match t, v with
        | TArr e, VList xs => VList (map (project k e) xs)
        | TRef c, VObj d fs =>
            match flat_fields U c with
            | Some fc => VObj c (project_fields (project k) fc fs)
            | None => v
            end
        | _, _ => v
        end
    end.
End Vocab.

(** dict documents: the classes a wrapper key is looked up in have distinct type names
    (the interface refuses two classes with one key; subclasses share their base's namespace) *)
Definition sub_names_ok (U : universe) : bool :=
  forallb (fun c => nodup_text (map (cls_name U) (c :: get_subclasses (S (length U)) U c))) (seq 0 (length U)).

Section HVocab.
  Variable H : hleaf.
  Variable U : universe.
  Variable poly : bool.

  Definition is_prim (t : ty) : bool := match t with TPrim _ => true | _ => false end.

  (** one member of a dict document: an explicit null is written only for min_occurs > 0; a null
      max_occurs>1 member is not iterable, and a None where a class or an array is declared is kept
      out of the conformant values (inside a list it would be written as an empty object) *)
  Definition hfield_conf (rec : ty -> val -> bool) (f : field) (x : val) : bool :=
    match x with
    | VNone => if 0 <? f_min f then negb (is_multi f) && rec (f_ty f) VNone else true
    | _ => if is_multi f
           then match x with VList xs => forallb (rec (f_ty f)) xs | _ => false end
           else rec (f_ty f) x
    end.

  Fixpoint hconf (fuel : nat) (t : ty) (v : val) : bool :=
    match fuel with
    | O => false
    | S k =>
        match v with
        | VNone => is_prim t                  (* None inside a list / at top level: only a primitive's null survives *)
        | VLeaf p => match t with TPrim q => prim_has q p && hl_ok H q p | _ => false end
        | VList vs => match t with TArr e => forallb (hconf k e) vs | _ => false end
        | VObj d fs =>
            match t with
            | TRef c =>
                (if poly then is_subclass U d c else Nat.eqb d c)
                && match flat_fields U d with
                   | Some ffs => Nat.eqb (length ffs) (length fs)
                                 && forallb (fun fv => hfield_conf (hconf k) (fst fv) (snd fv)) (combine ffs fs)
                   | None => false
                   end
            | _ => false
            end
        end
    end.
End HVocab.

(** structural equality of documents, for case files; maps compared as sets of pairs *)
Fixpoint jv_eqb (a b : jv) : bool :=
  match a, b with
  | JNull, JNull => true
  | JBool x, JBool y => Bool.eqb x y
  | JInt x, JInt y => x =? y
  | JStr x, JStr y => text_eqb x y
  | JList xs, JList ys =>
      (fix go (l1 l2 : list jv) : bool :=
         match l1, l2 with
         | [], [] => true
         | x :: r1, y :: r2 => jv_eqb x y && go r1 r2
         | _, _ => false
         end) xs ys
  | JMap xs, JMap ys =>
      Nat.eqb (length xs) (length ys)
      && (fix sub (l1 : list (text * jv)) : bool :=
            match l1 with
            | [] => true
            | (k, x) :: r1 =>
                (fix look (l2 : list (text * jv)) : bool :=
                   match l2 with
                   | [] => false
                   | (k2, y) :: r2 => (text_eqb k k2 && jv_eqb x y) || look r2
                   end) ys && sub r1
            end) xs
  | _, _ => false
  end.

Definition ty_eqb_top (a b : ty) : bool :=
  (fix go (a b : ty) : bool :=
     match a, b with
     | TPrim p, TPrim q => prim_eqb p q
     | TRef c, TRef d => Nat.eqb c d
     | TArr x, TArr y => go x y
     | _, _ => false
     end) a b.

(** the types a program mentions: its classes, their parents, the types of their members and
    the element types of arrays *)
Fixpoint subterms (t : ty) : list ty :=
  t :: match t with TArr e => subterms e | _ => [] end.
Definition cls_types (i : cid) (cl : cls) : list ty :=
  TRef i :: (match c_parent cl with Some p => [TRef p] | None => [] end)
         ++ flat_map (fun f => subterms (f_ty f)) (c_own cl).
Definition all_types (U : universe) : list ty :=
  flat_map (fun i => match get_cls U i with Some cl => cls_types i cl | None => [] end) (seq 0 (length U)).

(** distinct types of the program have distinct keys '{ns}name' (otherwise Interface.has_class
    raises ValueError when the application is built) *)
Definition keys_ok (U : universe) (tns : text) : bool :=
  let ts := all_types U in
  forallb (fun t => forallb (fun t' => implb (rkey_eqb (key_of U tns t) (key_of U tns t')) (ty_eqb_top t t')) ts) ts.

(** registries compared as finite maps *)
Definition reg_sub (a b : registry) : bool :=
  forallb (fun e : rkey * ty => match reg_find b (fst e) with Some t => ty_eqb_top t (snd e) | None => false end) a.
Definition reg_eqb (a b : registry) : bool := reg_sub a b && reg_sub b a.

Definition marks_eqb (a b : list rmark) : bool :=
  Nat.eqb (length a) (length b) && forallb (fun p => rmark_eqb (fst p) (snd p)) (combine a b).
