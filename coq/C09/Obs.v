(** C09 — boolean comparisons used by the correspondence case files (definitions only). *)
From SpyneV Require Import Base.Prelude Gen.FaultTables C09.Model.
Open Scope Z_scope.

Definition attr_eqb (a b : text * text * text) : bool :=
  text_eqb (fst (fst a)) (fst (fst b)) && text_eqb (snd (fst a)) (snd (fst b)) && text_eqb (snd a) (snd b).

Fixpoint list_eqb {A} (e : A -> A -> bool) (a b : list A) : bool :=
  match a, b with
  | [], [] => true
  | x :: a', y :: b' => e x y && list_eqb e a' b'
  | _, _ => false
  end.

Fixpoint xml_eqb (a b : xml) : bool :=
  match a, b with
  | Elt n1 m1 a1 t1 k1, Elt n2 m2 a2 t2 k2 =>
    text_eqb n1 n2 && text_eqb m1 m2 && list_eqb attr_eqb a1 a2 && text_eqb t1 t2 &&
    (fix go (l : list xml) (r : list xml) : bool :=
       match l, r with
       | [], [] => true
       | x :: l', y :: r' => xml_eqb x y && go l' r'
       | _, _ => false
       end) k1 k2
  end.

(** documents: dicts compared as finite maps (keys are unique on both sides) *)
Fixpoint doc_eqb (a b : doc) : bool :=
  match a, b with
  | JNull, JNull => true
  | JStr s, JStr s' => text_eqb s s'
  | JInt z, JInt z' => z =? z'
  | JDict l, JDict r =>
    (length l =? length r)%nat &&
    (fix go (l : list (text * doc)) : bool :=
       match l with
       | [] => true
       | (k, v) :: l' => match lookup k r with Some v' => doc_eqb v v' | None => false end && go l'
       end) l
  | JList l, JList r =>
    (fix go (l r : list doc) : bool :=
       match l, r with
       | [], [] => true
       | x :: l', y :: r' => doc_eqb x y && go l' r'
       | _, _ => false
       end) l r
  | _, _ => false
  end.

Definition wire_eqb (a b : wire) : bool :=
  match a, b with
  | WXml x, WXml y => xml_eqb x y
  | WDoc x, WDoc y => doc_eqb x y
  | WText x, WText y => text_eqb x y
  | WReturn x, WReturn y => text_eqb x y
  | _, _ => false
  end.

Definition resp_eqb (a b : Z * wire) : bool := (fst a =? fst b) && wire_eqb (snd a) (snd b).

Fixpoint dval_eqb (a b : dval) : bool :=
  match a, b with
  | DNone, DNone => true
  | DStr s, DStr s' => text_eqb s s'
  | DDict l, DDict r =>
    (fix go (l r : list (text * dval)) : bool :=
       match l, r with
       | [], [] => true
       | (k, v) :: l', (k', v') :: r' => text_eqb k k' && dval_eqb v v' && go l' r'
       | _, _ => false
       end) l r
  | _, _ => false
  end.

Definition detail_eqb (a b : option (list (text * dval))) : bool :=
  match a, b with
  | None, None => true
  | Some l, Some r => dval_eqb (DDict l) (DDict r)
  | _, _ => false
  end.

Definition fobs_eqb (a b : fobs) : bool :=
  text_eqb (o_code a) (o_code b) && text_eqb (o_string a) (o_string b) && detail_eqb (o_detail a) (o_detail b).

Definition ofobs_eqb (a b : option fobs) : bool :=
  match a, b with None, None => true | Some x, Some y => fobs_eqb x y | _, _ => false end.

(** what the correspondence compares *)
Definition wsgi_ok (c : prot * ucode * out (Z * wire)) : bool :=
  let '(p, u, obs) := c in out_eqb resp_eqb (handle_rpc p u) obs.
Definition server_ok (c : prot * ucode * out wire) : bool :=
  let '(p, u, obs) := c in out_eqb wire_eqb (server_out p u) obs.
Definition dec_ok (c : prot * wire * option fobs) : bool :=
  let '(p, w, obs) := c in ofobs_eqb (dec_fault p w) obs.
Definition client_ok (c : prot * wire * option fobs) : bool :=
  let '(p, w, obs) := c in ofobs_eqb (client_in_error p w) obs.
