(** C09 — lemmas about the fault-path model. *)
From Coq Require Import ZArith List Bool Lia String.
From SpyneV Require Import Base.Prelude Gen.FaultTables C09.Model.
Open Scope Z_scope.

(* ------------------------------------------------------------------ small facts *)
Lemma text_eqb_refl : forall a, text_eqb a a = true.
Proof. induction a; simpl; auto. rewrite Z.eqb_refl, IHa. reflexivity. Qed.

Lemma text_eqb_eq : forall a b, text_eqb a b = true -> a = b.
Proof.
  induction a; destruct b; simpl; intros H; try discriminate; auto.
  apply andb_true_iff in H. destruct H as [H1 H2]. apply Z.eqb_eq in H1. subst. f_equal. auto.
Qed.

(* ------------------------------------------------------------------ the funnel *)
Definition not_redirect (r : raise) : Prop :=
  match r with RFault f => isinstance f E_Redirect = false | RExn _ => True end.

Definition reported (r : raise) : fault :=
  match r with RFault f => f | RExn _ => internal_error end.

Lemma server_fault_generic : forall e, server_fault (t "Server") e = internal_error.
Proof. intros. reflexivity. Qed.

Lemma catch_first_raise : forall r, not_redirect r -> catch funnel_handlers r = Ok (Some (reported r)).
Proof.
  intros [f | e] H; simpl in *.
  - unfold funnel_handlers. simpl. rewrite H. reflexivity.
  - reflexivity.
Qed.

Lemma handle_rpc_first_raise : forall p u r,
  first_raise u = Some r -> not_redirect r -> handle_rpc p u = handle_error p None (reported r).
Proof.
  intros p [c b r'] r H Hn. unfold first_raise in H. simpl in H.
  unfold handle_rpc, process_request, funnel_steps. cbn [run_steps u_call u_body u_ret].
  destruct c as [rc |].
  - inversion H; subst. rewrite (catch_first_raise _ Hn). reflexivity.
  - destruct b as [rb | v].
    + inversion H; subst. rewrite (catch_first_raise _ Hn). reflexivity.
    + destruct r' as [rr |].
      * inversion H; subst. rewrite (catch_first_raise _ Hn). reflexivity.
      * destruct v as [v | v [l |] | r0]; try discriminate.
        inversion H; subst. cbn. destruct r as [f | e]; reflexivity.
Qed.

(* ------------------------------------------------------------------ HTTP status *)
Lemma client_test_eq : forall c,
  (existsb (fun p => starts_with p c) http_client_prefixes || existsb (text_eqb c) http_client_exacts)
  = client_code c.
Proof.
  intros. unfold client_code, http_client_prefixes, http_client_exacts. cbn [existsb].
  rewrite !orb_false_r. rewrite orb_comm. reflexivity.
Qed.

Lemma http_code_documented : forall p f, http_code p f = documented_status p f.
Proof.
  intros p f. unfold http_code, documented_status, http_code_base.
  rewrite client_test_eq. unfold http_isinstance_chain. cbn [chain_lookup]. unfold isinstance.
  destruct (client_code (f_code f)); destruct p; destruct (f_root f); reflexivity.
Qed.

Lemma handle_error_status : forall p f st w,
  handle_error p None f = Ok (st, w) -> st = documented_status p f /\ enc_fault p f = Ok w.
Proof.
  intros p f st w. unfold handle_error. rewrite http_code_documented.
  destruct (enc_fault p f); intros H; inversion H; auto.
Qed.

Lemma builtin_classified : forall c code s a d l,
  ecls_code c = Some code -> c <> E_Redirect ->
  let f := Build_fault c code s a d l in
  (client_code code = true -> 400 <= http_code PXml f < 500) /\
  (client_code code = false -> http_code PXml f = 500).
Proof.
  intros c code s a d l H Hr. destruct c; cbn in H; try discriminate H; try congruence;
    injection H as <-; cbv zeta; split; intros Hc; vm_compute in Hc; try discriminate Hc;
    match goal with |- context [http_code ?p ?f] => set (h := http_code p f); vm_compute in h; subst h end; lia.
Qed.

(* ------------------------------------------------------------------ dict documents *)
Section dval_ind.
  Variable P : dval -> Prop.
  Hypothesis HNone : P DNone.
  Hypothesis HStr : forall s, P (DStr s).
  Hypothesis HDict : forall kvs, Forall (fun kv => P (snd kv)) kvs -> P (DDict kvs).
  Fixpoint dval_ind' (d : dval) : P d :=
    match d with
    | DNone => HNone
    | DStr s => HStr s
    | DDict kvs => HDict kvs ((fix go (l : list (text * dval)) : Forall (fun kv => P (snd kv)) l :=
                                 match l with
                                 | [] => Forall_nil _
                                 | (k, v) :: r => Forall_cons (k, v) (dval_ind' v) (go r)
                                 end) kvs)
    end.
End dval_ind.

Lemma doc_dv_roundtrip : forall v, doc_to_dv (dv_to_doc v) = Some v.
Proof.
  induction v using dval_ind'; try reflexivity.
  cbn [dv_to_doc doc_to_dv].
  match goal with |- match ?X with _ => _ end = _ => assert (E : X = Some kvs) end.
  { induction kvs as [| [k v] r IH]; [reflexivity |].
    inversion H; subst. cbn in H2. rewrite H2. rewrite (IH H3). reflexivity. }
  rewrite E. reflexivity.
Qed.

Definition is_dict_prot (p : prot) : bool :=
  match p with PJson | PYaml | PMsgpack | PMsgpackRpc => true | _ => false end.

Lemma dec_fault_to_dict : forall f,
  dec_fault_dict (fault_to_dict f) =
  Some {| o_code := f_code f; o_string := f_string f; o_detail := f_detail f |}.
Proof.
  intros f. unfold fault_to_dict, dec_fault_dict.
  destruct (negb (length (f_actor f) =? 0)%nat || negb ignore_empty_faultactor);
    destruct (f_detail f) as [kvs |]; cbn [app lookup];
    repeat (match goal with |- context [text_eqb (t ?a) (t ?b)] =>
              let v := eval vm_compute in (text_eqb (t a) (t b)) in
              change (text_eqb (t a) (t b)) with v end; cbn iota);
    try reflexivity.
  all: rewrite (doc_dv_roundtrip (DDict kvs)); reflexivity.
Qed.

Lemma fault_intact_dict : forall p f, is_dict_prot p = true ->
  exists w, enc_fault p f = Ok w /\ dec_fault p w = Some (expected_obs p f).
Proof.
  intros p f Hp. destruct p; try discriminate; eexists; (split; [reflexivity |]);
    cbn [dec_fault]; rewrite dec_fault_to_dict; reflexivity.
Qed.

(* ------------------------------------------------------------------ XML: detail dicts *)
Lemma mkE_ok : forall ns n txt k, xml_text_ok txt = true -> mkE ns n [] txt k = Ok (Elt ns n [] txt k).
Proof. intros. unfold mkE. rewrite H. reflexivity. Qed.

Lemma dv_to_elt_dict : forall k kvs,
  dv_to_elt k (DDict kvs) =
  if negb (xml_name_ok k) then Crash ValueError
  else do kids <- dict_to_etree kvs; Ok (Elt [] k [] [] kids).
Proof.
  intros. cbn [dv_to_elt]. destruct (negb (xml_name_ok k)); [reflexivity |].
  match goal with |- bind (?F kvs) _ = _ => assert (E : forall l, F l = dict_to_etree l) end.
  { induction l as [| [k' v'] r IH]; [reflexivity |]. cbn [dict_to_etree]. rewrite <- IH. reflexivity. }
  rewrite E. reflexivity.
Qed.

Lemma dv_ok_cons : forall k v r,
  dv_ok (DDict ((k, v) :: r)) = xml_name_ok k && dv_ok v && dv_ok (DDict r).
Proof. reflexivity. Qed.

Lemma elt_to_dv_kids : forall ns n a s k ks,
  elt_to_dv (Elt ns n a s (k :: ks)) = DDict (kids_to_detail (k :: ks)).
Proof.
  intros. cbn [elt_to_dv].
  match goal with |- DDict (_ :: ?F ks) = _ => assert (E : forall l, F l = kids_to_detail l) end.
  { induction l as [| x r IH]; [reflexivity |]. unfold kids_to_detail in *. cbn [map]. rewrite <- IH. reflexivity. }
  rewrite E. reflexivity.
Qed.

Definition xnorm_kvs (kvs : list (text * dval)) := map (fun kv => (fst kv, xnorm (snd kv))) kvs.

Lemma xnorm_dict_cons : forall kv r, xnorm (DDict (kv :: r)) = DDict (xnorm_kvs (kv :: r)).
Proof.
  intros [k v] r. cbn [xnorm].
  match goal with |- DDict (_ :: ?F r) = _ => assert (E : forall l, F l = xnorm_kvs l) end.
  { induction l as [| [k' v'] r' IH]; [reflexivity |]. unfold xnorm_kvs in *. cbn [map fst snd]. rewrite <- IH. reflexivity. }
  rewrite E. reflexivity.
Qed.

Definition elt_good (k : text) (v : dval) : Prop :=
  exists x, dv_to_elt k v = Ok x /\ x_name x = k /\ elt_to_dv x = xnorm v.

Lemma dict_to_etree_ok_aux : forall kvs,
  Forall (fun kv => forall k, xml_name_ok k = true -> dv_ok (snd kv) = true -> elt_good k (snd kv)) kvs ->
  dv_ok (DDict kvs) = true ->
  exists kids, dict_to_etree kvs = Ok kids /\ kids_to_detail kids = xnorm_kvs kvs /\ length kids = length kvs.
Proof.
  induction kvs as [| [k v] r IH]; intros HF Hok.
  - exists []. repeat split.
  - inversion HF; subst. rewrite dv_ok_cons in Hok.
    apply andb_true_iff in Hok. destruct Hok as [Hok Hr]. apply andb_true_iff in Hok. destruct Hok as [Hk Hv].
    destruct (H1 k Hk Hv) as [x [Ex [Nx Dx]]]. cbn [snd] in Ex, Dx. destruct (IH H2 Hr) as [kids [Ek [Dk Lk]]].
    exists (x :: kids). cbn [dict_to_etree]. rewrite Ex. cbn [bind]. rewrite Ek. cbn [bind].
    repeat split.
    + unfold kids_to_detail in *. cbn [map xnorm_kvs fst snd]. rewrite Nx, Dx. f_equal. exact Dk.
    + cbn [length]. congruence.
Qed.

Lemma dv_to_elt_ok : forall v k, xml_name_ok k = true -> dv_ok v = true -> elt_good k v.
Proof.
  induction v using dval_ind'; intros k Hk Hv; unfold elt_good.
  - exists (Elt [] k [] [] []). cbn [dv_to_elt]. rewrite Hk. repeat split.
  - exists (Elt [] k [] s []). cbn [dv_to_elt]. rewrite Hk. cbn [dv_ok] in Hv. rewrite Hv. repeat split.
  - destruct (dict_to_etree_ok_aux kvs H Hv) as [kids [Ek [Dk Lk]]].
    exists (Elt [] k [] [] kids). rewrite dv_to_elt_dict, Hk, Ek. cbn [negb bind]. repeat split.
    destruct kvs as [| kv r]; destruct kids as [| x ks]; try discriminate.
    + reflexivity.
    + rewrite elt_to_dv_kids, xnorm_dict_cons, Dk. reflexivity.
Qed.

Lemma dict_to_etree_ok : forall kvs, dv_ok (DDict kvs) = true ->
  exists kids, dict_to_etree kvs = Ok kids /\ kids_to_detail kids = xnorm_kvs kvs /\ length kids = length kvs.
Proof.
  intros kvs H. apply dict_to_etree_ok_aux; auto.
  apply Forall_forall. intros kv _ k Hk Hv. apply dv_to_elt_ok; auto.
Qed.

(* ------------------------------------------------------------------ XML: SOAP 1.1 / XmlDocument faults *)
Lemma xml_text_ok_app : forall a b, xml_text_ok (a ++ b) = xml_text_ok a && xml_text_ok b.
Proof. intros. unfold xml_text_ok. apply forallb_app. Qed.

Lemma xml_fault_ok_parts : forall f, xml_fault_ok f = true ->
  xml_text_ok (f_code f) = true /\ xml_text_ok (f_string f) = true /\ xml_text_ok (f_actor f) = true /\
  xml_text_ok (f_lang f) = true /\ detail_ok (f_detail f) = true.
Proof.
  intros f H. unfold xml_fault_ok in H. repeat (apply andb_true_iff in H; destruct H as [H ?]). auto.
Qed.

Lemma prefixed_ok : forall pre c, xml_text_ok pre = true -> xml_text_ok c = true ->
  xml_text_ok (pre ++ colon :: c) = true.
Proof.
  intros. rewrite xml_text_ok_app. change (colon :: c) with ([colon] ++ c).
  rewrite xml_text_ok_app, H, H0. reflexivity.
Qed.

Lemma local_part_pre11 : forall c, local_part (pre11 ++ colon :: c) = c.
Proof. intros. reflexivity. Qed.

Definition client_obs11 (f : fault) : fobs :=
  {| o_code := pre11 ++ colon :: f_code f; o_string := ctor_string (f_string f);
     o_detail := xnorm_detail (f_detail f) |}.

Lemma fault11_elt_ok : forall f, xml_fault_ok f = true ->
  exists x, fault11_elt f = Ok x /\ x_ns x = ns11 /\ x_name x = t "Fault" /\
            dec_fault11 x = Some (expected_obs PXml f) /\ client_fault11 x = Some (client_obs11 f).
Proof.
  intros f H. destruct (xml_fault_ok_parts f H) as [Hc [Hs [Ha [Hl Hd]]]].
  unfold fault11_elt.
  rewrite mkE_ok by (apply prefixed_ok; [reflexivity | exact Hc]).
  rewrite (mkE_ok _ _ _ _ Hs), (mkE_ok _ _ _ _ Ha). cbn [bind].
  unfold expected_obs, client_obs11. cbn [is_xml_prot].
  destruct (f_detail f) as [[| kv r] |] eqn:Ed; cbn [bind app xnorm_detail].
  - eexists. split; [reflexivity |]. repeat split.
  - destruct (dict_to_etree_ok (kv :: r) Hd) as [kids [Ek [Dk Lk]]]. rewrite Ek. cbn [bind app].
    eexists. split; [reflexivity |]. split; [reflexivity |]. split; [reflexivity |].
    unfold dec_fault11, client_fault11. cbn [x_ns x_name x_kids x_text find_child].
    split.
    + cbn. unfold kids_to_detail in Dk. rewrite Dk. reflexivity.
    + cbn. unfold kids_to_detail in Dk. rewrite Dk. reflexivity.
  - eexists. split; [reflexivity |]. repeat split.
Qed.

Lemma unwrap_envelope_ok : forall ns x, unwrap_envelope ns (envelope ns x) = Some x.
Proof.
  intros. unfold unwrap_envelope, envelope. cbn [x_ns x_name x_kids find_child].
  rewrite !text_eqb_refl. reflexivity.
Qed.

Definition is_xml11_prot (p : prot) : bool := match p with PXml | PSoap11 => true | _ => false end.

Lemma fault_intact_xml11 : forall p f, is_xml11_prot p = true -> xml_fault_ok f = true ->
  exists w, enc_fault p f = Ok w /\ dec_fault p w = Some (expected_obs p f).
Proof.
  intros p f Hp H. destruct (fault11_elt_ok f H) as [x [Ex [_ [_ [Dx _]]]]].
  destruct p; try discriminate; cbn [enc_fault]; rewrite Ex; cbn [bind]; eexists; (split; [reflexivity |]);
    cbn [dec_fault]; rewrite ?unwrap_envelope_ok; exact Dx.
Qed.

Lemma loopback_soap11 : forall f, xml_fault_ok f = true ->
  exists w, enc_fault PSoap11 f = Ok w /\ client_in_error PSoap11 w = Some (client_obs11 f).
Proof.
  intros f H. destruct (fault11_elt_ok f H) as [x [Ex [Nx [Mx [_ Cx]]]]].
  cbn [enc_fault]. rewrite Ex. cbn [bind]. eexists. split; [reflexivity |].
  cbn [client_in_error]. rewrite unwrap_envelope_ok, Nx, Mx, !text_eqb_refl. exact Cx.
Qed.

Lemma loopback_msgpackrpc : forall f,
  exists w, enc_fault PMsgpackRpc f = Ok w /\
            client_in_error PMsgpackRpc w =
            Some {| o_code := f_code f; o_string := ctor_string (f_string f); o_detail := f_detail f |}.
Proof.
  intros f. eexists. split; [reflexivity |]. cbn [client_in_error]. rewrite dec_fault_to_dict. reflexivity.
Qed.

(* ------------------------------------------------------------------ XML: SOAP 1.2 faults *)
Lemma join_dot_cons : forall c a l, join_dot (c :: a) l = c :: join_dot a l.
Proof. intros. destruct l; reflexivity. Qed.

Lemma split_dot_join : forall s, join_dot (fst (split_dot s)) (snd (split_dot s)) = s.
Proof.
  induction s as [| c s IH]; [reflexivity |]. cbn [split_dot].
  destruct (split_dot s) as [a l]. cbn [fst snd] in IH.
  destruct (c =? dot) eqn:E; cbn [fst snd].
  - apply Z.eqb_eq in E. rewrite E. cbn [join_dot app]. rewrite IH. reflexivity.
  - rewrite join_dot_cons, IH. reflexivity.
Qed.

Lemma split_dot_ok : forall s, xml_text_ok s = true ->
  xml_text_ok (fst (split_dot s)) = true /\ forallb xml_text_ok (snd (split_dot s)) = true.
Proof.
  induction s as [| c s IH]; intros H; [split; reflexivity |].
  cbn [xml_text_ok forallb] in H. apply andb_true_iff in H. destruct H as [Hc Hs].
  destruct (IH Hs) as [Ha Hl]. cbn [split_dot]. destruct (split_dot s) as [a l]. cbn [fst snd] in *.
  destruct (c =? dot); cbn [fst snd].
  - split; [reflexivity |]. cbn [forallb]. rewrite Ha, Hl. reflexivity.
  - split; [| exact Hl]. unfold xml_text_ok in *. cbn [forallb]. rewrite Hc, Ha. reflexivity.
Qed.

Lemma find_child_hd : forall ns n a tx k r, find_child ns n (Elt ns n a tx k :: r) = Some (Elt ns n a tx k).
Proof. intros. cbn [find_child x_ns x_name]. rewrite !text_eqb_refl. reflexivity. Qed.

Lemma find_child_skip : forall ns n x r,
  text_eqb (x_ns x) ns && text_eqb (x_name x) n = false -> find_child ns n (x :: r) = find_child ns n r.
Proof. intros. cbn [find_child]. rewrite H. reflexivity. Qed.

Definition value_elt (v : text) : xml := Elt ns12 (t "Value") [] v [].

Lemma subcode_chain_ok : forall segs, forallb xml_text_ok segs = true ->
  exists sub, subcode_chain segs = Ok sub /\
              forall ns n a tx v, subcode_values (Elt ns n a tx (value_elt v :: sub)) = segs.
Proof.
  induction segs as [| s r IH]; intros H.
  - exists []. split; [reflexivity |]. intros. reflexivity.
  - cbn [forallb] in H. apply andb_true_iff in H. destruct H as [Hs Hr].
    destruct (IH Hr) as [sub [Es Hsub]].
    exists [Elt ns12 (t "Subcode") [] [] (value_elt s :: sub)]. split.
    + cbn [subcode_chain]. rewrite (mkE_ok _ _ _ _ Hs), Es. reflexivity.
    + intros. specialize (Hsub ns12 (t "Subcode") [] [] s).
      cbn [subcode_values] in *. cbn [value_elt x_ns x_name x_kids find_child x_text] in *.
      change (text_eqb ns12 ns12) with true in *.
      change (text_eqb (t "Value") (t "Subcode")) with false in *.
      change (text_eqb (t "Subcode") (t "Subcode")) with true.
      change (text_eqb (t "Value") (t "Value")) with true.
      cbn [andb] in *. f_equal. exact Hsub.
Qed.

Definition client_code12 (f : fault) : text :=
  let '(first, rest) := split_dot (f_code f) in
  join_dot (pre12 ++ colon :: (if text_eqb first (t "Client") then t "Sender" else t "Receiver")) rest.

Definition client_obs12 (f : fault) : fobs :=
  {| o_code := client_code12 f; o_string := ctor_string (strip (f_string f));
     o_detail := xnorm_detail (f_detail f) |}.

Ltac skip_child := rewrite find_child_skip by reflexivity.

Lemma find_value_hd : forall v r, find_child ns12 (t "Value") (value_elt v :: r) = Some (value_elt v).
Proof. intros. unfold value_elt. apply find_child_hd. Qed.

Ltac walk12 sr :=
  unfold dec_fault12, client_fault12; cbn [x_ns x_name x_kids];
  change (text_eqb ns12 ns12) with true; change (text_eqb (t "Fault") (t "Fault")) with true;
  cbn [andb negb];
  fold (value_elt (pre12 ++ colon :: sr));
  repeat (first [rewrite find_value_hd | rewrite find_child_hd | skip_child]; cbn [x_kids]);
  cbn [find_child]; cbv beta iota; cbn [x_text value_elt x_kids].

Lemma fault12_elt_ok : forall f, xml_fault_ok f = true -> soap12_code_ok (f_code f) = true ->
  exists x, fault12_elt f = Ok x /\ x_ns x = ns12 /\ x_name x = t "Fault" /\
            dec_fault12 x = Some (expected_obs PSoap12 f) /\ client_fault12 x = Some (client_obs12 f).
Proof.
  intros f H Hcode. destruct (xml_fault_ok_parts f H) as [Hc [Hs [Ha [Hl Hd]]]].
  unfold fault12_elt, client_obs12, client_code12, soap12_code_ok in *.
  unfold mkE at 1. cbn [forallb]. unfold attr_ok. cbn [snd]. rewrite Hs, Hl. cbn [andb bind].
  rewrite (mkE_ok _ _ _ _ Ha). cbn [bind].
  pose proof (split_dot_join (f_code f)) as Hj. destruct (split_dot_ok _ Hc) as [_ Hrest].
  destruct (split_dot (f_code f)) as [first rest]. cbn [fst snd] in *. cbv beta iota.
  destruct (subcode_chain_ok rest Hrest) as [sub [Esub Hsub]].
  assert (Hcase : exists sr, xml_text_ok (pre12 ++ colon :: sr) = true /\ soap12_first (pre12 ++ colon :: sr) = first /\
            (if text_eqb first (t "Client") then Ok (pre12 ++ colon :: t "Sender")
             else if text_eqb first (t "Server") then Ok (pre12 ++ colon :: t "Receiver") else Crash TypeError)
            = Ok (pre12 ++ colon :: sr) /\
            join_dot (pre12 ++ colon :: (if text_eqb first (t "Client") then t "Sender" else t "Receiver")) rest
            = join_dot (pre12 ++ colon :: sr) rest).
  { destruct (text_eqb first (t "Client")) eqn:E1.
    - exists (t "Sender"). apply text_eqb_eq in E1. subst first. repeat split.
    - destruct (text_eqb first (t "Server")) eqn:E2; [| discriminate].
      exists (t "Receiver"). apply text_eqb_eq in E2. subst first. repeat split. }
  destruct Hcase as [sr [Hvok [Hfirst [Ev Ecc]]]]. rewrite Ev, Ecc. cbn [bind].
  rewrite (mkE_ok _ _ _ _ Hvok). cbn [bind]. rewrite Esub. cbn [bind].
  unfold expected_obs. cbn [is_xml_prot].
  destruct (f_detail f) as [[| kv r] |] eqn:Ed; cbn [bind app xnorm_detail].
  1, 3: eexists; split; [reflexivity |]; split; [reflexivity |]; split; [reflexivity |];
        walk12 sr; rewrite Hsub, Hfirst, Hj; split; reflexivity.
  destruct (dict_to_etree_ok (kv :: r) Hd) as [kids [Ek [Dk Lk]]]. rewrite Ek. cbn [bind app].
  eexists; split; [reflexivity |]; split; [reflexivity |]; split; [reflexivity |].
  walk12 sr. rewrite Hsub, Hfirst, Hj. unfold xnorm_kvs in Dk. rewrite Dk. split; reflexivity.
Qed.

Lemma fault_intact_soap12 : forall f, xml_fault_ok f = true -> soap12_code_ok (f_code f) = true ->
  exists w, enc_fault PSoap12 f = Ok w /\ dec_fault PSoap12 w = Some (expected_obs PSoap12 f).
Proof.
  intros f H Hc. destruct (fault12_elt_ok f H Hc) as [x [Ex [_ [_ [Dx _]]]]].
  cbn [enc_fault]. rewrite Ex. cbn [bind]. eexists. split; [reflexivity |].
  cbn [dec_fault]. rewrite unwrap_envelope_ok. exact Dx.
Qed.

Lemma loopback_soap12 : forall f, xml_fault_ok f = true -> soap12_code_ok (f_code f) = true ->
  exists w, enc_fault PSoap12 f = Ok w /\ client_in_error PSoap12 w = Some (client_obs12 f).
Proof.
  intros f H Hc. destruct (fault12_elt_ok f H Hc) as [x [Ex [Nx [Mx [_ Cx]]]]].
  cbn [enc_fault]. rewrite Ex. cbn [bind]. eexists. split; [reflexivity |].
  cbn [client_in_error]. rewrite unwrap_envelope_ok, Nx, Mx, !text_eqb_refl. exact Cx.
Qed.

(* ------------------------------------------------------------------ HttpRpc *)
Lemma split_blank_ok : forall c m, existsb (Z.eqb 10) c = false -> split_blank (c ++ 10 :: 10 :: m) = Some (c, m).
Proof.
  induction c as [| x c IH]; intros m H.
  - reflexivity.
  - cbn [existsb] in H. apply orb_false_iff in H. destruct H as [Hx Hc].
    cbn [app split_blank]. fold (split_blank (c ++ 10 :: 10 :: m)). rewrite (IH m Hc).
    rewrite Z.eqb_sym in Hx. rewrite Hx. cbn [andb].
    destruct (c ++ 10 :: 10 :: m) eqn:E; [destruct c; discriminate | reflexivity].
Qed.

Lemma fault_intact_httprpc : forall f, existsb (Z.eqb 10) (f_code f) = false ->
  exists w, enc_fault PHttpRpc f = Ok w /\
            dec_fault PHttpRpc w = Some {| o_code := f_code f; o_string := f_string f; o_detail := None |}.
Proof.
  intros f H. eexists. split; [reflexivity |]. cbn [dec_fault]. unfold fault_to_text.
  rewrite (split_blank_ok _ _ H). reflexivity.
Qed.
