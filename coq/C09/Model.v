(** C09 — model of the fault path of Spyne (definitions only).

    Mirrors, for the repaired tree (see proposed_fixes/):
    - [spyne/application.py] [Application.process_request] (the exception funnel), interpreted
      over the generated tables [funnel_steps]/[funnel_handlers]/[fault_string_from_exception];
    - [spyne/protocol/_outbase.py] / [soap11.py] [fault_to_http_response_code], interpreted over
      the generated chain;
    - [spyne/server/wsgi.py] [handle_rpc] / [handle_error] (status + body, or an escaping exception);
    - the fault serialisers: [XmlDocument.fault_to_parent] + [_fault_to_parent_impl] +
      [util/etreeconv.py] [root_dict_to_etree]/[dict_to_etree] (XmlDocument, SOAP 1.1),
      [Soap12.fault_to_parent]/[_fault_to_parent_impl]/[gen_fault_codes]/[generate_subcode],
      [Fault.to_dict] (JSON, YAML, MessagePack, msgpack-rpc), [Fault.to_bytes_iterable] (HttpRpc);
    - the fault parsers of the Spyne client: [XmlDocument.fault_from_element],
      [Soap12.fault_from_element]/[generate_faultcode], [MessagePackRpc] (Fault built from the error dict);
    - a reference decoder per wire form (what an independent client reads).

    The wire is modelled at the level of documents (XML infoset tree, JSON-like value, text);
    turning documents into bytes and back is lxml/json/yaml/msgpack, exercised by the
    correspondence (the harness parses the real response bytes into these documents). *)
From Coq Require Import String Ascii.
From SpyneV Require Import Base.Prelude Gen.FaultTables.
Open Scope Z_scope.

(** string literals as code-point lists *)
Definition t (s : string) : text := map (fun a => Z.of_N (N_of_ascii a)) (list_ascii_of_string s).
Arguments t s%string.

(* ------------------------------------------------------------------ data *)

(** a fault detail value: the shapes covered are nested dicts with string / None leaves *)
Inductive dval :=
| DNone
| DStr (s : text)
| DDict (kvs : list (text * dval)).

(** a raised [spyne.model.fault.Fault] instance: the nearest class of spyne/error.py it derives
    from (generated subclasses only matter through it: [isinstance]) and its attributes *)
Record fault := {
  f_root : ecls;
  f_code : text;
  f_string : text;
  f_actor : text;
  f_detail : option (list (text * dval));
  f_lang : text }.

Inductive raise := RFault (f : fault) | RExn (e : pyexn).

(** what the user method returns: a plain value, or a generator that is consumed lazily by the
    serialiser and may raise after its first item *)
Inductive retval :=
| RPlain (v : text)
| RGen (v : text) (later : option raise)
| RGen0 (r : raise).   (* a generator that raises before its first item *)

(** the user code reachable from one request *)
Record ucode := {
  u_call : option raise;     (* a 'method_call' listener raises *)
  u_body : raise + retval;   (* the method body raises, or returns *)
  u_ret : option raise }.    (* a 'method_return_object' listener raises *)

(** XML infoset tree: namespace, local name, attributes (ns, name, value), text, children *)
Inductive xml := Elt (ns name : text) (attrs : list (text * text * text)) (txt : text) (kids : list xml).

(** JSON-like document *)
Inductive doc :=
| JNull
| JStr (s : text)
| JInt (z : Z)
| JDict (kvs : list (text * doc))
| JList (l : list doc).

Inductive wire :=
| WXml (x : xml)
| WDoc (d : doc)
| WText (s : text)       (* HttpRpc: text/plain *)
| WReturn (v : text).    (* the protocol's rendering of the return value [v] (not modelled further) *)

(* ------------------------------------------------------------------ the funnel *)

Definition isinstance (f : fault) (c : ecls) : bool := existsb (ecls_eqb c) (ecls_mro (f_root f)).

Definition server_fault (code : text) (e : pyexn) : fault :=
  {| f_root := E_Fault; f_code := code; f_string := fault_string_from_exception e;
     f_actor := []; f_detail := None; f_lang := t "en" |}.

(** [Redirect.do_redirect] of the base class *)
Definition not_implemented : pyexn := {| px_type := t "NotImplementedError"; px_text := [] |}.
(** a Fault seen through an [except Exception as e] clause *)
Definition exn_of_fault (f : fault) : pyexn := {| px_type := t "Fault"; px_text := f_string f |}.

Definition handler_matches (h : hcls) (r : raise) : bool :=
  match h, r with
  | HRedirect, RFault f => isinstance f E_Redirect
  | HRedirect, RExn _ => false
  | HFault, RFault _ => true
  | HFault, RExn _ => false
  | HException, _ => true
  end.

(** the value of [ctx.out_error] after the handler ran *)
Definition apply_handler (h : hcls) (a : herr) (r : raise) : option fault :=
  match h, a, r with
  | HRedirect, HENew code, _ => Some (server_fault code not_implemented)
  | HRedirect, _, _ => None
  | _, HECaught, RFault f => Some f
  | _, HECaught, RExn _ => None
  | _, HENew code, RFault f => Some (server_fault code (exn_of_fault f))
  | _, HENew code, RExn e => Some (server_fault code e)
  | _, HENothing, _ => None
  end.

(** [Crash]: no clause names the exception, it escapes [process_request] *)
Fixpoint catch (hs : list (hcls * herr)) (r : raise) : out (option fault) :=
  match hs with
  | [] => Crash OtherExn
  | (h, a) :: rest => if handler_matches h r then Ok (apply_handler h a r) else catch rest r
  end.

Fixpoint run_steps (st : list fstep) (u : ucode) (obj : option retval) : option retval * option raise :=
  match st with
  | [] => (obj, None)
  | StFireCall :: r => match u_call u with Some x => (obj, Some x) | None => run_steps r u obj end
  | StCallUser :: r => match u_body u with inl x => (obj, Some x) | inr v => run_steps r u (Some v) end
  | StFireReturn :: r => match u_ret u with Some x => (obj, Some x) | None => run_steps r u obj end
  end.

Record fctx := { c_obj : option retval; c_err : option fault }.

Definition process_request (u : ucode) : out fctx :=
  match run_steps funnel_steps u None with
  | (obj, None) => Ok {| c_obj := obj; c_err := None |}
  | (obj, Some r) => do e <- catch funnel_handlers r; Ok {| c_obj := obj; c_err := e |}
  end.

(* ------------------------------------------------------------------ HTTP status *)

Definition starts_with (p s : text) : bool := text_eqb p (firstn (length p) s).

Fixpoint chain_lookup (ch : list (ecls * Z)) (f : fault) : option Z :=
  match ch with
  | [] => None
  | (c, s) :: r => if isinstance f c then Some s else chain_lookup r f
  end.

Definition http_code_base (f : fault) : Z :=
  match chain_lookup http_isinstance_chain f with
  | Some s => s
  | None =>
    if isinstance f http_client_guard &&
       (existsb (fun p => starts_with p (f_code f)) http_client_prefixes ||
        existsb (text_eqb (f_code f)) http_client_exacts)
    then http_client_status else http_default_status
  end.

Definition http_code (p : prot) (f : fault) : Z :=
  match http_impl p with HBase => http_code_base f | HSoap => http_soap_status end.

(* ------------------------------------------------------------------ XML serialisers *)

(** what lxml accepts as text (apihelpers [_utf8]: no NUL/control characters, no surrogates, no
    U+FFFE/U+FFFF); anything else is [ValueError] *)
Definition xml_char_ok (c : Z) : bool :=
  (c =? 9) || (c =? 10) || (c =? 13) || ((32 <=? c) && (c <=? 55295)) ||
  ((57344 <=? c) && (c <=? 65533)) || ((65536 <=? c) && (c <=? 1114111)).
Definition xml_text_ok (s : text) : bool := forallb xml_char_ok s.

(** modelled subset of lxml's tag-name check: ASCII NCNames.  Everything else is taken to be
    rejected ([ValueError]); the harness never generates keys on which that could be wrong. *)
Definition name_start (c : Z) : bool :=
  ((65 <=? c) && (c <=? 90)) || ((97 <=? c) && (c <=? 122)) || (c =? 95).
Definition name_char (c : Z) : bool :=
  name_start c || ((48 <=? c) && (c <=? 57)) || (c =? 45) || (c =? 46).
Definition xml_name_ok (k : text) : bool :=
  match k with [] => false | c :: r => name_start c && forallb name_char r end.

Definition attr_ok (a : text * text * text) : bool := xml_text_ok (snd a).

(** [lxml.builder.E(tag, text, **attrs)] *)
Definition mkE (ns name : text) (attrs : list (text * text * text)) (txt : text) (kids : list xml) : out xml :=
  if xml_text_ok txt && forallb attr_ok attrs then Ok (Elt ns name attrs txt kids) else Crash ValueError.

(** [dict_to_etree]: one [SubElement(parent, k)] per item *)
Fixpoint dv_to_elt (k : text) (v : dval) : out xml :=
  if negb (xml_name_ok k) then Crash ValueError else
  match v with
  | DNone => Ok (Elt [] k [] [] [])
  | DStr s => if xml_text_ok s then Ok (Elt [] k [] s []) else Crash ValueError
  | DDict kvs =>
    do kids <- (fix go (l : list (text * dval)) : out (list xml) :=
                  match l with
                  | [] => Ok []
                  | (k', v') :: r => do x <- dv_to_elt k' v'; do xs <- go r; Ok (x :: xs)
                  end) kvs;
    Ok (Elt [] k [] [] kids)
  end.

Fixpoint dict_to_etree (l : list (text * dval)) : out (list xml) :=
  match l with
  | [] => Ok []
  | (k, v) :: r => do x <- dv_to_elt k v; do xs <- dict_to_etree r; Ok (x :: xs)
  end.

Definition ns11 : text := t "http://schemas.xmlsoap.org/soap/envelope/".
Definition pre11 : text := t "soap11env".
Definition ns12 : text := t "http://www.w3.org/2003/05/soap-envelope".
Definition pre12 : text := t "soap12env".
Definition ns_xml : text := t "http://www.w3.org/XML/1998/namespace".
Definition colon : Z := 58.
Definition dot : Z := 46.

(** [XmlDocument.fault_to_parent] + [_fault_to_parent_impl]: the {soap11}Fault element *)
Definition fault11_elt (f : fault) : out xml :=
  do fc <- mkE [] (t "faultcode") [] (pre11 ++ colon :: f_code f) [];
  do fs <- mkE [] (t "faultstring") [] (f_string f) [];
  do fa <- mkE [] (t "faultactor") [] (f_actor f) [];
  do det <- match f_detail f with
            | None => Ok []
            | Some [] => Ok []                      (* len(inst.detail) > 0 *)
            | Some kvs => do kids <- dict_to_etree kvs; Ok [Elt [] (t "detail") [] [] kids]
            end;
  Ok (Elt ns11 (t "Fault") [] [] ([fc; fs; fa] ++ det)).

(** [str.split('.')]: first segment and the others *)
Fixpoint split_dot (s : text) : text * list text :=
  match s with
  | [] => ([], [])
  | c :: r => let '(a, l) := split_dot r in if c =? dot then ([], a :: l) else (c :: a, l)
  end.

Fixpoint join_dot (a : text) (l : list text) : text :=
  match l with [] => a | b :: r => a ++ dot :: join_dot b r end.

(** [Soap12.generate_subcode] folded over the reversed list: nested Subcode elements *)
Fixpoint subcode_chain (l : list text) : out (list xml) :=
  match l with
  | [] => Ok []
  | v :: r => do ve <- mkE ns12 (t "Value") [] v [];
              do sub <- subcode_chain r;
              Ok [Elt ns12 (t "Subcode") [] [] (ve :: sub)]
  end.

(** [Soap12.fault_to_parent] + [_fault_to_parent_impl] (repaired: detail dict of any size) *)
Definition fault12_elt (f : fault) : out xml :=
  do rt <- mkE ns12 (t "Text") [(ns_xml, t "lang", f_lang f)] (f_string f) [];
  do role <- mkE ns12 (t "Role") [] (f_actor f) [];
  let '(first, rest) := split_dot (f_code f) in
  do value <- (if text_eqb first (t "Client") then Ok (pre12 ++ colon :: t "Sender")
               else if text_eqb first (t "Server") then Ok (pre12 ++ colon :: t "Receiver")
               else Crash TypeError);
  do ve <- mkE ns12 (t "Value") [] value [];
  do sub <- subcode_chain rest;
  do det <- match f_detail f with
            | None => Ok []
            | Some [] => Ok []
            | Some kvs => do kids <- dict_to_etree kvs; Ok [Elt ns12 (t "Detail") [] [] kids]
            end;
  Ok (Elt ns12 (t "Fault") [] []
          ([Elt ns12 (t "Code") [] [] (ve :: sub); Elt ns12 (t "Reason") [] [] [rt]; role] ++ det)).

Definition envelope (ns : text) (body : xml) : xml :=
  Elt ns (t "Envelope") [] [] [Elt ns (t "Body") [] [] [body]].

(* ------------------------------------------------------------------ dict serialisers *)

Fixpoint dv_to_doc (v : dval) : doc :=
  match v with
  | DNone => JNull
  | DStr s => JStr s
  | DDict kvs => JDict ((fix go (l : list (text * dval)) : list (text * doc) :=
                           match l with [] => [] | (k, v') :: r => (k, dv_to_doc v') :: go r end) kvs)
  end.

(** [ProtocolBase.ignore_empty_faultactor] (default) *)
Definition ignore_empty_faultactor : bool := true.

(** [Fault.to_dict] *)
Definition fault_to_dict (f : fault) : doc :=
  JDict ([(t "faultcode", JStr (f_code f)); (t "faultstring", JStr (f_string f))]
         ++ (if negb (length (f_actor f) =? 0)%nat || negb ignore_empty_faultactor
             then [(t "faultactor", JStr (f_actor f))] else [])
         ++ match f_detail f with
            | None => []
            | Some kvs => [(t "detail", dv_to_doc (DDict kvs))]
            end).

(** [Fault.to_bytes_iterable], read back as text *)
Definition fault_to_text (f : fault) : text := f_code f ++ 10 :: 10 :: f_string f.

Definition enc_fault (p : prot) (f : fault) : out wire :=
  match p with
  | PXml => do x <- fault11_elt f; Ok (WXml x)
  | PSoap11 => do x <- fault11_elt f; Ok (WXml (envelope ns11 x))
  | PSoap12 => do x <- fault12_elt f; Ok (WXml (envelope ns12 x))
  | PJson | PYaml | PMsgpack => Ok (WDoc (fault_to_dict f))
  | PMsgpackRpc => Ok (WDoc (JList [JInt 3; JInt 0; fault_to_dict f]))
  | PHttpRpc => Ok (WText (fault_to_text f))
  end.

(* ------------------------------------------------------------------ server and WSGI *)

Inductive sres := SOk (w : wire) | SRaise (r : raise) | SCrash (e : exn).

Definition lift_enc (o : out wire) : sres :=
  match o with Ok w => SOk w | Crash e => SCrash e | VFault => SCrash OtherExn end.

(** [out_protocol.serialize] + [create_out_string]: the error branch comes first and never looks
    at [ctx.out_object] *)
Definition serialize (p : prot) (c : fctx) : sres :=
  match c_err c with
  | Some f => lift_enc (enc_fault p f)
  | None =>
    match c_obj c with
    | Some (RPlain v) => SOk (WReturn v)
    | Some (RGen v None) => SOk (WReturn v)
    | Some (RGen v (Some r)) => SRaise r
    | Some (RGen0 r) => SRaise r
    | None => SCrash AssertionError
    end
  end.

(** [WsgiApplication.handle_error]: status (unless already set) then body; an exception raised
    by the serialiser escapes the WSGI callable before [start_response] *)
Definition handle_error (p : prot) (resp_code : option Z) (f : fault) : out (Z * wire) :=
  let status := match resp_code with Some s => s | None => http_code p f end in
  match enc_fault p f with
  | Ok w => Ok (status, w)
  | Crash e => Crash e
  | VFault => Crash OtherExn
  end.

(** [WsgiApplication.handle_rpc] from [get_out_object] on (repaired: a Fault raised while the
    response is being serialised is reported as it is, and the 200 default is only applied once
    serialisation succeeded) *)
Definition handle_rpc (p : prot) (u : ucode) : out (Z * wire) :=
  do c <- process_request u;
  match c_err c with
  | Some f => handle_error p None f
  | None =>
    match c_obj c with
    | Some (RGen0 _) => Crash OtherExn     (* first_obj = next(g): outside every try *)
    | _ =>
    match serialize p c with
    | SOk w => Ok (200, w)
    | SRaise (RFault f) => handle_error p None f
    | SRaise (RExn e) => handle_error p None (server_fault (t "Server") e)
    | SCrash e => handle_error p None (server_fault (t "Server") {| px_type := []; px_text := [] |})
    end
    end
  end.

(** [ServerBase.get_out_object] + [get_out_string] driven directly (no transport): anything the
    serialiser raises reaches the caller *)
Definition server_out (p : prot) (u : ucode) : out wire :=
  do c <- process_request u;
  match serialize p c with
  | SOk w => Ok w
  | SRaise _ => Crash OtherExn
  | SCrash e => Crash e
  end.

(* ------------------------------------------------------------------ reference decoders *)

Record fobs := { o_code : text; o_string : text; o_detail : option (list (text * dval)) }.

Definition x_ns (x : xml) := match x with Elt ns _ _ _ _ => ns end.
Definition x_name (x : xml) := match x with Elt _ n _ _ _ => n end.
Definition x_text (x : xml) := match x with Elt _ _ _ s _ => s end.
Definition x_kids (x : xml) := match x with Elt _ _ _ _ k => k end.

Fixpoint find_child (ns name : text) (kids : list xml) : option xml :=
  match kids with
  | [] => None
  | k :: r => if text_eqb (x_ns k) ns && text_eqb (x_name k) name then Some k else find_child ns name r
  end.

(** the part of a QName after the prefix *)
Fixpoint after_colon (s : text) : text :=
  match s with [] => [] | c :: r => if c =? colon then r else after_colon r end.
Definition local_part (s : text) : text := if existsb (Z.eqb colon) s then after_colon s else s.

(** element -> detail value: a leaf is its text, anything else the dict of its children *)
Fixpoint elt_to_dv (x : xml) : dval :=
  match x with
  | Elt _ _ _ s [] => DStr s
  | Elt _ _ _ _ kids => DDict ((fix go (l : list xml) : list (text * dval) :=
                                  match l with [] => [] | k :: r => (x_name k, elt_to_dv k) :: go r end) kids)
  end.

Definition kids_to_detail (kids : list xml) : list (text * dval) :=
  map (fun k => (x_name k, elt_to_dv k)) kids.

Definition dec_fault11 (x : xml) : option fobs :=
  if negb (text_eqb (x_ns x) ns11 && text_eqb (x_name x) (t "Fault")) then None else
  match find_child [] (t "faultcode") (x_kids x), find_child [] (t "faultstring") (x_kids x) with
  | Some c, Some s =>
    Some {| o_code := local_part (x_text c); o_string := x_text s;
            o_detail := match find_child [] (t "detail") (x_kids x) with
                        | None => None
                        | Some d => Some (kids_to_detail (x_kids d))
                        end |}
  | _, _ => None
  end.

(** the Value texts of a nested Subcode chain, outermost first; [x] is a Code or Subcode element *)
Fixpoint subcode_values (x : xml) : list text :=
  match x with
  | Elt _ _ _ _ kids =>
    (fix go (l : list xml) : list text :=
       match l with
       | [] => []
       | k :: r => if text_eqb (x_ns k) ns12 && text_eqb (x_name k) (t "Subcode")
                   then match find_child ns12 (t "Value") (x_kids k) with
                        | Some v => x_text v :: subcode_values k
                        | None => subcode_values k
                        end
                   else go r
       end) kids
  end.

Definition soap12_first (v : text) : text :=
  let l := local_part v in
  if text_eqb l (t "Sender") then t "Client" else if text_eqb l (t "Receiver") then t "Server" else l.

Definition dec_fault12 (x : xml) : option fobs :=
  if negb (text_eqb (x_ns x) ns12 && text_eqb (x_name x) (t "Fault")) then None else
  match find_child ns12 (t "Code") (x_kids x), find_child ns12 (t "Reason") (x_kids x) with
  | Some c, Some r =>
    match find_child ns12 (t "Value") (x_kids c), find_child ns12 (t "Text") (x_kids r) with
    | Some v, Some tx =>
      Some {| o_code := join_dot (soap12_first (x_text v)) (subcode_values c); o_string := x_text tx;
              o_detail := match find_child ns12 (t "Detail") (x_kids x) with
                          | None => None
                          | Some d => Some (kids_to_detail (x_kids d))
                          end |}
    | _, _ => None
    end
  | _, _ => None
  end.

Definition unwrap_envelope (ns : text) (x : xml) : option xml :=
  if negb (text_eqb (x_ns x) ns && text_eqb (x_name x) (t "Envelope")) then None else
  match find_child ns (t "Body") (x_kids x) with
  | Some b => match x_kids b with k :: _ => Some k | [] => None end
  | None => None
  end.

Fixpoint lookup (k : text) (l : list (text * doc)) : option doc :=
  match l with [] => None | (k', v) :: r => if text_eqb k k' then Some v else lookup k r end.

Fixpoint doc_to_dv (d : doc) : option dval :=
  match d with
  | JNull => Some DNone
  | JStr s => Some (DStr s)
  | JDict kvs =>
    match (fix go (l : list (text * doc)) : option (list (text * dval)) :=
             match l with
             | [] => Some []
             | (k, v) :: r => match doc_to_dv v, go r with
                              | Some v', Some r' => Some ((k, v') :: r')
                              | _, _ => None
                              end
             end) kvs with
    | Some l => Some (DDict l)
    | None => None
    end
  | _ => None
  end.

Definition dec_fault_dict (d : doc) : option fobs :=
  match d with
  | JDict kvs =>
    match lookup (t "faultcode") kvs, lookup (t "faultstring") kvs with
    | Some (JStr c), Some (JStr s) =>
      match lookup (t "detail") kvs with
      | None => Some {| o_code := c; o_string := s; o_detail := None |}
      | Some dd => match doc_to_dv dd with
                   | Some (DDict l) => Some {| o_code := c; o_string := s; o_detail := Some l |}
                   | _ => None
                   end
      end
    | _, _ => None
    end
  | _ => None
  end.

(** text/plain: code, blank line, message *)
Fixpoint split_blank (s : text) : option (text * text) :=
  match s with
  | [] => None
  | c :: r => match r with
              | c2 :: r2 => if (c =? 10) && (c2 =? 10) then Some ([], r2)
                            else match split_blank r with Some (a, b) => Some (c :: a, b) | None => None end
              | [] => None
              end
  end.

Definition dec_fault (p : prot) (w : wire) : option fobs :=
  match p, w with
  | PXml, WXml x => dec_fault11 x
  | PSoap11, WXml x => match unwrap_envelope ns11 x with Some b => dec_fault11 b | None => None end
  | PSoap12, WXml x => match unwrap_envelope ns12 x with Some b => dec_fault12 b | None => None end
  | (PJson | PYaml | PMsgpack), WDoc d => dec_fault_dict d
  | PMsgpackRpc, WDoc (JList [JInt 3; _; d]) => dec_fault_dict d
  | PHttpRpc, WText s =>
    match split_blank s with
    | Some (c, m) => Some {| o_code := c; o_string := m; o_detail := None |}
    | None => None
    end
  | _, _ => None
  end.

(* ------------------------------------------------------------------ what "intact" means *)

(** XML cannot tell None, "" and {} apart (all three are an empty element) *)
Fixpoint xnorm (v : dval) : dval :=
  match v with
  | DNone => DStr []
  | DStr s => DStr s
  | DDict [] => DStr []
  | DDict kvs => DDict ((fix go (l : list (text * dval)) : list (text * dval) :=
                           match l with [] => [] | (k, v') :: r => (k, xnorm v') :: go r end) kvs)
  end.

Definition xnorm_detail (d : option (list (text * dval))) : option (list (text * dval)) :=
  match d with
  | None => None
  | Some [] => None
  | Some kvs => Some (map (fun kv => (fst kv, xnorm (snd kv))) kvs)
  end.

Definition is_xml_prot (p : prot) : bool :=
  match p with PXml | PSoap11 | PSoap12 => true | _ => false end.

(** the observation an intact fault must produce under protocol [p] *)
Definition expected_obs (p : prot) (f : fault) : fobs :=
  {| o_code := f_code f; o_string := f_string f;
     o_detail := if is_xml_prot p then xnorm_detail (f_detail f)
                 else match p with PHttpRpc => None | _ => f_detail f end |}.

(** the first exception user code raises while the request is processed *)
Definition first_raise (u : ucode) : option raise :=
  match u_call u with
  | Some r => Some r
  | None =>
    match u_body u with
    | inl r => Some r
    | inr v =>
      match u_ret u with
      | Some r => Some r
      | None => match v with RGen _ (Some r) => Some r | _ => None end
      end
    end
  end.

(** the documented HTTP status of a fault *)
Definition is_soap (p : prot) : bool := match p with PSoap11 | PSoap12 => true | _ => false end.
Definition client_code (c : text) : bool := text_eqb c (t "Client") || starts_with (t "Client.") c.
Definition documented_status (p : prot) (f : fault) : Z :=
  if is_soap p then 500
  else if isinstance f E_RequestTooLongError then 413
  else if isinstance f E_ResourceNotFoundError then 404
  else if isinstance f E_RequestNotAllowed then 405
  else if isinstance f E_InvalidCredentialsError then 401
  else if client_code (f_code f) then 400
  else 500.

(** the generic fault *)
Definition internal_error : fault :=
  {| f_root := E_Fault; f_code := t "Server"; f_string := t "Internal Error";
     f_actor := []; f_detail := None; f_lang := t "en" |}.

(* ------------------------------------------------------------------ well-formedness guards *)

Fixpoint dv_ok (v : dval) : bool :=
  match v with
  | DNone => true
  | DStr s => xml_text_ok s
  | DDict kvs => (fix go (l : list (text * dval)) : bool :=
                    match l with [] => true | (k, v') :: r => xml_name_ok k && dv_ok v' && go r end) kvs
  end.

Definition detail_ok (d : option (list (text * dval))) : bool :=
  match d with None => true | Some kvs => dv_ok (DDict kvs) end.

(** a fault that XML 1.0 can carry *)
Definition xml_fault_ok (f : fault) : bool :=
  xml_text_ok (f_code f) && xml_text_ok (f_string f) && xml_text_ok (f_actor f) &&
  xml_text_ok (f_lang f) && detail_ok (f_detail f).

Definition soap12_code_ok (c : text) : bool :=
  let first := fst (split_dot c) in text_eqb first (t "Client") || text_eqb first (t "Server").

Fixpoint has_blank (s : text) : bool :=
  match s with
  | c :: r => match r with c2 :: _ => ((c =? 10) && (c2 =? 10)) || has_blank r | [] => false end
  | [] => false
  end.

(* ------------------------------------------------------------------ Spyne's own client parsers *)

(** what ends up in [ctx.in_error] on the client: attributes of the re-built Fault; the detail of
    the XML parsers is the lxml element itself, read here through [kids_to_detail] *)
(** [Fault.__init__]: [faultstring or self.get_type_name()] *)
Definition ctor_string (s : text) : text := match s with [] => t "Fault" | _ => s end.

Definition client_fault11 (x : xml) : option fobs :=
  match find_child [] (t "faultcode") (x_kids x), find_child [] (t "faultstring") (x_kids x) with
  | Some c, Some s =>
    Some {| o_code := x_text c; o_string := ctor_string (x_text s);
            o_detail := match find_child [] (t "detail") (x_kids x) with
                        | None => None
                        | Some d => Some (kids_to_detail (x_kids d))
                        end |}
  | _, _ => None
  end.

(** Python [str.strip()] with no argument: the code points for which [str.isspace] holds *)
Definition py_space (c : Z) : bool :=
  ((9 <=? c) && (c <=? 13)) || ((28 <=? c) && (c <=? 32)) || (c =? 133) || (c =? 160) ||
  (c =? 5760) || ((8192 <=? c) && (c <=? 8202)) || (c =? 8232) || (c =? 8233) || (c =? 8239) ||
  (c =? 8287) || (c =? 12288).
Fixpoint lstrip (s : text) : text :=
  match s with [] => [] | c :: r => if py_space c then lstrip r else s end.
Definition strip (s : text) : text := rev (lstrip (rev (lstrip s))).

(** [Soap12.generate_faultcode]: Value texts as they are (prefix kept), joined with '.' *)
Definition client_fault12 (x : xml) : option fobs :=
  match find_child ns12 (t "Code") (x_kids x), find_child ns12 (t "Reason") (x_kids x) with
  | Some c, Some r =>
    match find_child ns12 (t "Value") (x_kids c), find_child ns12 (t "Text") (x_kids r) with
    | Some v, Some tx =>
      Some {| o_code := join_dot (x_text v) (subcode_values c); o_string := ctor_string (strip (x_text tx));
              o_detail := match find_child ns12 (t "Detail") (x_kids x) with
                          | None => None
                          | Some d => Some (kids_to_detail (x_kids d))
                          end |}
    | _, _ => None
    end
  | _, _ => None
  end.

(** [ctx.in_error] of the loopback client for the protocols whose client side works at all *)
Definition client_in_error (p : prot) (w : wire) : option fobs :=
  match p, w with
  | PSoap11, WXml x => match unwrap_envelope ns11 x with
                       | Some b => if text_eqb (x_ns b) ns11 && text_eqb (x_name b) (t "Fault")
                                   then client_fault11 b else None
                       | None => None
                       end
  | PSoap12, WXml x => match unwrap_envelope ns12 x with
                       | Some b => if text_eqb (x_ns b) ns12 && text_eqb (x_name b) (t "Fault")
                                   then client_fault12 b else None
                       | None => None
                       end
  | PMsgpackRpc, WDoc (JList [JInt 3; _; d]) =>
    match dec_fault_dict d with
    | Some o => Some {| o_code := o_code o; o_string := ctor_string (o_string o); o_detail := o_detail o |}
    | None => None
    end
  | _, _ => None
  end.
