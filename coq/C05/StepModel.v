(** C05 — four decision procedures whose Gallina text is GENERATED statement by statement from the
    source (Gen/C05Steps.v), their specifications and the paths that use them.  Definitions only.

    - xml_nil: what XmlDocument.from_element does with xsi:nil="true" (nillable, default,
      replace_null_with_default);
    - xsi_target: which class an element carrying xsi:type is deserialised and validated as;
    - enum_from_bytes / enum_from_element: the readers of an enumerated type in the dict-document
      protocols, HttpRpc and XML attributes / in XML elements;
    - the Decimal range path: Decimal.validate_native (Gen/FacetTypes.v) over Python's Decimal order,
      decimal_from_unicode for a text and for a NUMBER found in a JSON / YAML / MessagePack document. *)
From SpyneV Require Export C05.Facets C05.StepTypes Gen.FacetTypes Gen.C05Steps Wire.Decimal.

(** ---------------------------------------------------------------- xsi:nil *)
(** nullability alone decides; what is delivered is None or the declared default *)
Definition nil_verdict_ok {V} (nillable : bool) (default : option V) (r : out (option V)) : Prop :=
  if nillable then (r = Ok None \/ r = Ok default) else r = VFault.

(** ---------------------------------------------------------------- xsi:type *)
(** a primitive (anything that is not a ComplexModel) and an Array are always read as declared *)
Definition must_stay_declared (q : xsi_query) : bool := negb (xq_sup_is_complex q) || xq_sup_is_array q.

(** ---------------------------------------------------------------- enum *)
(** the value delivered for a declared name: getattr(cls, name) is the member set by Enum() *)
Definition enum_spec {M} (class_attr : text -> M) (values : list text) (ov : option text) : out M :=
  match ov with
  | Some v => if existsb (text_eqb v) values then Ok (class_attr v) else VFault
  | None => VFault
  end.

(** ---------------------------------------------------------------- Decimal *)
(** Python's order on finite Decimals: compare the coefficients at a common exponent *)
Definition dec_scaled (d : dec) (m : Z) : Z :=
  (if d_neg d then -1 else 1) * d_coef d * 10 ^ (d_exp d - m).
Definition dec_compare (a b : dec) : comparison :=
  let m := Z.min (d_exp a) (d_exp b) in Z.compare (dec_scaled a m) (dec_scaled b m).
(** with Decimal('-inf') / Decimal('inf'), the defaults of the bounds *)
Inductive dx := DNegInf | DFin (d : dec) | DPosInf.
Definition dx_compare (x y : dx) : comparison :=
  match x, y with
  | DNegInf, DNegInf => Eq | DNegInf, _ => Lt | _, DNegInf => Gt
  | DPosInf, DPosInf => Eq | DPosInf, _ => Gt | _, DPosInf => Lt
  | DFin a, DFin b => dec_compare a b
  end.
Definition dx_ops : ord_ops dx :=
  {| oo_ltb := fun a b => match dx_compare a b with Lt => true | _ => false end;
     oo_leb := fun a b => match dx_compare a b with Gt => false | _ => true end;
     oo_eqb := fun a b => match dx_compare a b with Eq => true | _ => false end |}.
(** two representations of the same number (1.5 and 1.50) *)
Definition same_num (a b : dec) : Prop :=
  forall M, M <= d_exp a -> M <= d_exp b -> dec_scaled a M = dec_scaled b M.

Definition vn_Decimal (a : rng4_attrs dx) (d : dec) : bool := validate_native_Decimal dx_ops a (DFin d).
(** specification: gt < d, ge <= d, d < lt, d <= le as numbers, and enumeration *)
Definition in_values_dx (vals : list dx) (x : dx) : bool :=
  match vals with [] => true | _ => existsb (fun b => match dx_compare x b with Eq => true | _ => false end) vals end.
Definition conforms_decimal (a : rng4_attrs dx) (d : dec) : bool :=
  match dx_compare (r4_gt a) (DFin d) with Lt => true | _ => false end
  && match dx_compare (r4_ge a) (DFin d) with Gt => false | _ => true end
  && match dx_compare (DFin d) (r4_lt a) with Lt => true | _ => false end
  && match dx_compare (DFin d) (r4_le a) with Gt => false | _ => true end
  && in_values_dx (r4_values a) (DFin d).

(** decimal_from_unicode for a text: the max_str_len guard, Decimal(text) (InvalidOperation and the
    non-finite values are ValidationErrors; Wire/Decimal.v models the finite ASCII literals) *)
Definition decimal_from_text (max_str_len : ext) (s : text) : out dec :=
  if negb (ext_leb (Fin (len s)) max_str_len) then VFault
  else match dec_parse s with Some d => Ok d | None => VFault end.

Section DecimalNumber.
(** a number as the JSON / YAML / MessagePack parser delivers it (int or float) *)
Variable num : Type.
Variable py_str : num -> text.       (* str(v): for a float the shortest text that reads back as it *)
Variable py_exact : num -> dec.      (* Decimal(v): for a float its exact binary expansion *)

(** decimal_from_unicode for a number: which of the two conversions the source performs is read
    from the source on every run (Gen/C05Steps.v: decimal_number_reader) *)
Definition decimal_from_number (max_str_len : ext) (v : num) : out dec :=
  match decimal_number_reader with
  | ViaShortestText => decimal_from_text max_str_len (py_str v)
  | ExactExpansion => if negb (ext_leb (Fin (len (py_str v))) max_str_len) then VFault else Ok (py_exact v)
  end.
End DecimalNumber.

(** reader, then validate_native *)
Definition decimal_leaf (a : rng4_attrs dx) (r : out dec) : out dec :=
  match r with
  | Ok d => if vn_Decimal a d then Ok d else VFault
  | VFault => VFault
  | Crash e => Crash e
  end.
(** the text protocols and a dict document that carries the text; a dict document that carries the number *)
Definition decimal_text_leaf (a : rng4_attrs dx) (max_str_len : ext) (s : text) : out dec :=
  decimal_leaf a (decimal_from_text max_str_len s).
Definition decimal_number_leaf {num} (py_str : num -> text) (py_exact : num -> dec)
    (a : rng4_attrs dx) (max_str_len : ext) (v : num) : out dec :=
  decimal_leaf a (decimal_from_number num py_str py_exact max_str_len v).

Definition same_verdict (x y : out dec) : Prop :=
  match x, y with
  | Ok d, Ok e => same_num d e
  | VFault, VFault => True
  | _, _ => False
  end.

(** witness of the non-vacuity example in Props/C05.v *)
Definition ex_dec_attrs (lt le : dx) : rng4_attrs dx :=
  {| r4_nillable := true; r4_gt := DNegInf; r4_ge := DFin (mkdec false 0 0); r4_lt := lt; r4_le := le; r4_values := [] |}.
