(** C05 — soft validation: the enforcement paths as coded, and the specification
    written from the property text.  Definitions only.

    Leaf paths (integer family; the validation functions are the ones
    GENERATED from the source in Gen/NumTypes.v, carried in [int_type]):
      text_leaf  = XmlDocument.base_from_element, the XML attribute loop of
                   complex_from_element, SimpleDictDocument (HttpRpc) and
                   MessagePackDocument (integer_from_bytes): validate_string on
                   the raw text, from_unicode, validate_native;
      num_leaf   = HierDictDocument._from_dict_value with JsonDocument /
                   YamlDocument._ret_number: the value is already a number.
    Occurrence paths:
      xml_freq   = the frequencies check at the end of complex_from_element
                   (children counted per tag name);
      dict_freq  = _check_freq_dict over the per-item counts of
                   HierDictDocument._doc_to_object / SimpleDictDocument. *)
From SpyneV Require Export Base.Digits Base.Ext C08.IntModel.

(** ---- specification, from the property text ---- *)
Definition in_values (vals : list Z) (z : Z) : bool :=
  match vals with [] => true | _ => existsb (Z.eqb z) vals end.
(** a value conforms iff it respects the declared range facets, the hardware
    bounds of the type and the enumeration *)
Definition conforms_int (lo hi : ext) (a : num_attrs) (z : Z) : bool :=
  ext_ltb (na_gt a) (Fin z) && ext_leb (na_ge a) (Fin z)
  && ext_ltb (Fin z) (na_lt a) && ext_leb (Fin z) (na_le a)
  && ext_leb lo (Fin z) && ext_leb (Fin z) hi
  && in_values (na_values a) z.
(** None conforms iff the type is nillable *)
Definition conforms_none (a : num_attrs) : bool := na_nillable a.

(** ---- enforcement paths as coded ---- *)
(** text protocols: [txt = None] is an element without text / an absent value *)
Definition text_leaf (T : int_type) (a : num_attrs) (txt : option text) : out (option Z) :=
  match txt with
  | None =>
      if negb (it_vs_none T a) then VFault
      else if it_vn_none T a then Ok None else VFault      (* from_unicode(None) = None *)
  | Some s =>
      if negb (it_vs T a (len s)) then VFault
      else match s with
           | [] => if it_vn_none T a then Ok None else VFault   (* empty_is_none *)
           | _ => match integer_from_unicode a s with
                  | Ok z => if it_vn T a z then Ok (Some z) else VFault
                  | VFault => VFault
                  | Crash e => Crash e
                  end
           end
  end.
(** number protocols: the document already holds an integer (or null) *)
Definition num_leaf (T : int_type) (a : num_attrs) (v : option Z) : out (option Z) :=
  match v with
  | None => if it_vn_none T a then Ok None else VFault
  | Some z => if it_vn T a z then Ok (Some z) else VFault
  end.

(** ---- occurrence ---- *)
Fixpoint count_name (k : text) (l : list text) : Z :=
  match l with
  | [] => 0
  | x :: r => (if text_eqb k x then 1 else 0) + count_name k r
  end.
(** declared members: name, min_occurs, max_occurs *)
Definition occ_decl := (text * Z * ext)%type.
Definition occ_ok (mn : Z) (mx : ext) (c : Z) : bool := (mn <=? c) && ext_leb (Fin c) mx.
(** XML: one child element per item, counted per tag *)
Definition xml_freq (decls : list occ_decl) (children : list text) : bool :=
  forallb (fun d => match d with (k, mn, mx) => occ_ok mn mx (count_name k children) end) decls.
(** dict documents: frequencies[k] incremented once per item of the member *)
Fixpoint dict_count (k : text) (items : list (text * Z)) : Z :=
  match items with
  | [] => 0
  | (x, n) :: r => if text_eqb k x then n else dict_count k r
  end.
Definition dict_freq (decls : list occ_decl) (items : list (text * Z)) : bool :=
  forallb (fun d => match d with (k, mn, mx) => occ_ok mn mx (dict_count k items) end) decls.
(** the XML rendering of the same logical request: n children named k, for each member in turn *)
Fixpoint repeat_name (k : text) (n : nat) : list text :=
  match n with O => [] | S m => k :: repeat_name k m end.
Fixpoint expand (items : list (text * Z)) : list text :=
  match items with
  | [] => []
  | (k, n) :: r => repeat_name k (Z.to_nat n) ++ expand r
  end.
