From SpyneV Require Import Base.Digits Base.DigitsProofs Wire.Decimal C02.DecimalProofs.
From SpyneV Require Import C05.Facets C05.StepTypes Gen.FacetTypes Gen.C05Steps C05.StepModel.
From Coq Require Import Lia ZifyBool.

(** ---------------------------------------------------------------- xsi:nil *)
(** under soft validation an explicit nil is accepted iff the type is nillable — whatever default is
    declared and whatever replace_null_with_default says — and delivers None or that default *)
Lemma xml_nil_verdict {V} nillable replace (default : option V) :
  nil_verdict_ok nillable default (xml_nil true nillable replace default).
Proof. unfold nil_verdict_ok, xml_nil. destruct nillable, replace; cbn; auto. Qed.
Lemma xml_nil_accepts_iff_nillable {V} nillable replace (default : option V) :
  is_ok (xml_nil true nillable replace default) = nillable.
Proof. unfold xml_nil. destruct nillable, replace; reflexivity. Qed.
Lemma xml_nil_no_replace {V} nillable (default : option V) :
  xml_nil true nillable false default = if nillable then Ok None else VFault.
Proof. unfold xml_nil. destruct nillable; reflexivity. Qed.

(** ---------------------------------------------------------------- xsi:type *)
Lemma xsi_target_keeps_declared q c :
  must_stay_declared q = true -> xsi_target q = Ok c -> c = Declared.
Proof.
  unfold must_stay_declared, xsi_target. destruct q as [so arr nd cx ext]. cbn.
  destruct so, arr, nd, cx, ext; cbn; intros H E; try discriminate; inversion E; reflexivity.
Qed.
(** the named class is used only for a proper subclass of a declared complex type *)
Lemma xsi_target_named q : xsi_target q = Ok Named ->
  xq_same_orig q = false /\ xq_sup_is_complex q = true /\ xq_sup_is_array q = false /\ xq_sub_extends_sup q = true.
Proof.
  unfold xsi_target. destruct q as [so arr nd cx ext]. cbn.
  destruct so, arr, nd, cx, ext; cbn; intros E; try discriminate; auto.
Qed.
Lemma xsi_target_total q : is_crash (xsi_target q) = false.
Proof. unfold xsi_target. destruct q as [so arr nd cx ext]. cbn. destruct so, arr, nd, cx, ext; reflexivity. Qed.

(** ---------------------------------------------------------------- enum *)
(** validator='soft' (the setting C05 is about) *)
Lemma enum_from_bytes_spec {M} (class_attr : text -> M) nillable values ov :
  enum_from_bytes class_attr true nillable values ov = enum_spec class_attr values ov.
Proof.
  unfold enum_from_bytes, enum_spec, enum_vs, enum_vs_none. destruct ov as [v|]; [|reflexivity].
  destruct (existsb (text_eqb v) values); reflexivity.
Qed.
Lemma enum_from_element_spec {M} (class_attr : text -> M) nillable values ov :
  enum_from_element class_attr true nillable values ov = enum_spec class_attr values ov.
Proof.
  unfold enum_from_element, enum_spec, enum_vs, enum_vs_none. destruct ov as [v|]; [|reflexivity].
  destruct (existsb (text_eqb v) values); reflexivity.
Qed.
Lemma text_eqb_true_eq a : forall b, text_eqb a b = true -> a = b.
Proof.
  induction a as [|x a IH]; intros [|y b] H; try discriminate; [reflexivity|].
  cbn [text_eqb] in H. apply andb_true_iff in H. destruct H as [H1 H2].
  apply Z.eqb_eq in H1. subst. f_equal. apply IH. exact H2.
Qed.
(** what the user function receives is the member of a DECLARED name *)
Lemma enum_delivers_member {M} (class_attr : text -> M) values ov m :
  enum_spec class_attr values ov = Ok m -> exists v, ov = Some v /\ In v values /\ m = class_attr v.
Proof.
  unfold enum_spec. destruct ov as [v|]; [|discriminate].
  destruct (existsb (text_eqb v) values) eqn:E; [|discriminate]. intros H. inversion H. subst m.
  apply existsb_exists in E. destruct E as (x & Hin & Heq). apply text_eqb_true_eq in Heq. subst x.
  exists v. auto.
Qed.
Lemma enum_readers_agree {M} (class_attr : text -> M) nillable values ov :
  enum_from_bytes class_attr true nillable values ov = enum_from_element class_attr true nillable values ov
  /\ (forall m, enum_from_bytes class_attr true nillable values ov = Ok m ->
        exists v, ov = Some v /\ In v values /\ m = class_attr v).
Proof.
  rewrite enum_from_bytes_spec, enum_from_element_spec. split; [reflexivity|]. apply enum_delivers_member.
Qed.

(** ---------------------------------------------------------------- Decimal order *)
Lemma dec_scaled_shift d m M : M <= m -> m <= d_exp d -> dec_scaled d M = dec_scaled d m * 10 ^ (m - M).
Proof.
  intros H1 H2. unfold dec_scaled. replace (d_exp d - M) with ((d_exp d - m) + (m - M)) by lia.
  rewrite Z.pow_add_r by lia. lia.
Qed.
Lemma dec_compare_scale a b M : M <= d_exp a -> M <= d_exp b ->
  dec_compare a b = Z.compare (dec_scaled a M) (dec_scaled b M).
Proof.
  intros Ha Hb. unfold dec_compare. set (m := Z.min (d_exp a) (d_exp b)).
  rewrite (dec_scaled_shift a m M), (dec_scaled_shift b m M) by lia.
  apply Zmult_compare_compat_r. apply Z.lt_gt. apply Z.pow_pos_nonneg; lia.
Qed.
Lemma same_num_compare_l a b x : same_num a b -> dec_compare a x = dec_compare b x.
Proof.
  intros H. set (M := Z.min (d_exp a) (Z.min (d_exp b) (d_exp x))).
  rewrite (dec_compare_scale a x M), (dec_compare_scale b x M) by lia. rewrite (H M) by lia. reflexivity.
Qed.
Lemma same_num_compare_r a b x : same_num a b -> dec_compare x a = dec_compare x b.
Proof.
  intros H. set (M := Z.min (d_exp a) (Z.min (d_exp b) (d_exp x))).
  rewrite (dec_compare_scale x a M), (dec_compare_scale x b M) by lia. rewrite (H M) by lia. reflexivity.
Qed.
Lemma same_num_refl a : same_num a a.
Proof. intros M _ _. reflexivity. Qed.
Lemma dx_compare_l a b y : same_num a b -> dx_compare (DFin a) y = dx_compare (DFin b) y.
Proof. intros H. destruct y; cbn [dx_compare]; try reflexivity. apply same_num_compare_l. exact H. Qed.
Lemma dx_compare_r a b y : same_num a b -> dx_compare y (DFin a) = dx_compare y (DFin b).
Proof. intros H. destruct y; cbn [dx_compare]; try reflexivity. apply same_num_compare_r. exact H. Qed.

Lemma in_values_dx_spec vals x :
  (ext_eqb (Fin (Z.of_nat (length vals))) (Fin 0) || existsb (oo_eqb dx_ops x) vals) = in_values_dx vals x.
Proof.
  destruct vals as [|y r]; [reflexivity|]. cbn [length ext_eqb in_values_dx].
  replace (Z.of_nat (S (length r)) =? 0) with false by lia. reflexivity.
Qed.
(** Decimal.validate_native (generated) = the range facets and the enumeration, on numbers *)
Lemma decimal_native_is_spec a d : vn_Decimal a d = conforms_decimal a d.
Proof.
  unfold vn_Decimal, validate_native_Decimal, r4vn_Decimal, r4vn_SimpleModel, r4vn_ModelBase, conforms_decimal.
  rewrite in_values_dx_spec. cbn [dx_ops oo_ltb oo_leb].
  destruct (dx_compare (r4_gt a) (DFin d)), (dx_compare (r4_ge a) (DFin d)), (dx_compare (DFin d) (r4_lt a)),
    (dx_compare (DFin d) (r4_le a)), (in_values_dx (r4_values a) (DFin d)); reflexivity.
Qed.
(** the verdict depends on the number only, not on its representation (1.5 / 1.50 / 15E-1) *)
Lemma conforms_same_num a d e : same_num d e -> conforms_decimal a d = conforms_decimal a e.
Proof.
  intros H. unfold conforms_decimal.
  rewrite (dx_compare_r d e _ H), (dx_compare_r d e (r4_ge a) H), (dx_compare_l d e _ H), (dx_compare_l d e (r4_le a) H).
  f_equal. unfold in_values_dx. destruct (r4_values a) as [|y r]; [reflexivity|].
  generalize (y :: r) as l. induction l as [|b l IH]; [reflexivity|]. cbn [existsb].
  rewrite (dx_compare_l d e b H), IH. reflexivity.
Qed.

(** ---------------------------------------------------------------- a number in a dict document *)
Lemma decimal_text_leaf_spec a m d : 0 <= d_coef d -> ext_leb (Fin (len (dec_str d))) m = true ->
  decimal_text_leaf a m (dec_str d) = if conforms_decimal a d then Ok d else VFault.
Proof.
  intros Hc Hl. unfold decimal_text_leaf, decimal_from_text, decimal_leaf. rewrite Hl. cbn [negb].
  rewrite (dec_roundtrip d Hc), decimal_native_is_spec. reflexivity.
Qed.

Section NumberPath.
Variable num : Type.
Variable py_str : num -> text.
Variable py_exact : num -> dec.
(** the number the sender's library writes for the decimal it means *)
Variable sender : dec -> num.
Variable sendable : dec -> Prop.
(** CPython: str(float) is the shortest decimal text that reads back as the same float; for a decimal
    of at most 15 significant digits that text denotes the decimal itself (possibly without trailing
    zeros).  For an int, str() is exact. *)
Hypothesis shortest_text : forall d, sendable d ->
  exists d', dec_parse (py_str (sender d)) = Some d' /\ same_num d' d.

Lemma decimal_number_is_text a m d :
  sendable d -> 0 <= d_coef d ->
  ext_leb (Fin (len (dec_str d))) m = true -> ext_leb (Fin (len (py_str (sender d)))) m = true ->
  same_verdict (decimal_number_leaf py_str py_exact a m (sender d)) (decimal_text_leaf a m (dec_str d))
  /\ is_ok (decimal_number_leaf py_str py_exact a m (sender d)) = conforms_decimal a d.
Proof.
  intros Hs Hc Hl1 Hl2. rewrite (decimal_text_leaf_spec a m d Hc Hl1).
  destruct (shortest_text d Hs) as (d' & Hp & Hn).
  unfold decimal_number_leaf, decimal_from_number, decimal_from_text, decimal_leaf.
  change decimal_number_reader with ViaShortestText. cbv iota. rewrite Hl2. cbn [negb]. rewrite Hp.
  rewrite decimal_native_is_spec, (conforms_same_num a d' d Hn).
  destruct (conforms_decimal a d); cbn; auto.
Qed.
End NumberPath.

(** ---- statements of Props/C05.v that assemble lemmas above ---- *)
Lemma xml_nil_verdicts V nillable replace (default : option V) :
  nil_verdict_ok nillable default (xml_nil true nillable replace default)
  /\ is_ok (xml_nil true nillable replace default) = nillable.
Proof. split; [apply xml_nil_verdict|apply xml_nil_accepts_iff_nillable]. Qed.
Lemma enum_readers_are_spec M (class_attr : text -> M) nillable values ov :
  enum_from_bytes class_attr true nillable values ov = enum_spec class_attr values ov
  /\ enum_from_element class_attr true nillable values ov = enum_spec class_attr values ov.
Proof. split; [apply enum_from_bytes_spec|apply enum_from_element_spec]. Qed.
Lemma enum_readers_agree' M (class_attr : text -> M) nillable values ov :
  enum_from_bytes class_attr true nillable values ov = enum_from_element class_attr true nillable values ov
  /\ (forall m, enum_from_bytes class_attr true nillable values ov = Ok m ->
        exists v, ov = Some v /\ In v values /\ m = class_attr v).
Proof. apply enum_readers_agree. Qed.
