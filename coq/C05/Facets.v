(** C05 — vocabulary of the facet models (definitions only): the attribute records that the validation
    functions GENERATED from the source (Gen/FacetTypes.v) read, and the order on date/time values.

    Text values: [str_attrs] = Unicode.Attributes as read by validate_string / validate_native
    (nillable, min_len, max_len, pattern present?, values).  The compiled regular expression is not
    part of the record: "the pattern matches the whole string" is a function [fullm : text -> bool]
    passed to the generated functions (the [re] engine is an oracle, never an axiom).

    Ordered values: [rng_attrs V] = the range attributes of DateTime / Date / Time (gt and lt may be
    None, ge and le always hold a value), [ord_ops V] the comparisons Python performs on V. *)
From SpyneV Require Export Base.Prelude Base.Ext C08.DtModel.

Record str_attrs := {
  sa_nillable : bool;
  sa_min_len : Z;
  sa_max_len : ext;            (* decimal.Decimal('inf') by default *)
  sa_has_pattern : bool;       (* Attributes.pattern is not None *)
  sa_values : list text
}.
(** a text model class as the generated table presents it *)
Record str_type := mk_str_type {
  st_vs : str_attrs -> text -> bool;                          (* validate_string(cls, s) *)
  st_vs_none : str_attrs -> bool;                             (* validate_string(cls, None) *)
  st_vn : (text -> bool) -> str_attrs -> text -> bool;        (* validate_native(cls, s), given the regex oracle *)
  st_vn_none : str_attrs -> bool                              (* validate_native(cls, None) *)
}.

Record rng_attrs (V : Type) := {
  ra_nillable : bool;
  ra_gt : option V; ra_ge : V; ra_lt : option V; ra_le : V;
  ra_values : list V
}.
Arguments ra_nillable {V} _.
Arguments ra_gt {V} _.
Arguments ra_ge {V} _.
Arguments ra_lt {V} _.
Arguments ra_le {V} _.
Arguments ra_values {V} _.
(** Decimal.Attributes: all four bounds always hold a value (Decimal('-inf') / Decimal('inf') by default) *)
Record rng4_attrs (V : Type) := {
  r4_nillable : bool;
  r4_gt : V; r4_ge : V; r4_lt : V; r4_le : V;
  r4_values : list V
}.
Arguments r4_nillable {V} _.
Arguments r4_gt {V} _.
Arguments r4_ge {V} _.
Arguments r4_lt {V} _.
Arguments r4_le {V} _.
Arguments r4_values {V} _.
Record ord_ops (V : Type) := { oo_ltb : V -> V -> bool; oo_leb : V -> V -> bool; oo_eqb : V -> V -> bool }.
Arguments oo_ltb {V} _ _ _.
Arguments oo_leb {V} _ _ _.
Arguments oo_eqb {V} _ _ _.

Definition is_none {A} (o : option A) : bool := match o with None => true | Some _ => false end.
(** [bound is None or value > bound]: the comparison is evaluated only for a bound that is present
    (for None the source has already answered True; comparing with None would raise TypeError) *)
Definition cmp_opt {A} (f : A -> bool) (o : option A) : bool := match o with Some b => f b | None => false end.

(** ---- instants ----
    CPython's _ymd2ord: days before the year, days before the month, day *)
Definition days_before_year (y : Z) : Z :=
  let y1 := y - 1 in y1 * 365 + y1 / 4 - y1 / 100 + y1 / 400.
Definition days_before_month (y m : Z) : Z :=
  (if m =? 1 then 0 else if m =? 2 then 31 else if m =? 3 then 59 else if m =? 4 then 90
   else if m =? 5 then 120 else if m =? 6 then 151 else if m =? 7 then 181 else if m =? 8 then 212
   else if m =? 9 then 243 else if m =? 10 then 273 else if m =? 11 then 304 else 334)
  + (if (2 <? m) && is_leap y then 1 else 0).
Definition ordinal (d : date) : Z := days_before_year (yr d) + days_before_month (yr d) (mo d) + dy d.
Definition tod_us (t : tod) : Z := ((hr t * 60 + mi t) * 60 + se t) * 1000000 + us t.
(** microseconds since 0001-01-01T00:00:00 UTC (shifted by one day); a naive value counts as offset 0 *)
Definition instant (v : datetime) : Z :=
  ordinal (dt_d v) * 86400000000 + tod_us (dt_t v)
  - (match dt_off v with Some m => m | None => 0 end) * 60000000.

(** value.replace(tzinfo=LOCAL_TZ) for a naive value; aware values are left alone *)
Definition dt_localize (local : Z) (v : datetime) : datetime :=
  match dt_off v with None => mkdt (dt_d v) (dt_t v) (Some local) | Some _ => v end.

(** the comparisons of Python on these values.  Two aware datetimes are compared as instants (the
    UTC offset is subtracted), whatever their wall-clock fields; dates and times are compared as
    tuples of their fields. *)
Definition dt_ops : ord_ops datetime :=
  {| oo_ltb := fun a b => instant a <? instant b; oo_leb := fun a b => instant a <=? instant b;
     oo_eqb := fun a b => instant a =? instant b |}.
Definition date_lex_ltb (a b : date) : bool :=
  (yr a <? yr b) || ((yr a =? yr b) && ((mo a <? mo b) || ((mo a =? mo b) && (dy a <? dy b)))).
Definition date_ops : ord_ops date :=
  {| oo_ltb := date_lex_ltb; oo_leb := fun a b => negb (date_lex_ltb b a); oo_eqb := date_eqb |}.
Definition tod_lex_ltb (a b : tod) : bool :=
  (hr a <? hr b) || ((hr a =? hr b) && ((mi a <? mi b) || ((mi a =? mi b) &&
    ((se a <? se b) || ((se a =? se b) && (us a <? us b)))))).
Definition tod_ops : ord_ops tod :=
  {| oo_ltb := tod_lex_ltb; oo_leb := fun a b => negb (tod_lex_ltb b a); oo_eqb := tod_eqb |}.
