From SpyneV Require Import Base.Ext C05.Valid C05.ArrayModel.
From Coq Require Import Lia ZifyBool.

Lemma xml_array_spec d r : xml_array d r = conforms_array d r.
Proof.
  destruct r as [n|]; cbn [xml_array conforms_array count_name text_eqb]; [|reflexivity].
  rewrite Z.eqb_refl. cbn [andb]. change (1 + 0) with 1.
  destruct (occ_ok (ad_mmin d) (ad_mmax d) n); cbn [negb]; [rewrite andb_true_r|rewrite andb_false_r]; reflexivity.
Qed.
Lemma hier_array_spec d r : hier_array d r = conforms_array d r.
Proof.
  destruct r as [n|]; cbn [hier_array conforms_array]; [|reflexivity].
  destruct (occ_ok (ad_mmin d) (ad_mmax d) n); cbn [negb]; [rewrite andb_true_r|rewrite andb_false_r]; reflexivity.
Qed.
(** a wrapped Array has max_occurs = 1 on the array element; counts are non-negative *)
Lemma flat_array_spec d c : ad_wmax d = Fin 1 -> ad_wmin d <= 1 -> 0 <= c ->
  flat_array d c = conforms_array d (flat_request c).
Proof.
  intros Hw Hmin Hc. unfold flat_array, flat_request, conforms_array. rewrite Hw.
  change (ext_eqb (Fin 1) (Fin 1)) with (1 =? 1). rewrite Z.eqb_refl, andb_true_r.
  destruct (0 <? c) eqn:E; [|replace c with 0 by lia; reflexivity].
  assert (H1 : occ_ok (ad_wmin d) (Fin 1) 1 = true) by (unfold occ_ok; cbn [ext_leb]; lia).
  rewrite H1. reflexivity.
Qed.
(** the same logical request, the same verdict over XML / SOAP, JSON / YAML / MessagePack and HttpRpc *)
Lemma array_verdicts_agree d r :
  xml_array d r = hier_array d r
  /\ (forall c, ad_wmax d = Fin 1 -> ad_wmin d <= 1 -> 0 <= c -> flat_request c = r -> flat_array d c = xml_array d r).
Proof.
  split; [rewrite xml_array_spec, hier_array_spec; reflexivity|].
  intros c Hw Hmin Hc <-. rewrite xml_array_spec. apply flat_array_spec; assumption.
Qed.
Lemma array_occurrence_is_spec d r : xml_array d r = conforms_array d r /\ hier_array d r = conforms_array d r.
Proof. split; [apply xml_array_spec|apply hier_array_spec]. Qed.

(** the verdict splits by kind: element members are judged by the child elements alone, attribute
    members by the attributes alone — so a stray node of the other kind never changes it *)
Lemma xml_member_freq_by_kind decls children attrs :
  xml_member_freq decls children attrs
  = xml_freq (of_kind false decls) children && xml_freq (of_kind true decls) attrs.
Proof.
  unfold xml_member_freq, xml_freq, of_kind. induction decls as [|[[[k a] mn] mx] r IH]; [reflexivity|].
  cbn [forallb filter map]. rewrite IH. destruct a; cbn [negb filter map forallb];
    destruct (occ_ok mn mx _); cbn [andb]; try reflexivity.
  - rewrite andb_false_r. reflexivity.
Qed.
Lemma stray_nodes_irrelevant decls children attrs children' attrs' :
  (forall k, In k (map (fun d : occ_decl => fst (fst d)) (of_kind false decls)) -> count_name k children' = count_name k children) ->
  (forall k, In k (map (fun d : occ_decl => fst (fst d)) (of_kind true decls)) -> count_name k attrs' = count_name k attrs) ->
  xml_member_freq decls children' attrs' = xml_member_freq decls children attrs.
Proof.
  intros He Ha. rewrite !xml_member_freq_by_kind. f_equal; unfold xml_freq.
  - induction (of_kind false decls) as [|[[k mn] mx] r IH]; [reflexivity|]. cbn [forallb].
    rewrite (He k (or_introl eq_refl)), IH; [reflexivity|]. intros k' H. apply He. right. exact H.
  - induction (of_kind true decls) as [|[[k mn] mx] r IH]; [reflexivity|]. cbn [forallb].
    rewrite (Ha k (or_introl eq_refl)), IH; [reflexivity|]. intros k' H. apply Ha. right. exact H.
Qed.
