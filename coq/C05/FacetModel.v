(** C05 — Unicode facets and date/time range facets: the specification written from the property text,
    and the enforcement paths of the six protocols as coded, over the validation functions GENERATED
    from the source (Gen/FacetTypes.v).  Definitions only.

    Text members (Unicode).  Paths, all for validator='soft':
      xml_elem_text  = XmlDocument.from_element (xsi:nil test) + unicode_from_element: an element
                       without text holds the empty string; validate_string, from_unicode (the
                       identity on str: empty_is_none, encoding, format, cast at their defaults),
                       validate_native.  Soap11 uses the same code.
      xml_attr_text  = the attribute loop of complex_from_element: validate_string on the attribute
                       value, from_unicode, validate_native.
      hier_text      = HierDictDocument.validate + _from_dict_value (JSON, YAML, MessagePack) for a
                       str or null document value.
      flat_text      = SimpleDictDocument._to_native_values (HttpRpc) for one query-string value.
    Date/time members: every protocol carries them as text.
      rng_xml_leaf   = XmlDocument.base_from_element (validate_string of ModelBase, from_unicode with
                       the reader of C08/DtModel.v, validate_native);
      rng_doc_leaf   = HierDictDocument._from_dict_value / SimpleDictDocument._to_native_values. *)
From SpyneV Require Export C05.Facets Gen.FacetTypes.

(** ---- specification: Unicode ---- *)
Definition in_values_text (vals : list text) (s : text) : bool :=
  match vals with [] => true | _ => existsb (text_eqb s) vals end.
(** length in code points within [min_len, max_len]; the pattern, when declared, matches the WHOLE
    string; the value is one of the enumerated ones, when any are declared *)
Definition conforms_text (fullm : text -> bool) (a : str_attrs) (s : text) : bool :=
  (sa_min_len a <=? len s) && ext_leb (Fin (len s)) (sa_max_len a)
  && (if sa_has_pattern a then fullm s else true)
  && in_values_text (sa_values a) s.
Definition verdict_text (fullm : text -> bool) (a : str_attrs) (s : text) : out (option text) :=
  if conforms_text fullm a s then Ok (Some s) else VFault.
Definition verdict_none {A} (nillable : bool) : out (option A) := if nillable then Ok None else VFault.

(** ---- enforcement paths: Unicode ---- *)
Section TextPaths.
Variable T : str_type.
Variable fullm : text -> bool.
Variable a : str_attrs.

Definition text_checks (s : text) : out (option text) :=
  if negb (st_vs T a s) then VFault
  else if st_vn T fullm a s then Ok (Some s) else VFault.
Definition none_checks : out (option text) :=
  if negb (st_vs_none T a) then VFault
  else if st_vn_none T a then Ok None else VFault.

(** [nil]: xsi:nil is "true" or "1"; [txt]: element.text *)
Definition xml_elem_text (nil : bool) (txt : option text) : out (option text) :=
  if nil then (if sa_nillable a then Ok None else VFault)
  else text_checks (match txt with None => [] | Some s => s end).
Definition xml_attr_text (s : text) : out (option text) := text_checks s.
Definition hier_text (v : option text) : out (option text) :=
  match v with
  | None => if negb (sa_nillable a) then VFault      (* validate(): None is not a valid unicode source *)
            else none_checks
  | Some s => text_checks s
  end.
Definition flat_text (s : text) : out (option text) := text_checks s.
End TextPaths.

(** ---- specification: ranges over a key (instant / ordinal / microsecond of the day) ---- *)
Definition olo {V} (key : V -> Z) (o : option V) : ext := match o with None => NegInf | Some b => Fin (key b) end.
Definition ohi {V} (key : V -> Z) (o : option V) : ext := match o with None => PosInf | Some b => Fin (key b) end.
Definition in_values_key {V} (key : V -> Z) (vals : list V) (x : V) : bool :=
  match vals with [] => true | _ => existsb (fun b => key x =? key b) vals end.
(** gt < x, ge <= x, x < lt, x <= le as points of the key's line, and enumeration *)
Definition conforms_range {V} (key : V -> Z) (a : rng_attrs V) (x : V) : bool :=
  ext_ltb (olo key (ra_gt a)) (Fin (key x)) && (key (ra_ge a) <=? key x)
  && ext_ltb (Fin (key x)) (ohi key (ra_lt a)) && (key x <=? key (ra_le a))
  && in_values_key key (ra_values a) x.

(** the three date/time classes: the generated validate_native at the value type of the class *)
Definition vn_DateTime (a : rng_attrs datetime) (v : datetime) : bool :=
  validate_native_DateTime dt_ops (dt_localize local_tz_minutes) a v.
(** Date inherits DateTime.validate_native; a datetime.date is not a datetime.datetime, so the
    naive-value rule does not apply *)
Definition vn_Date (a : rng_attrs date) (d : date) : bool :=
  validate_native_DateTime date_ops (fun d => d) a d.
Definition vn_Time (a : rng_attrs tod) (t : tod) : bool := validate_native_Time tod_ops a t.
(** DateTime facets are facets of the instant; a naive value is taken to be in LOCAL_TZ *)
Definition conforms_datetime (a : rng_attrs datetime) (v : datetime) : bool :=
  conforms_range instant a (dt_localize local_tz_minutes v).

(** ---- enforcement paths: date/time (text in every protocol) ---- *)
Section RangePaths.
Context {V : Type}.
Variable rd : text -> out V.            (* from_unicode for the class *)
Variable vn : V -> bool.                (* validate_native(cls, v) *)
Variable nillable vn_none : bool.       (* Attributes.nillable, validate_native(cls, None) *)

Definition rng_read (s : text) : out (option V) :=
  match rd s with
  | Ok v => if vn v then Ok (Some v) else VFault
  | VFault => VFault
  | Crash e => Crash e
  end.
(** XmlDocument.base_from_element: [txt] is element.text (None for an element without text) *)
Definition rng_xml_leaf (nil : bool) (txt : option text) : out (option V) :=
  if nil then (if nillable then Ok None else VFault)
  else match txt with
       | None => if negb nillable then VFault            (* validate_string(cls, None) *)
                 else if vn_none then Ok None else VFault
       | Some s => rng_read s
       end.
(** dict documents: a str or null value *)
Definition rng_doc_leaf (v : option text) : out (option V) :=
  match v with
  | None => if vn_none then Ok None else VFault
  | Some s => rng_read s
  end.
End RangePaths.

Definition datetime_xml_leaf (a : rng_attrs datetime) :=
  rng_xml_leaf datetime_from_unicode_iso (vn_DateTime a) (ra_nillable a) (validate_native_none_DateTime a).
Definition datetime_doc_leaf (a : rng_attrs datetime) :=
  rng_doc_leaf datetime_from_unicode_iso (vn_DateTime a) (validate_native_none_DateTime a).
Definition date_xml_leaf (a : rng_attrs date) :=
  rng_xml_leaf date_from_unicode (vn_Date a) (ra_nillable a) (validate_native_none_DateTime a).
Definition date_doc_leaf (a : rng_attrs date) :=
  rng_doc_leaf date_from_unicode (vn_Date a) (validate_native_none_DateTime a).
Definition time_xml_leaf (a : rng_attrs tod) :=
  rng_xml_leaf time_from_unicode (vn_Time a) (ra_nillable a) (validate_native_none_Time a).
Definition time_doc_leaf (a : rng_attrs tod) :=
  rng_doc_leaf time_from_unicode (vn_Time a) (validate_native_none_Time a).

(** field-wise order of two datetimes (what Python compares when both carry the same tzinfo) *)
Definition datetime_lex_ltb (x y : datetime) : bool :=
  date_lex_ltb (dt_d x) (dt_d y) || (date_eqb (dt_d x) (dt_d y) && tod_lex_ltb (dt_t x) (dt_t y)).

(** equality tests for the case files *)
Definition otext_eqb (x y : option text) : bool :=
  match x, y with Some p, Some q => text_eqb p q | None, None => true | _, _ => false end.
Definition oeqb {A} (eqb : A -> A -> bool) (x y : option A) : bool :=
  match x, y with Some p, Some q => eqb p q | None, None => true | _, _ => false end.

(** witness values of the non-vacuity examples in Props/C05.v *)
Definition ex_dt (y m d H M : Z) (off : option Z) : datetime := mkdt (mkdate y m d) (mktod H M 0 0) off.
Definition ex_dt_attrs : rng_attrs datetime :=
  {| ra_nillable := true; ra_gt := None; ra_ge := ex_dt 2020 1 1 0 0 (Some 0%Z); ra_lt := Some (ex_dt 2021 1 1 0 0 (Some 0%Z));
     ra_le := ex_dt 9999 12 31 23 59 (Some 0%Z); ra_values := [] |}.
