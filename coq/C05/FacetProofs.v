From SpyneV Require Import Base.Digits Base.Ext C08.DtModel C08.DtProofs C05.Facets Gen.FacetTypes C05.FacetModel.
From Coq Require Import Lia ZifyBool.
Ltac Zify.zify_post_hook ::= Z.to_euclidean_division_equations.

(** ---------------------------------------------------------------- Unicode *)
Lemma in_values_text_spec vals s :
  (ext_eqb (Fin (Z.of_nat (length vals))) (Fin 0) || existsb (text_eqb s) vals) = in_values_text vals s.
Proof.
  destruct vals as [|x r]; [reflexivity|]. cbn [length ext_eqb in_values_text].
  replace (Z.of_nat (S (length r)) =? 0) with false by lia. reflexivity.
Qed.

(** validate_string and validate_native of Unicode — generated from the source — together decide
    exactly the specification, for every attribute set, every regex oracle and every string *)
Lemma unicode_checks_are_spec fullm a s :
  st_vs class_Unicode a s && st_vn class_Unicode fullm a s = conforms_text fullm a s.
Proof.
  unfold class_Unicode; cbn [st_vs st_vn].
  unfold svs_Unicode, svs_ModelBase, svn_Unicode, svn_SimpleModel, svn_ModelBase, re_match_with_span, conforms_text.
  rewrite in_values_text_spec.
  change (ext_leb (Fin (sa_min_len a)) (Fin (len s))) with (sa_min_len a <=? len s).
  generalize (ext_leb (Fin (len s)) (sa_max_len a)) as b1. generalize (in_values_text (sa_values a) s) as b2.
  generalize (sa_min_len a <=? len s) as b3. generalize (fullm s) as b4. intros b4 b3 b2 b1.
  destruct (sa_has_pattern a), b1, b2, b3, b4; reflexivity.
Qed.
(** None passes both iff the type is nillable *)
Lemma unicode_none_is_spec a :
  st_vs_none class_Unicode a && st_vn_none class_Unicode a = sa_nillable a.
Proof.
  unfold class_Unicode; cbn [st_vs_none st_vn_none].
  unfold svs_none_Unicode, svs_none_ModelBase, svn_none_Unicode, svn_none_SimpleModel, svn_none_ModelBase.
  destruct (sa_nillable a); cbn [andb orb]; [|reflexivity].
  destruct (ext_eqb _ _); reflexivity.
Qed.

Lemma text_checks_spec fullm a s : text_checks class_Unicode fullm a s = verdict_text fullm a s.
Proof.
  unfold text_checks, verdict_text. rewrite <- (unicode_checks_are_spec fullm a s).
  destruct (st_vs class_Unicode a s); cbn [negb andb]; [|reflexivity].
  destruct (st_vn class_Unicode fullm a s); reflexivity.
Qed.
Lemma none_checks_spec a : none_checks class_Unicode a = @verdict_none text (sa_nillable a).
Proof.
  unfold none_checks, verdict_none, class_Unicode; cbn [st_vs_none st_vn_none].
  unfold svs_none_Unicode, svs_none_ModelBase, svn_none_Unicode, svn_none_SimpleModel, svn_none_ModelBase.
  destruct (sa_nillable a); cbn [negb andb orb]; [|reflexivity].
  destruct (ext_eqb _ _); reflexivity.
Qed.

(** every protocol path gives the verdict of the specification *)
Lemma xml_elem_text_spec fullm a txt :
  xml_elem_text class_Unicode fullm a false txt
  = verdict_text fullm a (match txt with None => [] | Some s => s end).
Proof. unfold xml_elem_text. apply text_checks_spec. Qed.
Lemma xml_elem_nil_spec fullm a txt :
  xml_elem_text class_Unicode fullm a true txt = verdict_none (sa_nillable a).
Proof. reflexivity. Qed.
Lemma xml_attr_text_spec fullm a s : xml_attr_text class_Unicode fullm a s = verdict_text fullm a s.
Proof. apply text_checks_spec. Qed.
Lemma flat_text_spec fullm a s : flat_text class_Unicode fullm a s = verdict_text fullm a s.
Proof. apply text_checks_spec. Qed.
Lemma hier_text_spec fullm a v :
  hier_text class_Unicode fullm a v
  = match v with Some s => verdict_text fullm a s | None => verdict_none (sa_nillable a) end.
Proof.
  destruct v as [s|]; cbn [hier_text]; [apply text_checks_spec|].
  rewrite none_checks_spec. unfold verdict_none. destruct (sa_nillable a); reflexivity.
Qed.
(** hence: the same string gets the same verdict (and arrives unchanged) over XML / SOAP elements,
    XML attributes, JSON / YAML / MessagePack and HttpRpc *)
Lemma text_verdicts_agree fullm a s :
  xml_elem_text class_Unicode fullm a false (Some s) = hier_text class_Unicode fullm a (Some s)
  /\ xml_attr_text class_Unicode fullm a s = hier_text class_Unicode fullm a (Some s)
  /\ flat_text class_Unicode fullm a s = hier_text class_Unicode fullm a (Some s).
Proof.
  rewrite xml_elem_text_spec, xml_attr_text_spec, flat_text_spec, hier_text_spec. auto.
Qed.
(** and null over XML (xsi:nil) and over the dict documents *)
Lemma text_null_verdicts_agree fullm a txt :
  xml_elem_text class_Unicode fullm a true txt = hier_text class_Unicode fullm a None.
Proof. rewrite xml_elem_nil_spec, hier_text_spec. reflexivity. Qed.
(** no path lets an exception escape *)
Lemma text_paths_total fullm a :
  (forall nil txt, is_crash (xml_elem_text class_Unicode fullm a nil txt) = false)
  /\ (forall v, is_crash (hier_text class_Unicode fullm a v) = false)
  /\ (forall s, is_crash (xml_attr_text class_Unicode fullm a s) = false)
  /\ (forall s, is_crash (flat_text class_Unicode fullm a s) = false).
Proof.
  repeat split; intros.
  - destruct nil; [rewrite xml_elem_nil_spec; unfold verdict_none; destruct (sa_nillable a); reflexivity|].
    rewrite xml_elem_text_spec. unfold verdict_text. destruct (conforms_text _ _ _); reflexivity.
  - rewrite hier_text_spec. destruct v; [unfold verdict_text; destruct (conforms_text _ _ _)|unfold verdict_none; destruct (sa_nillable a)]; reflexivity.
  - rewrite xml_attr_text_spec. unfold verdict_text. destruct (conforms_text _ _ _); reflexivity.
  - rewrite flat_text_spec. unfold verdict_text. destruct (conforms_text _ _ _); reflexivity.
Qed.

(** ---------------------------------------------------------------- ranges *)
Lemma in_values_key_spec {V} (key : V -> Z) vals x :
  (ext_eqb (Fin (Z.of_nat (length vals))) (Fin 0) || existsb (fun b => key x =? key b) vals)
  = in_values_key key vals x.
Proof.
  destruct vals as [|y r]; [reflexivity|]. cbn [length ext_eqb in_values_key].
  replace (Z.of_nat (S (length r)) =? 0) with false by lia. reflexivity.
Qed.

(** an order given by a key: what the generated function computes with it is the specification *)
Definition keyed {V} (o : ord_ops V) (key : V -> Z) (P : V -> Prop) : Prop :=
  forall x y, P x -> P y ->
    oo_ltb o x y = (key x <? key y) /\ oo_leb o x y = (key x <=? key y) /\ oo_eqb o x y = (key x =? key y).
Definition bounds_ok {V} (P : V -> Prop) (a : rng_attrs V) : Prop :=
  (forall b, ra_gt a = Some b -> P b) /\ P (ra_ge a) /\ (forall b, ra_lt a = Some b -> P b) /\ P (ra_le a)
  /\ Forall P (ra_values a).

Lemma existsb_ext_in {A} (f g : A -> bool) l : (forall x, In x l -> f x = g x) -> existsb f l = existsb g l.
Proof.
  induction l as [|x r IH]; intros H; [reflexivity|]. cbn [existsb].
  rewrite (H x (or_introl eq_refl)), IH; [reflexivity|]. intros y Hy. apply H. right. exact Hy.
Qed.

Lemma rvn_DateTime_spec {V} (o : ord_ops V) key (P : V -> Prop) loc a v :
  keyed o key P -> bounds_ok P a -> P (loc v) ->
  validate_native_DateTime o loc a v = conforms_range key a (loc v).
Proof.
  intros K (Hgt & Hge & Hlt & Hle & Hvals) Pv.
  unfold validate_native_DateTime, rvn_DateTime, rvn_SimpleModel, rvn_ModelBase, conforms_range. cbv zeta.
  rewrite <- in_values_key_spec.
  assert (Ev : existsb (oo_eqb o (loc v)) (ra_values a) = existsb (fun b => key (loc v) =? key b) (ra_values a)).
  { apply existsb_ext_in. intros x Hx. rewrite Forall_forall in Hvals. apply (K (loc v) x Pv (Hvals x Hx)). }
  rewrite Ev.
  destruct (K (ra_ge a) (loc v) Hge Pv) as (_ & Ege & _). destruct (K (loc v) (ra_le a) Pv Hle) as (_ & Ele & _).
  rewrite Ege, Ele.
  destruct (ra_gt a) as [g|] eqn:Eg; destruct (ra_lt a) as [l|] eqn:El; cbn [is_none cmp_opt olo ohi orb ext_ltb andb];
    try (destruct (K g (loc v) (Hgt g eq_refl) Pv) as (Egt & _ & _); rewrite Egt);
    try (destruct (K (loc v) l Pv (Hlt l eq_refl)) as (Elt & _ & _); rewrite Elt);
    destruct (ext_eqb _ _ || existsb _ _); lia.
Qed.
Lemma rvn_Time_spec {V} (o : ord_ops V) key (P : V -> Prop) a v :
  keyed o key P -> bounds_ok P a -> P v ->
  validate_native_Time o a v = conforms_range key a v.
Proof.
  intros K (Hgt & Hge & Hlt & Hle & Hvals) Pv.
  unfold validate_native_Time, rvn_Time, rvn_SimpleModel, rvn_ModelBase, conforms_range.
  rewrite <- in_values_key_spec.
  assert (Ev : existsb (oo_eqb o v) (ra_values a) = existsb (fun b => key v =? key b) (ra_values a)).
  { apply existsb_ext_in. intros x Hx. rewrite Forall_forall in Hvals. apply (K v x Pv (Hvals x Hx)). }
  rewrite Ev.
  destruct (K (ra_ge a) v Hge Pv) as (_ & Ege & _). destruct (K v (ra_le a) Pv Hle) as (_ & Ele & _).
  rewrite Ege, Ele.
  destruct (ra_gt a) as [g|] eqn:Eg; destruct (ra_lt a) as [l|] eqn:El; cbn [is_none cmp_opt olo ohi orb ext_ltb andb];
    try (destruct (K g v (Hgt g eq_refl) Pv) as (Egt & _ & _); rewrite Egt);
    try (destruct (K v l Pv (Hlt l eq_refl)) as (Elt & _ & _); rewrite Elt);
    destruct (ext_eqb _ _ || existsb _ _); lia.
Qed.

(** DateTime: comparisons are comparisons of instants, by definition of dt_ops *)
Lemma dt_keyed : keyed dt_ops instant (fun _ => True).
Proof. intros x y _ _. cbn. auto. Qed.
Lemma datetime_native_is_spec a v : vn_DateTime a v = conforms_datetime a v.
Proof.
  unfold vn_DateTime, conforms_datetime.
  apply (rvn_DateTime_spec dt_ops instant (fun _ => True)); [apply dt_keyed| |exact I].
  repeat split; auto. apply Forall_forall. auto.
Qed.
(** the naive-value rule: a value without tzinfo is validated as the same fields in LOCAL_TZ *)
Lemma datetime_naive_rule a d t :
  vn_DateTime a (mkdt d t None) = vn_DateTime a (mkdt d t (Some local_tz_minutes)).
Proof. rewrite !datetime_native_is_spec. reflexivity. Qed.
(** the verdict depends on the instant only: the same point in time written with another UTC offset
    (other wall-clock fields) gets the same verdict *)
Lemma datetime_verdict_of_instant a v w :
  dt_off v <> None -> dt_off w <> None -> instant v = instant w -> vn_DateTime a v = vn_DateTime a w.
Proof.
  intros Hv Hw E. rewrite !datetime_native_is_spec. unfold conforms_datetime, dt_localize.
  destruct (dt_off v); [|congruence]. destruct (dt_off w); [|congruence].
  unfold conforms_range. rewrite E.
  destruct (ra_values a); [reflexivity|]. unfold in_values_key. rewrite E. reflexivity.
Qed.

(** ---- ordinals: the arithmetic key agrees with the field-wise comparison Python performs ---- *)
Lemma days_before_year_step y : 1 <= y ->
  days_before_year (y + 1) = days_before_year y + (if is_leap y then 366 else 365).
Proof.
  intros Hy. unfold days_before_year, is_leap. cbv zeta. replace (y + 1 - 1) with y by lia.
  destruct ((y mod 4 =? 0) && negb (y mod 100 =? 0) || (y mod 400 =? 0)) eqn:E; lia.
Qed.
Lemma days_before_year_mono y z : 1 <= y -> y < z -> days_before_year y + 365 <= days_before_year z.
Proof.
  intros Hy Hlt. replace z with (y + 1 + (z - y - 1)) by lia.
  assert (Hn : 0 <= z - y - 1) by lia. generalize dependent (z - y - 1). intros n Hn.
  pattern n. apply natlike_ind; [|intros k Hk IH|exact Hn].
  - rewrite Z.add_0_r, days_before_year_step by lia. destruct (is_leap y); lia.
  - replace (y + 1 + Z.succ k) with ((y + 1 + k) + 1) by lia.
    rewrite days_before_year_step by lia. destruct (is_leap (y + 1 + k)); lia.
Qed.
Ltac calc_cmp :=
  repeat match goal with
  | |- context [?a =? ?b] => let v := eval vm_compute in (a =? b) in progress change (a =? b) with v
  | |- context [?a <? ?b] => let v := eval vm_compute in (a <? b) in progress change (a <? b) with v
  | H : context [?a =? ?b] |- _ => let v := eval vm_compute in (a =? b) in progress change (a =? b) with v in H
  | H : context [?a <? ?b] |- _ => let v := eval vm_compute in (a <? b) in progress change (a <? b) with v in H
  end; cbn [orb andb negb] in *.
Lemma year_day_bound d : valid_date d = true ->
  1 <= days_before_month (yr d) (mo d) + dy d <= (if is_leap (yr d) then 366 else 365).
Proof.
  intros H. destruct d as [y m dd]. unfold valid_date in H. cbn [yr mo dy] in *.
  assert (Hm : m = 1 \/ m = 2 \/ m = 3 \/ m = 4 \/ m = 5 \/ m = 6 \/ m = 7 \/ m = 8 \/ m = 9 \/ m = 10 \/ m = 11 \/ m = 12) by lia.
  unfold days_before_month, days_in_month in *.
  destruct (is_leap y); repeat (destruct Hm as [Hm|Hm]); subst m; calc_cmp; lia.
Qed.
Lemma month_day_mono y m1 d1 m2 d2 :
  valid_date (mkdate y m1 d1) = true -> valid_date (mkdate y m2 d2) = true -> m1 < m2 ->
  days_before_month y m1 + d1 < days_before_month y m2 + d2.
Proof.
  intros H1 H2 Hlt. unfold valid_date in *. cbn [yr mo dy] in *.
  assert (Hm1 : m1 = 1 \/ m1 = 2 \/ m1 = 3 \/ m1 = 4 \/ m1 = 5 \/ m1 = 6 \/ m1 = 7 \/ m1 = 8 \/ m1 = 9 \/ m1 = 10 \/ m1 = 11) by lia.
  assert (Hm2 : m2 = 2 \/ m2 = 3 \/ m2 = 4 \/ m2 = 5 \/ m2 = 6 \/ m2 = 7 \/ m2 = 8 \/ m2 = 9 \/ m2 = 10 \/ m2 = 11 \/ m2 = 12) by lia.
  unfold days_before_month, days_in_month in *.
  destruct (is_leap y);
    repeat (destruct Hm1 as [Hm1|Hm1]); subst m1;
    repeat (destruct Hm2 as [Hm2|Hm2]); subst m2; calc_cmp; lia.
Qed.

Lemma date_lex_ordinal a b : valid_date a = true -> valid_date b = true ->
  date_lex_ltb a b = (ordinal a <? ordinal b).
Proof.
  intros Ha Hb. pose proof (year_day_bound a Ha) as Ba. pose proof (year_day_bound b Hb) as Bb.
  pose proof (valid_date_range a Ha) as Ra. pose proof (valid_date_range b Hb) as Rb.
  unfold date_lex_ltb, ordinal.
  destruct (yr a <? yr b) eqn:Ey.
  - cbn [orb]. symmetry. apply Z.ltb_lt.
    assert (yr a + 1 <= yr b) by lia.
    assert (days_before_year (yr a + 1) <= days_before_year (yr b)).
    { destruct (Z.eq_dec (yr a + 1) (yr b)) as [->|Hne]; [lia|].
      pose proof (days_before_year_mono (yr a + 1) (yr b)). lia. }
    rewrite days_before_year_step in * by lia. destruct (is_leap (yr a)); lia.
  - cbn [orb]. destruct (yr a =? yr b) eqn:Eq.
    + cbn [andb]. assert (Hy : yr a = yr b) by lia.
      destruct a as [ya ma da], b as [yb mb db]. cbn [yr mo dy] in *. subst yb.
      destruct (ma <? mb) eqn:Em.
      * cbn [orb]. symmetry. apply Z.ltb_lt. pose proof (month_day_mono ya ma da mb db Ha Hb). lia.
      * cbn [orb]. destruct (ma =? mb) eqn:Emq.
        -- cbn [andb]. assert (ma = mb) by lia. subst mb. destruct (da <? db) eqn:Ed; symmetry; [apply Z.ltb_lt|apply Z.ltb_ge]; lia.
        -- cbn [andb]. symmetry. apply Z.ltb_ge. pose proof (month_day_mono ya mb db ma da Hb Ha). lia.
    + cbn [andb]. symmetry. apply Z.ltb_ge.
      assert (yr b + 1 <= yr a) by lia.
      assert (days_before_year (yr b + 1) <= days_before_year (yr a)).
      { destruct (Z.eq_dec (yr b + 1) (yr a)) as [->|Hne]; [lia|].
        pose proof (days_before_year_mono (yr b + 1) (yr a)). lia. }
      rewrite days_before_year_step in * by lia. destruct (is_leap (yr b)); lia.
Qed.
Lemma ordinal_inj a b : valid_date a = true -> valid_date b = true -> ordinal a = ordinal b -> a = b.
Proof.
  intros Ha Hb E. pose proof (date_lex_ordinal a b Ha Hb) as H1. pose proof (date_lex_ordinal b a Hb Ha) as H2.
  rewrite E, Z.ltb_irrefl in H1, H2. unfold date_lex_ltb in *.
  destruct a as [ya ma da], b as [yb mb db]. cbn [yr mo dy] in *.
  assert (ya = yb) by lia. subst. assert (ma = mb) by lia. subst. assert (da = db) by lia. subst. reflexivity.
Qed.
Lemma date_keyed : keyed date_ops ordinal (fun d => valid_date d = true).
Proof.
  intros x y Hx Hy. cbn [date_ops oo_ltb oo_leb oo_eqb]. repeat split.
  - apply date_lex_ordinal; assumption.
  - rewrite (date_lex_ordinal y x Hy Hx). lia.
  - destruct (ordinal x =? ordinal y) eqn:E.
    + apply Z.eqb_eq in E. rewrite (ordinal_inj x y Hx Hy E). unfold date_eqb. rewrite !Z.eqb_refl. reflexivity.
    + unfold date_eqb. destruct (yr x =? yr y) eqn:E1, (mo x =? mo y) eqn:E2, (dy x =? dy y) eqn:E3; try reflexivity.
      exfalso. destruct x as [y1 m1 d1], y as [y2 m2 d2]. cbn [yr mo dy] in *.
      assert (y1 = y2) by lia. assert (m1 = m2) by lia. assert (d1 = d2) by lia. subst. lia.
Qed.
Lemma date_native_is_spec a d :
  bounds_ok (fun d => valid_date d = true) a -> valid_date d = true ->
  vn_Date a d = conforms_range ordinal a d.
Proof.
  intros Hb Hd. unfold vn_Date.
  apply (rvn_DateTime_spec date_ops ordinal (fun d => valid_date d = true) (fun d => d)); [apply date_keyed|exact Hb|exact Hd].
Qed.

Lemma tod_lex_us a b : valid_tod a = true -> valid_tod b = true -> tod_lex_ltb a b = (tod_us a <? tod_us b).
Proof.
  intros Ha Hb. pose proof (valid_tod_range a Ha). pose proof (valid_tod_range b Hb).
  unfold tod_lex_ltb, tod_us.
  destruct (hr a <? hr b) eqn:E1; cbn [orb]; [symmetry; apply Z.ltb_lt; nia|].
  destruct (hr a =? hr b) eqn:E2; cbn [andb]; [|symmetry; apply Z.ltb_ge; nia].
  destruct (mi a <? mi b) eqn:E3; cbn [orb]; [symmetry; apply Z.ltb_lt; nia|].
  destruct (mi a =? mi b) eqn:E4; cbn [andb]; [|symmetry; apply Z.ltb_ge; nia].
  destruct (se a <? se b) eqn:E5; cbn [orb]; [symmetry; apply Z.ltb_lt; nia|].
  destruct (se a =? se b) eqn:E6; cbn [andb]; [|symmetry; apply Z.ltb_ge; nia].
  destruct (us a <? us b) eqn:E7; symmetry; [apply Z.ltb_lt|apply Z.ltb_ge]; nia.
Qed.
Lemma tod_keyed : keyed tod_ops tod_us (fun t => valid_tod t = true).
Proof.
  intros x y Hx Hy. cbn [tod_ops oo_ltb oo_leb oo_eqb]. repeat split.
  - apply tod_lex_us; assumption.
  - rewrite (tod_lex_us y x Hy Hx). lia.
  - pose proof (tod_lex_us x y Hx Hy) as H1. pose proof (tod_lex_us y x Hy Hx) as H2.
    unfold tod_eqb. unfold tod_lex_ltb in *.
    destruct (tod_us x =? tod_us y) eqn:E.
    + assert (tod_us x <? tod_us y = false) by lia. assert (tod_us y <? tod_us x = false) by lia.
      rewrite H in H1. rewrite H0 in H2. lia.
    + destruct (hr x =? hr y) eqn:A1, (mi x =? mi y) eqn:A2, (se x =? se y) eqn:A3, (us x =? us y) eqn:A4; try reflexivity.
      exfalso. unfold tod_us in E. assert (hr x = hr y) by lia. assert (mi x = mi y) by lia.
      assert (se x = se y) by lia. assert (us x = us y) by lia. rewrite H, H0, H3, H4 in E. lia.
Qed.
Lemma time_native_is_spec a t :
  bounds_ok (fun t => valid_tod t = true) a -> valid_tod t = true ->
  vn_Time a t = conforms_range tod_us a t.
Proof.
  intros Hb Ht. unfold vn_Time.
  apply (rvn_Time_spec tod_ops tod_us (fun t => valid_tod t = true)); [apply tod_keyed|exact Hb|exact Ht].
Qed.

(** two datetimes with the same UTC offset (in particular the same tzinfo object): the field-wise
    comparison Python performs then is the comparison of instants *)
Lemma datetime_lex_instant x y : valid_datetime x = true -> valid_datetime y = true -> dt_off x = dt_off y ->
  datetime_lex_ltb x y = (instant x <? instant y).
Proof.
  intros Hx Hy Eo. apply valid_datetime_split in Hx. apply valid_datetime_split in Hy.
  destruct Hx as (Hdx & Htx & _), Hy as (Hdy & Hty & _).
  unfold datetime_lex_ltb, instant. rewrite Eo.
  rewrite (date_lex_ordinal _ _ Hdx Hdy), (tod_lex_us _ _ Htx Hty).
  pose proof (valid_tod_range _ Htx). pose proof (valid_tod_range _ Hty).
  assert (Bx : 0 <= tod_us (dt_t x) < 86400000000) by (unfold tod_us; nia).
  assert (By : 0 <= tod_us (dt_t y) < 86400000000) by (unfold tod_us; nia).
  destruct (ordinal (dt_d x) <? ordinal (dt_d y)) eqn:E1; cbn [orb].
  - symmetry. apply Z.ltb_lt. nia.
  - destruct (date_eqb (dt_d x) (dt_d y)) eqn:E2; cbn [andb].
    + assert (ordinal (dt_d x) = ordinal (dt_d y)).
      { unfold date_eqb in E2. destruct (dt_d x) as [y1 m1 d1], (dt_d y) as [y2 m2 d2]. cbn [yr mo dy] in *.
        assert (y1 = y2) by lia. assert (m1 = m2) by lia. assert (d1 = d2) by lia. subst. reflexivity. }
      rewrite H1. destruct (tod_us (dt_t x) <? tod_us (dt_t y)) eqn:E3; symmetry; [apply Z.ltb_lt|apply Z.ltb_ge]; lia.
    + symmetry. apply Z.ltb_ge.
      assert (ordinal (dt_d x) <> ordinal (dt_d y)).
      { intros E. apply (ordinal_inj _ _ Hdx Hdy) in E. rewrite E in E2. unfold date_eqb in E2. rewrite !Z.eqb_refl in E2. discriminate. }
      nia.
Qed.

(** ---- text paths of the date/time classes ---- *)
Lemma datetime_doc_leaf_spec a v : valid_datetime v = true ->
  datetime_doc_leaf a (Some (datetime_iso v)) = if conforms_datetime a v then Ok (Some v) else VFault.
Proof.
  intros Hv. unfold datetime_doc_leaf, rng_doc_leaf, rng_read.
  rewrite (datetime_roundtrip v Hv), datetime_native_is_spec. reflexivity.
Qed.
Lemma date_doc_leaf_spec a d :
  bounds_ok (fun d => valid_date d = true) a -> valid_date d = true ->
  date_doc_leaf a (Some (date_iso d)) = if conforms_range ordinal a d then Ok (Some d) else VFault.
Proof.
  intros Hb Hd. unfold date_doc_leaf, rng_doc_leaf, rng_read.
  rewrite (date_roundtrip d Hd), (date_native_is_spec a d Hb Hd). reflexivity.
Qed.
Lemma time_doc_leaf_spec a t :
  bounds_ok (fun t => valid_tod t = true) a -> valid_tod t = true ->
  time_doc_leaf a (Some (time_iso t)) = if conforms_range tod_us a t then Ok (Some t) else VFault.
Proof.
  intros Hb Ht. unfold time_doc_leaf, rng_doc_leaf, rng_read.
  rewrite (time_roundtrip t Ht), (time_native_is_spec a t Hb Ht). reflexivity.
Qed.

(** None is accepted by validate_native iff nillable *)
Lemma rng_none_is_spec {V} (a : rng_attrs V) :
  validate_native_none_DateTime a = ra_nillable a /\ validate_native_none_Time a = ra_nillable a.
Proof.
  unfold validate_native_none_DateTime, validate_native_none_Time, rvn_none_DateTime, rvn_none_Time,
    rvn_none_SimpleModel, rvn_none_ModelBase.
  destruct (ra_nillable a); cbn [andb orb]; split; try reflexivity; destruct (ext_eqb _ _); reflexivity.
Qed.
(** the XML path and the dict-document path give the same verdict for every text, for null and for
    an element without text, whatever the reader and the native check are *)
Lemma rng_paths_agree {V} (rd : text -> out V) vn nillable vn_none (txt : option text) :
  vn_none = nillable ->
  rng_xml_leaf rd vn nillable vn_none false txt = rng_doc_leaf rd vn vn_none txt
  /\ rng_xml_leaf rd vn nillable vn_none true txt = rng_doc_leaf rd vn vn_none None.
Proof.
  intros ->. unfold rng_xml_leaf, rng_doc_leaf. destruct txt; destruct nillable; auto.
Qed.
Lemma datetime_paths_agree a txt :
  datetime_xml_leaf a false txt = datetime_doc_leaf a txt
  /\ datetime_xml_leaf a true txt = datetime_doc_leaf a None.
Proof. apply rng_paths_agree. apply rng_none_is_spec. Qed.
Lemma date_paths_agree a txt :
  date_xml_leaf a false txt = date_doc_leaf a txt /\ date_xml_leaf a true txt = date_doc_leaf a None.
Proof. apply rng_paths_agree. apply rng_none_is_spec. Qed.
Lemma time_paths_agree a txt :
  time_xml_leaf a false txt = time_doc_leaf a txt /\ time_xml_leaf a true txt = time_doc_leaf a None.
Proof. apply rng_paths_agree. apply rng_none_is_spec. Qed.

(** ---- the statements of Props/C05.v that assemble several of the lemmas above ---- *)
Lemma text_paths_are_spec fullm a :
  (forall txt, xml_elem_text class_Unicode fullm a false txt
               = verdict_text fullm a (match txt with None => [] | Some s => s end))
  /\ (forall s, xml_attr_text class_Unicode fullm a s = verdict_text fullm a s)
  /\ (forall s, hier_text class_Unicode fullm a (Some s) = verdict_text fullm a s)
  /\ (forall s, flat_text class_Unicode fullm a s = verdict_text fullm a s).
Proof.
  repeat split; intros.
  - apply xml_elem_text_spec. - apply xml_attr_text_spec.
  - apply (hier_text_spec fullm a (Some s)). - apply flat_text_spec.
Qed.
Lemma text_null_verdicts fullm a txt :
  xml_elem_text class_Unicode fullm a true txt = hier_text class_Unicode fullm a None
  /\ hier_text class_Unicode fullm a None = verdict_none (sa_nillable a).
Proof. split; [apply text_null_verdicts_agree|apply (hier_text_spec fullm a None)]. Qed.
Lemma range_paths_agree txt :
  (forall a, datetime_xml_leaf a false txt = datetime_doc_leaf a txt
             /\ datetime_xml_leaf a true txt = datetime_doc_leaf a None)
  /\ (forall a, date_xml_leaf a false txt = date_doc_leaf a txt /\ date_xml_leaf a true txt = date_doc_leaf a None)
  /\ (forall a, time_xml_leaf a false txt = time_doc_leaf a txt /\ time_xml_leaf a true txt = time_doc_leaf a None).
Proof.
  repeat split; try apply datetime_paths_agree; try apply date_paths_agree; try apply time_paths_agree.
Qed.
