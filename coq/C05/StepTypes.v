(** C05 — vocabulary of the decision procedures translated statement by statement from the source
    (Gen/C05Steps.v).  Definitions only. *)
From SpyneV Require Export Base.Prelude.

(** the pair (class declared for the element, class named by its xsi:type attribute) as
    XmlDocument._get_xsi_target looks at it; sup / sub are the un-customised originals (__orig__) *)
Record xsi_query := {
  xq_same_orig : bool;         (* sub is sup: the same class, possibly customised differently *)
  xq_sup_is_array : bool;      (* issubclass(sup, Array) *)
  xq_names_differ : bool;      (* (namespace, type name) of the two classes differ *)
  xq_sup_is_complex : bool;    (* issubclass(sup, ComplexModelBase) *)
  xq_sub_extends_sup : bool    (* issubclass(sub, sup) *)
}.
(** which class the element is then deserialised (and validated) as *)
Inductive xsi_choice := Declared | Named.

(** what decimal.Decimal() is applied to when a dict document carries a number for a Decimal member *)
Inductive dec_num_conv := ViaShortestText | ExactExpansion.
