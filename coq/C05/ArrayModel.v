(** C05 — occurrence constraints of a wrapped Array member (definitions only).

    Array(T(min_occurs=m, max_occurs=n), min_occurs=a) declares two things: the array element
    itself occurs a..1 times in the object that contains it, and it holds m..n items.
    The enforcement points, as coded (validator='soft'):
      xml_array   complex_from_element counts the array element per tag name against the array's own
                  bounds (the frequencies check at its end); array_from_element counts the children
                  against the item type's bounds;
      hier_array  HierDictDocument._doc_to_object: frequencies[k] += 1 for the key, checked by
                  _check_freq_dict against the array's bounds; the Array branch checks len(items)
                  against the item type's bounds with the same function;
      flat_array  SimpleDictDocument: frequencies[k] += len(values); _check_freq_dict(flat=True)
                  compares a positive count with the item bounds and a zero count (no pair at all:
                  the array is missing) with the array's own bounds. *)
From SpyneV Require Export C05.Valid.

Record arr_decl := { ad_wmin : Z; ad_wmax : ext; ad_mmin : Z; ad_mmax : ext }.

(** a logical request: the array is absent, or present with n items *)
Definition conforms_array (d : arr_decl) (r : option Z) : bool :=
  match r with
  | None => occ_ok (ad_wmin d) (ad_wmax d) 0
  | Some n => occ_ok (ad_wmin d) (ad_wmax d) 1 && occ_ok (ad_mmin d) (ad_mmax d) n
  end.

(** XML: [r] = None: no child element with the array's tag; Some n: one such element with n children.
    from_element (hence array_from_element) runs while the children are visited, the frequencies
    check after the loop; both answer Client.ValidationError *)
Definition xml_array (d : arr_decl) (r : option Z) : bool :=
  match r with
  | None => occ_ok (ad_wmin d) (ad_wmax d) (count_name [120] [])
  | Some n => if negb (occ_ok (ad_mmin d) (ad_mmax d) n) then false
              else occ_ok (ad_wmin d) (ad_wmax d) (count_name [120] [[120]])
  end.
(** hierarchical dict documents: key absent / key present with a list of n items *)
Definition hier_array (d : arr_decl) (r : option Z) : bool :=
  match r with
  | None => occ_ok (ad_wmin d) (ad_wmax d) 0
  | Some n => if negb (occ_ok (ad_mmin d) (ad_mmax d) n) then false
              else occ_ok (ad_wmin d) (ad_wmax d) 1
  end.
(** flat documents: [c] pairs carry the key (one per item) *)
Definition flat_array (d : arr_decl) (c : Z) : bool :=
  if (0 <? c) && ext_eqb (ad_wmax d) (Fin 1) then occ_ok (ad_mmin d) (ad_mmax d) c
  else occ_ok (ad_wmin d) (ad_wmax d) c.
(** the logical request a flat document with c pairs denotes *)
Definition flat_request (c : Z) : option Z := if 0 <? c then Some c else None.

(** ---- element members and attribute members of one element ----
    complex_from_element counts, per declared member, the nodes of the member's OWN kind: child elements
    for an element member, attributes for an XmlAttribute member.  A node of the other kind that merely
    shares the name is not an occurrence. *)
Definition mdecl := (text * bool * Z * ext)%type.          (* name, is an XmlAttribute, min_occurs, max_occurs *)
Definition xml_member_freq (decls : list mdecl) (children attrs : list text) : bool :=
  forallb (fun d : mdecl => match d with (k, is_attr, mn, mx) =>
                      occ_ok mn mx (count_name k (if (is_attr : bool) then attrs else children)) end) decls.
Definition of_kind (attr : bool) (decls : list mdecl) : list occ_decl :=
  map (fun d : mdecl => match d with (k, _, mn, mx) => (k, mn, mx) end)
      (filter (fun d : mdecl => match d with (_, a, _, _) => if attr then a else negb a end) decls).
