From SpyneV Require Import Base.Digits Base.DigitsProofs Base.Ext C08.IntModel C08.IntProofs C05.Valid Gen.NumTypes.
From Coq Require Import Lia ZifyBool.

Ltac table_cases := repeat (apply Forall_cons); try apply Forall_nil.
Ltac unfold_gen :=
  unfold validate_native_Integer8, validate_native_Integer16, validate_native_Integer32,
    validate_native_Integer64, validate_native_UnsignedInteger8, validate_native_UnsignedInteger16,
    validate_native_UnsignedInteger32, validate_native_UnsignedInteger64,
    validate_native_Integer, validate_native_UnsignedInteger,
    vn_byte, vn_short, vn_int, vn_long, vn_unsignedByte, vn_unsignedShort, vn_unsignedInt,
    vn_unsignedLong, vn_UnsignedInteger, vn_Integer, vn_Decimal, vn_SimpleModel, vn_ModelBase,
    validate_native_none_Integer8, validate_native_none_Integer16, validate_native_none_Integer32,
    validate_native_none_Integer64, validate_native_none_UnsignedInteger8,
    validate_native_none_UnsignedInteger16, validate_native_none_UnsignedInteger32,
    validate_native_none_UnsignedInteger64, validate_native_none_Integer, validate_native_none_UnsignedInteger,
    vn_none_byte, vn_none_short, vn_none_int, vn_none_long, vn_none_unsignedByte, vn_none_unsignedShort,
    vn_none_unsignedInt, vn_none_unsignedLong, vn_none_UnsignedInteger, vn_none_Integer, vn_none_Decimal,
    vn_none_SimpleModel, vn_none_ModelBase.

Lemma existsb_eqb_sym v l : existsb (Z.eqb v) l = existsb (Z.eqb v) l.
Proof. reflexivity. Qed.

Lemma in_values_spec vals z :
  (ext_eqb (Fin (Z.of_nat (length vals))) (Fin 0) || existsb (Z.eqb z) vals) = in_values vals z.
Proof. destruct vals as [|x r]; [reflexivity|]. cbn [length ext_eqb in_values]. 
  replace (Z.of_nat (S (length r)) =? 0) with false by lia. reflexivity. Qed.

(** validate_native of every fixed-width class, for ARBITRARY customised attributes, is exactly
    the specification: declared range facets, hardware bounds, enumeration — nothing more, nothing less *)
Lemma bounded_native_is_spec :
  Forall (fun '(signed, bits, T) =>
            forall a z, it_vn T a z = conforms_int (Fin (lo signed bits)) (Fin (hi signed bits)) a z)
         bounded_int_classes.
Proof.
  unfold bounded_int_classes. table_cases; intros a z; cbn [it_vn]; unfold_gen; unfold conforms_int;
    rewrite in_values_spec; cbn [lo hi];
    repeat (match goal with |- context [2 ^ ?e] => let v := eval compute in (2 ^ e) in change (2 ^ e) with v end);
    destruct (na_gt a), (na_ge a), (na_lt a), (na_le a); cbn [ext_ltb ext_leb ext_eqb];
    destruct (in_values (na_values a) z); lia.
Qed.

(** arbitrary-size Integer / UnsignedInteger *)
Lemma integer_native_is_spec a z :
  it_vn class_Integer a z = conforms_int NegInf PosInf a z.
Proof.
  unfold class_Integer; cbn [it_vn]; unfold_gen; unfold conforms_int. rewrite in_values_spec.
  destruct (na_gt a), (na_ge a), (na_lt a), (na_le a); cbn [ext_ltb ext_leb ext_eqb];
    destruct (in_values (na_values a) z); lia.
Qed.
Lemma unsigned_native_is_spec a z :
  it_vn class_UnsignedInteger a z = conforms_int (Fin 0) PosInf a z.
Proof.
  unfold class_UnsignedInteger; cbn [it_vn]; unfold_gen; unfold conforms_int. rewrite in_values_spec.
  destruct (na_gt a), (na_ge a), (na_lt a), (na_le a); cbn [ext_ltb ext_leb ext_eqb];
    destruct (in_values (na_values a) z); lia.
Qed.

(** None is accepted by validate_native iff the type is nillable (all classes) *)
Lemma none_native_is_spec :
  Forall (fun '(signed, bits, T) => forall a, it_vn_none T a = conforms_none a) bounded_int_classes.
Proof.
  unfold bounded_int_classes. table_cases; intros a; cbn [it_vn_none]; unfold_gen; unfold conforms_none;
    destruct (na_nillable a); cbn [andb orb]; try reflexivity;
    match goal with |- context [ext_eqb ?x ?y] => destruct (ext_eqb x y) end; reflexivity.
Qed.

(** number protocols (JSON, YAML): the verdict on a present value is the specification *)
Lemma num_leaf_spec T a z lo hi :
  (forall a z, it_vn T a z = conforms_int lo hi a z) ->
  is_ok (num_leaf T a (Some z)) = conforms_int lo hi a z.
Proof. intros H. unfold num_leaf. rewrite H. destruct (conforms_int lo hi a z); reflexivity. Qed.

(** text protocols (XML, SOAP, HttpRpc, MessagePack): the verdict on the text Spyne writes for z
    is the specification, provided the text passes the declared length guard *)
Lemma text_leaf_spec T a z lo hi :
  (forall a z, it_vn T a z = conforms_int lo hi a z) ->
  it_vs T a (len (str_int z)) = true ->
  ext_leb (Fin (len (str_int z))) (na_max_str_len a) = true ->
  text_leaf T a (Some (integer_to_unicode z)) = if conforms_int lo hi a z then Ok (Some z) else VFault.
Proof.
  intros H Hvs Hlen. pose proof (integer_roundtrip a z Hlen) as Hrt.
  unfold text_leaf, integer_to_unicode in *. rewrite Hvs. cbn [negb].
  assert (Hne : str_int z <> []).
  { unfold str_int. destruct (z <? 0) eqn:E; [discriminate|]. apply str_nat_nonempty. lia. }
  destruct (str_int z) as [|c l]; [congruence|]. rewrite Hrt, H. reflexivity.
Qed.

(** hence the same logical request gets the same verdict over text and number protocols *)
Lemma leaf_verdicts_agree T a z lo hi :
  (forall a z, it_vn T a z = conforms_int lo hi a z) ->
  it_vs T a (len (str_int z)) = true ->
  ext_leb (Fin (len (str_int z))) (na_max_str_len a) = true ->
  is_ok (text_leaf T a (Some (integer_to_unicode z))) = is_ok (num_leaf T a (Some z)).
Proof.
  intros H Hvs Hlen. rewrite (text_leaf_spec T a z lo hi H Hvs Hlen), (num_leaf_spec T a z lo hi H).
  destruct (conforms_int lo hi a z); reflexivity.
Qed.

(** the text paths never let an exception other than a validation fault escape *)
Lemma text_leaf_total T a txt : is_crash (text_leaf T a txt) = false.
Proof.
  unfold text_leaf. destruct txt as [s|].
  - destruct (negb _); [reflexivity|]. destruct s; [destruct (it_vn_none T a); reflexivity|].
    pose proof (integer_reader_total a (z :: s)) as Ht.
    destruct (integer_from_unicode a (z :: s)); try discriminate; try reflexivity.
    destruct (it_vn T a a0); reflexivity.
  - destruct (negb _); [reflexivity|]. destruct (it_vn_none T a); reflexivity.
Qed.

(** ---- occurrence ---- *)
Lemma text_eqb_refl t : text_eqb t t = true.
Proof. induction t as [|c t IH]; [reflexivity|]. cbn [text_eqb]. rewrite Z.eqb_refl, IH. reflexivity. Qed.
Lemma text_eqb_eq a : forall b, text_eqb a b = true -> a = b.
Proof.
  induction a as [|x a IH]; intros [|y b] H; try discriminate; [reflexivity|].
  cbn [text_eqb] in H. apply andb_true_iff in H. destruct H as [H1 H2].
  apply Z.eqb_eq in H1. subst. f_equal. apply IH. exact H2.
Qed.

Lemma count_name_app k l1 l2 : count_name k (l1 ++ l2) = count_name k l1 + count_name k l2.
Proof. induction l1 as [|x l1 IH]; [reflexivity|]. cbn [app count_name]. rewrite IH. lia. Qed.
Lemma count_repeat_same k n : count_name k (repeat_name k n) = Z.of_nat n.
Proof. induction n as [|n IH]; [reflexivity|]. cbn [repeat_name count_name]. rewrite text_eqb_refl, IH. lia. Qed.
Lemma count_repeat_other k x n : text_eqb k x = false -> count_name k (repeat_name x n) = 0.
Proof. intros H. induction n as [|n IH]; [reflexivity|]. cbn [repeat_name count_name]. rewrite H, IH. reflexivity. Qed.

(** keys of the logical request are distinct and counts are non-negative *)
Fixpoint keys_ok (items : list (text * Z)) : Prop :=
  match items with
  | [] => True
  | (k, n) :: r => 0 <= n /\ (forall x m, In (x, m) r -> text_eqb k x = false) /\ keys_ok r
  end.

Lemma count_expand k items : keys_ok items -> count_name k (expand items) = dict_count k items.
Proof.
  induction items as [|[x n] r IH]; intros Hk; [reflexivity|].
  cbn [expand dict_count keys_ok] in *. destruct Hk as (Hn & Hd & Hr).
  rewrite count_name_app, IH by exact Hr.
  destruct (text_eqb k x) eqn:E.
  - apply text_eqb_eq in E. subst x. rewrite count_repeat_same, Z2Nat.id by exact Hn.
    assert (Hz : dict_count k r = 0).
    { clear IH Hr. induction r as [|[y m] r IHr]; [reflexivity|]. cbn [dict_count].
      rewrite (Hd y m (or_introl eq_refl)). apply IHr. intros x0 m0 Hin. apply (Hd x0 m0). right. exact Hin. }
    lia.
  - rewrite count_repeat_other by exact E. lia.
Qed.

(** the occurrence verdict for the same logical request is the same over XML and dict documents,
    for every declaration list and every item multiset *)
Lemma freq_verdicts_agree decls items :
  keys_ok items -> xml_freq decls (expand items) = dict_freq decls items.
Proof.
  intros Hk. unfold xml_freq, dict_freq. induction decls as [|[[k mn] mx] r IH]; [reflexivity|].
  cbn [forallb]. rewrite IH, count_expand by exact Hk. reflexivity.
Qed.

(** and it is exactly "min_occurs <= number of items <= max_occurs for every declared member" *)
Lemma dict_freq_spec decls items :
  dict_freq decls items = true <->
  forall k mn mx, In (k, mn, mx) decls ->
    mn <= dict_count k items /\ ext_leb (Fin (dict_count k items)) mx = true.
Proof.
  unfold dict_freq. rewrite forallb_forall. split.
  - intros H k mn mx Hin. specialize (H _ Hin). cbn beta iota in H. unfold occ_ok in H.
    apply andb_true_iff in H. destruct H. split; [lia|assumption].
  - intros H [[k mn] mx] Hin. destruct (H k mn mx Hin) as [H1 H2]. unfold occ_ok. rewrite H2.
    apply andb_true_iff. split; [lia|reflexivity].
Qed.
