(** C03 — the response: the declared header object reaches start_response member by member
    (arrays as repeated header lines, in order), Content-Length is the length of the body, the
    body is the concatenation of the chunks written for the return value. *)
From Coq Require Import ZArith List Bool Lia ZifyBool.
From SpyneV Require Import Base.Prelude C03.Model C03.Spec C03.Keys C03.Unflat.
Import ListNotations.
Open Scope Z_scope.

(** the values of the header lines named [k], in order *)
Definition hdr_lookup (k : text) (hs : list (text * text)) : list text :=
  map snd (filter (fun h => text_eqb (fst h) k) hs).

Lemma hdr_lookup_app k a b : hdr_lookup k (a ++ b) = hdr_lookup k a ++ hdr_lookup k b.
Proof. unfold hdr_lookup. now rewrite filter_app, map_app. Qed.

Definition lines (kf : text * fval) : list (text * text) :=
  match snd kf with
  | FOne s => [(fst kf, s)]
  | FMany l => map (fun v => (fst kf, v)) l
  | FEmpty => [(fst kf, EMPTY)]
  end.

Lemma lines_same k f : hdr_lookup k (lines (k, f)) = fval_values f.
Proof.
  unfold hdr_lookup, lines. destruct f; simpl; rewrite ?text_eqb_refl; try reflexivity.
  induction l as [|x l IH]; simpl; [reflexivity|]. rewrite text_eqb_refl. simpl. now rewrite IH.
Qed.
Lemma lines_other k n f : n <> k -> hdr_lookup k (lines (n, f)) = [].
Proof.
  intros H. unfold hdr_lookup, lines. destruct f; simpl; rewrite ?(text_eqb_neq n k H); try reflexivity.
  induction l as [|x l IH]; simpl; [reflexivity|]. now rewrite (text_eqb_neq n k H).
Qed.

Lemma hdr_lookup_gen d : NoDup (map fst d) -> forall k,
  hdr_lookup k (gen_http_headers d) = match aget d k with Some f => fval_values f | None => [] end.
Proof.
  unfold gen_http_headers. induction d as [|[n f] d IH]; intros Hnd k; [reflexivity|].
  inversion Hnd; subst. cbn [flat_map]. fold (lines (n, f)). rewrite hdr_lookup_app. cbn [aget].
  destruct (text_eqb n k) eqn:E.
  - apply text_eqb_eq in E. subst n. rewrite lines_same, (IH H2 k), (aget_none d k H1). now rewrite app_nil_r.
  - rewrite lines_other by (intros ->; now rewrite text_eqb_refl in E). now apply IH.
Qed.

Lemma aset_nodup {V} (l : list (text * V)) k v : NoDup (map fst l) -> NoDup (map fst (aset l k v)).
Proof.
  induction l as [|[n w] r IH]; simpl; intros H; [repeat constructor; intros []|].
  inversion H; subst. destruct (text_eqb n k) eqn:E; simpl; [assumption|].
  constructor; [|auto]. intros Hin. apply H2.
  clear -Hin E. induction r as [|[m x] r IH]; simpl in *.
  - destruct Hin as [<- | []]. now rewrite text_eqb_refl in E.
  - destruct (text_eqb m k); simpl in Hin; destruct Hin; auto.
Qed.

Lemma dict_update_nodup {V} (u : list (text * V)) : forall d, NoDup (map fst d) -> NoDup (map fst (dict_update d u)).
Proof. unfold dict_update. induction u as [|[n f] u IH]; intros d H; simpl; [assumption|]. apply IH. now apply aset_nodup. Qed.

Lemma aget_dict_update {V} (u : list (text * V)) : NoDup (map fst u) -> forall d k,
  aget (dict_update d u) k = match aget u k with Some f => Some f | None => aget d k end.
Proof.
  unfold dict_update. induction u as [|[n f] u IH]; intros Hnd d k; [reflexivity|].
  inversion Hnd; subst. cbn [fold_left fst snd aget]. rewrite (IH H2).
  destruct (text_eqb n k) eqn:E.
  - apply text_eqb_eq in E. subst n. rewrite (aget_none u k H1). apply aget_aset_same.
  - destruct (aget u k); [reflexivity|]. apply aget_aset_other. intros ->. now rewrite text_eqb_refl in E.
Qed.

(** a header class: primitive members and arrays of primitives *)
Definition flat_class (hfs : list (text * ty)) : Prop := Forall (fun kt => exists arr, snd kt = TPrim arr) hfs.

Definition member_value (arr : bool) (v : val) : option fval :=
  match v with
  | VStr s => if arr then None else Some (FOne s)
  | VList l => if arr then Some (FMany l) else None
  | _ => None
  end.

Lemma flatten_flat_keys d hfs hinst : flat_class hfs -> forall k, In k (map fst (flatten d hfs hinst)) -> In k (map fst hfs).
Proof.
  induction 1 as [|[n t] hfs [arr Ht] Hf IH]; intros k Hin; [contradiction|]. simpl in *. subst t.
  rewrite map_app, in_app_iff in Hin. destruct Hin as [Hin | Hin]; [|right; auto].
  left. simpl in Hin. destruct (match aget hinst n with Some x => x | None => VNone end); destruct arr; simpl in Hin;
    intuition.
Qed.

Lemma flatten_flat_nodup d hfs hinst : flat_class hfs -> NoDup (map fst hfs) -> NoDup (map fst (flatten d hfs hinst)).
Proof.
  induction 1 as [|[n t] hfs [arr Ht] Hf IH]; intros Hnd; [constructor|]. simpl in *. subst t. inversion Hnd; subst.
  rewrite map_app.
  assert (Hrest : ~ In n (map fst (flatten d hfs hinst))) by (intros Hin; apply H1; eapply flatten_flat_keys; eauto).
  simpl. destruct (match aget hinst n with Some x => x | None => VNone end); destruct arr; simpl; auto;
    constructor; auto.
Qed.

Lemma aget_flatten_flat d hfs hinst : flat_class hfs -> NoDup (map fst hfs) -> forall k arr, In (k, TPrim arr) hfs ->
  aget (flatten d hfs hinst) k = member_value arr (getd hinst k).
Proof.
  induction 1 as [|[n t] hfs [arr0 Ht] Hf IH]; intros Hnd k arr Hin; [contradiction|]. simpl in *. subst t.
  inversion Hnd; subst. destruct Hin as [Heq | Hin].
  - injection Heq as -> ->. fold (getd hinst k).
    assert (Hrest : aget (flatten d hfs hinst) k = None).
    { apply aget_none. intros Hin. apply H1. eapply flatten_flat_keys; eauto. }
    destruct (getd hinst k); destruct arr; simpl; rewrite ?text_eqb_refl; auto.
  - assert (n <> k) by (intros ->; apply H1; now apply (in_map fst) in Hin).
    fold (getd hinst n). rewrite <- (IH H2 k arr Hin).
    destruct (getd hinst n); destruct arr0; simpl; rewrite ?(text_eqb_neq n k H); reflexivity.
Qed.

(** the declared headers, exactly: a member that is set appears with its text (an array as one line
    per element, in order); a member that is not set leaves what the transport had; Content-Length
    is the decimal length of the body; the body is the chunks written for the return value *)
Theorem response_fidelity : forall base hfs hinst chunks,
  NoDup (map fst base) -> NoDup (map fst hfs) -> flat_class hfs -> ~ In CONTENT_LENGTH (map fst hfs) ->
  snd (http_response base hfs hinst chunks) = concat chunks /\
  hdr_lookup CONTENT_LENGTH (fst (http_response base hfs hinst chunks)) = [str_idx (len (concat chunks))] /\
  forall k arr, In (k, TPrim arr) hfs ->
    hdr_lookup k (fst (http_response base hfs hinst chunks)) =
    match member_value arr (getd hinst k) with
    | Some f => fval_values f
    | None => hdr_lookup k (gen_http_headers base)
    end.
Proof.
  intros base hfs hinst chunks Hb Hn Hf Hcl. unfold http_response. cbn [fst snd].
  pose proof (flatten_flat_nodup [46] hfs hinst Hf Hn) as Hfn.
  pose proof (dict_update_nodup (flatten [46] hfs hinst) base Hb) as Hdn.
  split; [reflexivity|]. split.
  - rewrite hdr_lookup_gen by (now apply aset_nodup). now rewrite aget_aset_same.
  - intros k arr Hin. rewrite hdr_lookup_gen by (now apply aset_nodup).
    assert (Hne : CONTENT_LENGTH <> k) by (intros <-; apply Hcl; now apply (in_map fst) in Hin).
    rewrite aget_aset_other by assumption. rewrite (aget_dict_update _ Hfn).
    rewrite (aget_flatten_flat [46] hfs hinst Hf Hn k arr Hin).
    destruct (member_value arr (getd hinst k)); [reflexivity|]. now rewrite hdr_lookup_gen.
Qed.

(* ------------------------------------------------------------------ DateTime headers *)
Definition day_ok (n : Z) : bool :=
  let '(y, m, d) := civil_of_days n in
  (days_of_civil y m d =? n) && (1 <=? m) && (m <=? 12) && (1 <=? d) && (d <=? 31) && (1 <=? y) && (y <=? 9999).

(** days of the years 1900 .. 2199 *)
Definition DAY_LO : Z := -25567.
Definition DAY_CNT : Z := 109573.
Fixpoint sweep (fuel : nat) (n : Z) : bool :=
  match fuel with O => true | S f => day_ok n && sweep f (n + 1) end.
Lemma sweep_spec fuel : forall lo, sweep fuel lo = true ->
  forall n, lo <= n < lo + Z.of_nat fuel -> day_ok n = true.
Proof.
  induction fuel as [|f IH]; intros lo H n Hn; [lia|].
  cbn [sweep] in H. apply andb_true_iff in H. destruct H as [H1 H2].
  destruct (Z.eq_dec n lo) as [-> | Hne]; [assumption|].
  apply (IH (lo + 1) H2). lia.
Qed.
Lemma days_swept : sweep (Z.to_nat DAY_CNT) DAY_LO = true.
Proof. vm_compute. reflexivity. Qed.

Lemma day_ok_range n : DAY_LO <= n < DAY_LO + DAY_CNT -> day_ok n = true.
Proof.
  intros H. apply (sweep_spec _ _ days_swept). rewrite Z2Nat.id by discriminate. exact H.
Qed.

(** the date written for an instant of the years 1900-2199 is a calendar date and time of day that
    denotes exactly that instant: the header says WHEN, whatever the offset the value carried *)
Theorem header_date_instant : forall e, -2208988800 <= e < 7258118400 ->
  instant_of_fields (imf_fields e) = e /\
  let '(y, m, d, hh, mi, ss) := imf_fields e in
  1 <= y <= 9999 /\ 1 <= m <= 12 /\ 1 <= d <= 31 /\ 0 <= hh < 24 /\ 0 <= mi < 60 /\ 0 <= ss < 60.
Proof.
  intros e He. unfold imf_fields, instant_of_fields.
  assert (Hd : DAY_LO <= e / 86400 < DAY_LO + DAY_CNT) by (unfold DAY_LO, DAY_CNT; lia).
  pose proof (day_ok_range _ Hd) as Hok. unfold day_ok in Hok.
  destruct (civil_of_days (e / 86400)) as [[y m] d].
  repeat (apply andb_true_iff in Hok; destruct Hok as [Hok ?]).
  assert (0 <= e mod 86400 < 86400) by (apply Z.mod_pos_bound; lia).
  split; [|lia]. pose proof (Z.div_mod e 86400 ltac:(lia)). lia.
Qed.
