(** C03 — facts about the specification side: unfolding of the nested definitions, shape of the
    spelled items, the order condition the natural sort guarantees and its preservation under
    projection, uniqueness of sorted permutations. *)
From Coq Require Import ZArith List Bool Lia ZifyBool Sorted Permutation.
From SpyneV Require Import Base.Prelude C03.Model C03.Spec C03.S2cmi C03.Keys C03.Unflat.
Import ListNotations.
Open Scope Z_scope.

(* ------------------------------------------------------------------ induction on member types *)
Section TyInd.
  Variable P : ty -> Prop.
  Hypothesis HP : forall arr, P (TPrim arr).
  Hypothesis HO : forall arr fs, Forall (fun ft => P (snd ft)) fs -> P (TObj arr fs).
  Fixpoint ty_ind' (t : ty) : P t :=
    match t with
    | TPrim arr => HP arr
    | TObj arr fs =>
        HO arr fs ((fix go (fs : list (text * ty)) : Forall (fun ft => P (snd ft)) fs :=
                      match fs with
                      | [] => Forall_nil _
                      | ft :: r => Forall_cons ft (ty_ind' (snd ft)) (go r)
                      end) fs)
    end.
End TyInd.

Lemma forallb_ext' {A} (f g : A -> bool) l : (forall a, f a = g a) -> forallb f l = forallb g l.
Proof. intros H. induction l; simpl; [reflexivity|]. now rewrite H, IHl. Qed.

(* ------------------------------------------------------------------ unfolding the nested definitions *)
Lemma items_ty_obj arr fs name sv :
  items_ty (TObj arr fs) name sv =
  match sv with
  | SObj vs => if arr then [] else map (pre (name, None)) (items_fields fs vs)
  | SArr l =>
      if arr then
        match l with
        | [] => [([(name, None)], [EMPTY])]
        | _ => flat_map (fun je => match snd je with
                                   | SObj vs => map (pre (name, Some (fst je))) (items_fields fs vs)
                                   | _ => []
                                   end) l
        end
      else []
  | _ => []
  end.
Proof. destruct sv; try reflexivity; destruct arr; reflexivity. Qed.

Lemma compact_obj arr fs sv :
  compact (TObj arr fs) sv =
  match sv with
  | SObj vs => if arr then VNone else VObj (compact_fields fs vs)
  | SArr l => if arr then VArr [] (map (fun je => match snd je with
                                                  | SObj vs => VObj (compact_fields fs vs)
                                                  | _ => VNone
                                                  end) l)
              else VNone
  | _ => VNone
  end.
Proof. destruct sv; try reflexivity; destruct arr; reflexivity. Qed.

Lemma conf_obj strict arr fs sv :
  conf strict (TObj arr fs) sv =
  match sv with
  | SNone => true
  | SObj vs => negb arr && conf_fields strict fs vs && existsb spelled vs
  | SArr l => arr && labels_ok strict (map fst l) &&
              forallb (fun je => match snd je with
                                 | SObj vs => conf_fields strict fs vs && existsb spelled vs
                                 | _ => false
                                 end) l
  | _ => false
  end.
Proof.
  assert (E : forall vs,
    (fix go (fs : list (text * ty)) (vs : list sval) {struct fs} : bool :=
       match fs, vs with
       | [], [] => true
       | (k, ft) :: fs', v :: vs' => conf strict ft v && go fs' vs'
       | _, _ => false
       end) fs vs = conf_fields strict fs vs).
  { induction fs as [|[k ft] fs IH]; intros [|v vs]; simpl; try reflexivity; f_equal; apply IH. }
  destruct sv; try reflexivity; cbn [conf].
  - f_equal. f_equal. apply E.
  - f_equal. apply forallb_ext'. intros [j e]. destruct e; try reflexivity. cbn [snd]. f_equal. apply E.
Qed.

Lemma wf_ty_obj arr fs :
  wf_ty (TObj arr fs) = nodupb (map fst fs) && forallb nobr (map fst fs) && wf_fields fs.
Proof. reflexivity. Qed.

Lemma conf_fields_length strict fs : forall vs, conf_fields strict fs vs = true -> length vs = length fs.
Proof.
  induction fs as [|[k t] fs IH]; intros [|v vs]; simpl; try discriminate; [reflexivity|].
  intros H. apply andb_true_iff in H. f_equal. apply IH. tauto.
Qed.

Lemma conf_fields_in strict fs : forall vs, conf_fields strict fs vs = true ->
  forall f t sv, In ((f, t), sv) (combine fs vs) -> conf strict t sv = true.
Proof.
  induction fs as [|[k t0] fs IH]; intros [|v vs]; simpl; try discriminate; try tauto.
  intros H f t sv [Heq | Hin]; apply andb_true_iff in H; destruct H as [H1 H2].
  - injection Heq as -> -> ->. assumption.
  - eapply IH; eauto.
Qed.

Lemma wf_fields_in fs : wf_fields fs = true -> forall f t, In (f, t) fs -> wf_ty t = true.
Proof.
  induction fs as [|[k t0] fs IH]; simpl; [tauto|].
  intros H f t [Heq | Hin]; apply andb_true_iff in H; destruct H as [H1 H2].
  - injection Heq as -> ->. assumption.
  - eapply IH; eauto.
Qed.

(* ------------------------------------------------------------------ shape of the spelled items *)
Lemma items_ty_head t : forall f sv it, In it (items_ty t f sv) -> exists oi rest, fst it = (f, oi) :: rest.
Proof.
  destruct t as [arr | arr fs]; intros f sv it H.
  - destruct sv; simpl in H; try contradiction; destruct arr; simpl in H; try contradiction.
    + destruct H as [<- | []]. simpl. eauto.
    + destruct H as [<- | []]. simpl. eauto.
    + apply in_map_iff in H. destruct H as [js [<- _]]. simpl. eauto.
  - rewrite items_ty_obj in H. destruct sv; try contradiction; destruct arr; try contradiction.
    + apply in_map_iff in H. destruct H as [x [<- _]]. simpl. eauto.
    + destruct l as [|p l]; [destruct H as [<- | []]; simpl; eauto|].
      apply in_flat_map in H. destruct H as [[j e] [_ H]]. destruct e; try contradiction.
      apply in_map_iff in H. destruct H as [x [<- _]]. simpl. eauto.
Qed.

Lemma items_fields_head fs : forall vs it, In it (items_fields fs vs) ->
  exists f oi rest, fst it = (f, oi) :: rest /\ In f (map fst fs).
Proof.
  induction fs as [|[k t] fs IH]; intros [|v vs] it H; simpl in H; try contradiction.
  apply in_app_or in H. destruct H as [H | H].
  - destruct (items_ty_head t k v it H) as [oi [rest E]]. exists k, oi, rest. split; [assumption | now left].
  - destruct (IH vs it H) as [f [oi [rest [E Hin]]]]. exists f, oi, rest. split; [assumption | now right].
Qed.

Lemma proj_items_ty_other t f f' sv : f' <> f -> proj f (items_ty t f' sv) = [].
Proof.
  intros Hne. assert (H : forall L, (forall it, In it L -> exists oi rest, fst it = (f', oi) :: rest) -> proj f L = []).
  { induction L as [|[k v] L IH]; intros HL; [reflexivity|]. simpl.
    destruct (HL (k, v) (or_introl eq_refl)) as [oi [rest E]]. simpl in E. subst k.
    rewrite text_eqb_neq by assumption. apply IH. intros it Hit. apply HL. now right. }
  apply H. apply items_ty_head.
Qed.

Lemma proj_items_fields fs : NoDup (map fst fs) -> forall vs f t sv,
  In ((f, t), sv) (combine fs vs) -> proj f (items_fields fs vs) = proj f (items_ty t f sv).
Proof.
  induction fs as [|[k t0] fs IH]; intros Hnd [|v vs] f t sv Hin; simpl in Hin; try contradiction.
  inversion Hnd; subst. simpl. rewrite proj_app. destruct Hin as [Heq | Hin].
  - injection Heq as -> -> ->.
    assert (E : forall vs, proj f (items_fields fs vs) = []).
    { clear -H1. induction fs as [|[k' t'] fs IH]; intros [|v' vs]; simpl; try reflexivity.
      rewrite proj_app. rewrite proj_items_ty_other.
      - apply IH. simpl in H1. tauto.
      - intros ->. apply H1. now left. }
    rewrite E. now rewrite app_nil_r.
  - rewrite proj_items_ty_other.
    + simpl. eapply IH; eauto.
    + intros ->. apply H1. apply in_combine_l in Hin. now apply (in_map fst) in Hin.
Qed.

(** all items of one member keep their head: projecting is just dropping it *)
Lemma proj_self_map f (L : list (list (text * option Z) * list text)) oi :
  proj f (map (pre (f, oi)) L) = map (fun it => (oi, fst it, snd it)) L.
Proof.
  induction L as [|[k v] L IH]; [reflexivity|]. simpl. rewrite text_eqb_refl. now rewrite IH.
Qed.

(** something that is sent produces at least one pair *)
Lemma items_nonempty strict t : forall f sv, conf strict t sv = true -> spelled sv = true -> items_ty t f sv <> [].
Proof.
  induction t as [arr | arr fs IH] using ty_ind'; intros f sv Hc Hs.
  - destruct sv; simpl in *; try discriminate; destruct arr; simpl in *; try discriminate.
    destruct l; [simpl in Hc; discriminate Hc | simpl; discriminate].
  - assert (Hf : forall vs, conf_fields strict fs vs = true -> existsb spelled vs = true -> items_fields fs vs <> []).
    { clear -IH. induction fs as [|[k t] fs IHfs]; intros [|v vs]; simpl; try discriminate.
      intros H1 H2. apply andb_true_iff in H1. destruct H1 as [Hc Hr]. inversion IH; subst.
      destruct (spelled v) eqn:Es.
      - intros E. apply app_eq_nil in E. destruct E as [E _]. revert E. now apply H1.
      - simpl in H2. intros E. apply app_eq_nil in E. destruct E as [_ E]. revert E. now apply IHfs. }
    rewrite items_ty_obj. rewrite conf_obj in Hc. destruct sv; try discriminate.
    + destruct arr; simpl in Hc; try discriminate.
      apply andb_true_iff in Hc. destruct Hc as [Hc He].
      specialize (Hf vs Hc He). destruct (items_fields fs vs); [contradiction | discriminate].
    + destruct arr; simpl in Hc; try discriminate. destruct l as [|[j e] l]; [discriminate|].
      apply andb_true_iff in Hc. destruct Hc as [_ Hc]. simpl in Hc.
      apply andb_true_iff in Hc. destruct Hc as [Hc _]. destruct e; try discriminate.
      apply andb_true_iff in Hc. destruct Hc as [Hc He]. specialize (Hf vs Hc He).
      simpl. destruct (items_fields fs vs); [contradiction | discriminate].
Qed.

(* ------------------------------------------------------------------ labels *)
Lemma incr_from_sorted ls : forall lo, incr_from lo ls = true ->
  StronglySorted Z.lt ls /\ Forall (fun x => lo <= x) ls.
Proof.
  induction ls as [|x r IH]; intros lo H; simpl in H; [split; constructor|].
  apply andb_true_iff in H. destruct H as [H1 H2]. destruct (IH _ H2) as [Hs Hf].
  split; constructor; try assumption; try lia.
  - eapply Forall_impl; [|exact Hf]. simpl. intros; lia.
  - eapply Forall_impl; [|exact Hf]. simpl. intros; lia.
Qed.
Lemma contig_incr ls : forall lo, contig_from lo ls = true -> incr_from lo ls = true.
Proof.
  induction ls as [|x r IH]; intros lo H; simpl in *; [reflexivity|].
  apply andb_true_iff in H. destruct H as [H1 H2]. assert (x = lo) by lia. subst.
  rewrite (IH _ H2). lia.
Qed.
Lemma labels_ok_incr strict ls : labels_ok strict ls = true -> incr_from 0 ls = true.
Proof. destruct strict; simpl; [apply contig_incr | trivial]. Qed.
Lemma contig_in ls : forall lo, contig_from lo ls = true ->
  forall x, In x ls <-> lo <= x < lo + Z.of_nat (length ls).
Proof.
  induction ls as [|y r IH]; intros lo H x; simpl in *; [lia|].
  apply andb_true_iff in H. destruct H as [H1 H2]. rewrite (IH _ H2). lia.
Qed.

Lemma sorted_lt_head_min x r : StronglySorted Z.lt (x :: r) -> forall y, In y r -> x < y.
Proof. intros H y Hy. inversion H; subst. rewrite Forall_forall in H3. now apply H3. Qed.

Lemma sorted_same_set_eq a : forall b, StronglySorted Z.lt a -> StronglySorted Z.lt b ->
  (forall x, In x a <-> In x b) -> a = b.
Proof.
  induction a as [|x a IH]; intros b Ha Hb H.
  - destruct b as [|y b]; [reflexivity|]. exfalso. apply (H y). now left.
  - destruct b as [|y b]; [exfalso; apply (H x); now left|].
    assert (x = y).
    { destruct (proj1 (H x) (or_introl eq_refl)) as [E | E]; [congruence|].
      destruct (proj2 (H y) (or_introl eq_refl)) as [E2 | E2]; [congruence|].
      pose proof (sorted_lt_head_min _ _ Ha _ E2). pose proof (sorted_lt_head_min _ _ Hb _ E). lia. }
    subst y. f_equal. inversion Ha; inversion Hb; subst. apply IH; try assumption.
    intros z. split; intros Hz.
    + destruct (proj1 (H z) (or_intror Hz)) as [E | E]; [|assumption].
      subst z. pose proof (sorted_lt_head_min _ _ Ha _ Hz). lia.
    + destruct (proj2 (H z) (or_intror Hz)) as [E | E]; [|assumption].
      subst z. pose proof (sorted_lt_head_min _ _ Hb _ Hz). lia.
Qed.

(** a list sorted by a key (ties allowed) that is a permutation of a list strictly sorted by
    that key is that list *)
Lemma sorted_perm_unique {A} (key : A -> Z) (l : list A) : forall l',
  StronglySorted (fun a b => key a < key b) l ->
  StronglySorted (fun a b => key a <= key b) l' ->
  Permutation l' l -> l' = l.
Proof.
  induction l as [|a l IH]; intros l' Hl Hl' Hp.
  - apply Permutation_sym in Hp. now apply Permutation_nil in Hp.
  - destruct l' as [|x l']; [apply Permutation_nil in Hp; discriminate|].
    inversion Hl; subst. inversion Hl'; subst.
    assert (x = a).
    { assert (Hx : In x (a :: l)) by (eapply Permutation_in; [exact Hp | now left]).
      assert (Ha : In a (x :: l')) by (eapply Permutation_in; [symmetry; exact Hp | now left]).
      destruct Hx as [E | Hx]; [congruence|]. destruct Ha as [E | Ha]; [congruence|].
      rewrite Forall_forall in H2, H4. specialize (H2 _ Hx). specialize (H4 _ Ha). lia. }
    subst x. f_equal. apply IH; try assumption. eapply Permutation_cons_inv; eauto.
Qed.

(* ------------------------------------------------------------------ the order condition *)
(** two keys that agree up to a bracketed index: the first does not have the larger index *)
Definition okkey (k1 k2 : list (text * option Z)) : Prop :=
  forall P n i j r1 r2, k1 = P ++ (n, Some i) :: r1 -> k2 = P ++ (n, Some j) :: r2 -> i <= j.
Definition OC (L : list (list (text * option Z) * list text)) : Prop :=
  StronglySorted (fun x y => okkey (fst x) (fst y)) L.

Definition okf (x y : option Z * list (text * option Z) * list text) : Prop :=
  (forall i j, fst (fst x) = Some i -> fst (fst y) = Some j -> i <= j) /\
  (fst (fst x) = fst (fst y) -> okkey (snd (fst x)) (snd (fst y))).
Definition OCf (L : list (option Z * list (text * option Z) * list text)) : Prop := StronglySorted okf L.

Lemma okkey_cons f oi1 oi2 r1 r2 : okkey ((f, oi1) :: r1) ((f, oi2) :: r2) ->
  (forall i j, oi1 = Some i -> oi2 = Some j -> i <= j) /\ (oi1 = oi2 -> okkey r1 r2).
Proof.
  intros H. split.
  - intros i j -> ->. apply (H [] f i j r1 r2); reflexivity.
  - intros <- P n i j q1 q2 -> ->. apply (H ((f, oi1) :: P) n i j q1 q2); reflexivity.
Qed.

Lemma proj_in f L x : In x (proj f L) ->
  exists it, In it L /\ fst it = (f, fst (fst x)) :: snd (fst x) /\ snd it = snd x.
Proof.
  induction L as [|[k v] L IH]; simpl; [tauto|].
  destruct k as [|[n oi] rest].
  - intros H. destruct (IH H) as [it [H1 H2]]. exists it. split; [now right | assumption].
  - destruct (text_eqb n f) eqn:E.
    + apply text_eqb_eq in E. subst n. intros [<- | H].
      * exists ((f, oi) :: rest, v). split; [now left | split; reflexivity].
      * destruct (IH H) as [it [H1 H2]]. exists it. split; [now right | assumption].
    + intros H. destruct (IH H) as [it [H1 H2]]. exists it. split; [now right | assumption].
Qed.

Lemma OC_proj f L : OC L -> OCf (proj f L).
Proof.
  unfold OC, OCf. induction 1 as [|[k v] L Hs IH Hk]; simpl; [constructor|].
  destruct k as [|[n oi] rest]; [assumption|].
  destruct (text_eqb n f) eqn:E; [|assumption].
  apply text_eqb_eq in E. subst n. constructor; [assumption|].
  apply Forall_forall. intros x Hx. destruct (proj_in f L x Hx) as [it [Hin [Hkey _]]].
  rewrite Forall_forall in Hk. specialize (Hk it Hin). simpl in Hk. rewrite Hkey in Hk.
  apply okkey_cons in Hk. unfold okf. simpl. exact Hk.
Qed.

(** the keys below one object / one array element *)
Lemma OCf_tails (L : list (list (text * option Z) * list text)) oi :
  OCf (map (fun it => (oi, fst it, snd it)) L) -> OC L.
Proof.
  unfold OC, OCf. induction L as [|it L IH]; simpl; intros H; [constructor|].
  inversion H; subst. constructor; [auto|].
  rewrite Forall_map in H3. eapply Forall_impl; [|exact H3].
  intros y [_ Hy]. simpl in Hy. now apply Hy.
Qed.
